--------------------------- MODULE ExecConfigSvc ---------------------------
(* Property C10 at the level of the long-lived block relay service                                 *)
(* (services/blockrelay/standard: Service.ProposerConfig, fetchExecutionConfig).                   *)
(*                                                                                                *)
(* ExecConfig.tla says what the settings of a validator are for ONE configuration document.  Vouch  *)
(* does not resolve a document once: one service instance lives for the whole run, its periodic     *)
(* fetch job replaces the configuration, and the proposal preparer, the registration rounds, the    *)
(* auctions and the REST daemon ask it for validators' settings all the time, concurrently with     *)
(* the fetch job.  Here the INSTANCE and its HISTORY are explicit:                                  *)
(*   force          the document in force (0 = the empty version-2 configuration New() starts with) *)
(*   fetch          the fetch job: FetchStart, FetchAnswer(out) (environment: a document of         *)
(*                  SvcDoc or a failure), FetchInstall (the swap), FetchReturn                      *)
(*   call[i]        a ProposerConfig call: CallStart(i, v, acct) (acct: the caller knows the        *)
(*                  validator's account - the REST daemon does not, and account entries then cannot  *)
(*                  match) ... CallRead(i) (the configuration is                                     *)
(*                  read) ... CallReturn(i, r) (the settings were worked out - the accounts are     *)
(*                  asked for their names on the way, which can take any time - and are returned)   *)
(* Calls overlap each other and the fetch as the environment decides.                              *)
(*                                                                                                *)
(* The property for EVERY call of the history (UsesInForce): the settings returned are those of     *)
(* the documented precedence (ResolveSet of ExecConfig) applied to a configuration that was IN      *)
(* FORCE at some time during that call.  Nothing else the instance has seen - earlier calls for     *)
(* the same or other validators, earlier documents, failed fetches - may show in the answer: the    *)
(* only state the property makes persistent is the document in force.                               *)
(*                                                                                                *)
(* Design = "memo" is a CONTROL MODEL, not a permitted design: worked-out settings are remembered   *)
(* per validator, the memo is emptied by every FetchInstall.  It is right for every single call on  *)
(* a fresh instance and in every history without overlap; TLC must reject it (a call that read      *)
(* document A and is still working when the fetch installs B leaves A's settings in the fresh       *)
(* memo).  Design = "memochecked" only remembers while the document read is still in force (fine).  *)
EXTENDS Integers, Sequences, FiniteSets, TLC

CONSTANTS Calls,       \* call ids (1..N)
          DocIds,      \* documents of SvcDoc the source may serve
          FailKinds,   \* failing answers of the source
          MaxFetches,  \* bound (model checking only)
          MaxOpen,     \* calls in flight at the same time
          Overlap,     \* BOOLEAN: calls may overlap a fetch (FALSE: sequential histories only)
          Design       \* "resolve" | "memo" | "memochecked"

\* the resolution operators of ExecConfig (they do not read its variables)
EC == INSTANCE ExecConfig WITH Pairs <- FALSE, Wide <- FALSE,
                               cfg <- [version |-> 0], fb <- [fr |-> "F", gl |-> "F"], last <- [op |-> "none"]

Fb == EC!Fallback
V(id) == [id |-> id, pubkey |-> id]
VIds == {"V1", "V2"}

-----------------------------------------------------------------------------
(* The documents the configuration source serves in the service-level scenarios: points of the      *)
(* lattice of ExecConfig (Build2) chosen so that every one of the five fields, every level, reset,   *)
(* disabled, new relays, both kinds of proposer entry and an unmatched validator occur, and so that  *)
(* the settings of V1 and of V2 differ between any two of them.                                     *)
Param(f, pf, inBase, prel, reset, w1, w2) ==
    [f |-> f, g |-> "none", pf |-> pf, pg |-> {}, inBase |-> inBase, prel |-> prel, reset |-> reset, w1 |-> w1, w2 |-> w2]
Pub(m) == [kind |-> "pubkey", m |-> m]
Acc(m) == [kind |-> "account", m |-> m]

SvcDoc(k) ==
    CASE k = 0 -> [version |-> 2]
      [] k = 1 -> EC!Build2(Param("fr", {"top", "prop"}, TRUE, "plain", FALSE, Pub({"V1"}), Acc({"V2"})))
      [] k = 2 -> EC!Build2(Param("gl", {"base", "prel"}, TRUE, "plain", FALSE, Acc({"V1", "V2"}), Pub({})))
      [] k = 3 -> EC!Build2(Param("mv", {"top", "base", "prop"}, TRUE, "dis", FALSE, Pub({"V2"}), Acc({"V1"})))
      [] k = 4 -> EC!Build2(Param("gr", {"prop", "prel"}, FALSE, "plain", TRUE, Acc({"V1"}), Pub({"V2"})))
      [] k = 5 -> EC!Build2(Param("pk", {"base", "prel"}, TRUE, "plain", FALSE, Pub({"V1"}), Pub({})))

AllDocs == 0..5
\* a caller that does not know the validator's account can only be matched by public-key entries
Who(v, acct) == [id |-> IF acct THEN v ELSE "unknown", pubkey |-> v]
Settings(d, v, acct) == EC!ResolveSet(SvcDoc(d), Who(v, acct), Fb)

\* the chosen documents really tell the validators apart (checked by TLC as an ASSUME), and for some of them
\* it matters whether the caller knows the account
ASSUME \A a, b \in 1..5 : a # b => \A v \in VIds : Settings(a, v, TRUE) \cap Settings(b, v, TRUE) = {}
ASSUME \A v \in VIds : \E a \in 1..5 : Settings(a, v, TRUE) \cap Settings(a, v, FALSE) = {}

Outcomes == {[t |-> "good", doc |-> k] : k \in DocIds} \cup {[t |-> x, doc |-> 0] : x \in FailKinds}
NoOutcome == [t |-> "none", doc |-> 0]
NoRes == [fr |-> "none", relays |-> {}]
NoMemo == -1

-----------------------------------------------------------------------------
VARIABLES force,    \* document in force
          fetch,    \* [st |-> "idle" | "asked" | "got", out]
          nfetch,   \* fetches started (bound)
          call,     \* per call: [st, v, snap, during, res]
          memo      \* control model: per validator (and kind of caller) the document its remembered settings
                    \* come from, or NoMemo

vars == <<force, fetch, nfetch, call, memo>>

IdleCall == [st |-> "idle", v |-> "V1", acct |-> TRUE, snap |-> 0, during |-> {}, res |-> NoRes]
MemoKeys == VIds \X BOOLEAN
Key(c) == <<c.v, c.acct>>

Init ==
    /\ force \in {0} \cup DocIds      \* New() fetches inline
    /\ fetch = [st |-> "idle", out |-> NoOutcome]
    /\ nfetch = 0
    /\ call = [i \in Calls |-> IdleCall]
    /\ memo = [k \in MemoKeys |-> NoMemo]

Open == {i \in Calls : call[i].st \in {"open", "read"}}
Memoising == Design \in {"memo", "memochecked"}

\* ---- the fetch job (Env_SingleFetcher: never twice at the same time) ----
FetchStart ==
    /\ fetch.st = "idle"
    /\ ~Overlap => Open = {}
    /\ fetch' = [st |-> "asked", out |-> NoOutcome]
    /\ nfetch' = nfetch + 1
    /\ UNCHANGED <<force, call, memo>>

FetchAnswer(out) ==
    /\ fetch.st = "asked" /\ out \in Outcomes
    /\ fetch' = [st |-> "got", out |-> out]
    /\ UNCHANGED <<force, nfetch, call, memo>>

\* the swap: only a document obtained successfully replaces the one in force; from here on it is in force
\* for every call in flight
FetchInstall ==
    /\ fetch.st = "got"
    /\ force' = IF fetch.out.t = "good" THEN fetch.out.doc ELSE force
    /\ fetch' = [fetch EXCEPT !.st = "done"]
    /\ call' = [i \in Calls |-> IF i \in Open THEN [call[i] EXCEPT !.during = @ \cup {force'}] ELSE call[i]]
    /\ memo' = [k \in MemoKeys |-> NoMemo]
    /\ UNCHANGED nfetch

FetchReturn ==
    /\ fetch.st = "done"
    /\ fetch' = [st |-> "idle", out |-> NoOutcome]
    /\ UNCHANGED <<force, nfetch, call, memo>>

\* ---- ProposerConfig ----
CallStart(i, v, acct) ==
    /\ call[i].st = "idle" /\ v \in VIds /\ acct \in BOOLEAN
    /\ \A j \in Calls : j < i => call[j].st # "idle"
    /\ Cardinality(Open) < MaxOpen
    /\ ~Overlap => fetch.st = "idle"
    /\ call' = [call EXCEPT ![i] = [st |-> "open", v |-> v, acct |-> acct, snap |-> 0, during |-> {force}, res |-> NoRes]]
    /\ UNCHANGED <<force, fetch, nfetch, memo>>

\* the configuration is read (control model: a remembered answer is returned on the spot)
CallRead(i) ==
    /\ call[i].st = "open"
    /\ call' = [call EXCEPT ![i] = [@ EXCEPT !.st = "read", !.snap = IF Memoising /\ memo[Key(call[i])] # NoMemo
                                                                      THEN memo[Key(call[i])] ELSE force]]
    /\ UNCHANGED <<force, fetch, nfetch, memo>>

\* the settings are worked out from the configuration that was read, and returned
CallReturn(i, r) ==
    /\ call[i].st = "read"
    /\ r \in Settings(call[i].snap, call[i].v, call[i].acct)
    /\ call' = [call EXCEPT ![i] = [@ EXCEPT !.st = "done", !.res = r]]
    /\ memo' = IF Design = "memo" \/ (Design = "memochecked" /\ force = call[i].snap)
               THEN [memo EXCEPT ![Key(call[i])] = call[i].snap] ELSE memo
    /\ UNCHANGED <<force, fetch, nfetch>>

Next ==
    \/ FetchStart \/ FetchInstall \/ FetchReturn
    \/ \E out \in Outcomes : FetchAnswer(out)
    \/ \E i \in Calls, v \in VIds, acct \in BOOLEAN : CallStart(i, v, acct)
    \/ \E i \in Calls : CallRead(i)
    \/ \E i \in Calls : \E r \in Settings(call[i].snap, call[i].v, call[i].acct) : CallReturn(i, r)

Spec == Init /\ [][Next]_vars

FetchBound == nfetch <= MaxFetches

-----------------------------------------------------------------------------
TypeOK ==
    /\ force \in AllDocs
    /\ fetch.st \in {"idle", "asked", "got", "done"}
    /\ \A i \in Calls : /\ call[i].st \in {"idle", "open", "read", "done"}
                        /\ call[i].v \in VIds /\ call[i].snap \in AllDocs /\ call[i].during \subseteq AllDocs
    /\ \A k \in MemoKeys : memo[k] \in {NoMemo} \cup AllDocs

\* C10 on a long-lived instance: the settings a call returns are those of the documented precedence applied to
\* a configuration that was in force during the call
UsesInForce ==
    \A i \in Calls : call[i].st = "done" =>
        \E d \in call[i].during : call[i].res \in Settings(d, call[i].v, call[i].acct)

\* without overlap: a call that starts after a fetch has returned (and that no fetch overlaps) is answered from
\* the last document obtained successfully - implied by UsesInForce (during = {force}); stated for the reader
SequentialRight ==
    \A i \in Calls : (call[i].st = "done" /\ Cardinality(call[i].during) = 1) =>
        \A d \in call[i].during : call[i].res \in Settings(d, call[i].v, call[i].acct)
=============================================================================
