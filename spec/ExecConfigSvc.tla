--------------------------- MODULE ExecConfigSvc ---------------------------
(* Property C10 at the level of the long-lived block relay service                                 *)
(* (services/blockrelay/standard: Service.ProposerConfig, fetchExecutionConfig).                   *)
(*                                                                                                *)
(* ExecConfig.tla says what the settings of a validator are for ONE configuration document.  Vouch  *)
(* does not resolve a document once: one service instance lives for the whole run, its periodic     *)
(* fetch job replaces the configuration, and the proposal preparer, the registration rounds, the    *)
(* auctions and the REST daemon ask it for validators' settings all the time, concurrently with     *)
(* the fetch job.  Here the INSTANCE and its HISTORY are explicit:                                  *)
(*   force          the document in force (0 = the empty version-2 configuration New() starts with) *)
(*   fetch          the fetch job: FetchStart, FetchAnswer(out) (environment: a document of         *)
(*                  SvcDoc or a failure), FetchInstall (the swap), FetchReturn                      *)
(*   call[i]        a ProposerConfig call: CallStart(i, k, v, acct) (acct: the caller knows the        *)
(*                  validator's account - the REST daemon does not, and account entries then cannot  *)
(*                  match) ... CallRead(i) (the configuration is                                     *)
(*                  read) ... CallReturn(i, r) (the settings were worked out - the accounts are     *)
(*                  asked for their names on the way, which can take any time - and are returned)   *)
(* Calls overlap each other and the fetch as the environment decides.                              *)
(*                                                                                                *)
(* The property for EVERY call of the history (UsesInForce): the settings returned are those of     *)
(* the documented precedence (ResolveSet of ExecConfig) applied to a configuration that was IN      *)
(* FORCE at some time during that call.  Nothing else the instance has seen - earlier calls for     *)
(* the same or other validators, earlier documents, failed fetches - may show in the answer: the    *)
(* only state the property makes persistent is the document in force.                               *)
(*                                                                                                *)
(* FIFTH ROUND - the CALLERS.  The property speaks of the settings "Vouch uses", not of one function: *)
(* every entry point that resolves a proposer's settings is an action of this module (call[i].kind): *)
(*   "direct"   ProposerConfig(account, pubkey) itself: the caller hands over the account (or none)  *)
(*   "prep"     the proposal preparer: accounts from the account manager's listing, one lookup each  *)
(*   "reg"      a registration round: accounts from the listing, registrations sent to the relays    *)
(*   "auction"  AuctionBlock(pubkey) for a proposal duty of one of Vouch's validators: the account   *)
(*              is looked up BY PUBLIC KEY at auction time                                           *)
(*   "bid"      BuilderBid through the REST daemon without a cached bid (immediateBuilderBid): for a  *)
(*              foreign validator there is no account; one of Vouch's own arrives here after a reorg  *)
(*   "check"    --proposer-config-check: account by public key, then ProposerConfig                  *)
(* The ACCOUNT MANAGER is a component with state of its own: known = the accounts it holds, replaced   *)
(* by every refresh (AcctRefresh(S): a wallet that cannot be opened during a refresh takes its         *)
(* accounts away until a later refresh).  The account lookup of a call is an environment step          *)
(* CallLookup(i, out) answered from that state (found / notfound) or with an error.  Ours is the set   *)
(* of validators whose keys are in Vouch's wallets (ground truth; the code only ever sees known).      *)
(* CallersAgree: whatever entry point resolves the settings of one of Vouch's validators, the settings *)
(* it USES are those of the documented precedence WITH the validator's account (account entries        *)
(* apply) - or it uses none at all (no auction, no registration, an error message).  MissOnly: using    *)
(* none is only allowed when the account manager did not answer with the account.                      *)
(* Deviations (control models TLC must reject, run by every check):                                    *)
(*   AuctionMiss = "nil"    an auction / check whose lookup failed carries on without the account       *)
(*   BidAccount = "never"   the immediate bid never asks for the account (also for Vouch's own keys)    *)
(*                                                                                                *)
(* Design = "memo" is a CONTROL MODEL, not a permitted design: worked-out settings are remembered   *)
(* per validator, the memo is emptied by every FetchInstall.  It is right for every single call on  *)
(* a fresh instance and in every history without overlap; TLC must reject it (a call that read      *)
(* document A and is still working when the fetch installs B leaves A's settings in the fresh       *)
(* memo).  Design = "memochecked" only remembers while the document read is still in force (fine).  *)
EXTENDS Integers, Sequences, FiniteSets, TLC

CONSTANTS Calls,       \* call ids (1..N)
          DocIds,      \* documents of SvcDoc the source may serve
          FailKinds,   \* failing answers of the source
          MaxFetches,  \* bound (model checking only)
          MaxOpen,     \* calls in flight at the same time
          Overlap,     \* BOOLEAN: calls may overlap a fetch (FALSE: sequential histories only)
          Design,      \* "resolve" | "memo" | "memochecked"
          Kinds,       \* entry points that occur (subset of AllKinds)
          Ours,        \* validators whose keys are in Vouch's wallets
          LookErrs,    \* {} or {"error"}: the account lookup may also fail outright
          MaxRefresh,  \* bound on account manager refreshes (model checking only)
          AuctionMiss, \* "fail" (the design) | "nil" (deviation: carry on without the account)
          BidAccount   \* "lookup" (the design) | "never" (deviation: the immediate bid never asks)

\* the resolution operators of ExecConfig (they do not read its variables)
EC == INSTANCE ExecConfig WITH Pairs <- FALSE, Wide <- FALSE,
                               cfg <- [version |-> 0], fb <- [fr |-> "F", gl |-> "F"], last <- [op |-> "none"]

Fb == EC!Fallback
V(id) == [id |-> id, pubkey |-> id]
VIds == {"V1", "V2"}

-----------------------------------------------------------------------------
(* The documents the configuration source serves in the service-level scenarios: points of the      *)
(* lattice of ExecConfig (Build2) chosen so that every one of the five fields, every level, reset,   *)
(* disabled, new relays, both kinds of proposer entry and an unmatched validator occur, and so that  *)
(* the settings of V1 and of V2 differ between any two of them.                                     *)
Param(f, pf, inBase, prel, reset, w1, w2) ==
    [f |-> f, g |-> "none", pf |-> pf, pg |-> {}, inBase |-> inBase, prel |-> prel, reset |-> reset, w1 |-> w1, w2 |-> w2]
Pub(m) == [kind |-> "pubkey", m |-> m]
Acc(m) == [kind |-> "account", m |-> m]

SvcDoc(k) ==
    CASE k = 0 -> [version |-> 2]
      [] k = 1 -> EC!Build2(Param("fr", {"top", "prop"}, TRUE, "plain", FALSE, Pub({"V1"}), Acc({"V2"})))
      [] k = 2 -> EC!Build2(Param("gl", {"base", "prel"}, TRUE, "plain", FALSE, Acc({"V1", "V2"}), Pub({})))
      [] k = 3 -> EC!Build2(Param("mv", {"top", "base", "prop"}, TRUE, "dis", FALSE, Pub({"V2"}), Acc({"V1"})))
      [] k = 4 -> EC!Build2(Param("gr", {"prop", "prel"}, FALSE, "plain", TRUE, Acc({"V1"}), Pub({"V2"})))
      [] k = 5 -> EC!Build2(Param("pk", {"base", "prel"}, TRUE, "plain", FALSE, Pub({"V1"}), Pub({})))
      \* a document of the legacy format (public keys only: the account can make no difference): V1 has an entry of
      \* its own (no gas limit - both readings allowed -, builder with two relays and a grace), V2 gets the default
      [] k = 6 -> EC!Build1([d |-> [gl |-> "val", b |-> "on1"], p |-> [gl |-> "none", b |-> "on2g"], other |-> TRUE])

AllDocs == 0..6
\* a caller that does not know the validator's account can only be matched by public-key entries
Who(v, acct) == [id |-> IF acct THEN v ELSE "unknown", pubkey |-> v]
Settings(d, v, acct) == EC!ResolveSet(SvcDoc(d), Who(v, acct), Fb)

\* the chosen documents really tell the validators apart (checked by TLC as an ASSUME), and for some of them
\* it matters whether the caller knows the account
ASSUME \A a, b \in 1..5 : a # b => \A v \in VIds : Settings(a, v, TRUE) \cap Settings(b, v, TRUE) = {}
ASSUME \A v \in VIds : \E a \in 1..5 : Settings(a, v, TRUE) \cap Settings(a, v, FALSE) = {}

AllKinds == {"direct", "prep", "reg", "auction", "bid", "check"}
ByKey == {"auction", "bid", "check"}      \* the account is looked up by public key
ByListing == {"prep", "reg"}              \* the account comes from the account manager's listing
ASSUME Kinds \subseteq AllKinds /\ Ours \subseteq VIds /\ LookErrs \subseteq {"error"}

Outcomes == {[t |-> "good", doc |-> k] : k \in DocIds} \cup {[t |-> x, doc |-> 0] : x \in FailKinds}
NoOutcome == [t |-> "none", doc |-> 0]
NoRes == [fr |-> "none", relays |-> {}]
NoMemo == -1

-----------------------------------------------------------------------------
VARIABLES force,    \* document in force
          fetch,    \* [st |-> "idle" | "asked" | "got", out]
          nfetch,   \* fetches started (bound)
          call,     \* per call: [st, v, snap, during, res]
          known,    \* the account manager: validators whose accounts it holds at present
          nrefresh, \* account manager refreshes so far (bound)
          memo      \* control model: per validator (and kind of caller) the document its remembered settings
                    \* come from, or NoMemo

vars == <<force, fetch, nfetch, call, known, nrefresh, memo>>

\* kind: the entry point; look: the answer of the account lookup ("none": not asked); acct: whether the
\* resolution was handed the account; used: settings were used (FALSE: the entry point gave up - no auction,
\* no registration, an error message)
IdleCall == [st |-> "idle", kind |-> "direct", v |-> "V1", acct |-> TRUE, look |-> "none", used |-> FALSE,
             snap |-> 0, during |-> {}, res |-> NoRes]
MemoKeys == VIds \X BOOLEAN
Key(c) == <<c.v, c.acct>>

Init ==
    /\ force \in {0} \cup DocIds      \* New() fetches inline
    /\ fetch = [st |-> "idle", out |-> NoOutcome]
    /\ nfetch = 0
    /\ call = [i \in Calls |-> IdleCall]
    /\ known = Ours /\ nrefresh = 0
    /\ memo = [k \in MemoKeys |-> NoMemo]

Open == {i \in Calls : call[i].st \in {"look", "open", "read"}}
Memoising == Design \in {"memo", "memochecked"}

\* ---- the fetch job (Env_SingleFetcher: never twice at the same time) ----
FetchStart ==
    /\ fetch.st = "idle"
    /\ ~Overlap => Open = {}
    /\ fetch' = [st |-> "asked", out |-> NoOutcome]
    /\ nfetch' = nfetch + 1
    /\ UNCHANGED <<force, call, known, nrefresh, memo>>

FetchAnswer(out) ==
    /\ fetch.st = "asked" /\ out \in Outcomes
    /\ fetch' = [st |-> "got", out |-> out]
    /\ UNCHANGED <<force, nfetch, call, known, nrefresh, memo>>

\* the job asks the account manager for the validating accounts first and does not go to the source when there
\* are none: the configuration in force stays
FetchSkip ==
    /\ fetch.st = "asked" /\ known = {}
    /\ fetch' = [st |-> "done", out |-> NoOutcome]
    /\ UNCHANGED <<force, nfetch, call, known, nrefresh, memo>>

\* the swap: only a document obtained successfully replaces the one in force; from here on it is in force
\* for every call in flight
FetchInstall ==
    /\ fetch.st = "got"
    /\ force' = IF fetch.out.t = "good" THEN fetch.out.doc ELSE force
    /\ fetch' = [fetch EXCEPT !.st = "done"]
    /\ call' = [i \in Calls |-> IF i \in Open THEN [call[i] EXCEPT !.during = @ \cup {force'}] ELSE call[i]]
    /\ memo' = [k \in MemoKeys |-> NoMemo]
    /\ UNCHANGED <<nfetch, known, nrefresh>>

FetchReturn ==
    /\ fetch.st = "done"
    /\ fetch' = [st |-> "idle", out |-> NoOutcome]
    /\ UNCHANGED <<force, nfetch, call, known, nrefresh, memo>>

\* ---- the account manager: a refresh replaces the accounts it holds (a wallet that could not be opened or
\* listed takes its accounts away until a later refresh; C13 is about the refresh itself) ----
AcctRefresh(S) ==
    /\ S \subseteq Ours /\ S # known
    /\ nrefresh < MaxRefresh
    /\ known' = S /\ nrefresh' = nrefresh + 1
    /\ UNCHANGED <<force, fetch, nfetch, call, memo>>

\* ---- the entry points ----
\* "direct": the caller hands the account over (acct) or has none; every other entry point finds it out itself.
\* Listings and proposal duties only exist for Vouch's own validators; a REST bid request can be for anybody.
CallStart(i, k, v, acct) ==
    /\ call[i].st = "idle" /\ v \in VIds /\ acct \in BOOLEAN /\ k \in Kinds
    /\ k # "direct" => acct
    /\ k \in ByListing \cup {"auction", "check"} => v \in Ours
    /\ \A j \in Calls : j < i => call[j].st # "idle"
    /\ Cardinality(Open) < MaxOpen
    /\ ~Overlap => fetch.st = "idle"
    /\ call' = [call EXCEPT ![i] = [st |-> IF k = "direct" THEN "open" ELSE "look", kind |-> k, v |-> v, acct |-> acct,
                                     look |-> "none", used |-> FALSE, snap |-> 0, during |-> {force}, res |-> NoRes]]
    /\ UNCHANGED <<force, fetch, nfetch, known, nrefresh, memo>>

\* the answers the account manager can give for validator v at present
LookOuts(v) == (IF v \in known THEN {"found"} ELSE {"notfound"}) \cup LookErrs

\* the account lookup (AccountByPublicKey / the validating accounts listing) is answered; what the entry point
\* does with the answer:
\*   found     -> the resolution is handed the account
\*   otherwise -> auction, check: give up (deviation AuctionMiss = "nil": carry on without the account);
\*                prep, reg: the validator is not in the listing, nothing is done for it;
\*                bid: a validator Vouch holds no account for - resolved by public key alone
CallLookup(i, out) ==
    /\ call[i].st = "look" /\ out \in LookOuts(call[i].v)
    /\ LET c == call[i]
           found == out = "found"
           goOn == \/ found
                   \/ c.kind = "bid"
                   \/ c.kind \in {"auction", "check"} /\ AuctionMiss = "nil"
           withAcct == found /\ ~(c.kind = "bid" /\ BidAccount = "never")
       IN  call' = [call EXCEPT ![i] = [@ EXCEPT !.look = out, !.acct = withAcct,
                                                 !.st = IF goOn THEN "open" ELSE "done"]]
    /\ UNCHANGED <<force, fetch, nfetch, known, nrefresh, memo>>

\* the configuration is read (control model: a remembered answer is returned on the spot)
CallRead(i) ==
    /\ call[i].st = "open"
    /\ call' = [call EXCEPT ![i] = [@ EXCEPT !.st = "read", !.snap = IF Memoising /\ memo[Key(call[i])] # NoMemo
                                                                      THEN memo[Key(call[i])] ELSE force]]
    /\ UNCHANGED <<force, fetch, nfetch, known, nrefresh, memo>>

\* the settings are worked out from the configuration that was read, and used (returned to the caller, handed to
\* the bid strategy, sent to the relays and nodes)
CallReturn(i, r) ==
    /\ call[i].st = "read"
    /\ r \in Settings(call[i].snap, call[i].v, call[i].acct)
    /\ call' = [call EXCEPT ![i] = [@ EXCEPT !.st = "done", !.res = r, !.used = TRUE]]
    /\ memo' = IF Design = "memo" \/ (Design = "memochecked" /\ force = call[i].snap)
               THEN [memo EXCEPT ![Key(call[i])] = call[i].snap] ELSE memo
    /\ UNCHANGED <<force, fetch, nfetch, known, nrefresh>>

Next ==
    \/ FetchStart \/ FetchInstall \/ FetchReturn \/ FetchSkip
    \/ \E out \in Outcomes : FetchAnswer(out)
    \/ \E S \in SUBSET Ours : AcctRefresh(S)
    \/ \E i \in Calls, k \in Kinds, v \in VIds, acct \in BOOLEAN : CallStart(i, k, v, acct)
    \/ \E i \in Calls, out \in {"found", "notfound", "error"} : CallLookup(i, out)
    \/ \E i \in Calls : CallRead(i)
    \/ \E i \in Calls : \E r \in Settings(call[i].snap, call[i].v, call[i].acct) : CallReturn(i, r)

Spec == Init /\ [][Next]_vars

FetchBound == nfetch <= MaxFetches

-----------------------------------------------------------------------------
TypeOK ==
    /\ force \in AllDocs
    /\ fetch.st \in {"idle", "asked", "got", "done"}
    /\ known \subseteq Ours
    /\ \A i \in Calls : /\ call[i].st \in {"idle", "look", "open", "read", "done"}
                        /\ call[i].kind \in AllKinds /\ call[i].look \in {"none", "found", "notfound", "error"}
                        /\ call[i].v \in VIds /\ call[i].snap \in AllDocs /\ call[i].during \subseteq AllDocs
    /\ \A k \in MemoKeys : memo[k] \in {NoMemo} \cup AllDocs

\* C10 on a long-lived instance: the settings a call returns are those of the documented precedence applied to
\* a configuration that was in force during the call
UsesInForce ==
    \A i \in Calls : (call[i].st = "done" /\ call[i].used) =>
        \E d \in call[i].during : call[i].res \in Settings(d, call[i].v, call[i].acct)

\* C10 across the entry points: the settings used for a validator do not depend on WHO resolves them.  For one of
\* Vouch's validators they are those of the documented precedence with the validator's account, whichever entry
\* point asks and whatever the account manager answers at that moment; a validator Vouch holds no account for is
\* resolved by its public key.  (An immediate bid can only tell that a key is Vouch's own from the account
\* manager's answer; the other entry points only exist for Vouch's validators.)
WithAccount(c) ==
    CASE c.kind = "direct" -> c.acct
      [] c.kind = "bid" -> c.look = "found"
      [] OTHER -> c.v \in Ours
CallersAgree ==
    \A i \in Calls : (call[i].st = "done" /\ call[i].used) =>
        \E d \in call[i].during : call[i].res \in Settings(d, call[i].v, WithAccount(call[i]))

\* giving up (no auction, no registration, an error message) is only allowed when the account manager did not
\* answer with the account
MissOnly ==
    \A i \in Calls : (call[i].st = "done" /\ ~call[i].used) => call[i].look \in {"notfound", "error"}

\* without overlap: a call that starts after a fetch has returned (and that no fetch overlaps) is answered from
\* the last document obtained successfully - implied by UsesInForce (during = {force}); stated for the reader
SequentialRight ==
    \A i \in Calls : (call[i].st = "done" /\ call[i].used /\ Cardinality(call[i].during) = 1) =>
        \A d \in call[i].during : call[i].res \in Settings(d, call[i].v, call[i].acct)
=============================================================================
