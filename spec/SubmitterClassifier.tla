------------------------- MODULE SubmitterClassifier -------------------------
(* Pure operators of property C08 shared by Submitter.tla (one submission in detail, histories   *)
(* of submissions on one instance) and SubmitterInst.tla (overlapping submissions on one          *)
(* instance): submission kinds, client types, reply shapes, the client-specific classifier        *)
(* Tolerated(kind, client, reason), node descriptions, and what a node REPORTS about itself at    *)
(* one submission (its version query is part of the per-call outcome: it can fail at one call and *)
(* succeed at the next).                                                                          *)

Kinds == {"att", "agg", "proposal", "syncmsg", "contrib", "bcsub", "scsub", "prep"}
\* THE SIBLING FAN-OUTS (round 5).  The eight kinds above are the operations of the submitter service
\* (services/submitter).  A running Vouch also fans a submission out to several nodes in three places
\* that do NOT go through the submitter (main.go: initProposalPreparer, selectBlockRelay):
\*   "prepdirect" - services/proposalpreparer/standard.updateProposalPreparations: the proposal
\*                  preparations of an epoch to every beacon node configured for proposing, one node
\*                  after the other with the caller's context, no time-out (this, not the submitter's
\*                  "prep", is how preparations travel in production);
\*   "regnodes"   - services/blockrelay/standard.submitConsensusRegistrations: the validator
\*                  registrations of a round to every (secondary) beacon node configured for proposing,
\*                  one goroutine per node, wg.Wait(), no time-out;
\*   "regrelays"  - services/blockrelay/standard.submitRelayRegistrations (registration rounds and the
\*                  REST forwarding alike): to every relay of the resolved settings, one goroutine per
\*                  relay, wg.Wait(), no time-out.
\* They are operation kinds of the same property: offered in full to every node configured for it; a
\* node that errors never prevents delivery to, or success via, the others.  They have no time-out and
\* no reported result (the preparer only feeds a metric), so the time-out clauses do not read them.
DirectKinds == {"prepdirect", "regnodes", "regrelays"}
AllKinds == Kinds \cup DirectKinds
Timed(k) == k \in Kinds
\* the fan-out as the code has it: sequential in the configured order / one goroutine per node
SeqKinds == {"prepdirect"}
Clients == {"lighthouse", "teku", "nimbus", "prysm", "lodestar", "unknown", "broken"}
    \* "unknown": the node does not tell its version (no version endpoint at all);
    \* "broken": the version query fails at every call (the single-submission table; in histories
    \* the per-call field `ver` says whether the query works at THAT call)
Vers == {"ok", "fail"}

\* What a node can do with a call.  "error" carries a reason (the shape of the error it returns).
\* "held": the reply (accept if the reason is "none", else that error) is held back by the
\* environment until the NEXT submission on the same instance has returned (overlap).
\* "slowok" / "slowerr": the acceptance / the error (with its reason) comes after a delay that is still
\* well within the time-out; the delay is a RANK (field `lat`, 1..MaxLat of Submitter.tla; 0 = the
\* default rank 2), so that the environment also chooses the ORDER in which the nodes' replies arrive:
\* several rejections before the first acceptance, an acceptance between two rejections, ...
Outs == {"accept", "error", "slowok", "slowerr", "late", "hang", "held"}
Reasons == {"none",
            "plain",            \* free text, no JSON
            "deadline",         \* the node's client gave up: an error wrapping context.DeadlineExceeded
            "lhPrior",          \* lighthouse: PriorAttestationKnown
            "lhUnknownHead",    \* lighthouse: UnknownHeadBlock
            "nimbusTarget",     \* nimbus: Attempt to send attestation for unknown target
            "lhDupAll",         \* lighthouse JSON, >= 1 failure, all PriorSyncCommitteeMessageKnown
            "lhDupSome",        \* lighthouse JSON, one duplicate and one real failure
            "tekuDupAll",       \* teku JSON, >= 1 failure, all duplicates
            "tekuDupSome",      \* teku JSON, one duplicate and one real failure
            "lhAggKnownAll",    \* lighthouse JSON, >= 1 failure, all AggregatorAlreadyKnown
            "lhAggKnownSome",   \* lighthouse JSON, one already-known and one real failure
            "attMixed",         \* attestations in several chunks: the chunk holding item 0 is rejected as
                                \* already known (lighthouse wording), every other chunk for a real reason
                                \* (a payload that arrives in one piece is rejected for the real reason)
            "noFailures",       \* error JSON without a failures array (e.g. a 500)
            "emptyFailures",    \* error JSON with "failures": []
            "badJson",          \* text with a brace that is not JSON
            "notActive"}        \* eth2client.ErrNotActive: the client knows that its node is down (the proposal
                                \* preparer does not count it as a failure; nothing was delivered all the same)

\* The rejections Vouch deliberately tolerates (comments in submitattestations.go,
\* submitsynccommitteemessages.go, submitsynccommitteecontributions.go): already known, or node
\* behind the head; per client; for the batch kinds only when at least one failure is listed and
\* every listed failure is a duplicate.
Tolerated(kind, client, reason) ==
    \/ kind = "att" /\ client = "lighthouse" /\ reason \in {"lhPrior", "lhUnknownHead"}
    \/ kind = "att" /\ client = "nimbus" /\ reason = "nimbusTarget"
    \/ kind = "syncmsg" /\ client = "lighthouse" /\ reason = "lhDupAll"
    \/ kind = "syncmsg" /\ client = "teku" /\ reason = "tekuDupAll"
    \/ kind = "contrib" /\ client = "lighthouse" /\ reason = "lhAggKnownAll"

\* Reasons that make sense to script per kind (any other combination is simply a rejection).
ReasonsOf(kind) ==
    CASE kind = "att" -> {"plain", "deadline", "lhPrior", "lhUnknownHead", "nimbusTarget", "noFailures", "attMixed"}
      [] kind = "syncmsg" -> {"plain", "deadline", "lhDupAll", "lhDupSome", "tekuDupAll", "tekuDupSome",
                              "noFailures", "emptyFailures", "badJson"}
      [] kind = "contrib" -> {"plain", "deadline", "lhAggKnownAll", "lhAggKnownSome", "noFailures",
                              "emptyFailures", "badJson"}
      [] kind \in DirectKinds -> {"plain", "deadline", "notActive"}
      [] OTHER -> {"plain", "deadline", "lhPrior", "noFailures"}

\* A node at one submission: who it is (client), whether its version query works during this
\* submission (ver), what it does with the payload (out, reason).
NodeL(client, ver, out, reason, lat) == [client |-> client, ver |-> ver, out |-> out, reason |-> reason, lat |-> lat]
NodeV(client, ver, out, reason) == NodeL(client, ver, out, reason, 0)
Node(client, out, reason) == NodeV(client, "ok", out, reason)
\* the rank of a delayed reply (0 = not said: the default slow reply, rank 2)
LatOf(nd) == IF nd.lat = 0 THEN 2 ELSE nd.lat
\* the reply is an error (sooner or later)
IsErr(nd) == nd.out \in {"error", "slowerr"} \/ (nd.out = "held" /\ nd.reason # "none")

\* The client type the node reports at this submission ("none": it does not say, or cannot be asked)
Reported(nd) == IF nd.ver = "ok" /\ nd.client \notin {"unknown", "broken"} THEN nd.client ELSE "none"

\* The seven outcomes of the property's quantifier, as canonical node descriptions per kind:
\* accept / reject / tolerated-reject (client-specific) / malformed-error / slow-in-time /
\* slow-late / hang.
TolClient(kind) == IF kind = "att" THEN "lighthouse" ELSE IF kind = "syncmsg" THEN "teku" ELSE "lighthouse"
TolReason(kind) ==
    CASE kind = "att" -> "lhUnknownHead"
      [] kind = "syncmsg" -> "tekuDupAll"
      [] kind = "contrib" -> "lhAggKnownAll"
      [] OTHER -> "lhPrior"        \* nothing is tolerated for the other kinds: a plain rejection
Outcomes == {"accept", "reject", "treject", "malformed", "slowok", "late", "hang"}
\* further outcomes of the sibling fan-outs: the node's client says "not active" / gave up after its own time-out
DirectOutcomes == {"inactive", "gaveup", "slowgaveup1"}
\* The widened alphabet (round 4): delayed replies of either sign with a rank, so that rejections can
\* arrive before, between and after acceptances within the time-out.
SlowOutcomes == {"slowok1", "slowok2", "slowok3", "slowrej1", "slowrej2", "slowtrej1", "slowtrej2"}
WideOutcomes == Outcomes \cup SlowOutcomes
SlowSign(o) == IF o \in {"slowok1", "slowok2", "slowok3"} THEN "ok" ELSE IF o \in {"slowrej1", "slowrej2"} THEN "rej" ELSE "trej"
SlowLat(o) == IF o \in {"slowok1", "slowrej1", "slowtrej1"} THEN 1 ELSE IF o = "slowok3" THEN 3 ELSE 2
Canon(kind, o) ==
    CASE o \in SlowOutcomes ->
           (IF SlowSign(o) = "ok" THEN NodeL("teku", "ok", "slowok", "none", SlowLat(o))
            ELSE IF SlowSign(o) = "rej" THEN NodeL("lighthouse", "ok", "slowerr", "plain", SlowLat(o))
            ELSE NodeL(TolClient(kind), "ok", "slowerr", TolReason(kind), SlowLat(o)))
      [] o = "accept" -> Node("prysm", "accept", "none")
      [] o = "reject" -> Node("lighthouse", "error", "plain")
      [] o = "inactive" -> Node("prysm", "error", "notActive")
      [] o = "gaveup" -> Node("teku", "error", "deadline")
      [] o = "slowgaveup1" -> NodeL("teku", "ok", "slowerr", "deadline", 1)
      [] o = "treject" -> Node(TolClient(kind), "error", TolReason(kind))
      [] o = "malformed" -> Node(TolClient(kind), "error", "noFailures")
      [] o = "slowok" -> Node("teku", "slowok", "none")
      [] o = "late" -> Node("nimbus", "late", "none")
      [] o = "hang" -> Node("lodestar", "hang", "none")
CanonNodes(kind) == {Canon(kind, o) : o \in Outcomes}

\* Histories: the node's identity (client) is fixed for the life of the instance, the outcome and
\* the version query vary per submission.  The "tolerated rejection" of a (kind, client) pair is a
\* reason Vouch tolerates from THAT client for THAT kind where one exists (else a rejection in
\* lighthouse's "already known" wording, which nothing tolerates there).
TolReasonOf(kind, client) ==
    CASE kind = "att" /\ client = "lighthouse" -> "lhPrior"
      [] kind = "att" /\ client = "nimbus" -> "nimbusTarget"
      [] kind = "syncmsg" /\ client = "lighthouse" -> "lhDupAll"
      [] kind = "syncmsg" /\ client = "teku" -> "tekuDupAll"
      [] kind = "contrib" /\ client = "lighthouse" -> "lhAggKnownAll"
      [] OTHER -> "lhPrior"
HistOutcomesAll == WideOutcomes \cup {"heldok", "heldrej", "heldtrej"}
HNode(kind, client, o, v) ==
    CASE o \in SlowOutcomes ->
           (IF SlowSign(o) = "ok" THEN NodeL(client, v, "slowok", "none", SlowLat(o))
            ELSE IF SlowSign(o) = "rej" THEN NodeL(client, v, "slowerr", "plain", SlowLat(o))
            ELSE NodeL(client, v, "slowerr", TolReasonOf(kind, client), SlowLat(o)))
      [] o = "accept" -> NodeV(client, v, "accept", "none")
      [] o = "reject" -> NodeV(client, v, "error", "plain")
      [] o = "inactive" -> NodeV(client, v, "error", "notActive")
      [] o = "gaveup" -> NodeV(client, v, "error", "deadline")
      [] o = "slowgaveup1" -> NodeL(client, v, "slowerr", "deadline", 1)
      [] o = "treject" -> NodeV(client, v, "error", TolReasonOf(kind, client))
      [] o = "malformed" -> NodeV(client, v, "error", "noFailures")
      [] o = "slowok" -> NodeV(client, v, "slowok", "none")
      [] o = "late" -> NodeV(client, v, "late", "none")
      [] o = "hang" -> NodeV(client, v, "hang", "none")
      [] o = "heldok" -> NodeV(client, v, "held", "none")
      [] o = "heldrej" -> NodeV(client, v, "held", "plain")
      [] o = "heldtrej" -> NodeV(client, v, "held", TolReasonOf(kind, client))
=============================================================================
