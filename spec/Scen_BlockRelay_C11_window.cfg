SPECIFICATION SSpec
CONSTANTS
  Validators = {1, 2}
  Externals = {3}
  Relays = {1, 2}
  Nodes = {1, 2, 3}
  DocIds = {1, 2, 3, 4, 5, 6}
  FailKinds = {"error", "malformed", "empty", "timeout", "canceled"}
  Ops = {}
  MaxInFlight = 0
  AuctionImpl = "intended"
  Resolution = "locked"
  MaxRounds = 0
  ScenLen = 6
  MaxSignFail = 1
  History = FALSE
  Matrix = FALSE
  Script = "window"
INVARIANTS Emit
CHECK_DEADLOCK FALSE
