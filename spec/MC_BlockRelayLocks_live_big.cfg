SPECIFICATION LSpec
CONSTANTS
  Ops = {1, 2, 3}
  MaxInFlight = 3
  Kinds = {"fetch", "lookup", "bbid", "register"}
  Keys = {1}
  Install = "flush_after"
  BidImpl = "asis"
INVARIANTS TypeOKL NoDeadlock ReturnsClean LockBalanced LockAccounting
PROPERTY NoWedge
CHECK_DEADLOCK FALSE
