SPECIFICATION Spec
CONSTANTS
  MaxSlot = 6
  MaxVer = 1
  MaxReorgs = 2
  MaxCrashes = 1
  Gated = FALSE
  Cfgs <- MCCfgs
  OraclesFor <- MCOraclesAB
INVARIANTS TypeOK JobTimeRight JobCoversExactly NoSlotTwice OnlyStrictlyLaterOnStart SyncWindowRight EpochTickOnce NoFutureDutyUnscheduled NoStaleJob ReorgActedOn
CHECK_DEADLOCK FALSE
