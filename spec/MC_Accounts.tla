----------------------------- MODULE MC_Accounts -----------------------------
(* Exhaustive checking of Accounts.tla.                                                           *)
(*  - laws, evaluated by TLC over the whole grammar / record space of the constants:              *)
(*      the two matchers agree on every pattern and every name;                                   *)
(*      for every well-formed validator record and epoch, the beacon-API state machine and the    *)
(*      sentences of the property select the same accounts; states only move forward;             *)
(*  - the manager state machine (refresh histories x queries) for a small universe.               *)
EXTENDS Accounts

CONSTANTS MCEpochs,        \* epochs a lifecycle field can hold (besides FFE)
          MCQueryEpochs,   \* epochs asked about (laws)
          MCAtomicEpochs,  \* epochs asked about in the state machine
          MCOverlapKinds,  \* queries that are under way while other calls run: kinds ...
          MCOverlapEpochs, \* ... and epochs
          MCSeen           \* bound on the number of account sets / tables such a query may have seen

Records == {r \in [index : {7}, elig : MCEpochs \cup {FFE}, act : MCEpochs \cup {FFE}, exit : MCEpochs \cup {FFE},
                   wd : MCEpochs \cup {FFE}, slashed : BOOLEAN, bal0 : BOOLEAN] : WellFormed(r)}

ASSUME MatchersAgree ==
    \A p \in Patterns : \A s \in NameSeqs \cup {<<>>} : Matches(p, s) = MatchesD(p, s)

\* parentheses are only where needed, and a top-level alternation is written bare
ASSUME RenderExamples ==
    /\ Render(Alt(Lit("a"), Lit("b")), 0) = "a|b"
    /\ Render(Cat(Lit("a"), Alt(Lit("a"), Lit("b"))), 0) = "a(a|b)"
    /\ Render(Star(Alt(Lit("a"), Lit("b"))), 0) = "(a|b)*"
    /\ Render(Cat(Star(AnyChar), Cls(<<"a", "b">>)), 0) = ".*[ab]"
    /\ SpecText([w |-> "W", form |-> "pat", p |-> Star(AnyChar), pre |-> TRUE, post |-> TRUE]) = "W/^.*$"

Rank(st) == CASE st \in {"pending_initialized", "pending_queued"} -> 0
              [] st \in {"active_ongoing", "active_exiting", "active_slashed"} -> 1
              [] st \in {"exited_unslashed", "exited_slashed"} -> 2
              [] OTHER -> 3

ASSUME LifecycleLaws ==
    \A r \in Records : \A e \in MCQueryEpochs :
        /\ (StateAt(r, e) \in ValidatingStates) = ValidatingByWindow(r, e)
        /\ (StateAt(r, e) \in SyncStates) = SyncByWindow(r, e)
        /\ ValidatingByWindow(r, e) => SyncByWindow(r, e)
        /\ Rank(StateAt(r, e)) <= Rank(StateAt(r, e + 1))

\* ---- the state machine on a small universe
W(a) == <<"W", a>>
V(a) == <<"V", a>>
MCNames == {W(<<"a">>), W(<<"b">>), W(<<"a", "b">>), V(<<"a">>)}

MCCfgs == {<<[w |-> "W", form |-> "wallet"]>>,
           <<[w |-> "W", form |-> "pat", p |-> Cat(Lit("a"), Star(AnyChar)), pre |-> FALSE, post |-> FALSE],
             [w |-> "V", form |-> "empty"]>>,
           <<[w |-> "W", form |-> "pat", p |-> Alt(Lit("a"), Lit("b")), pre |-> FALSE, post |-> TRUE]>>}

MCOffers == {{}, MCNames, {W(<<"a">>), W(<<"a", "b">>)}, {W(<<"b">>), V(<<"a">>)}}

Rec(i, act, exit, wd, sl) == [index |-> i, elig |-> 0, act |-> act, exit |-> exit, wd |-> wd, slashed |-> sl, bal0 |-> FALSE]
R1 == (W(<<"a">>) :> Rec(11, 1, FFE, FFE, FALSE)) @@ (W(<<"b">>) :> Rec(12, 0, 2, 3, TRUE)) @@ (V(<<"a">>) :> Rec(14, 2, 3, 4, FALSE))
R2 == (W(<<"a">>) :> Rec(11, 1, 2, 3, FALSE)) @@ (W(<<"a", "b">>) :> Rec(13, 0, FFE, FFE, FALSE))
MCOuts == {[mode |-> "err", recs |-> NoVals], [mode |-> "ok", recs |-> NoVals],
           [mode |-> "ok", recs |-> R1], [mode |-> "ok", recs |-> R2]}

\* the smaller universe of the overlap configuration (MC_Accounts_overlap.cfg substitutes these)
MCCfgsSmall == {<<[w |-> "W", form |-> "pat", p |-> Alt(Lit("a"), Lit("b")), pre |-> FALSE, post |-> TRUE]>>}
MCCfgsMid == {<<[w |-> "W", form |-> "pat", p |-> Cat(Lit("a"), Star(AnyChar)), pre |-> FALSE, post |-> FALSE],
                [w |-> "V", form |-> "empty"]>>}
MCOffersSmall == {{}, MCNames, {W(<<"a">>), W(<<"a", "b">>)}}

MCIdxs == {{11, 14}, {12, 13, 999}}
MCKinds == Kinds

MCInit ==
    /\ mgr \in {"wallet", "dirk"}
    /\ cfg \in MCCfgs
    /\ known = {}
    /\ vals = NoVals
    /\ ref = Idle
    /\ open = NoOpen
    /\ last = NoReply

\* histories on one pair of instances: refreshes as a whole or part by part (anything may happen between
\* the parts), queries with nothing in between, and one query under way while all of that goes on
MCNext ==
    \/ \E offer \in MCOffers, out \in MCOuts : Refresh(offer, out)
    \/ \E offer \in MCOffers : \E k \in AccountsAfter(mgr, cfg, known, offer) : RefreshAccountsTo(offer, k)
    \/ \E out \in MCOuts : RefreshValidators(out)
    \/ open = NoOpen /\ \E kind \in MCKinds, e \in MCAtomicEpochs, idxs \in MCIdxs : Query(kind, e, idxs)
    \/ \E kind \in MCOverlapKinds, e \in MCOverlapEpochs, idxs \in {{12, 13, 999}} : QueryCall(kind, e, idxs)
    \/ QueryReturn

MCSpec == MCInit /\ [][MCNext]_vars

\* bound: what a query under way may have seen
MCBound == open.st = "open" => Cardinality(open.ks) <= MCSeen /\ Cardinality(open.vs) <= MCSeen

\* the by-index forms agree with the plain ones, in every reachable state of the two instances
ByIndexAgrees ==
    \A kind \in ByIndexKinds, e \in MCQueryEpochs, idxs \in MCIdxs \cup {{}} :
        ByIndexAgreesFor(kind, e, idxs, known, vals)
=============================================================================
