----------------------------- MODULE SignerCache -----------------------------
(* A signer that REMEMBERS domains, checked against C06 over histories (Signer.tla).              *)
(*                                                                                                *)
(* The per-epoch domain cache of seeded/C06-domain-cache-straddles-fork: one cache for "the epoch *)
(* being signed in" - (1) under the lock: reset if the epoch differs, look the type up, return on *)
(* a hit; (2) WITHOUT the lock: ask the domain provider; (3) under the lock: store.               *)
(*   StoreRechecks = FALSE  step 3 stores unconditionally: a reply for (T, F-1) that arrives after *)
(*                          a request for epoch F has reset the cache lands in the cache of epoch  *)
(*                          F, and every later type-T request of epoch F signs with the domain of  *)
(*                          the previous fork.  TLC finds that history (SigCorrect / Memoryless    *)
(*                          violated): checks/C06.py requires it to - the model can see the class. *)
(*   StoreRechecks = TRUE   step 3 stores only if the cache still belongs to the epoch the domain  *)
(*                          was fetched for: every hit is then a Recall of Signer.tla - a          *)
(*                          transparent cache is a legal implementation (all invariants hold).     *)
(* Requests here are single-account requests of two domain types on both sides of the fork.        *)
EXTENDS Signer

CONSTANTS StoreRechecks, CacheOps

VARIABLE cache      \* [epoch, domains : function from the types held to domain values]

cvars == <<vars, cache>>

NoEpoch == -2
NoDomains == [t \in {} |-> NoDomain]

CacheCalls == {c \in [op : CacheOps, slot : Slots, epoch : {CHOOSE e \in GivenEpochs : TRUE},
                      kinds : {<<"plain">>}, fail : {"none"}, failidx : {0}] : ValidCall(c)}

CInit == Init /\ cache = [epoch |-> NoEpoch, domains |-> NoDomains]

\* step 1: one critical section
Lookup(r) ==
    /\ pc[r] = "called"
    /\ LET q  == DomainReq(req[r])
           c1 == IF cache.epoch # q.epoch THEN [epoch |-> q.epoch, domains |-> NoDomains] ELSE cache
       IN /\ cache' = c1
          /\ IF q.type \in DOMAIN c1.domains
             THEN /\ pc' = [pc EXCEPT ![r] = "sign"]                    \* hit: sign with what is held
                  /\ dom' = [dom EXCEPT ![r] = c1.domains[q.type]]
                  /\ UNCHANGED <<fork, boot, svc, req, domreqs, insign, signed, result>>
             ELSE FetchDomain(r)                                          \* miss: step 2, lock released

\* step 3: the reply arrives (any time later) and is stored in one critical section
Store(r) ==
    /\ DomainResp(r)
    /\ LET q == domreqs[r][Len(domreqs[r])]
       IN IF StoreRechecks /\ cache.epoch # q.epoch
          THEN UNCHANGED cache
          ELSE cache' = [cache EXCEPT !.domains = [t \in DOMAIN cache.domains \cup {q.type} |->
                                                     IF t = q.type THEN DomainValue(q, fork) ELSE cache.domains[t]]]

CNext ==
    \/ Start(TRUE) /\ UNCHANGED cache
    \/ \E r \in Rids, c \in CacheCalls : Call(r, c) /\ UNCHANGED cache
    \/ \E r \in Rids :
          \/ Lookup(r)
          \/ Store(r)
          \/ (SignGroupStart(r, 1) \/ SignEnd(r) \/ Return(r)) /\ UNCHANGED cache

CSpec == CInit /\ [][CNext]_cvars

\* every hit is a transparent Recall: the cache refines the memoryless signer
HitIsRecall == [][\A r \in Rids : (pc[r] = "called" /\ pc'[r] = "sign") => dom'[r] = OwnDomain(r)]_cvars
=============================================================================
