SPECIFICATION TraceSpec
CONSTANTS
  Vals = {1, 2}
  Relays = {1, 2}
  Nodes = {1, 2}
  DocIds = {1, 2, 3, 4, 5}
  Kinds = {"round", "prep", "fwd", "unblind", "auction", "bid"}
  Routes = {"epoch", "import"}
  Memo = "none"
INVARIANTS TypeOK RegistrationsFollowConfig PreparationsFollowConfig ForwardedFollowConfig
CONSTRAINT HWM
POSTCONDITION TraceAccepted
CHECK_DEADLOCK FALSE
