SPECIFICATION FairSpec
CONSTANTS
  Callers = {"c1", "c2", "c3"}
  Cancellers = {"k1", "k2"}
  Periodic = FALSE
  DeleteByName = FALSE
  ClaimIgnoresCancel = FALSE
  PrefixCancellers = {}
  BlockingSend = FALSE
  DropOnClaim = FALSE
  MaxRuns = 1
INVARIANTS TypeOK AtMostOnce NoOverlap NoPanic NoLostRun NotDropped CancelBranchNoRun CancelOkNeverRuns NameReusable NameSlotUnique SuccessorReachable LockFreeAtEnd
PROPERTIES Terminates NoStuckCaller
CHECK_DEADLOCK FALSE
