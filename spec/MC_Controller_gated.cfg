SPECIFICATION Spec
CONSTANTS
  MaxSlot = 3
  MaxVer = 2
  MaxReorgs = 2
  MaxCrashes = 0
  Gates = {"att", "prop"}
  Interleave = FALSE
  Cfgs <- MCCfgsOne
  OraclesFor <- MCOraclesA
  MaxAccts = 0
  AnswersFor <- AllAnswers
  Deviation = {}
INVARIANTS TypeOK JobTimeRight JobCoversExactly OnlyStrictlyLaterOnStart SyncWindowRight EpochTickOnce NoFutureDutyUnscheduled ReorgActedOn RefreshCompletes
CHECK_DEADLOCK FALSE
