SPECIFICATION Spec
CONSTANTS
  MaxSlot = 3
  MaxVer = 2
  MaxReorgs = 2
  MaxCrashes = 0
  Gates = {"att", "prop"}
  Interleave = FALSE
  Cfgs <- MCCfgsOne
  OraclesFor <- MCOraclesA
INVARIANTS TypeOK JobTimeRight JobCoversExactly OnlyStrictlyLaterOnStart SyncWindowRight EpochTickOnce NoFutureDutyUnscheduled ReorgActedOn
CHECK_DEADLOCK FALSE
