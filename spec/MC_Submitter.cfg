SPECIFICATION Spec
CONSTANTS
  KindSet = {"att", "syncmsg", "proposal"}
  ConcSet = {1, 3}
  ItemSet = {1, 5}
  NodeCounts = {3}
  DefaultConc = 16
  MaxCalls = 1
  HistClients = {}
  HistOutcomes = {}
  Design = "asks"
INVARIANTS TypeOK FlagSound TimeoutSignalHeard OfferedInFull SuccessIff ReturnsByTimeout Independence ClassifiedByNow
CHECK_DEADLOCK FALSE
