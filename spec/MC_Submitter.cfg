SPECIFICATION Spec
CONSTANTS
  KindSet = {"att", "syncmsg"}
  ConcSet = {1, 3}
  ItemSet = {1, 5}
  NodeCounts = {3}
  DefaultConc = 16
  MaxCalls = 1
  HistClients = {}
  HistOutcomes = {}
  Design = "asks"
  MaxLat = 2
  CanonOuts = {}
  ConfSets = {}
  OtherSets = {}
  RefKind = "att"
INVARIANTS TypeOK FlagSound TimeoutSignalHeard OfferedInFull SuccessIff ReturnsByTimeout Independence DeliveredToEach ClassifiedByNow
CHECK_DEADLOCK FALSE
