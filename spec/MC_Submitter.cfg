SPECIFICATION Spec
CONSTANTS
  KindSet = {"att", "syncmsg", "proposal"}
  ConcSet = {1, 3}
  ItemSet = {1, 5}
  NodeCounts = {3}
  DefaultConc = 16
INVARIANTS TypeOK FlagSound TimeoutSignalHeard OfferedInFull SuccessIff ReturnsByTimeout Independence
CHECK_DEADLOCK FALSE
