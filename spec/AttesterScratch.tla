--------------------------- MODULE AttesterScratch ---------------------------
(* CONTROL MODEL for C04 (vacuity self-check of checks/C04.py): an attester that keeps working   *)
(* state on the long-lived Service, judged against Attester.tla's C04 invariants over HISTORIES  *)
(* of runs on one instance.  Two designs, both right for every single call on a fresh instance:  *)
(*                                                                                               *)
(*  retained per-validator arrays (seeded/C04-retained-per-validator-arrays).  The committee     *)
(*    index / position / size arrays of a run are kept on the Service: grown when a duty is      *)
(*    larger than any seen so far, otherwise re-sliced and refilled in ONE critical section      *)
(*    (FillAccounts), and                                                                        *)
(*      ReturnCopy = FALSE  handed to the run BY REFERENCE: the run reads them again when it     *)
(*                          calls the signer and when it builds the attestations - after another *)
(*                          run may have refilled them.  Sequential histories are right (every   *)
(*                          cell is rewritten before it is read: MC_AttesterScratch_seq.cfg      *)
(*                          passes, which is why no check that runs call after call can see it); *)
(*                          with two runs alive TLC finds the overlap: run 1 waits at / in the   *)
(*                          signer, run 2 fills, run 1 asks for / submits run 2's assignment     *)
(*                          (SignAssignmentExact / AssignmentExact violated - REQUIRED).         *)
(*      ReturnCopy = TRUE   copied out under the lock: a legal implementation, all invariants    *)
(*                          hold with overlap.                                                   *)
(*  SizeMemo = TRUE: committee sizes memoised per committee index on the Service ("a committee   *)
(*    does not change size"): wrong as soon as a later duty brings the index with another size - *)
(*    state carried from call to call, violated by a SEQUENTIAL history (REQUIRED).              *)
(*                                                                                               *)
(* The cfgs set Strict04 = FALSE: Attester's actions then accept whatever request / attestations *)
(* the design produces and the invariants alone judge them.                                      *)
EXTENDS MC_Attester

CONSTANTS ReturnCopy, SizeMemo

VARIABLES heap,   \* [array id -> sequence of cells [c, p, z]]: the arrays ever allocated for the Service
          cur,    \* id of the array the Service holds now
          ref,    \* [RunIds -> what the run's slices are: a window on a heap array, or cells of its own]
          memo    \* committee index -> size, as far as memoised

scvars == <<vars, heap, cur, ref, memo>>

RECURSIVE Sorted(_)
MinOf(S) == CHOOSE x \in S : \A y \in S : x <= y
Sorted(S) == IF S = {} THEN <<>> ELSE <<MinOf(S)>> \o Sorted(S \ {MinOf(S)})

NoRef == [shared |-> FALSE, id |-> 0, n |-> 0, own |-> <<>>]
ArrIds == 0..Cardinality(RunIds)

ScInit ==
    /\ MCInit
    /\ heap = [k \in ArrIds |-> <<>>]
    /\ cur = 0
    /\ ref = [r \in RunIds |-> NoRef]
    /\ memo = <<>>

\* the arrays as run r reads them NOW
View(r) == IF ref[r].shared THEN SubSeq(heap[ref[r].id], 1, ref[r].n) ELSE ref[r].own
Order(r) == Sorted(run[r].accts)

SizeFor(d, c) == IF SizeMemo /\ c \in DOMAIN memo THEN memo[c] ELSE SizeOf(d, c)

\* the accounts arrive and perValidatorInfo fills the Service's arrays (one critical section)
FillAccounts(r, A) ==
    /\ Accounts(r, A)
    /\ LET d == run[r].duty
           ord == Sorted(A)
           n == Len(ord)
           cells == [i \in 1..n |-> [c |-> CommOfV(d, ord[i]), p |-> PosOfV(d, ord[i]), z |-> SizeFor(d, CommOfV(d, ord[i]))]]
           grow == Len(heap[cur]) < n
           k == IF grow THEN cur + 1 ELSE cur
           arr == IF grow THEN cells ELSE [i \in 1..Len(heap[cur]) |-> IF i <= n THEN cells[i] ELSE heap[cur][i]]
       IN /\ heap' = [heap EXCEPT ![k] = arr]
          /\ cur' = k
          /\ ref' = [ref EXCEPT ![r] = IF ReturnCopy THEN [shared |-> FALSE, id |-> k, n |-> n, own |-> cells]
                                                      ELSE [shared |-> TRUE, id |-> k, n |-> n, own |-> <<>>]]
          /\ memo' = IF SizeMemo
                     THEN LET new == {cells[i].c : i \in 1..n} \ DOMAIN memo IN
                          [c \in DOMAIN memo \cup new |-> IF c \in DOMAIN memo THEN memo[c] ELSE SizeOf(d, c)]
                     ELSE memo

ScSignCall(r) ==
    /\ run[r].pc = "sign"
    /\ SignCall(r, {<<Order(r)[i], View(r)[i].c>> : i \in 1..Len(Order(r))}, SignData(run[r]))
    /\ UNCHANGED <<heap, cur, ref, memo>>

\* createAttestations reads the arrays again
ScBuild(r) ==
    LET rr == run[r]
        dd == SignData(rr)
        asked(v) == (CHOOSE q \in rr.req : q[1] = v)[2]
        att(i) == [index |-> View(r)[i].c, size |-> View(r)[i].z, bits |-> {View(r)[i].p}, data |-> dd,
                   sig |-> [v |-> Order(r)[i], c |-> asked(Order(r)[i]), data |-> dd]]
    IN /\ rr.pc = "build"
       /\ Build(r, {att(i) : i \in {j \in 1..Len(Order(r)) : Order(r)[j] \in Signed(rr)}})
       /\ UNCHANGED <<heap, cur, ref, memo>>

Good(d) == [slot |-> d.slot, src |-> Max(Epoch(d.slot) - 1, 0), tgt |-> Epoch(d.slot), root |-> 1]

ScNext ==
    \/ \E r \in RunIds, d \in Duties :
            /\ \A q \in RunIds : q < r => run[q].pc # "idle"
            /\ Deliver(r, d) /\ UNCHANGED <<heap, cur, ref, memo>>
    \/ \E r \in RunIds :
        \/ \E claim \in BOOLEAN : MarkOne(r, claim) /\ UNCHANGED <<heap, cur, ref, memo>>
        \/ Fetch(r, Good(run[r].duty)) /\ UNCHANGED <<heap, cur, ref, memo>>
        \/ Validate(r, TRUE) /\ UNCHANGED <<heap, cur, ref, memo>>
        \/ \E A \in SUBSET run[r].claimed : FillAccounts(r, A)
        \/ ScSignCall(r)
        \/ \E Z \in SUBSET ReqVals(run[r].req) : SignRet(r, Z, TRUE) /\ UNCHANGED <<heap, cur, ref, memo>>
        \/ ScBuild(r)
        \/ SubmitCall(r) /\ UNCHANGED <<heap, cur, ref, memo>>
        \/ SubmitRet(r, TRUE) /\ UNCHANGED <<heap, cur, ref, memo>>
        \/ Housekeep(r, {}) /\ UNCHANGED <<heap, cur, ref, memo>>

ScSpec == ScInit /\ [][ScNext]_scvars
=============================================================================
