\* general: any start, heads anywhere, the chain moves slot by slot or jumps
SPECIFICATION SSpec
CONSTANTS
  SPE = 2
  EPP = 8
  Prep = 5
  MaxSlot = 50
  Validators = {1, 2, 3}
  StartCfgs = {0, 1, 5, 6, 7, 14, 15, 16, 17, 18, 22, 23, 30, 31, 32}
  AcctSets = {{1, 2, 3}, {1, 3}, {1, 2}}
  CommChoices = {{1, 2, 3}, {2}, {1, 3}, {}}
  ExitEpochs = {4, 9, 12, 17}
  SlashEpochs = {3, 10, 15}
  WdDelay = 3
  Varying = {2, 3}
  Roots = {1, 2, 3}
  Steps = {1, 2}
  JumpTargets = {6, 15, 16, 22, 30, 31, 32, 33, 38, 46, 47, 48}
  HeadEpochs = {0, 1, 3, 7, 8, 9, 15, 16, 17, 24}
  MaxHeads = 4
  MaxEnv = 2
  MaxRefresh = 2
  MaxXTicks = 1
  MaxRan = 5
  Deviation = "none"
  ScenLen = 18
  ForceHeads = FALSE
INVARIANTS Emit TypeOK JobsComplete NowHasJob EveryMemberMessages OnlyMembers
CHECK_DEADLOCK FALSE
