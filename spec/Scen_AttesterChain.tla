------------------------- MODULE Scen_AttesterChain -------------------------
(* Scenario generator for AttesterChain.tla: histories of ONE wired instance (validators manager, *)
(* account manager, attester, signer, submitter).  A history is the sequence of the environment's *)
(* steps: the start-up refresh, further refreshes (the store offers all or all but one of the     *)
(* accounts; the node knows every / some / none of the validators asked for, or fails), the       *)
(* controller asking for an epoch's validating indices, the slots' attestation jobs.              *)
EXTENDS AttesterChain, Json

CONSTANTS ScenLen

VARIABLES hist, fin
svars == <<vars, hist, fin>>

\* (sub: the submitter strategy main.go selects - no part of the model, a sibling the attestations pass through)
SInit == /\ Init /\ fin = FALSE
         /\ hist \in {<<[ev |-> "Reset", mgr |-> mgr, ours |-> ours, spe |-> SPE, sub |-> x]>> : x \in {"immediate", "multinode"}}

H(e) == hist' = Append(hist, e)

Offers == {ours} \cup {ours \ {k} : k \in ours}

\* (the simulator picks among the successor states one by one: the bound variables n weigh the kinds of step)
SRefresh ==
    \/ \E offer \in (IF Len(hist) = 1 THEN {ours} ELSE Offers), knows \in SUBSET ours, dsg \in VMDesigns :
        /\ Refresh(offer, knows, TRUE, dsg)
        /\ H([ev |-> "Refresh", offer |-> offer, knows |-> knows, err |-> FALSE])
    \* (Vouch does not start when the start-up refresh fails)
    \/ \E offer \in Offers, dsg \in VMDesigns :
        /\ Len(hist) > 1
        /\ Refresh(offer, {}, FALSE, dsg)
        /\ H([ev |-> "Refresh", offer |-> offer, knows |-> {}, err |-> TRUE])

\* a history is full, or every slot has run
Finished == Len(hist) = ScenLen + 1 \/ done = Slots

SNext ==
    /\ ~fin
    /\ IF Finished THEN fin' = TRUE /\ UNCHANGED <<vars, hist>>
       ELSE /\ UNCHANGED fin
            /\ \/ SRefresh
               \/ /\ Len(hist) > 1
                  /\ \/ \E e \in Epochs, n \in 1..8 : \E m \in ByPubKeyMaps(held) : Plan(e, m) /\ H([ev |-> "Plan", e |-> e])
                     \/ \E s \in Slots, n \in 1..16 : \E f \in ByPubKeyMaps(held) :
                            LET m == Restrict(f, DutyVals(s, plan[Epoch(s)])) IN
                            /\ Attest(s, m, {Att(s, i, m[i]) : i \in DOMAIN m})
                            /\ H([ev |-> "Attest", s |-> s])

SSpec == SInit /\ [][SNext]_svars

\* written out once, by the closing step
Emit == fin => PrintT(ToJson(hist))
=============================================================================
