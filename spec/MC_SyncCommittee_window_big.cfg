SPECIFICATION Spec
CONSTANTS
  SlotsPerEpoch = 2
  EpochsPerPeriod = 2
  Forks = {0, 1, 2}
  Nows = {0, 1, 2, 3, 4, 5, 6, 7}
  ScheduleEpochs = {0, 2}
  Members = {1}
  IndexSets = {{0}}
  Sizes = {8}
  SubnetCounts = {4}
  Targets = {2}
  Roots = {1}
  HVals = {0}
  HMod = 2
  MaxSched = 2
  FaultKinds = {}
  Deviation = "none"
  MaxFired = 1
INVARIANTS TypeOK EverySlotOfWindow OnlySlotsOfWindow JobOrder SignedOverObtainedRoot MembersIndependent AggregatorRuleExact
CHECK_DEADLOCK FALSE
