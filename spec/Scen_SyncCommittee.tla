-------------------------- MODULE Scen_SyncCommittee --------------------------
(* Scenario generator for C15: behaviours of SyncCommittee with a history variable; the duty is *)
(* built member by member (at most SetupLen members), then Schedule / Advance / Head / Fire*    *)
(* steps follow.  A behaviour is printed as JSON when it has ScenLen steps.                     *)
EXTENDS SyncCommittee, Json

CONSTANTS ScenLen, SetupLen
VARIABLE hist
svars == <<vars, hist>>

SInit == Init /\ hist = <<[ev |-> "Reset", now |-> now, fork |-> fork, size |-> shape[1], subnets |-> shape[2],
                           target |-> target, head |-> head]>>

H(e) == hist' = Append(hist, e)

AllContribs(s) == {Contribution(x) : x \in OfSlot(sel, s)}

\* the zero-signed requests / pairs as JSON-friendly sets
HsOf(s, F) == {[v |-> r[1], sub |-> r[2], h |-> (IF F[r] = ZeroSig THEN 0 ELSE F[r]), z |-> (F[r] = ZeroSig)] : r \in DOMAIN F}
PairSet(P) == {[v |-> p[1], sub |-> p[2]] : p \in P}

\* The generator's guess of what the implementation answers where the specification leaves it open
\* (only to keep generating stimuli; the verdict is taken from what the real code logged): a zero-signed
\* request is not selected, a batch error leaves the slot without its next job, everything that may be
\* submitted is submitted.
SNext ==
    /\ Len(hist) <= ScenLen
    /\ \/ /\ Len(hist) <= SetupLen
          /\ \E v \in Members : \E m \in MemberSpace :
                AddMember(v, m) /\ H([ev |-> "Member", v |-> v, idx |-> m.idx, acct |-> m.acct])
       \/ /\ Known # {}
          /\ \/ \E t \in Nows : Advance(t) /\ H([ev |-> "Advance", now |-> t])
             \/ /\ msgJobs \cup aggJobs # {}
                /\ hist[Len(hist)].ev # "Head"
                /\ \E r \in Roots : NewHead(r) /\ H([ev |-> "Head", root |-> r])
             \/ \E e \in ScheduleEpochs : \E nc \in BOOLEAN :
                    Schedule(e, nc, prepJobs \cup Required([period |-> PeriodOf(e), at |-> now, nc |-> nc])) /\ H([ev |-> "Schedule", epoch |-> e, nc |-> nc])
             \/ \E s \in {x \in prepJobs : CanPrepare(x)} :
                    \/ \E F \in [Requests -> HVals \cup Opt("sel", {ZeroSig})] :
                          FirePrepare(s, F, FALSE, {}, TRUE)
                          /\ H([ev |-> "FirePrepare", slot |-> s, hs |-> HsOf(s, F), err |-> FALSE])
                    \/ /\ "selerr" \in FaultKinds
                       /\ FirePrepare(s, <<>>, TRUE, {}, FALSE)
                       /\ H([ev |-> "FirePrepare", slot |-> s, hs |-> {}, err |-> TRUE])
             \/ \E s \in msgJobs :
                    \/ \E Z \in {{}} \cup Opt("root", SUBSET WithAccount) :
                          FireMessage(s, Z, FALSE, OfSlot(sel, s) # {} /\ Z # WithAccount)
                          /\ H([ev |-> "FireMessage", slot |-> s, zv |-> Z, err |-> FALSE])
                    \/ /\ "rooterr" \in FaultKinds
                       /\ FireMessage(s, {}, TRUE, FALSE)
                       /\ H([ev |-> "FireMessage", slot |-> s, zv |-> {}, err |-> TRUE])
             \/ \E s \in aggJobs :
                    \/ \E ZC \in {{}} \cup Opt("cp", SUBSET PairsOf(s)) :
                          FireAggregate(s, ZC, FALSE, AllContribs(s))
                          /\ H([ev |-> "FireAggregate", slot |-> s, zp |-> PairSet(ZC), err |-> FALSE])
                    \/ /\ "cperr" \in FaultKinds
                       /\ FireAggregate(s, {}, TRUE, {})
                       /\ H([ev |-> "FireAggregate", slot |-> s, zp |-> {}, err |-> TRUE])

SSpec == SInit /\ [][SNext]_svars

Emit == (Len(hist) = ScenLen + 1) => PrintT(ToJson(hist))
=============================================================================
