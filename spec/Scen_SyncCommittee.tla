-------------------------- MODULE Scen_SyncCommittee --------------------------
(* Scenario generator for C15: behaviours of SyncCommittee with a history variable; the duty is *)
(* built member by member (at most SetupLen members), then Schedule / Advance / Head / Fire*    *)
(* steps follow.  A behaviour is printed as JSON when it has ScenLen steps.                     *)
EXTENDS SyncCommittee, Json

CONSTANTS ScenLen, SetupLen
VARIABLE hist
svars == <<vars, hist>>

SInit == Init /\ hist = <<[ev |-> "Reset", now |-> now, fork |-> fork, size |-> shape[1], subnets |-> shape[2],
                           target |-> target, head |-> head]>>

H(e) == hist' = Append(hist, e)

AllContribs(s) == {Contribution(x) : x \in OfSlot(sel, s)}

SNext ==
    /\ Len(hist) <= ScenLen
    /\ \/ /\ Len(hist) <= SetupLen
          /\ \E v \in Members : \E m \in MemberSpace :
                AddMember(v, m) /\ H([ev |-> "Member", v |-> v, idx |-> m.idx, acct |-> m.acct, zero |-> m.zero])
       \/ /\ Known # {}
          /\ \/ \E t \in Nows : Advance(t) /\ H([ev |-> "Advance", now |-> t])
             \/ /\ msgJobs \cup aggJobs # {}
                /\ hist[Len(hist)].ev # "Head"
                /\ \E r \in Roots : NewHead(r) /\ H([ev |-> "Head", root |-> r])
             \/ \E e \in ScheduleEpochs : \E nc \in BOOLEAN :
                    Schedule(e, nc, prepJobs \cup Required([period |-> PeriodOf(e), at |-> now, nc |-> nc])) /\ H([ev |-> "Schedule", epoch |-> e, nc |-> nc])
             \/ \E s \in prepJobs : \E F \in [Requests -> HVals] :
                    FirePrepare(s, F) /\ H([ev |-> "FirePrepare", slot |-> s,
                                            hs |-> {[v |-> r[1], sub |-> r[2], h |-> F[r]] : r \in Requests}])
             \/ \E s \in msgJobs : FireMessage(s, OfSlot(sel, s) # {}) /\ H([ev |-> "FireMessage", slot |-> s])
             \/ \E s \in aggJobs : FireAggregate(s, AllContribs(s)) /\ H([ev |-> "FireAggregate", slot |-> s])

SSpec == SInit /\ [][SNext]_svars

Emit == (Len(hist) = ScenLen + 1) => PrintT(ToJson(hist))
=============================================================================
