------------------------------ MODULE Collector ------------------------------
(* Multi-node data strategies of Vouch (strategies/*/{best,majority,first,latest}).            *)
(*                                                                                              *)
(* A strategy fans one request out to n beacon nodes ("providers"), collects the answers on a   *)
(* response and an error channel and decides.  Property C07: it returns within its time-out;    *)
(* `best` returns the highest-scoring valid response received by its decision point, `majority` *)
(* the most frequently reported value - used iff at least `threshold` nodes reported it within  *)
(* the time-out -, `first` a response some node actually gave, an error exactly when nothing    *)
(* acceptable arrived in time, and a response failing the validity rules is never returned.     *)
(*                                                                                              *)
(* Environment (independently enabled):                                                         *)
(*   Respond(p)     provider goroutine p obtains its node's answer and sends it (or drops it)   *)
(*   SoftExpire     the clock passes the soft time-out  (T/2)                                   *)
(*   HardExpire     the clock passes the hard time-out  (T)                                     *)
(* Collector (one action per `select` case / loop exit of the Go code):                         *)
(*   RecvResp(p), RecvErr(p), SelectSoft, SelectHard, ExitLoop1, Return                         *)
(* The choice among several ready `select` cases, among equal scores and among equally frequent *)
(* values is nondeterministic.                                                                  *)
(*                                                                                              *)
(* Time is abstracted to three phases (early < soft <= mid < hard <= late).  Timing assumption  *)
(* (Env_Prompt): the collector reacts to a ready case before the clock reaches the next phase   *)
(* and before a node of a later phase answers - time only passes while the collector is blocked *)
(* (Quiescent).  An answer that races with a deadline is, by definition, an answer whose phase  *)
(* is ambiguous: the trace specification lets TLC choose the phase of such answers.             *)
(*                                                                                              *)
(* THE INSTANCE.  A strategy is one long-lived service object: main.go constructs it once and    *)
(* the controller's jobs call it for every duty slot of the process's life (attestation data    *)
(* once per slot, an aggregate per aggregating validator, ...).  What the instance keeps from    *)
(* one call to the next is `Persistent` - its construction parameters: the strategy family, the  *)
(* nodes, the threshold, the channel sizes (and time-out, process concurrency, which the model   *)
(* does not need) - and NOTHING else: NextCall starts a further call on the same instance with   *)
(* whatever the nodes do this time, from the state a call on a fresh instance starts from        *)
(* (FreshCall, HistoryIndependent).  Every invariant below is therefore a statement about EVERY  *)
(* call of EVERY history of calls on one instance - earlier calls with invalid / mismatching     *)
(* answers, node errors, silence, time-outs, early stops included -, judged by that call's own   *)
(* node behaviours only.  Calls that overlap on one instance (aggregates of one slot, the        *)
(* attestation data of a slot while a straggler of the previous one is still in flight) are in   *)
(* CollectorInst.tla; a design that is right on every fresh instance and wrong on a used one (a  *)
(* leaked processing slot, a tally shared between calls) is CollectorSem.tla, which TLC rejects. *)
(*                                                                                              *)
(* Things the property leaves open are left open here: which of several equal-score responses   *)
(* or equally frequent values wins; whether `best` stops at the soft time-out when it has a     *)
(* response or keeps collecting until the hard one; whether `majority` stops as soon as the     *)
(* outcome is determined by the answers received so far or waits for all.                       *)
EXTENDS Integers, FiniteSets, Sequences, TLC

CONSTANTS MaxN,        \* providers: n \in 1..MaxN
          Variants,    \* subset of {"Best", "Majority", "RootMajority", "First"}
          Values,      \* value identities (majority variants), positive integers
          Scores,      \* scores (best variant), naturals
          FirstCap     \* capacity of the response channel of `first` (0: n, as the other variants)

VARIABLES variant,     \* which strategy family
          n,           \* number of providers
          thr,         \* configured threshold (Majority only; 0 otherwise)
          cap,         \* capacity of each channel
          beh,         \* beh[p] = [k, v, s]: what node p answers: kind, value, score
          ph,          \* ph[p]: phase in which node p answers
          clock,       \* current phase
          pst,         \* provider goroutine: "idle" (waiting for its node), "blocked" (in a send), "done"
          respCh,      \* providers whose response sits in the response channel
          errCh,       \* providers whose error sits in the error channel
          pc,          \* collector: "loop1", "loop2", "done"; "idle": the instance is at rest between two calls
          responded, errored, timedOut, softTimedOut,   \* the collector's counters
          best,        \* provider of the best response so far (0: none)
          counts,      \* counts[v]: responses with value v received (majority variants)
          rcvd,        \* history: providers whose valid response the collector has received
          hardSel,     \* history: the collector has selected the hard time-out
          steps,       \* history: loop iterations of the collector
          result       \* [st, p, v]: "none" | "ok" | "err"; provider (Best, First) / value (majority)

vars == <<variant, n, thr, cap, beh, ph, clock, pst, respCh, errCh, pc, responded, errored,
          timedOut, softTimedOut, best, counts, rcvd, hardSel, steps, result>>

Provs == 1..n
NoBeh == [k |-> "none", v |-> 0, s |-> 0]
NoResult == [st |-> "none", p |-> 0, v |-> 0]
Err == [st |-> "err", p |-> 0, v |-> 0]
Ok(p, v) == [st |-> "ok", p |-> p, v |-> v]

TwoCh == variant # "First"            \* response and error channel; `first` drops errors
HasSoft == variant # "First"
Counting == variant \in {"Majority", "RootMajority"}

Max(S) == CHOOSE x \in S : \A y \in S : y <= x
Largest == Max({counts[v] : v \in Values} \cup {0})

\* validity rules of the property: a response that fails them is an error to the collector
Acceptable(p) == beh[p].k = "valid"

-----------------------------------------------------------------------------
\* the collector

Sum1 == responded + errored + timedOut + softTimedOut
Sum2 == responded + errored + timedOut

Complete ==
    CASE variant \in {"Best", "RootMajority"} -> IF pc = "loop1" THEN Sum1 = n ELSE Sum2 = n
      [] variant = "Majority" -> responded + errored = n
      [] variant = "First" -> best # 0

\* A majority vote may stop as soon as its outcome is determined by what has been received, whatever
\* the nodes still outstanding report: the leading value meets the threshold and cannot be overtaken,
\* or no value can reach the threshold any more.  (The Go code stops at a strict majority of n, which
\* implies the former provided the threshold is met.)
Outstanding == n - responded - errored
Second(v) == Max({counts[w] : w \in Values \ {v}} \cup {0})
DeterminedOk(v) == counts[v] = Largest /\ Largest >= 1 /\ Largest >= thr /\ Largest >= Second(v) + Outstanding
DeterminedErr == variant = "Majority" /\ Largest + Outstanding < thr
EarlyStopOK == Counting /\ (DeterminedErr \/ \E v \in Values : DeterminedOk(v))

Running == pc \in {"loop1", "loop2"} /\ ~Complete /\ ~hardSel

SoftReady == Running /\ pc = "loop1" /\ clock # "early"
HardReady == Running /\ pc = "loop2" /\ clock = "late"

\* a collector step that the Go code takes without waiting for anything
MandatoryEnabled ==
    \/ Running /\ respCh # {}
    \/ Running /\ TwoCh /\ errCh # {}
    \/ SoftReady
    \/ HardReady
    \/ pc = "loop1" /\ Complete
    \/ pc = "loop2" /\ (Complete \/ hardSel)

Quiescent == ~MandatoryEnabled

Blocked(resp) == {q \in Provs : pst[q] = "blocked" /\ Acceptable(q) = resp}

RecvResp(p) ==
    /\ Running /\ p \in respCh
    /\ responded' = responded + 1
    /\ rcvd' = rcvd \cup {p}
    /\ steps' = steps + 1
    /\ counts' = IF Counting THEN [counts EXCEPT ![beh[p].v] = @ + 1] ELSE counts
    /\ \/ /\ variant = "Best"
          /\ best' \in (IF best = 0 THEN {p}
                         ELSE IF beh[p].s > beh[best].s THEN {p}
                         ELSE IF beh[p].s < beh[best].s THEN {best}
                         ELSE {p, best})                 \* equal scores: left open by the property
       \/ variant = "First" /\ best' = p
       \/ Counting /\ best' = best
    \* Go hands the freed buffer slot to a waiting sender in the same operation
    /\ IF Blocked(TRUE) = {} THEN respCh' = respCh \ {p} /\ pst' = pst
       ELSE \E q \in Blocked(TRUE) : respCh' = (respCh \ {p}) \cup {q} /\ pst' = [pst EXCEPT ![q] = "done"]
    /\ UNCHANGED <<variant, n, thr, cap, beh, ph, clock, errCh, pc, errored, timedOut, softTimedOut, hardSel, result>>

RecvErr(p) ==
    /\ Running /\ TwoCh /\ p \in errCh
    /\ errored' = errored + 1
    /\ steps' = steps + 1
    /\ IF Blocked(FALSE) = {} THEN errCh' = errCh \ {p} /\ pst' = pst
       ELSE \E q \in Blocked(FALSE) : errCh' = (errCh \ {p}) \cup {q} /\ pst' = [pst EXCEPT ![q] = "done"]
    /\ UNCHANGED <<variant, n, thr, cap, beh, ph, clock, respCh, pc, responded, timedOut, softTimedOut, best, counts,
                   rcvd, hardSel, result>>

\* case <-softCtx.Done()
SelectSoft ==
    /\ SoftReady
    /\ steps' = steps + 1
    /\ IF variant = "Majority"
       THEN pc' = "loop2" /\ UNCHANGED <<timedOut, softTimedOut>>
       ELSE /\ pc' = pc
            /\ \/ responded > 0 /\ timedOut' = n - responded - errored /\ softTimedOut' = 0
               \* the property does not oblige `best` to stop here; without a response it must go on
               \/ timedOut' = timedOut /\ softTimedOut' = n - responded - errored - timedOut
    /\ UNCHANGED <<variant, n, thr, cap, beh, ph, clock, pst, respCh, errCh, responded, errored, best, counts, rcvd,
                   hardSel, result>>

\* case <-ctx.Done()
SelectHard ==
    /\ HardReady
    /\ steps' = steps + 1
    /\ hardSel' = TRUE
    /\ timedOut' = IF variant \in {"Best", "RootMajority"} THEN n - responded - errored ELSE timedOut
    /\ UNCHANGED <<variant, n, thr, cap, beh, ph, clock, pst, respCh, errCh, pc, responded, errored, softTimedOut, best,
                   counts, rcvd, result>>

ExitLoop1 ==
    /\ pc = "loop1" /\ (Complete \/ EarlyStopOK)
    /\ pc' = "loop2"
    /\ UNCHANGED <<variant, n, thr, cap, beh, ph, clock, pst, respCh, errCh, responded, errored, timedOut, softTimedOut,
                   best, counts, rcvd, hardSel, steps, result>>

Results ==
    CASE variant \in {"Best", "First"} -> IF best = 0 THEN {Err} ELSE {Ok(best, beh[best].v)}
      [] variant = "Majority" ->
            IF Largest = 0 \/ Largest < thr THEN {Err}
            ELSE {Ok(0, v) : v \in {w \in Values : counts[w] = Largest}}
      [] variant = "RootMajority" ->
            IF Largest = 0 THEN {Err} ELSE {Ok(0, v) : v \in {w \in Values : counts[w] = Largest}}

ReturnEnabled == pc = "loop2" /\ (Complete \/ hardSel \/ EarlyStopOK)

Return ==
    /\ ReturnEnabled
    /\ pc' = "done"
    /\ result' \in Results
    /\ UNCHANGED <<variant, n, thr, cap, beh, ph, clock, pst, respCh, errCh, responded, errored, timedOut, softTimedOut,
                   best, counts, rcvd, hardSel, steps>>

-----------------------------------------------------------------------------
\* the environment

\* node p answers in its phase; a silent node's request ends with the strategy's context
Due(p) ==
    /\ pst[p] = "idle"
    /\ IF beh[p].k = "silent" THEN clock = "late" \/ pc = "done" ELSE ph[p] = clock

\* the provider goroutine hands its node's answer to the collector (or drops it)
Send(p) ==
    /\ IF Acceptable(p)
       THEN /\ errCh' = errCh
            /\ IF Cardinality(respCh) < cap
               THEN respCh' = respCh \cup {p} /\ pst' = [pst EXCEPT ![p] = "done"]
               ELSE respCh' = respCh /\ pst' = [pst EXCEPT ![p] = "blocked"]
       ELSE IF TwoCh
       THEN /\ respCh' = respCh
            /\ IF Cardinality(errCh) < cap
               THEN errCh' = errCh \cup {p} /\ pst' = [pst EXCEPT ![p] = "done"]
               ELSE errCh' = errCh /\ pst' = [pst EXCEPT ![p] = "blocked"]
       \* `first` drops errors and (per the property) missing data
       ELSE respCh' = respCh /\ errCh' = errCh /\ pst' = [pst EXCEPT ![p] = "done"]
    /\ UNCHANGED <<variant, n, thr, cap, beh, ph, clock, pc, responded, errored, timedOut, softTimedOut, best, counts,
                   rcvd, hardSel, steps, result>>

Respond(p) == Due(p) /\ Quiescent /\ Send(p)

NoneDue(phase) == \A p \in Provs : ~(pst[p] = "idle" /\ beh[p].k # "silent" /\ ph[p] = phase)

SoftExpire ==
    /\ pc # "idle" /\ clock = "early" /\ Quiescent /\ NoneDue("early")
    /\ clock' = "mid"
    /\ UNCHANGED <<variant, n, thr, cap, beh, ph, pst, respCh, errCh, pc, responded, errored, timedOut, softTimedOut,
                   best, counts, rcvd, hardSel, steps, result>>

HardExpire ==
    /\ pc # "idle" /\ clock = "mid" /\ Quiescent /\ NoneDue("mid")
    /\ clock' = "late"
    /\ UNCHANGED <<variant, n, thr, cap, beh, ph, pst, respCh, errCh, pc, responded, errored, timedOut, softTimedOut,
                   best, counts, rcvd, hardSel, steps, result>>

Finished == pc = "done" /\ clock = "late" /\ \A p \in Provs : pst[p] # "idle"

Terminated == Finished /\ UNCHANGED vars

-----------------------------------------------------------------------------
KindNo(k) == CASE k = "valid" -> 0 [] k = "invalid" -> 1 [] k = "error" -> 2 [] k = "silent" -> 3 [] OTHER -> 4
PhaseNo(x) == CASE x = "early" -> 1 [] x = "mid" -> 2 [] x = "late" -> 3
Code(b, f) == ((KindNo(b.k) * 10 + b.v) * 10 + b.s) * 10 + PhaseNo(f)

\* what a node can do, per variant (dimensions that cannot matter to a variant are fixed).
\* Env_NoNilRoot: the block-root strategies have no validity rule (a nil root is C16's subject).
Behaviours(var) ==
    {[k |-> "valid", v |-> v, s |-> s] :
        v \in (IF var \in {"Majority", "RootMajority"} THEN Values ELSE {x \in Values : \A w \in Values : x <= w}),
        s \in (IF var = "Best" THEN Scores ELSE {0})}
    \cup {[k |-> "error", v |-> 0, s |-> 0], [k |-> "silent", v |-> 0, s |-> 0]}
    \cup (IF var # "RootMajority" THEN {[k |-> "invalid", v |-> 0, s |-> 0]} ELSE {})

InitCollector ==
    /\ clock = "early"
    /\ pst = [p \in Provs |-> "idle"]
    /\ respCh = {} /\ errCh = {}
    /\ pc = IF variant = "First" THEN "loop2" ELSE "loop1"
    /\ responded = 0 /\ errored = 0 /\ timedOut = 0 /\ softTimedOut = 0
    /\ best = 0
    /\ counts = [v \in Values |-> 0]
    /\ rcvd = {}
    /\ hardSel = FALSE
    /\ steps = 0
    /\ result = NoResult

\* the same, primed (a trace starts a new strategy call with it)
ClearCollector(newpc) ==
    /\ clock' = "early"
    /\ pst' = [p \in 1..n' |-> "idle"]
    /\ respCh' = {} /\ errCh' = {}
    /\ pc' = newpc
    /\ responded' = 0 /\ errored' = 0 /\ timedOut' = 0 /\ softTimedOut' = 0
    /\ best' = 0
    /\ counts' = [v \in Values |-> 0]
    /\ rcvd' = {}
    /\ hardSel' = FALSE
    /\ steps' = 0
    /\ result' = NoResult

ResetCollector == ClearCollector(IF variant' = "First" THEN "loop2" ELSE "loop1")

\* what one call of an instance shares with the next: the construction parameters, nothing else
Persistent == <<variant, n, thr, cap>>

\* Between two calls the instance is at rest: every per-call variable is void.  (The previous call has
\* returned and its stragglers have finished - calls of neighbouring slots are a slot apart; a call
\* started while another one is still in flight is CollectorInst!StartOverlap.)
AtRest ==
    /\ pc = "idle" /\ clock = "early"
    /\ beh = [p \in Provs |-> NoBeh] /\ ph = [p \in Provs |-> "late"]
    /\ pst = [p \in Provs |-> "idle"] /\ respCh = {} /\ errCh = {}
    /\ responded = 0 /\ errored = 0 /\ timedOut = 0 /\ softTimedOut = 0 /\ best = 0
    /\ counts = [v \in Values |-> 0] /\ rcvd = {} /\ hardSel = FALSE /\ steps = 0 /\ result = NoResult

EndCall ==
    /\ Finished
    /\ UNCHANGED Persistent
    /\ beh' = [p \in Provs |-> NoBeh] /\ ph' = [p \in Provs |-> "late"]
    /\ ClearCollector("idle")

\* The instance is called again (the next slot's duty, the next aggregate ...): same construction
\* parameters, the nodes do whatever they do this time, the collector starts from scratch.
NextCall ==
    /\ pc = "idle"
    /\ UNCHANGED Persistent
    /\ beh' \in [Provs -> Behaviours(variant)]
    /\ ph' \in [Provs -> {"early", "mid", "late"}]
    /\ \A p \in Provs : beh'[p].k = "silent" => ph'[p] = "late"
    /\ \A p \in Provs : p < n => Code(beh'[p], ph'[p]) <= Code(beh'[p + 1], ph'[p + 1])
    /\ ResetCollector

Init ==
    /\ variant \in Variants
    /\ n \in 1..MaxN
    /\ thr \in (IF variant = "Majority" THEN 0..n ELSE {0})
    /\ cap = IF variant = "First" /\ FirstCap # 0 THEN FirstCap ELSE n
    /\ beh \in [Provs -> Behaviours(variant)]
    /\ ph \in [Provs -> {"early", "mid", "late"}]
    /\ \A p \in Provs : beh[p].k = "silent" => ph[p] = "late"
    \* providers are interchangeable: one representative per multiset
    /\ \A p \in Provs : p < n => Code(beh[p], ph[p]) <= Code(beh[p + 1], ph[p + 1])
    /\ InitCollector

Next ==
    \/ \E p \in Provs : Respond(p) \/ RecvResp(p) \/ RecvErr(p)
    \/ SelectSoft \/ SelectHard \/ ExitLoop1 \/ Return
    \/ SoftExpire \/ HardExpire
    \/ Terminated

\* one call on a fresh instance
Spec == Init /\ [][Next]_vars /\ WF_vars(Next)

\* the instance over its life: call after call
InstNext == Next \/ EndCall \/ NextCall

InstSpec == Init /\ [][InstNext]_vars /\ WF_vars(InstNext)

-----------------------------------------------------------------------------
ValidP == {p \in Provs : Acceptable(p)}
EarlyValid == {p \in ValidP : ph[p] = "early"}
MidValid == {p \in ValidP : ph[p] = "mid"}
InTime == EarlyValid \cup MidValid           \* acceptable responses that arrive within the time-out
Decided == result.st # "none"

TypeOK ==
    /\ variant \in Variants /\ n \in 1..MaxN /\ thr \in 0..n
    /\ clock \in {"early", "mid", "late"}
    /\ pc \in {"loop1", "loop2", "done", "idle"}
    /\ pc = "idle" => AtRest
    /\ respCh \subseteq Provs /\ errCh \subseteq Provs
    /\ Cardinality(respCh) <= cap /\ Cardinality(errCh) <= cap
    /\ best \in 0..n /\ rcvd \subseteq Provs
    /\ (pc = "done") = Decided

\* C07 "returns within its configured timeout": once the hard time-out has been selected the
\* collector does nothing but return; it decides before any node of the late phase is heard;
\* every loop iteration consumes an event (n answers, two time-outs at most).
ReturnsByHard ==
    /\ hardSel => (pc = "done" \/ ReturnEnabled)
    /\ pc # "done" => \A p \in Provs : (beh[p].k # "silent" /\ ph[p] = "late") => pst[p] = "idle"
    /\ steps <= n + 2

\* C07 "best returns the highest-scoring valid response received by its decision point"; the
\* decision point is not before the soft time-out unless every node has answered, and not
\* before the hard one (or all answers) when nothing acceptable arrived before the soft one.
BestIsMax ==
    (variant = "Best" /\ result.st = "ok") =>
        /\ result.p \in rcvd
        /\ \A q \in rcvd : beh[q].s <= beh[result.p].s
        /\ EarlyValid \subseteq rcvd
        /\ EarlyValid = {} => MidValid \subseteq rcvd

Rep(v) == Cardinality({p \in InTime : beh[p].v = v})
MaxRep == Max({Rep(v) : v \in Values} \cup {0})
Cnt(v) == Cardinality({p \in rcvd : beh[p].v = v})
AllRep(v) == Cardinality({p \in ValidP : beh[p].v = v})

\* C07 "majority returns the most frequently reported value, which it uses whenever at least
\* the configured threshold of nodes reported it within the timeout and never otherwise"
MajorityRule ==
    /\ (variant = "Majority" /\ Decided) =>
          IF MaxRep >= thr /\ MaxRep >= 1
          THEN result.st = "ok" /\ Rep(result.v) = MaxRep
          ELSE result.st = "err"
    /\ (variant = "RootMajority" /\ result.st = "ok") =>
          /\ \A w \in Values : Cnt(w) <= Cnt(result.v)
          /\ Cnt(result.v) >= 1
          \* decided on everything that was due, or when no answer could change the outcome any more
          /\ \/ EarlyValid \subseteq rcvd /\ (EarlyValid = {} => MidValid \subseteq rcvd)
             \/ \A w \in Values : AllRep(w) <= AllRep(result.v)

\* C07 "first returns a response some node actually gave"
FirstIsSome ==
    (variant = "First" /\ result.st = "ok") =>
        result.p \in rcvd /\ Acceptable(result.p) /\ pst[result.p] = "done" /\ ph[result.p] # "late"

\* C07 "an error exactly when no acceptable response arrived in time"
ErrorIffNothing ==
    Decided =>
        /\ InTime = {} => result.st = "err"
        /\ variant # "Majority" => (result.st = "err" => InTime = {})

\* C07 "responses that fail the strategy's validity rules are never returned"
InvalidNeverReturned ==
    result.st = "ok" =>
        IF result.p # 0 THEN Acceptable(result.p)
        ELSE \E q \in rcvd : Acceptable(q) /\ beh[q].v = result.v

\* every call ends with a decision (deadlock freedom + acyclicity of a call give the same)
Termination == <>(pc = "done")
EveryCallReturns == (pc \in {"loop1", "loop2"}) ~> (pc = "done")

\* C07 is a statement about every call, whatever the instance has been through: a call starts from the
\* state a call on a fresh instance starts from - nothing but Persistent is carried into it.
FreshCall ==
    /\ clock = "early" /\ pst = [p \in Provs |-> "idle"] /\ respCh = {} /\ errCh = {}
    /\ pc = (IF variant = "First" THEN "loop2" ELSE "loop1")
    /\ responded = 0 /\ errored = 0 /\ timedOut = 0 /\ softTimedOut = 0 /\ best = 0
    /\ counts = [v \in Values |-> 0] /\ rcvd = {} /\ hardSel = FALSE /\ steps = 0 /\ result = NoResult
\* (At rest nothing of the previous call is left: TypeOK, pc = "idle" => AtRest.)
HistoryIndependent ==
    [][/\ UNCHANGED Persistent
       /\ (pc = "idle" /\ pc' # "idle") => FreshCall']_vars

\* For C20 (not part of C07's verdict): after the strategy has returned no provider goroutine
\* is left blocked in a channel send that nobody will ever receive.
NoBlockedSender == pc = "done" => \A p \in Provs : pst[p] # "blocked"
=============================================================================
