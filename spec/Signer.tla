------------------------------- MODULE Signer -------------------------------
(* The standard signer of Vouch (services/signer/standard/*.go).                                  *)
(*                                                                                                *)
(* Property C06: for every signing request the signature returned verifies under the requested    *)
(* account's public key against the signing root defined by the consensus / builder specification,*)
(* with the domain type of that duty and the fork domain of the duty's epoch; in batch requests   *)
(* the i-th signature belongs to the i-th account and message, for any mixture and order of       *)
(* ordinary and distributed accounts.                                                             *)
(*                                                                                                *)
(* What is decided here (and what is not): the specification decides WHICH domain is requested    *)
(* (type, epoch rule, genesis or fork domain), WHICH message container is signed, WHICH key must  *)
(* verify each position and that the order survives the split by account kind.  Hash-tree-roots   *)
(* and the BLS pairing check are computed in Go (trusted base) and enter the traces as booleans.  *)
(*                                                                                                *)
(* The environment is a HISTORY: the signer is one long-lived service that serves a sequence of    *)
(* requests r = 1..NReq (any operations, any epochs - in particular on both sides of the epoch at  *)
(* which the chain forks, where the fork version and hence EVERY domain changes), and the requests *)
(* may OVERLAP: the domain provider is a remote consensus client whose reply is delayed            *)
(* arbitrarily, so any number of other requests can start and finish between a request's           *)
(* FetchDomain and its DomainResp.  The property is per request and does not mention the history:  *)
(* whatever happened before or happens concurrently, every returned signature is over the signing  *)
(* root built with the domain of the request's OWN type and epoch.  The protocol specified here is *)
(* memoryless; an implementation may remember domains, but only transparently (Recall).            *)
(* The same holds for the SIGNING phase: signer calls take time (SignStart ... SignEnd), requests  *)
(* of neighbouring slots and of the sync committee jobs run beside each other on the one service   *)
(* (beaconcommitteesubscriber: one goroutine per slot calling SignSlotSelections; sync committee   *)
(* messenger / aggregator jobs), and what a signer call of request r is handed is r's OWN accounts *)
(* and messages, whatever other requests started, signed or returned meanwhile (HandedOwn); the    *)
(* working storage of the split (groups, index maps) belongs to the request.  The only state the   *)
(* property makes persistent on the instance is NONE; a reply, once returned, belongs to the       *)
(* caller (ReplyStable).                                                                           *)
(*                                                                                                *)
(* START-UP.  The signer learns the domain TYPES (and SLOTS_PER_EPOCH) once, from the spec map the  *)
(* beacon node hands to New().  That map is an input of the environment per instance (`boot`):     *)
(* every key may be listed with a value of the right Go type, be ABSENT (a node of an earlier fork *)
(* does not list the sync committee domain types; DOMAIN_APPLICATION_BUILDER belongs to the        *)
(* builder specification and is not part of the consensus configuration; DOMAIN_BLOB_SIDECAR was   *)
(* dropped from the final Deneb specification), be listed with a value of ANOTHER Go type, or the  *)
(* whole lookup may fail; the chain's SLOTS_PER_EPOCH differs between networks.  The property does *)
(* not change with the start-up input: per signing operation, EITHER the service refuses (error,   *)
(* no signature) OR the signature is over the signing root with the domain type the                *)
(* SPECIFICATIONS define for that duty - the constant table DomainTypeBytes below, taken from the  *)
(* consensus and builder specifications, not from the implementation, its mock or the node.  A     *)
(* service that knows a constant on its own (a built-in default for a key the node does not list)  *)
(* is legal exactly if the constant is the specifications' value (control model SignerBoot.tla).   *)
(*                                                                                                *)
(* One action per interface call of the Go code (r = the request it belongs to):                  *)
(*   Start(ok)        New(): specProvider.Spec is called; the service comes up, or refuses to     *)
(*                    (only when the node's map is not complete)                                  *)
(*   Call(r, c)       a duty service calls one of the Sign* methods                               *)
(*   Refuse(r)        the call returns an error and no signature WITHOUT a failure of the         *)
(*                    environment: allowed when the start-up input lacks what the operation needs *)
(*                    (or the call carries nothing that can be signed)                            *)
(*   FetchDomain(r)   domainProvider.Domain / GenesisDomain is called (trace event DomainReq)     *)
(*   RefetchDomain(r) the same request again (the per-account path of SignBeaconAttestations)     *)
(*   DomainResp(r)    the provider's reply arrives (may be an error), arbitrarily late            *)
(*   Recall(r)        the domain is obtained without asking the provider (a cache); allowed only  *)
(*                    if it is exactly what the provider would answer for THIS request            *)
(*   SignStart(r, idx) a signer call (account.Sign / SignGeneric / SignGenericMulti /              *)
(*                    SignBeaconAttestation(s) / SignBeaconProposal) is MADE: the signer is handed *)
(*                    accounts and messages - in this protocol those of positions idx of request r *)
(*                    itself (one of the two groups of the split by account kind: SignGroupStart)  *)
(*   SignEnd(r)       the signer call RETURNS, arbitrarily late (a remote / threshold signer):     *)
(*                    every action of every other request is enabled in between; the signatures    *)
(*                    are put back through the index map                                           *)
(*   SignerFails(r)   a signer call returns an error                                              *)
(*   Return(r), ReturnErr(r)                                                                      *)
EXTENDS Integers, Sequences, FiniteSets, TLC

CONSTANTS SlotsPerEpoch,   \* 32
          Slots,           \* slots a request can be for
          GivenEpochs,     \* epochs handed to SignSyncCommitteeRoots
          MaxBatch,        \* longest batch
          NReq,            \* number of requests in one history of the service
          ForkEpochs       \* epochs at which the chain's fork may activate (one per history)

Rids == 1..NReq

-----------------------------------------------------------------------------
(* The table: operation -> domain type, epoch rule, message container, batch or single.           *)
(*   epoch rule "slot"    : epoch(slot argument) = slot \div SLOTS_PER_EPOCH                      *)
(*              "given"   : the epoch argument                                                    *)
(*              "genesis" : no epoch - the domain is computed with the GENESIS fork version and a *)
(*                          zero genesis validators root (builder specification)                  *)
(*   msg = the SSZ container whose hash-tree-root is signed (consensus-spec name)                 *)
SigSpec == [
  attestation         |-> [dom |-> "DOMAIN_BEACON_ATTESTER",                epoch |-> "slot",    msg |-> "AttestationData",             batch |-> FALSE],
  attestations        |-> [dom |-> "DOMAIN_BEACON_ATTESTER",                epoch |-> "slot",    msg |-> "AttestationData",             batch |-> TRUE],
  proposal            |-> [dom |-> "DOMAIN_BEACON_PROPOSER",                epoch |-> "slot",    msg |-> "BeaconBlockHeader",           batch |-> FALSE],
  randao              |-> [dom |-> "DOMAIN_RANDAO",                         epoch |-> "slot",    msg |-> "EpochUint64",                 batch |-> FALSE],
  slot_selection      |-> [dom |-> "DOMAIN_SELECTION_PROOF",                epoch |-> "slot",    msg |-> "SlotUint64",                  batch |-> TRUE],
  sync_selection      |-> [dom |-> "DOMAIN_SYNC_COMMITTEE_SELECTION_PROOF", epoch |-> "slot",    msg |-> "SyncAggregatorSelectionData", batch |-> TRUE],
  aggregate_and_proof |-> [dom |-> "DOMAIN_AGGREGATE_AND_PROOF",            epoch |-> "slot",    msg |-> "AggregateAndProof",           batch |-> FALSE],
  sync_root           |-> [dom |-> "DOMAIN_SYNC_COMMITTEE",                 epoch |-> "given",   msg |-> "BlockRoot",                   batch |-> TRUE],
  contribution        |-> [dom |-> "DOMAIN_CONTRIBUTION_AND_PROOF",         epoch |-> "slot",    msg |-> "ContributionAndProof",        batch |-> TRUE],
  blob_sidecar        |-> [dom |-> "DOMAIN_BLOB_SIDECAR",                   epoch |-> "slot",    msg |-> "BlobSidecarRoot",             batch |-> FALSE],
  registration        |-> [dom |-> "DOMAIN_APPLICATION_BUILDER",            epoch |-> "genesis", msg |-> "ValidatorRegistrationV1",     batch |-> FALSE]
]

Ops == DOMAIN SigSpec
BatchOps == {o \in Ops : SigSpec[o].batch}

(* The domain types, as the SPECIFICATIONS define them (4 bytes, in the order they are written into *)
(* the domain):                                                                                   *)
(*   consensus-specs phase0/beacon-chain.md "Domain types": DOMAIN_BEACON_PROPOSER 0x00000000,     *)
(*     DOMAIN_BEACON_ATTESTER 0x01000000, DOMAIN_RANDAO 0x02000000, DOMAIN_DEPOSIT 0x03000000,     *)
(*     DOMAIN_VOLUNTARY_EXIT 0x04000000, DOMAIN_SELECTION_PROOF 0x05000000,                        *)
(*     DOMAIN_AGGREGATE_AND_PROOF 0x06000000;                                                      *)
(*   altair/beacon-chain.md: DOMAIN_SYNC_COMMITTEE 0x07000000,                                     *)
(*     DOMAIN_SYNC_COMMITTEE_SELECTION_PROOF 0x08000000, DOMAIN_CONTRIBUTION_AND_PROOF 0x09000000; *)
(*   capella/beacon-chain.md: DOMAIN_BLS_TO_EXECUTION_CHANGE 0x0A000000;                           *)
(*   deneb (drafts up to v1.4.0-beta.1) validator.md: DOMAIN_BLOB_SIDECAR 0x0B000000;              *)
(*   builder-specs specs/bellatrix/builder.md "Domain types": DOMAIN_APPLICATION_BUILDER           *)
(*     0x00000001 - the ONE type whose non-zero byte is the last one.                              *)
(* This table is the oracle: the scenarios carry its rows to the driver, which builds the domain   *)
(* and the signing root every returned signature must verify against from THEM, whatever the       *)
(* service was handed at start-up.                                                                 *)
DomainTypeBytes == [
  DOMAIN_BEACON_PROPOSER                |-> <<0, 0, 0, 0>>,
  DOMAIN_BEACON_ATTESTER                |-> <<1, 0, 0, 0>>,
  DOMAIN_RANDAO                         |-> <<2, 0, 0, 0>>,
  DOMAIN_DEPOSIT                        |-> <<3, 0, 0, 0>>,
  DOMAIN_VOLUNTARY_EXIT                 |-> <<4, 0, 0, 0>>,
  DOMAIN_SELECTION_PROOF                |-> <<5, 0, 0, 0>>,
  DOMAIN_AGGREGATE_AND_PROOF            |-> <<6, 0, 0, 0>>,
  DOMAIN_SYNC_COMMITTEE                 |-> <<7, 0, 0, 0>>,
  DOMAIN_SYNC_COMMITTEE_SELECTION_PROOF |-> <<8, 0, 0, 0>>,
  DOMAIN_CONTRIBUTION_AND_PROOF         |-> <<9, 0, 0, 0>>,
  DOMAIN_BLS_TO_EXECUTION_CHANGE        |-> <<10, 0, 0, 0>>,
  DOMAIN_BLOB_SIDECAR                   |-> <<11, 0, 0, 0>>,
  DOMAIN_APPLICATION_BUILDER            |-> <<0, 0, 0, 1>>
]

TypeOf(o) == DomainTypeBytes[SigSpec[o].dom]

-----------------------------------------------------------------------------
(* The start-up input of one service instance (`boot`): what the beacon node's spec map holds for *)
(* every key the signer can use, and the chain's slots per epoch.                                  *)
(*   keys[k]  "ok"      listed, value of the Go type the signer expects (phase0.DomainType /       *)
(*                      uint64) - and then it IS the specifications' value (Env_NodeValuesRight)   *)
(*            "absent"  not listed                                                                *)
(*            "badtype" listed with a value of another Go type (string, []byte, ...)               *)
(*   specerr  the lookup itself fails (Spec() returns an error): nothing is usable                 *)
(*   spe      SLOTS_PER_EPOCH of the chain (32 mainnet preset, 8 minimal preset)                   *)
SpecKeys == {"SLOTS_PER_EPOCH"} \cup {SigSpec[o].dom : o \in Ops}
KeyModes == {"ok", "absent", "badtype"}

\* keys that a node of an earlier fork / without the builder or blob additions does not list
LaterKeys == {"DOMAIN_SYNC_COMMITTEE", "DOMAIN_SYNC_COMMITTEE_SELECTION_PROOF", "DOMAIN_CONTRIBUTION_AND_PROOF",
              "DOMAIN_APPLICATION_BUILDER", "DOMAIN_BLOB_SIDECAR"}

BootOf(f, n) == [keys |-> [k \in SpecKeys |-> IF k \in DOMAIN f THEN f[k] ELSE "ok"], spe |-> n, specerr |-> FALSE]
NoKeys == [k \in {} |-> "ok"]
CompleteBoot(n) == BootOf(NoKeys, n)
SpecErrBoot(n) == [CompleteBoot(n) EXCEPT !.specerr = TRUE]
\* every assignment of `modes` to the keys K, the others listed properly
BootsOver(K, modes, n) == {BootOf(f, n) : f \in [K -> modes]}
\* one key not usable, in either way
BootsOneBroken(K, n) == {BootOf(k :> m, n) : k \in K, m \in {"absent", "badtype"}}

\* the start-up inputs of a configuration; the default is the complete map (cfg files widen it with
\* `Boots <- ...`)
Boots == {CompleteBoot(SlotsPerEpoch)}

\* messages whose content differs per position of a batch (committee index, subcommittee index,
\* aggregator index); the others sign the same root for every account of the batch
PerIndexMsg == {"AttestationData", "SyncAggregatorSelectionData", "ContributionAndProof"}

-----------------------------------------------------------------------------
(* Account kinds.  The signer type-switches on: e2wtypes.DistributedAccount (split into two        *)
(* groups), AccountProtectingSigner / AccountProtectingMultiSigner (Dirk: the signer hands over    *)
(* the duty's fields and the domain) versus AccountSigner (local key: the signer builds the       *)
(* signing root itself).                                                                          *)
Kinds == {"plain", "plain_dist", "prot", "prot_dist"}
IsDistributed(k) == k \in {"plain_dist", "prot_dist"}
IsProtecting(k) == k \in {"prot", "prot_dist"}

\* the key a signature must verify under: a Dirk distributed account returns the recombined
\* threshold signature, which belongs to the composite (validator) key; every other kind signs
\* with the key behind PublicKey()
VerKey(k) == IF k = "prot_dist" THEN "composite" ELSE "own"

\* Env_OneAccountManager: Vouch runs one account manager, so a batch is drawn from one family
Family(k) == IF IsProtecting(k) THEN "dirk" ELSE "wallet"
FamilyKinds(f) == {k \in Kinds : Family(k) = f}

SeqsUpTo(S, n) == UNION {[1..m -> S] : m \in 1..n}
AllBatches(n) == SeqsUpTo(Kinds, n)
EnvBatches(n) == UNION {SeqsUpTo(FamilyKinds(f), n) : f \in {"dirk", "wallet"}}

-----------------------------------------------------------------------------
(* The batch model: split by account kind with index maps, sign each group, merge back.           *)
Positions(kinds) == [i \in 1..Len(kinds) |-> i]
OrdIdx(kinds) == SelectSeq(Positions(kinds), LAMBDA i : ~IsDistributed(kinds[i]))
DistIdx(kinds) == SelectSeq(Positions(kinds), LAMBDA i : IsDistributed(kinds[i]))
Groups(kinds) == <<OrdIdx(kinds), DistIdx(kinds)>>

Range(s) == {s[j] : j \in 1..Len(s)}

\* Merge: position i of the reply comes from the group that holds i, at the place the index map says
Merge(n, ordIdx, ordSigs, distIdx, distSigs) ==
    [i \in 1..n |-> IF i \in Range(ordIdx)
                    THEN ordSigs[CHOOSE j \in 1..Len(ordIdx) : ordIdx[j] = i]
                    ELSE distSigs[CHOOSE j \in 1..Len(distIdx) : distIdx[j] = i]]

Map(f(_), idx) == [j \in 1..Len(idx) |-> f(idx[j])]

\* the theorem of the batch model, for an arbitrary per-position signing function
MergeSplitLaw(kinds, sig(_)) ==
    Merge(Len(kinds), OrdIdx(kinds), Map(sig, OrdIdx(kinds)), DistIdx(kinds), Map(sig, DistIdx(kinds)))
        = [i \in 1..Len(kinds) |-> sig(i)]

-----------------------------------------------------------------------------
VARIABLES fork,      \* the epoch at which the chain of this history forks
          boot,      \* the start-up input of this service instance (never changes)
          svc,       \* the service instance: "new" (New() not called yet) | "up" | "nostart" (New() refused)
          pc,        \* per request: "idle" | "called" | "waiting" (provider call outstanding) | "sign" |
                     \*              "insign" (signer call outstanding) | "failed" | "done" | "error"
          req,       \* per request: the request
          domreqs,   \* per request: the domain requests it made so far (sequence)
          dom,       \* per request: the domain value it holds (latest reply / recalled), NoDomain before
          insign,    \* per request: the signer call in flight: items handed (in the order handed) and the
                     \*              positions of the reply its signatures will be put at; NoSign outside a call
          signed,    \* per request: function positions signed so far -> abstract signature (or Absent)
          result     \* per request: the reply: sequence of abstract signatures, <<>> before / on error

bootvars == <<boot, svc>>
vars == <<fork, boot, svc, pc, req, domreqs, dom, insign, signed, result>>

\* what the service can have learnt at start-up
Usable(k) == (~boot.specerr) /\ boot.keys[k] = "ok"
\* what an operation needs from the start-up input: its domain type, and the slots per epoch where the epoch
\* of the domain is derived from a slot
NeedKeys(o) == {SigSpec[o].dom} \cup (IF SigSpec[o].epoch = "slot" THEN {"SLOTS_PER_EPOCH"} ELSE {})
CanServe(o) == \A k \in NeedKeys(o) : Usable(k)

-----------------------------------------------------------------------------
(* Requests.                                                                                      *)
\* c = [op, slot, epoch, kinds, fail, failidx]
\*   slot    the slot argument (attestation slot, proposal slot, contribution.slot, ...)
\*   epoch   the epoch argument of sync_root (ignored by the others)
\*   fail    "none" | "domain" (domain provider errors) | "signer" (a signer call errors) |
\*           "nilsig" (the multi-signer returns no signature for position failidx) |
\*           "input" (the call carries nothing that can be signed: no registration, a registration
\*           without content, a registration of a version no specification defines)
\* the chain's slots per epoch is part of the instance's start-up input
EpochOfSlot(s) == s \div boot.spe

DutyEpoch(c) == CASE SigSpec[c.op].epoch = "slot"    -> EpochOfSlot(c.slot)
                  [] SigSpec[c.op].epoch = "given"   -> c.epoch
                  [] SigSpec[c.op].epoch = "genesis" -> -1

\* the request the signer must make to the domain provider
DomainReq(c) == [type    |-> TypeOf(c.op),
                 genesis |-> SigSpec[c.op].epoch = "genesis",
                 epoch   |-> DutyEpoch(c)]

\* the message position i must sign: the container and what distinguishes it
MsgOf(c, i) == [container |-> SigSpec[c.op].msg,
                slot      |-> IF SigSpec[c.op].epoch = "slot" THEN c.slot ELSE -1,
                epoch     |-> DutyEpoch(c),
                variant   |-> IF SigSpec[c.op].msg \in PerIndexMsg THEN i ELSE 0]

-----------------------------------------------------------------------------
(* The chain: one fork, activating at epoch f.  compute_domain(type, fork_version(epoch), root)    *)
(* depends on the epoch only through the fork version, so domains are distinct across the fork    *)
(* and equal on the same side of it; the builder's genesis domain does not depend on f.           *)
ForkVersion(e, f) == IF e < f THEN "old" ELSE "new"

\* the domain VALUE the chain defines for domain request q
DomainValue(q, f) == [type |-> q.type, ver |-> IF q.genesis THEN "genesis" ELSE ForkVersion(q.epoch, f)]
NoDomain == [type |-> <<>>, ver |-> "none"]

\* an abstract signature: who (the account at position i of request q, by the key that must verify it),
\* what, under which domain value
Sig(q, c, i, d) == [key |-> <<q, i, VerKey(c.kinds[i])>>, msg |-> MsgOf(c, i), dom |-> d]
Absent == [key |-> <<0, 0, "none">>]

\* what a signer call is handed, per element: the account and message of position pos of request rid
Item(q, i) == [rid |-> q, pos |-> i]

ValidCall(c) ==
    /\ c.op \in Ops
    /\ Len(c.kinds) >= 1
    /\ (~SigSpec[c.op].batch) => Len(c.kinds) = 1
    /\ c.fail \in {"none", "domain", "signer", "nilsig", "input"}
    /\ c.fail = "input" => c.op = "registration"
    /\ c.fail = "nilsig" => /\ SigSpec[c.op].batch
                            /\ \A i \in 1..Len(c.kinds) : IsProtecting(c.kinds[i])
                            /\ c.failidx \in 1..Len(c.kinds)
    /\ c.fail # "nilsig" => c.failidx = 0

CallsWith(batches, fails) ==
         {c \in [op : Ops, slot : Slots, epoch : GivenEpochs, kinds : batches,
                 fail : fails, failidx : 0..MaxBatch] :
            /\ ValidCall(c)
            /\ (SigSpec[c.op].epoch # "given") => c.epoch = CHOOSE e \in GivenEpochs : TRUE
            /\ (SigSpec[c.op].epoch # "slot") => c.slot = CHOOSE s \in Slots : TRUE}
Calls == CallsWith(EnvBatches(MaxBatch), {"none", "domain", "signer", "nilsig", "input"})

NoCall == [op |-> "none"]

-----------------------------------------------------------------------------
EmptyFn == [i \in {} |-> Absent]
NoSign == [items |-> <<>>, put |-> <<>>]

InitRequests ==
    /\ pc = [r \in Rids |-> "idle"]
    /\ req = [r \in Rids |-> NoCall]
    /\ domreqs = [r \in Rids |-> <<>>]
    /\ dom = [r \in Rids |-> NoDomain]
    /\ insign = [r \in Rids |-> NoSign]
    /\ signed = [r \in Rids |-> EmptyFn]
    /\ result = [r \in Rids |-> <<>>]

Init ==
    /\ fork \in ForkEpochs
    /\ boot \in Boots
    /\ svc = "new"
    /\ InitRequests

\* New(): the service asks the node for its spec map (specProvider.Spec) and comes up - or refuses to,
\* which it may only when the map is not complete (a service that never starts signs nothing wrong, but
\* nothing would be checked either).  Coming up with an incomplete map is allowed: what then matters is
\* what the operations do.
Start(ok) ==
    /\ svc = "new"
    /\ ok \/ \E k \in SpecKeys : ~Usable(k)
    /\ svc' = IF ok THEN "up" ELSE "nostart"
    /\ UNCHANGED <<fork, boot, pc, req, domreqs, dom, insign, signed, result>>

\* requests are numbered in the order in which they are made
Call(r, c) ==
    /\ svc = "up"
    /\ pc[r] = "idle"
    /\ \A q \in Rids : q < r => pc[q] # "idle"
    /\ ValidCall(c)
    /\ pc' = [pc EXCEPT ![r] = "called"]
    /\ req' = [req EXCEPT ![r] = c]
    /\ UNCHANGED <<fork, boot, svc, domreqs, dom, insign, signed, result>>

\* the request reaches the domain provider: the general step - WHICH domain is asked for is written down,
\* not assumed (used by the control model SignerBoot.tla) ...
FetchDomainWith(r, q) ==
    /\ pc[r] = "called"
    /\ domreqs' = [domreqs EXCEPT ![r] = Append(@, q)]
    /\ pc' = [pc EXCEPT ![r] = "waiting"]
    /\ UNCHANGED <<fork, boot, svc, req, dom, insign, signed, result>>

\* ... the protocol: the domain type the SPECIFICATIONS define for the duty, at the duty's epoch - whatever the
\* start-up input was (a service that does not know the type refuses instead: Refuse)
FetchDomain(r) == FetchDomainWith(r, DomainReq(req[r]))

\* the call returns an error and no signature although nothing in the environment failed: the instance was
\* not given what the operation needs at start-up (and does not know it on its own), or the call carries
\* nothing that can be signed.  Whether an instance that lacks the key refuses or knows the constant is its
\* own business; what it must not do is sign with anything else.
Refuse(r) ==
    /\ pc[r] \in {"called", "sign"}
    /\ (~CanServe(req[r].op)) \/ req[r].fail = "input"
    /\ pc' = [pc EXCEPT ![r] = "error"]
    /\ result' = [result EXCEPT ![r] = <<>>]
    /\ UNCHANGED <<fork, boot, svc, req, domreqs, dom, insign, signed>>

RefetchDomain(r) ==
    /\ pc[r] = "sign"
    /\ Len(domreqs[r]) <= Len(req[r].kinds)
    /\ domreqs' = [domreqs EXCEPT ![r] = Append(@, DomainReq(req[r]))]
    /\ pc' = [pc EXCEPT ![r] = "waiting"]
    /\ UNCHANGED <<fork, boot, svc, req, dom, insign, signed, result>>

\* ... whose reply arrives whenever it pleases: every action of every other request is enabled in
\* between.  The reply is the chain's domain for the request that was made.
DomainResp(r) ==
    /\ pc[r] = "waiting"
    /\ IF req[r].fail = "domain"
       THEN /\ pc' = [pc EXCEPT ![r] = "failed"]
            /\ UNCHANGED dom
       ELSE /\ pc' = [pc EXCEPT ![r] = "sign"]
            /\ dom' = [dom EXCEPT ![r] = DomainValue(domreqs[r][Len(domreqs[r])], fork)]
    /\ UNCHANGED <<fork, boot, svc, req, domreqs, insign, signed, result>>

\* the domain is produced from memory instead: transparent or not at all - it is the chain's domain for
\* the type and epoch of THIS request, whatever was asked, answered or stored for other requests
Recall(r) ==
    /\ pc[r] = "called"
    /\ pc' = [pc EXCEPT ![r] = "sign"]
    /\ dom' = [dom EXCEPT ![r] = DomainValue(DomainReq(req[r]), fork)]
    /\ UNCHANGED <<fork, boot, svc, req, domreqs, insign, signed, result>>

\* the signature a signer returns for item it when it is handed the domain d
Produced(it, d) ==
    LET c == req[it.rid]
    IN IF c.fail = "nilsig" /\ c.failidx = it.pos THEN Absent ELSE Sig(it.rid, c, it.pos, d)

NoRepeats(s) == \A j, k \in 1..Len(s) : j # k => s[j] # s[k]
OwnItems(r, idx) == [j \in 1..Len(idx) |-> Item(r, idx[j])]

\* a signer call is made: the general step - the signer is handed `items` (whose accounts and messages they
\* are is written down, not assumed), and the j-th signature it returns will be put at position put[j] of
\* request r's reply
SignStartWith(r, items, put) ==
    /\ pc[r] = "sign"
    /\ req[r].fail \notin {"signer", "input"}
    /\ Len(put) >= 1
    /\ Len(items) = Len(put)
    /\ NoRepeats(put)
    /\ Range(put) \subseteq (1..Len(req[r].kinds)) \ DOMAIN signed[r]
    /\ \A j \in 1..Len(items) : /\ items[j].rid \in Rids
                                 /\ req[items[j].rid] # NoCall
                                 /\ items[j].pos \in 1..Len(req[items[j].rid].kinds)
    /\ insign' = [insign EXCEPT ![r] = [items |-> items, put |-> put]]
    /\ pc' = [pc EXCEPT ![r] = "insign"]
    /\ UNCHANGED <<fork, boot, svc, req, domreqs, dom, signed, result>>

\* the protocol: a signer call of request r covers positions idx (a sequence without repetitions) of r -
\* the property does not prescribe how positions are grouped into calls - and is handed r's own accounts
\* and messages of exactly those positions
SignStart(r, idx) == SignStartWith(r, OwnItems(r, idx), idx)

\* the signer call returns - whenever it pleases: every action of every other request is enabled between
\* SignStart and SignEnd - and its signatures go where the index map says
SignEnd(r) ==
    /\ pc[r] = "insign"
    /\ LET c == insign[r]
           sigs == [j \in 1..Len(c.items) |-> Produced(c.items[j], dom[r])]   \* what the call returns, in the order handed
       IN signed' = [signed EXCEPT ![r] = [i \in DOMAIN signed[r] \cup Range(c.put) |->
                        IF i \in DOMAIN signed[r] THEN signed[r][i]
                        ELSE sigs[CHOOSE j \in 1..Len(c.put) : c.put[j] = i]]]   \* the index map
    /\ insign' = [insign EXCEPT ![r] = NoSign]
    /\ pc' = [pc EXCEPT ![r] = "sign"]
    /\ UNCHANGED <<fork, boot, svc, req, domreqs, dom, result>>

\* what the code does: the two groups of the split, one call (or one loop of calls) each
SignGroupStart(r, g) ==
    /\ pc[r] = "sign"
    /\ Len(Groups(req[r].kinds)[g]) >= 1
    /\ SignStart(r, Groups(req[r].kinds)[g])

\* SignStart and SignEnd in one step.  With ONE request per history nothing can happen between the two, so
\* the single-request configurations (MC_Signer.cfg, MC_Signer_big.cfg: every request of the constants) use
\* this step (NextAtomic); every configuration with more than one request uses the split one (Next).
SignSome(r, idx) ==
    /\ pc[r] = "sign"
    /\ req[r].fail \notin {"signer", "input"}
    /\ Len(idx) >= 1
    /\ NoRepeats(idx)
    /\ Range(idx) \subseteq (1..Len(req[r].kinds)) \ DOMAIN signed[r]
    /\ LET sigs == Map(LAMBDA i : Produced(Item(r, i), dom[r]), idx)
       IN signed' = [signed EXCEPT ![r] = [i \in DOMAIN signed[r] \cup Range(idx) |->
                        IF i \in DOMAIN signed[r] THEN signed[r][i]
                        ELSE sigs[CHOOSE j \in 1..Len(idx) : idx[j] = i]]]
    /\ UNCHANGED <<fork, boot, svc, pc, req, domreqs, dom, insign, result>>

SignGroup(r, g) ==
    /\ pc[r] = "sign"
    /\ Len(Groups(req[r].kinds)[g]) >= 1
    /\ SignSome(r, Groups(req[r].kinds)[g])

SignerFails(r) ==
    /\ pc[r] = "sign"
    /\ req[r].fail = "signer"
    /\ pc' = [pc EXCEPT ![r] = "failed"]
    /\ UNCHANGED <<fork, boot, svc, req, domreqs, dom, insign, signed, result>>

Return(r) ==
    /\ pc[r] = "sign"
    /\ DOMAIN signed[r] = 1..Len(req[r].kinds)
    /\ result' = [result EXCEPT ![r] = [i \in 1..Len(req[r].kinds) |-> signed[r][i]]]
    /\ pc' = [pc EXCEPT ![r] = "done"]
    /\ UNCHANGED <<fork, boot, svc, req, domreqs, dom, insign, signed>>

ReturnErr(r) ==
    /\ pc[r] = "failed"
    /\ result' = [result EXCEPT ![r] = <<>>]
    /\ pc' = [pc EXCEPT ![r] = "error"]
    /\ UNCHANGED <<fork, boot, svc, req, domreqs, dom, insign, signed>>

Next ==
    \/ \E ok \in BOOLEAN : Start(ok)
    \/ \E r \in Rids : pc[r] = "idle" /\ \E c \in Calls : Call(r, c)      \* (guard first: Calls is large)
    \/ \E r \in Rids :
          \/ FetchDomain(r) \/ RefetchDomain(r) \/ DomainResp(r) \/ Recall(r) \/ Refuse(r)
          \/ \E g \in {1, 2} : SignGroupStart(r, g)
          \/ SignEnd(r)
          \/ SignerFails(r)
          \/ Return(r) \/ ReturnErr(r)

Spec == Init /\ [][Next]_vars

NextAtomic ==
    \/ \E ok \in BOOLEAN : Start(ok)
    \/ \E r \in Rids : pc[r] = "idle" /\ \E c \in Calls : Call(r, c)      \* (guard first: Calls is large)
    \/ \E r \in Rids :
          \/ FetchDomain(r) \/ RefetchDomain(r) \/ DomainResp(r) \/ Recall(r) \/ Refuse(r)
          \/ \E g \in {1, 2} : SignGroup(r, g)
          \/ SignerFails(r)
          \/ Return(r) \/ ReturnErr(r)

SpecAtomic == Init /\ [][NextAtomic]_vars

-----------------------------------------------------------------------------
TypeOK ==
    /\ fork \in Int
    /\ svc \in {"new", "up", "nostart"}
    /\ boot.spe \in Nat \ {0}
    /\ boot.specerr \in BOOLEAN
    /\ \A k \in SpecKeys : boot.keys[k] \in KeyModes
    /\ \A r \in Rids :
          /\ pc[r] \in {"idle", "called", "waiting", "sign", "insign", "failed", "done", "error"}
          /\ DOMAIN signed[r] \subseteq 1..MaxBatch
          /\ (pc[r] = "insign") = (insign[r] # NoSign)

\* the domain type of every operation once more, written out byte by byte and independently of the tables
\* above (TableSane in MC_Signer.tla: TLC checks that the two renderings agree)
SpecType(op) ==
    CASE op \in {"attestation", "attestations"} -> <<1, 0, 0, 0>>       \* DOMAIN_BEACON_ATTESTER       0x01000000
      [] op = "proposal"                        -> <<0, 0, 0, 0>>       \* DOMAIN_BEACON_PROPOSER       0x00000000
      [] op = "randao"                          -> <<2, 0, 0, 0>>       \* DOMAIN_RANDAO                0x02000000
      [] op = "slot_selection"                  -> <<5, 0, 0, 0>>       \* DOMAIN_SELECTION_PROOF       0x05000000
      [] op = "aggregate_and_proof"             -> <<6, 0, 0, 0>>       \* DOMAIN_AGGREGATE_AND_PROOF   0x06000000
      [] op = "sync_root"                       -> <<7, 0, 0, 0>>       \* DOMAIN_SYNC_COMMITTEE        0x07000000
      [] op = "sync_selection"                  -> <<8, 0, 0, 0>>       \* DOMAIN_SYNC_COMMITTEE_SELECTION_PROOF
      [] op = "contribution"                    -> <<9, 0, 0, 0>>       \* DOMAIN_CONTRIBUTION_AND_PROOF 0x09000000
      [] op = "blob_sidecar"                    -> <<11, 0, 0, 0>>      \* DOMAIN_BLOB_SIDECAR          0x0B000000
      [] op = "registration"                    -> <<0, 0, 0, 1>>       \* DOMAIN_APPLICATION_BUILDER   0x00000001

\* C06: the domain asked for is the domain type THE SPECIFICATIONS define for the duty - whatever the
\* instance was or was not handed at start-up - at the fork of the duty's epoch (or the genesis domain for
\* builder registrations), and nothing else is ever asked for
DomainRight ==
    \A r \in Rids : \A k \in 1..Len(domreqs[r]) :
        /\ domreqs[r][k].type = SpecType(req[r].op)
        /\ domreqs[r][k].genesis = (req[r].op = "registration")
        /\ domreqs[r][k].epoch = (CASE req[r].op = "registration" -> -1
                                    [] req[r].op = "sync_root" -> req[r].epoch
                                    [] OTHER -> req[r].slot \div boot.spe)

\* the chain's domain for request r, written without the helper operators
OwnDomain(r) ==
    [type |-> SpecType(req[r].op),
     ver  |-> CASE req[r].op = "registration" -> "genesis"
                [] req[r].op = "sync_root" -> (IF req[r].epoch < fork THEN "old" ELSE "new")
                [] OTHER -> (IF req[r].slot \div boot.spe < fork THEN "old" ELSE "new")]

\* C06 and the start-up input: an error without a failure of the environment has a cause - the instance was
\* not handed what the operation needs (or the call carries nothing to sign); with a complete start-up input
\* every request is served.  And nothing is served by an instance that did not come up.
RefusedForCause ==
    /\ \A r \in Rids : (pc[r] = "error" /\ req[r].fail \in {"none", "nilsig"}) => ~CanServe(req[r].op)
    /\ (svc # "up") => \A r \in Rids : pc[r] = "idle"
    /\ (svc = "nostart") => \E k \in SpecKeys : ~Usable(k)

\* C06 over histories: the domain a request holds is a function of that request (and the chain) alone -
\* no earlier or concurrent request, of whatever type or epoch, has any influence on it
Memoryless ==
    \A r \in Rids : req[r] # NoCall => dom[r] \in {NoDomain, OwnDomain(r)}

\* C06 over histories, signing phase (Memoryless at batch level): whatever a signer call of request r is
\* handed is r's own - the account and the message of the very position of r's reply its signature will be
\* put at - whichever other requests started, were split, signed or returned since r was split.  Working
\* storage shared between requests (a pool, a scratch buffer on the service) must be invisible here.
HandedOwn ==
    \A r \in Rids : \A j \in 1..Len(insign[r].items) :
        insign[r].items[j] = Item(r, insign[r].put[j])

\* a reply, once returned, is the caller's: nothing that happens later on the service changes it
ReplyStable ==
    [][\A r \in Rids : pc[r] \in {"done", "error"} => /\ pc'[r] = pc[r]
                                                      /\ result'[r] = result[r]]_vars

\* C06: a reply carries one signature per account; position i is by account i's verification key,
\* over message i, under the domain of the duty's own type and epoch (or is explicitly absent when the
\* signer gave none)
SigCorrect ==
    \A r \in Rids : pc[r] = "done" =>
        /\ Len(result[r]) = Len(req[r].kinds)
        /\ \A i \in 1..Len(result[r]) :
              \/ result[r][i] = Absent /\ req[r].fail = "nilsig" /\ req[r].failidx = i
              \/ /\ result[r][i].key = <<r, i, VerKey(req[r].kinds[i])>>
                 /\ result[r][i].msg = MsgOf(req[r], i)
                 /\ result[r][i].dom = OwnDomain(r)

\* C06: nothing is signed before the domain is known, and a failed request hands out no signature (a
\* later domain request of the same call may fail after some positions were signed: none is returned)
NoSignatureWithoutDomain ==
    \A r \in Rids :
        /\ (DOMAIN signed[r] # {}) => dom[r] # NoDomain
        /\ pc[r] \in {"failed", "error"} => result[r] = <<>>

\* an error reply carries no signatures
ErrorHasNoSignatures == \A r \in Rids : pc[r] = "error" => result[r] = <<>>
=============================================================================
