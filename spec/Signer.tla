------------------------------- MODULE Signer -------------------------------
(* The standard signer of Vouch (services/signer/standard/*.go).                                  *)
(*                                                                                                *)
(* Property C06: for every signing request the signature returned verifies under the requested    *)
(* account's public key against the signing root defined by the consensus / builder specification,*)
(* with the domain type of that duty and the fork domain of the duty's epoch; in batch requests   *)
(* the i-th signature belongs to the i-th account and message, for any mixture and order of       *)
(* ordinary and distributed accounts.                                                             *)
(*                                                                                                *)
(* What is decided here (and what is not): the specification decides WHICH domain is requested    *)
(* (type, epoch rule, genesis or fork domain), WHICH message container is signed, WHICH key must  *)
(* verify each position and that the order survives the split by account kind.  Hash-tree-roots   *)
(* and the BLS pairing check are computed in Go (trusted base) and enter the traces as booleans.  *)
(*                                                                                                *)
(* One action per interface call of the Go code:                                                  *)
(*   Call(c)          a duty service calls one of the Sign* methods                               *)
(*   FetchDomain      domainProvider.Domain / GenesisDomain (may fail)                            *)
(*   RefetchDomain    the same request again (the per-account path of SignBeaconAttestations)     *)
(*   SignGroup(g)     one of the two groups produced by the split by account kind is signed       *)
(*                    (account.Sign / SignGeneric / SignGenericMulti / SignBeaconAttestation(s) / *)
(*                    SignBeaconProposal) and its signatures are put back through the index map   *)
(*   SignerFails      a signer call returns an error                                              *)
(*   Return, ReturnErr                                                                            *)
EXTENDS Integers, Sequences, FiniteSets, TLC

CONSTANTS SlotsPerEpoch,   \* 32
          Slots,           \* slots a request can be for
          GivenEpochs,     \* epochs handed to SignSyncCommitteeRoots
          MaxBatch         \* longest batch

-----------------------------------------------------------------------------
(* The table: operation -> domain type, epoch rule, message container, batch or single.           *)
(*   epoch rule "slot"    : epoch(slot argument) = slot \div SLOTS_PER_EPOCH                      *)
(*              "given"   : the epoch argument                                                    *)
(*              "genesis" : no epoch - the domain is computed with the GENESIS fork version and a *)
(*                          zero genesis validators root (builder specification)                  *)
(*   msg = the SSZ container whose hash-tree-root is signed (consensus-spec name)                 *)
SigSpec == [
  attestation         |-> [dom |-> "DOMAIN_BEACON_ATTESTER",                epoch |-> "slot",    msg |-> "AttestationData",             batch |-> FALSE],
  attestations        |-> [dom |-> "DOMAIN_BEACON_ATTESTER",                epoch |-> "slot",    msg |-> "AttestationData",             batch |-> TRUE],
  proposal            |-> [dom |-> "DOMAIN_BEACON_PROPOSER",                epoch |-> "slot",    msg |-> "BeaconBlockHeader",           batch |-> FALSE],
  randao              |-> [dom |-> "DOMAIN_RANDAO",                         epoch |-> "slot",    msg |-> "EpochUint64",                 batch |-> FALSE],
  slot_selection      |-> [dom |-> "DOMAIN_SELECTION_PROOF",                epoch |-> "slot",    msg |-> "SlotUint64",                  batch |-> TRUE],
  sync_selection      |-> [dom |-> "DOMAIN_SYNC_COMMITTEE_SELECTION_PROOF", epoch |-> "slot",    msg |-> "SyncAggregatorSelectionData", batch |-> TRUE],
  aggregate_and_proof |-> [dom |-> "DOMAIN_AGGREGATE_AND_PROOF",            epoch |-> "slot",    msg |-> "AggregateAndProof",           batch |-> FALSE],
  sync_root           |-> [dom |-> "DOMAIN_SYNC_COMMITTEE",                 epoch |-> "given",   msg |-> "BlockRoot",                   batch |-> TRUE],
  contribution        |-> [dom |-> "DOMAIN_CONTRIBUTION_AND_PROOF",         epoch |-> "slot",    msg |-> "ContributionAndProof",        batch |-> TRUE],
  registration        |-> [dom |-> "DOMAIN_APPLICATION_BUILDER",            epoch |-> "genesis", msg |-> "ValidatorRegistrationV1",     batch |-> FALSE]
]

Ops == DOMAIN SigSpec
BatchOps == {o \in Ops : SigSpec[o].batch}

\* messages whose content differs per position of a batch (committee index, subcommittee index,
\* aggregator index); the others sign the same root for every account of the batch
PerIndexMsg == {"AttestationData", "SyncAggregatorSelectionData", "ContributionAndProof"}

-----------------------------------------------------------------------------
(* Account kinds.  The signer type-switches on: e2wtypes.DistributedAccount (split into two        *)
(* groups), AccountProtectingSigner / AccountProtectingMultiSigner (Dirk: the signer hands over    *)
(* the duty's fields and the domain) versus AccountSigner (local key: the signer builds the       *)
(* signing root itself).                                                                          *)
Kinds == {"plain", "plain_dist", "prot", "prot_dist"}
IsDistributed(k) == k \in {"plain_dist", "prot_dist"}
IsProtecting(k) == k \in {"prot", "prot_dist"}

\* the key a signature must verify under: a Dirk distributed account returns the recombined
\* threshold signature, which belongs to the composite (validator) key; every other kind signs
\* with the key behind PublicKey()
VerKey(k) == IF k = "prot_dist" THEN "composite" ELSE "own"

\* Env_OneAccountManager: Vouch runs one account manager, so a batch is drawn from one family
Family(k) == IF IsProtecting(k) THEN "dirk" ELSE "wallet"
FamilyKinds(f) == {k \in Kinds : Family(k) = f}

SeqsUpTo(S, n) == UNION {[1..m -> S] : m \in 1..n}
AllBatches(n) == SeqsUpTo(Kinds, n)
EnvBatches(n) == UNION {SeqsUpTo(FamilyKinds(f), n) : f \in {"dirk", "wallet"}}

-----------------------------------------------------------------------------
(* The batch model: split by account kind with index maps, sign each group, merge back.           *)
Positions(kinds) == [i \in 1..Len(kinds) |-> i]
OrdIdx(kinds) == SelectSeq(Positions(kinds), LAMBDA i : ~IsDistributed(kinds[i]))
DistIdx(kinds) == SelectSeq(Positions(kinds), LAMBDA i : IsDistributed(kinds[i]))
Groups(kinds) == <<OrdIdx(kinds), DistIdx(kinds)>>

Range(s) == {s[j] : j \in 1..Len(s)}

\* Merge: position i of the reply comes from the group that holds i, at the place the index map says
Merge(n, ordIdx, ordSigs, distIdx, distSigs) ==
    [i \in 1..n |-> IF i \in Range(ordIdx)
                    THEN ordSigs[CHOOSE j \in 1..Len(ordIdx) : ordIdx[j] = i]
                    ELSE distSigs[CHOOSE j \in 1..Len(distIdx) : distIdx[j] = i]]

Map(f(_), idx) == [j \in 1..Len(idx) |-> f(idx[j])]

\* the theorem of the batch model, for an arbitrary per-position signing function
MergeSplitLaw(kinds, sig(_)) ==
    Merge(Len(kinds), OrdIdx(kinds), Map(sig, OrdIdx(kinds)), DistIdx(kinds), Map(sig, DistIdx(kinds)))
        = [i \in 1..Len(kinds) |-> sig(i)]

-----------------------------------------------------------------------------
(* Requests.                                                                                      *)
\* c = [op, slot, epoch, kinds, fail, failidx]
\*   slot    the slot argument (attestation slot, proposal slot, contribution.slot, ...)
\*   epoch   the epoch argument of sync_root (ignored by the others)
\*   fail    "none" | "domain" (domain provider errors) | "signer" (a signer call errors) |
\*           "nilsig" (the multi-signer returns no signature for position failidx)
EpochOfSlot(s) == s \div SlotsPerEpoch

DutyEpoch(c) == CASE SigSpec[c.op].epoch = "slot"    -> EpochOfSlot(c.slot)
                  [] SigSpec[c.op].epoch = "given"   -> c.epoch
                  [] SigSpec[c.op].epoch = "genesis" -> -1

\* the request the signer must make to the domain provider
DomainReq(c) == [type    |-> SigSpec[c.op].dom,
                 genesis |-> SigSpec[c.op].epoch = "genesis",
                 epoch   |-> DutyEpoch(c)]

\* the message position i must sign: the container and what distinguishes it
MsgOf(c, i) == [container |-> SigSpec[c.op].msg,
                slot      |-> IF SigSpec[c.op].epoch = "slot" THEN c.slot ELSE -1,
                epoch     |-> DutyEpoch(c),
                variant   |-> IF SigSpec[c.op].msg \in PerIndexMsg THEN i ELSE 0]

\* an abstract signature: who, what, under which domain
Sig(c, i) == [key |-> <<i, VerKey(c.kinds[i])>>, msg |-> MsgOf(c, i), dom |-> DomainReq(c)]
Absent == [key |-> <<0, "none">>]

ValidCall(c) ==
    /\ c.op \in Ops
    /\ Len(c.kinds) >= 1
    /\ (~SigSpec[c.op].batch) => Len(c.kinds) = 1
    /\ c.fail \in {"none", "domain", "signer", "nilsig"}
    /\ c.fail = "nilsig" => /\ SigSpec[c.op].batch
                            /\ \A i \in 1..Len(c.kinds) : IsProtecting(c.kinds[i])
                            /\ c.failidx \in 1..Len(c.kinds)
    /\ c.fail # "nilsig" => c.failidx = 0

Calls == {c \in [op : Ops, slot : Slots, epoch : GivenEpochs, kinds : EnvBatches(MaxBatch),
                 fail : {"none", "domain", "signer", "nilsig"}, failidx : 0..MaxBatch] :
            /\ ValidCall(c)
            /\ (SigSpec[c.op].epoch # "given") => c.epoch = CHOOSE e \in GivenEpochs : TRUE
            /\ (SigSpec[c.op].epoch # "slot") => c.slot = CHOOSE s \in Slots : TRUE}

NoCall == [op |-> "none"]

-----------------------------------------------------------------------------
VARIABLES pc,        \* "idle" | "domain" | "sign" | "failed" | "done" | "error"
          req,       \* the request being served
          domreqs,   \* domain requests made so far (sequence)
          signed,    \* function: positions signed so far -> abstract signature (or Absent)
          result     \* the reply: sequence of abstract signatures, <<>> before / on error

vars == <<pc, req, domreqs, signed, result>>

EmptyFn == [i \in {} |-> Absent]

Init ==
    /\ pc = "idle"
    /\ req = NoCall
    /\ domreqs = <<>>
    /\ signed = EmptyFn
    /\ result = <<>>

Call(c) ==
    /\ pc = "idle"
    /\ ValidCall(c)
    /\ pc' = "domain"
    /\ req' = c
    /\ UNCHANGED <<domreqs, signed, result>>

FetchDomain ==
    /\ pc = "domain"
    /\ domreqs' = Append(domreqs, DomainReq(req))
    /\ pc' = IF req.fail = "domain" THEN "failed" ELSE "sign"
    /\ UNCHANGED <<req, signed, result>>

RefetchDomain ==
    /\ pc = "sign"
    /\ Len(domreqs) <= Len(req.kinds)
    /\ domreqs' = Append(domreqs, DomainReq(req))
    /\ UNCHANGED <<pc, req, signed, result>>

\* the signature put at position i by a signer call that was handed (account i, message i, domain)
Produced(c, i) == IF c.fail = "nilsig" /\ c.failidx = i THEN Absent ELSE Sig(c, i)

\* a signer call covering the positions in idx (a sequence without repetitions): the general step,
\* the property does not prescribe how positions are grouped into calls
SignSome(idx) ==
    /\ pc = "sign"
    /\ req.fail # "signer"
    /\ Len(idx) >= 1
    /\ \A j, k \in 1..Len(idx) : j # k => idx[j] # idx[k]
    /\ Range(idx) \subseteq (1..Len(req.kinds)) \ DOMAIN signed
    /\ LET sigs == Map(LAMBDA i : Produced(req, i), idx)   \* what the group call returns, in group order
       IN signed' = [i \in DOMAIN signed \cup Range(idx) |->
                        IF i \in DOMAIN signed THEN signed[i]
                        ELSE sigs[CHOOSE j \in 1..Len(idx) : idx[j] = i]]   \* the index map
    /\ UNCHANGED <<pc, req, domreqs, result>>

\* what the code does: the two groups of the split, one call (or one loop) each
SignGroup(g) ==
    /\ pc = "sign"
    /\ Len(Groups(req.kinds)[g]) >= 1
    /\ SignSome(Groups(req.kinds)[g])

SignerFails ==
    /\ pc = "sign"
    /\ req.fail = "signer"
    /\ pc' = "failed"
    /\ UNCHANGED <<req, domreqs, signed, result>>

Return ==
    /\ pc = "sign"
    /\ DOMAIN signed = 1..Len(req.kinds)
    /\ result' = [i \in 1..Len(req.kinds) |-> signed[i]]
    /\ pc' = "done"
    /\ UNCHANGED <<req, domreqs, signed>>

ReturnErr ==
    /\ pc = "failed"
    /\ result' = <<>>
    /\ pc' = "error"
    /\ UNCHANGED <<req, domreqs, signed>>

Next ==
    \/ \E c \in Calls : Call(c)
    \/ FetchDomain \/ RefetchDomain
    \/ \E g \in {1, 2} : SignGroup(g)
    \/ SignerFails
    \/ Return \/ ReturnErr

Spec == Init /\ [][Next]_vars

-----------------------------------------------------------------------------
TypeOK ==
    /\ pc \in {"idle", "domain", "sign", "failed", "done", "error"}
    /\ DOMAIN signed \subseteq 1..MaxBatch

\* C06: the domain asked for is the domain type of the duty at the fork of the duty's epoch (or the
\* genesis domain for builder registrations), and nothing else is ever asked for
DomainRight ==
    \A k \in 1..Len(domreqs) :
        /\ domreqs[k].type = SigSpec[req.op].dom
        /\ domreqs[k].genesis = (req.op = "registration")
        /\ domreqs[k].epoch = (CASE req.op = "registration" -> -1
                                 [] req.op = "sync_root" -> req.epoch
                                 [] OTHER -> req.slot \div SlotsPerEpoch)

\* C06: a reply carries one signature per account; position i is by account i's verification key,
\* over message i, under the duty's domain (or is explicitly absent when the signer gave none)
SigCorrect ==
    pc = "done" =>
        /\ Len(result) = Len(req.kinds)
        /\ \A i \in 1..Len(result) :
              \/ result[i] = Absent /\ req.fail = "nilsig" /\ req.failidx = i
              \/ /\ result[i].key = <<i, VerKey(req.kinds[i])>>
                 /\ result[i].msg = MsgOf(req, i)
                 /\ result[i].dom = DomainReq(req)

\* C06: nothing is signed before the domain is known, and a failed domain fetch yields no signature
NoSignatureWithoutDomain ==
    /\ (DOMAIN signed # {}) => Len(domreqs) >= 1
    /\ (req # NoCall /\ req.fail = "domain") => (DOMAIN signed = {} /\ result = <<>>)

\* an error reply carries no signatures
ErrorHasNoSignatures == pc = "error" => result = <<>>
=============================================================================
