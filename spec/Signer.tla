------------------------------- MODULE Signer -------------------------------
(* The standard signer of Vouch (services/signer/standard/*.go).                                  *)
(*                                                                                                *)
(* Property C06: for every signing request the signature returned verifies under the requested    *)
(* account's public key against the signing root defined by the consensus / builder specification,*)
(* with the domain type of that duty and the fork domain of the duty's epoch; in batch requests   *)
(* the i-th signature belongs to the i-th account and message, for any mixture and order of       *)
(* ordinary and distributed accounts.                                                             *)
(*                                                                                                *)
(* What is decided here (and what is not): the specification decides WHICH domain is requested    *)
(* (type, epoch rule, genesis or fork domain), WHICH message container is signed, WHICH key must  *)
(* verify each position and that the order survives the split by account kind.  Hash-tree-roots   *)
(* and the BLS pairing check are computed in Go (trusted base) and enter the traces as booleans.  *)
(*                                                                                                *)
(* The environment is a HISTORY: the signer is one long-lived service that serves a sequence of    *)
(* requests r = 1..NReq (any operations, any epochs - in particular on both sides of the epoch at  *)
(* which the chain forks, where the fork version and hence EVERY domain changes), and the requests *)
(* may OVERLAP: the domain provider is a remote consensus client whose reply is delayed            *)
(* arbitrarily, so any number of other requests can start and finish between a request's           *)
(* FetchDomain and its DomainResp.  The property is per request and does not mention the history:  *)
(* whatever happened before or happens concurrently, every returned signature is over the signing  *)
(* root built with the domain of the request's OWN type and epoch.  The protocol specified here is *)
(* memoryless; an implementation may remember domains, but only transparently (Recall).            *)
(* The same holds for the SIGNING phase: signer calls take time (SignStart ... SignEnd), requests  *)
(* of neighbouring slots and of the sync committee jobs run beside each other on the one service   *)
(* (beaconcommitteesubscriber: one goroutine per slot calling SignSlotSelections; sync committee   *)
(* messenger / aggregator jobs), and what a signer call of request r is handed is r's OWN accounts *)
(* and messages, whatever other requests started, signed or returned meanwhile (HandedOwn); the    *)
(* working storage of the split (groups, index maps) belongs to the request.  The only state the   *)
(* property makes persistent on the instance is NONE; a reply, once returned, belongs to the       *)
(* caller (ReplyStable).                                                                           *)
(*                                                                                                *)
(* One action per interface call of the Go code (r = the request it belongs to):                  *)
(*   Call(r, c)       a duty service calls one of the Sign* methods                               *)
(*   FetchDomain(r)   domainProvider.Domain / GenesisDomain is called (trace event DomainReq)     *)
(*   RefetchDomain(r) the same request again (the per-account path of SignBeaconAttestations)     *)
(*   DomainResp(r)    the provider's reply arrives (may be an error), arbitrarily late            *)
(*   Recall(r)        the domain is obtained without asking the provider (a cache); allowed only  *)
(*                    if it is exactly what the provider would answer for THIS request            *)
(*   SignStart(r, idx) a signer call (account.Sign / SignGeneric / SignGenericMulti /              *)
(*                    SignBeaconAttestation(s) / SignBeaconProposal) is MADE: the signer is handed *)
(*                    accounts and messages - in this protocol those of positions idx of request r *)
(*                    itself (one of the two groups of the split by account kind: SignGroupStart)  *)
(*   SignEnd(r)       the signer call RETURNS, arbitrarily late (a remote / threshold signer):     *)
(*                    every action of every other request is enabled in between; the signatures    *)
(*                    are put back through the index map                                           *)
(*   SignerFails(r)   a signer call returns an error                                              *)
(*   Return(r), ReturnErr(r)                                                                      *)
EXTENDS Integers, Sequences, FiniteSets, TLC

CONSTANTS SlotsPerEpoch,   \* 32
          Slots,           \* slots a request can be for
          GivenEpochs,     \* epochs handed to SignSyncCommitteeRoots
          MaxBatch,        \* longest batch
          NReq,            \* number of requests in one history of the service
          ForkEpochs       \* epochs at which the chain's fork may activate (one per history)

Rids == 1..NReq

-----------------------------------------------------------------------------
(* The table: operation -> domain type, epoch rule, message container, batch or single.           *)
(*   epoch rule "slot"    : epoch(slot argument) = slot \div SLOTS_PER_EPOCH                      *)
(*              "given"   : the epoch argument                                                    *)
(*              "genesis" : no epoch - the domain is computed with the GENESIS fork version and a *)
(*                          zero genesis validators root (builder specification)                  *)
(*   msg = the SSZ container whose hash-tree-root is signed (consensus-spec name)                 *)
SigSpec == [
  attestation         |-> [dom |-> "DOMAIN_BEACON_ATTESTER",                epoch |-> "slot",    msg |-> "AttestationData",             batch |-> FALSE],
  attestations        |-> [dom |-> "DOMAIN_BEACON_ATTESTER",                epoch |-> "slot",    msg |-> "AttestationData",             batch |-> TRUE],
  proposal            |-> [dom |-> "DOMAIN_BEACON_PROPOSER",                epoch |-> "slot",    msg |-> "BeaconBlockHeader",           batch |-> FALSE],
  randao              |-> [dom |-> "DOMAIN_RANDAO",                         epoch |-> "slot",    msg |-> "EpochUint64",                 batch |-> FALSE],
  slot_selection      |-> [dom |-> "DOMAIN_SELECTION_PROOF",                epoch |-> "slot",    msg |-> "SlotUint64",                  batch |-> TRUE],
  sync_selection      |-> [dom |-> "DOMAIN_SYNC_COMMITTEE_SELECTION_PROOF", epoch |-> "slot",    msg |-> "SyncAggregatorSelectionData", batch |-> TRUE],
  aggregate_and_proof |-> [dom |-> "DOMAIN_AGGREGATE_AND_PROOF",            epoch |-> "slot",    msg |-> "AggregateAndProof",           batch |-> FALSE],
  sync_root           |-> [dom |-> "DOMAIN_SYNC_COMMITTEE",                 epoch |-> "given",   msg |-> "BlockRoot",                   batch |-> TRUE],
  contribution        |-> [dom |-> "DOMAIN_CONTRIBUTION_AND_PROOF",         epoch |-> "slot",    msg |-> "ContributionAndProof",        batch |-> TRUE],
  registration        |-> [dom |-> "DOMAIN_APPLICATION_BUILDER",            epoch |-> "genesis", msg |-> "ValidatorRegistrationV1",     batch |-> FALSE]
]

Ops == DOMAIN SigSpec
BatchOps == {o \in Ops : SigSpec[o].batch}

\* messages whose content differs per position of a batch (committee index, subcommittee index,
\* aggregator index); the others sign the same root for every account of the batch
PerIndexMsg == {"AttestationData", "SyncAggregatorSelectionData", "ContributionAndProof"}

-----------------------------------------------------------------------------
(* Account kinds.  The signer type-switches on: e2wtypes.DistributedAccount (split into two        *)
(* groups), AccountProtectingSigner / AccountProtectingMultiSigner (Dirk: the signer hands over    *)
(* the duty's fields and the domain) versus AccountSigner (local key: the signer builds the       *)
(* signing root itself).                                                                          *)
Kinds == {"plain", "plain_dist", "prot", "prot_dist"}
IsDistributed(k) == k \in {"plain_dist", "prot_dist"}
IsProtecting(k) == k \in {"prot", "prot_dist"}

\* the key a signature must verify under: a Dirk distributed account returns the recombined
\* threshold signature, which belongs to the composite (validator) key; every other kind signs
\* with the key behind PublicKey()
VerKey(k) == IF k = "prot_dist" THEN "composite" ELSE "own"

\* Env_OneAccountManager: Vouch runs one account manager, so a batch is drawn from one family
Family(k) == IF IsProtecting(k) THEN "dirk" ELSE "wallet"
FamilyKinds(f) == {k \in Kinds : Family(k) = f}

SeqsUpTo(S, n) == UNION {[1..m -> S] : m \in 1..n}
AllBatches(n) == SeqsUpTo(Kinds, n)
EnvBatches(n) == UNION {SeqsUpTo(FamilyKinds(f), n) : f \in {"dirk", "wallet"}}

-----------------------------------------------------------------------------
(* The batch model: split by account kind with index maps, sign each group, merge back.           *)
Positions(kinds) == [i \in 1..Len(kinds) |-> i]
OrdIdx(kinds) == SelectSeq(Positions(kinds), LAMBDA i : ~IsDistributed(kinds[i]))
DistIdx(kinds) == SelectSeq(Positions(kinds), LAMBDA i : IsDistributed(kinds[i]))
Groups(kinds) == <<OrdIdx(kinds), DistIdx(kinds)>>

Range(s) == {s[j] : j \in 1..Len(s)}

\* Merge: position i of the reply comes from the group that holds i, at the place the index map says
Merge(n, ordIdx, ordSigs, distIdx, distSigs) ==
    [i \in 1..n |-> IF i \in Range(ordIdx)
                    THEN ordSigs[CHOOSE j \in 1..Len(ordIdx) : ordIdx[j] = i]
                    ELSE distSigs[CHOOSE j \in 1..Len(distIdx) : distIdx[j] = i]]

Map(f(_), idx) == [j \in 1..Len(idx) |-> f(idx[j])]

\* the theorem of the batch model, for an arbitrary per-position signing function
MergeSplitLaw(kinds, sig(_)) ==
    Merge(Len(kinds), OrdIdx(kinds), Map(sig, OrdIdx(kinds)), DistIdx(kinds), Map(sig, DistIdx(kinds)))
        = [i \in 1..Len(kinds) |-> sig(i)]

-----------------------------------------------------------------------------
(* Requests.                                                                                      *)
\* c = [op, slot, epoch, kinds, fail, failidx]
\*   slot    the slot argument (attestation slot, proposal slot, contribution.slot, ...)
\*   epoch   the epoch argument of sync_root (ignored by the others)
\*   fail    "none" | "domain" (domain provider errors) | "signer" (a signer call errors) |
\*           "nilsig" (the multi-signer returns no signature for position failidx)
EpochOfSlot(s) == s \div SlotsPerEpoch

DutyEpoch(c) == CASE SigSpec[c.op].epoch = "slot"    -> EpochOfSlot(c.slot)
                  [] SigSpec[c.op].epoch = "given"   -> c.epoch
                  [] SigSpec[c.op].epoch = "genesis" -> -1

\* the request the signer must make to the domain provider
DomainReq(c) == [type    |-> SigSpec[c.op].dom,
                 genesis |-> SigSpec[c.op].epoch = "genesis",
                 epoch   |-> DutyEpoch(c)]

\* the message position i must sign: the container and what distinguishes it
MsgOf(c, i) == [container |-> SigSpec[c.op].msg,
                slot      |-> IF SigSpec[c.op].epoch = "slot" THEN c.slot ELSE -1,
                epoch     |-> DutyEpoch(c),
                variant   |-> IF SigSpec[c.op].msg \in PerIndexMsg THEN i ELSE 0]

-----------------------------------------------------------------------------
(* The chain: one fork, activating at epoch f.  compute_domain(type, fork_version(epoch), root)    *)
(* depends on the epoch only through the fork version, so domains are distinct across the fork    *)
(* and equal on the same side of it; the builder's genesis domain does not depend on f.           *)
ForkVersion(e, f) == IF e < f THEN "old" ELSE "new"

\* the domain VALUE the chain defines for domain request q
DomainValue(q, f) == [type |-> q.type, ver |-> IF q.genesis THEN "genesis" ELSE ForkVersion(q.epoch, f)]
NoDomain == [type |-> "none", ver |-> "none"]

\* an abstract signature: who (the account at position i of request q, by the key that must verify it),
\* what, under which domain value
Sig(q, c, i, d) == [key |-> <<q, i, VerKey(c.kinds[i])>>, msg |-> MsgOf(c, i), dom |-> d]
Absent == [key |-> <<0, 0, "none">>]

\* what a signer call is handed, per element: the account and message of position pos of request rid
Item(q, i) == [rid |-> q, pos |-> i]

ValidCall(c) ==
    /\ c.op \in Ops
    /\ Len(c.kinds) >= 1
    /\ (~SigSpec[c.op].batch) => Len(c.kinds) = 1
    /\ c.fail \in {"none", "domain", "signer", "nilsig"}
    /\ c.fail = "nilsig" => /\ SigSpec[c.op].batch
                            /\ \A i \in 1..Len(c.kinds) : IsProtecting(c.kinds[i])
                            /\ c.failidx \in 1..Len(c.kinds)
    /\ c.fail # "nilsig" => c.failidx = 0

Calls == {c \in [op : Ops, slot : Slots, epoch : GivenEpochs, kinds : EnvBatches(MaxBatch),
                 fail : {"none", "domain", "signer", "nilsig"}, failidx : 0..MaxBatch] :
            /\ ValidCall(c)
            /\ (SigSpec[c.op].epoch # "given") => c.epoch = CHOOSE e \in GivenEpochs : TRUE
            /\ (SigSpec[c.op].epoch # "slot") => c.slot = CHOOSE s \in Slots : TRUE}

NoCall == [op |-> "none"]

-----------------------------------------------------------------------------
VARIABLES fork,      \* the epoch at which the chain of this history forks
          pc,        \* per request: "idle" | "called" | "waiting" (provider call outstanding) | "sign" |
                     \*              "insign" (signer call outstanding) | "failed" | "done" | "error"
          req,       \* per request: the request
          domreqs,   \* per request: the domain requests it made so far (sequence)
          dom,       \* per request: the domain value it holds (latest reply / recalled), NoDomain before
          insign,    \* per request: the signer call in flight: items handed (in the order handed) and the
                     \*              positions of the reply its signatures will be put at; NoSign outside a call
          signed,    \* per request: function positions signed so far -> abstract signature (or Absent)
          result     \* per request: the reply: sequence of abstract signatures, <<>> before / on error

vars == <<fork, pc, req, domreqs, dom, insign, signed, result>>

EmptyFn == [i \in {} |-> Absent]
NoSign == [items |-> <<>>, put |-> <<>>]

Init ==
    /\ fork \in ForkEpochs
    /\ pc = [r \in Rids |-> "idle"]
    /\ req = [r \in Rids |-> NoCall]
    /\ domreqs = [r \in Rids |-> <<>>]
    /\ dom = [r \in Rids |-> NoDomain]
    /\ insign = [r \in Rids |-> NoSign]
    /\ signed = [r \in Rids |-> EmptyFn]
    /\ result = [r \in Rids |-> <<>>]

\* requests are numbered in the order in which they are made
Call(r, c) ==
    /\ pc[r] = "idle"
    /\ \A q \in Rids : q < r => pc[q] # "idle"
    /\ ValidCall(c)
    /\ pc' = [pc EXCEPT ![r] = "called"]
    /\ req' = [req EXCEPT ![r] = c]
    /\ UNCHANGED <<fork, domreqs, dom, insign, signed, result>>

\* the request reaches the domain provider ...
FetchDomain(r) ==
    /\ pc[r] = "called"
    /\ domreqs' = [domreqs EXCEPT ![r] = Append(@, DomainReq(req[r]))]
    /\ pc' = [pc EXCEPT ![r] = "waiting"]
    /\ UNCHANGED <<fork, req, dom, insign, signed, result>>

RefetchDomain(r) ==
    /\ pc[r] = "sign"
    /\ Len(domreqs[r]) <= Len(req[r].kinds)
    /\ domreqs' = [domreqs EXCEPT ![r] = Append(@, DomainReq(req[r]))]
    /\ pc' = [pc EXCEPT ![r] = "waiting"]
    /\ UNCHANGED <<fork, req, dom, insign, signed, result>>

\* ... whose reply arrives whenever it pleases: every action of every other request is enabled in
\* between.  The reply is the chain's domain for the request that was made.
DomainResp(r) ==
    /\ pc[r] = "waiting"
    /\ IF req[r].fail = "domain"
       THEN /\ pc' = [pc EXCEPT ![r] = "failed"]
            /\ UNCHANGED dom
       ELSE /\ pc' = [pc EXCEPT ![r] = "sign"]
            /\ dom' = [dom EXCEPT ![r] = DomainValue(domreqs[r][Len(domreqs[r])], fork)]
    /\ UNCHANGED <<fork, req, domreqs, insign, signed, result>>

\* the domain is produced from memory instead: transparent or not at all - it is the chain's domain for
\* the type and epoch of THIS request, whatever was asked, answered or stored for other requests
Recall(r) ==
    /\ pc[r] = "called"
    /\ pc' = [pc EXCEPT ![r] = "sign"]
    /\ dom' = [dom EXCEPT ![r] = DomainValue(DomainReq(req[r]), fork)]
    /\ UNCHANGED <<fork, req, domreqs, insign, signed, result>>

\* the signature a signer returns for item it when it is handed the domain d
Produced(it, d) ==
    LET c == req[it.rid]
    IN IF c.fail = "nilsig" /\ c.failidx = it.pos THEN Absent ELSE Sig(it.rid, c, it.pos, d)

NoRepeats(s) == \A j, k \in 1..Len(s) : j # k => s[j] # s[k]
OwnItems(r, idx) == [j \in 1..Len(idx) |-> Item(r, idx[j])]

\* a signer call is made: the general step - the signer is handed `items` (whose accounts and messages they
\* are is written down, not assumed), and the j-th signature it returns will be put at position put[j] of
\* request r's reply
SignStartWith(r, items, put) ==
    /\ pc[r] = "sign"
    /\ req[r].fail # "signer"
    /\ Len(put) >= 1
    /\ Len(items) = Len(put)
    /\ NoRepeats(put)
    /\ Range(put) \subseteq (1..Len(req[r].kinds)) \ DOMAIN signed[r]
    /\ \A j \in 1..Len(items) : /\ items[j].rid \in Rids
                                 /\ req[items[j].rid] # NoCall
                                 /\ items[j].pos \in 1..Len(req[items[j].rid].kinds)
    /\ insign' = [insign EXCEPT ![r] = [items |-> items, put |-> put]]
    /\ pc' = [pc EXCEPT ![r] = "insign"]
    /\ UNCHANGED <<fork, req, domreqs, dom, signed, result>>

\* the protocol: a signer call of request r covers positions idx (a sequence without repetitions) of r -
\* the property does not prescribe how positions are grouped into calls - and is handed r's own accounts
\* and messages of exactly those positions
SignStart(r, idx) == SignStartWith(r, OwnItems(r, idx), idx)

\* the signer call returns - whenever it pleases: every action of every other request is enabled between
\* SignStart and SignEnd - and its signatures go where the index map says
SignEnd(r) ==
    /\ pc[r] = "insign"
    /\ LET c == insign[r]
           sigs == [j \in 1..Len(c.items) |-> Produced(c.items[j], dom[r])]   \* what the call returns, in the order handed
       IN signed' = [signed EXCEPT ![r] = [i \in DOMAIN signed[r] \cup Range(c.put) |->
                        IF i \in DOMAIN signed[r] THEN signed[r][i]
                        ELSE sigs[CHOOSE j \in 1..Len(c.put) : c.put[j] = i]]]   \* the index map
    /\ insign' = [insign EXCEPT ![r] = NoSign]
    /\ pc' = [pc EXCEPT ![r] = "sign"]
    /\ UNCHANGED <<fork, req, domreqs, dom, result>>

\* what the code does: the two groups of the split, one call (or one loop of calls) each
SignGroupStart(r, g) ==
    /\ pc[r] = "sign"
    /\ Len(Groups(req[r].kinds)[g]) >= 1
    /\ SignStart(r, Groups(req[r].kinds)[g])

\* SignStart and SignEnd in one step.  With ONE request per history nothing can happen between the two, so
\* the single-request configurations (MC_Signer.cfg, MC_Signer_big.cfg: every request of the constants) use
\* this step (NextAtomic); every configuration with more than one request uses the split one (Next).
SignSome(r, idx) ==
    /\ pc[r] = "sign"
    /\ req[r].fail # "signer"
    /\ Len(idx) >= 1
    /\ NoRepeats(idx)
    /\ Range(idx) \subseteq (1..Len(req[r].kinds)) \ DOMAIN signed[r]
    /\ LET sigs == Map(LAMBDA i : Produced(Item(r, i), dom[r]), idx)
       IN signed' = [signed EXCEPT ![r] = [i \in DOMAIN signed[r] \cup Range(idx) |->
                        IF i \in DOMAIN signed[r] THEN signed[r][i]
                        ELSE sigs[CHOOSE j \in 1..Len(idx) : idx[j] = i]]]
    /\ UNCHANGED <<fork, pc, req, domreqs, dom, insign, result>>

SignGroup(r, g) ==
    /\ pc[r] = "sign"
    /\ Len(Groups(req[r].kinds)[g]) >= 1
    /\ SignSome(r, Groups(req[r].kinds)[g])

SignerFails(r) ==
    /\ pc[r] = "sign"
    /\ req[r].fail = "signer"
    /\ pc' = [pc EXCEPT ![r] = "failed"]
    /\ UNCHANGED <<fork, req, domreqs, dom, insign, signed, result>>

Return(r) ==
    /\ pc[r] = "sign"
    /\ DOMAIN signed[r] = 1..Len(req[r].kinds)
    /\ result' = [result EXCEPT ![r] = [i \in 1..Len(req[r].kinds) |-> signed[r][i]]]
    /\ pc' = [pc EXCEPT ![r] = "done"]
    /\ UNCHANGED <<fork, req, domreqs, dom, insign, signed>>

ReturnErr(r) ==
    /\ pc[r] = "failed"
    /\ result' = [result EXCEPT ![r] = <<>>]
    /\ pc' = [pc EXCEPT ![r] = "error"]
    /\ UNCHANGED <<fork, req, domreqs, dom, insign, signed>>

Next ==
    \/ \E r \in Rids : pc[r] = "idle" /\ \E c \in Calls : Call(r, c)      \* (guard first: Calls is large)
    \/ \E r \in Rids :
          \/ FetchDomain(r) \/ RefetchDomain(r) \/ DomainResp(r) \/ Recall(r)
          \/ \E g \in {1, 2} : SignGroupStart(r, g)
          \/ SignEnd(r)
          \/ SignerFails(r)
          \/ Return(r) \/ ReturnErr(r)

Spec == Init /\ [][Next]_vars

NextAtomic ==
    \/ \E r \in Rids : pc[r] = "idle" /\ \E c \in Calls : Call(r, c)      \* (guard first: Calls is large)
    \/ \E r \in Rids :
          \/ FetchDomain(r) \/ RefetchDomain(r) \/ DomainResp(r) \/ Recall(r)
          \/ \E g \in {1, 2} : SignGroup(r, g)
          \/ SignerFails(r)
          \/ Return(r) \/ ReturnErr(r)

SpecAtomic == Init /\ [][NextAtomic]_vars

-----------------------------------------------------------------------------
TypeOK ==
    /\ fork \in Int
    /\ \A r \in Rids :
          /\ pc[r] \in {"idle", "called", "waiting", "sign", "insign", "failed", "done", "error"}
          /\ DOMAIN signed[r] \subseteq 1..MaxBatch
          /\ (pc[r] = "insign") = (insign[r] # NoSign)

\* C06: the domain asked for is the domain type of the duty at the fork of the duty's epoch (or the
\* genesis domain for builder registrations), and nothing else is ever asked for
DomainRight ==
    \A r \in Rids : \A k \in 1..Len(domreqs[r]) :
        /\ domreqs[r][k].type = SigSpec[req[r].op].dom
        /\ domreqs[r][k].genesis = (req[r].op = "registration")
        /\ domreqs[r][k].epoch = (CASE req[r].op = "registration" -> -1
                                    [] req[r].op = "sync_root" -> req[r].epoch
                                    [] OTHER -> req[r].slot \div SlotsPerEpoch)

\* the chain's domain for request r, written without the helper operators
OwnDomain(r) ==
    [type |-> SigSpec[req[r].op].dom,
     ver  |-> CASE req[r].op = "registration" -> "genesis"
                [] req[r].op = "sync_root" -> (IF req[r].epoch < fork THEN "old" ELSE "new")
                [] OTHER -> (IF req[r].slot \div SlotsPerEpoch < fork THEN "old" ELSE "new")]

\* C06 over histories: the domain a request holds is a function of that request (and the chain) alone -
\* no earlier or concurrent request, of whatever type or epoch, has any influence on it
Memoryless ==
    \A r \in Rids : req[r] # NoCall => dom[r] \in {NoDomain, OwnDomain(r)}

\* C06 over histories, signing phase (Memoryless at batch level): whatever a signer call of request r is
\* handed is r's own - the account and the message of the very position of r's reply its signature will be
\* put at - whichever other requests started, were split, signed or returned since r was split.  Working
\* storage shared between requests (a pool, a scratch buffer on the service) must be invisible here.
HandedOwn ==
    \A r \in Rids : \A j \in 1..Len(insign[r].items) :
        insign[r].items[j] = Item(r, insign[r].put[j])

\* a reply, once returned, is the caller's: nothing that happens later on the service changes it
ReplyStable ==
    [][\A r \in Rids : pc[r] \in {"done", "error"} => /\ pc'[r] = pc[r]
                                                      /\ result'[r] = result[r]]_vars

\* C06: a reply carries one signature per account; position i is by account i's verification key,
\* over message i, under the domain of the duty's own type and epoch (or is explicitly absent when the
\* signer gave none)
SigCorrect ==
    \A r \in Rids : pc[r] = "done" =>
        /\ Len(result[r]) = Len(req[r].kinds)
        /\ \A i \in 1..Len(result[r]) :
              \/ result[r][i] = Absent /\ req[r].fail = "nilsig" /\ req[r].failidx = i
              \/ /\ result[r][i].key = <<r, i, VerKey(req[r].kinds[i])>>
                 /\ result[r][i].msg = MsgOf(req[r], i)
                 /\ result[r][i].dom = OwnDomain(r)

\* C06: nothing is signed before the domain is known, and a failed request hands out no signature (a
\* later domain request of the same call may fail after some positions were signed: none is returned)
NoSignatureWithoutDomain ==
    \A r \in Rids :
        /\ (DOMAIN signed[r] # {}) => dom[r] # NoDomain
        /\ pc[r] \in {"failed", "error"} => result[r] = <<>>

\* an error reply carries no signatures
ErrorHasNoSignatures == \A r \in Rids : pc[r] = "error" => result[r] = <<>>
=============================================================================
