SPECIFICATION SSpec
CONSTANTS
  Mode = "classify"
  Subs = {"multinode"}
  KindSet = {"att", "agg", "proposal", "syncmsg", "contrib", "bcsub", "scsub", "prep"}
  ConcSet = {2}
  ItemSet = {3}
  NodeCounts = {1}
  SimCounts = {1}
  DefaultConc = 16
  MaxCalls = 1
  HistClients = {}
  HistOutcomes = {}
  Design = "asks"
  MaxLat = 2
  CanonOuts = {}
  ConfSets = {}
  OtherSets = {}
  RefKind = "att"
  BaseOutcomes = {"accept", "reject", "treject", "malformed", "slowok", "late", "hang"}
INVARIANTS Emit
CHECK_DEADLOCK FALSE
