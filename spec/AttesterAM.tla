----------------------------- MODULE AttesterAM -----------------------------
(* C01 with the boundary drawn where the PROPERTY draws it.                                      *)
(*                                                                                              *)
(* "For every validator and epoch Vouch asks the signer for at most one attestation signature"  *)
(* is a statement about what reaches the SIGNER.  On the path from the property's inputs (duties *)
(* delivered by the controller) to that observable, main.go wires                               *)
(*                                                                                              *)
(*   controller -> attester/standard.Attest                                   (Attester.tla)    *)
(*                   -> attestation data strategy (best | majority | first)   (data: any value)  *)
(*                   -> ValidatingAccountsProvider = the ACCOUNT MANAGER      (this module)     *)
(*                        dirk | wallet  (two sibling implementations of the same operation)    *)
(*                        -> validatorsmanager/standard (index <-> key <-> record table,        *)
(*                           refreshed from the beacon node by the account manager's refresh)   *)
(*                   -> signer/standard.SignBeaconAttestations -> the accounts' keys            *)
(*                   -> submitter strategy                                                      *)
(*                                                                                              *)
(* Attester.tla had the account manager as an ORACLE ("answers for requested validators only",  *)
(* Env_AccountsSubset) - and the attester relies on it: Attest() goes on with an EMPTY list of   *)
(* claimed validators when a duty is delivered again and all of its validators are marked, asks *)
(* ValidatingAccountsForEpochByIndex(epoch, []) and hands whatever map comes back to the signer *)
(* (a validator of the map that is not in the duty silently gets the committee of entry 0).     *)
(* The empty answer to the empty question is what makes a re-delivery harmless.  That is a      *)
(* contract of the account manager, so the account manager is a component of this               *)
(* specification, with its own state:                                                           *)
(*                                                                                              *)
(*   amKind   which sibling implementation is wired in this history (every invariant must hold  *)
(*            for each: the kind is chosen in Init from AMKinds)                                *)
(*   held     the validators whose account the manager holds (result of its accounts refresh)   *)
(*   vrec     the validators manager's records [known, act, exit] (refreshed from the node)     *)
(*   amLast   the last ByIndex call [run, epoch, req, res, val] (for the contract invariants)   *)
(*                                                                                              *)
(*   Refresh(H, R)     the periodic refresh job: accounts, then validators                      *)
(*   AMByIndex(r)      ValidatingAccountsForEpochByIndex(epoch of the duty, claimed list) called *)
(*                     by run r: THE CONTRACT - the answer is exactly the requested validators  *)
(*                     that are held and validating in that epoch (in particular: a subset of   *)
(*                     the request, and nobody for an empty request)                            *)
(*   AMAsk(e, rs)      the same operation asked directly with any index list (empty, partial,   *)
(*                     with repeats, with indices nobody has)                                   *)
(*   SignAM(r)         the attester builds its request from the MAP it was given (one position  *)
(*                     per account of the map; committee of the validator's entry, of entry 0   *)
(*                     for a validator the duty does not list) - no guard keeps a stranger out: *)
(*                     SignOnlyClaimed / NoDoubleSign JUDGE the call                            *)
(*                                                                                              *)
(* Deviations (control designs; AMDeviant = the kinds that follow AMDeviation instead of the     *)
(* contract).  TLC must REJECT each, for each kind alone - otherwise the histories of the model *)
(* (re-delivered duties whose validators are all marked) say nothing about the class:           *)
(*   "empty_all"       an empty index list means "no restriction" (the go-eth2-client           *)
(*                     convention; what a de-duplication of ForEpoch / ForEpochByIndex into one *)
(*                     worker with `byIndex := len(indices) > 0` does)                          *)
(*   "ignore_indices"  the ByIndex entry point answers like ForEpoch (indices dropped on the    *)
(*                     way to the shared worker)                                                *)
EXTENDS Attester

CONSTANTS AMKinds,      \* {"dirk", "wallet"}
          AMDeviant,    \* subset of AMKinds ({} = the intended design)
          AMDeviation,  \* "empty_all" | "ignore_indices"
          AllVals,      \* the validators of the universe
          FFE           \* far future epoch

VARIABLES amKind, held, vrec, amLast

amvars == <<amKind, held, vrec, amLast>>
avars == <<vars, amvars>>

NoCall == [run |-> 0, epoch |-> 0, req |-> {}, res |-> {}, val |-> {}]

\* a validator record of the validators manager: unknown to the node (no index, never reported), or known
\* with activation and exit epochs (active ongoing / exiting in [act, exit): what ValidatingAccounts... filter on)
ActiveRec == [known |-> TRUE, act |-> 0, exit |-> FFE]
UnknownRec == [known |-> FALSE, act |-> FFE, exit |-> FFE]
Validating(e) == {v \in held : vrec[v].known /\ vrec[v].act <= e /\ e < vrec[v].exit}

\* THE CONTRACT of ...AccountsForEpochByIndex
Contract(Req, e) == Req \cap Validating(e)
Deviate(Req, e) ==
    CASE AMDeviation = "empty_all" -> IF Req = {} THEN Validating(e) ELSE Req \cap Validating(e)
      [] AMDeviation = "ignore_indices" -> Validating(e)
      [] OTHER -> Contract(Req, e)
AMAnswer(Req, e) == IF amKind \in AMDeviant THEN Deviate(Req, e) ELSE Contract(Req, e)

AMInit(Kinds, Helds, Recs) ==
    /\ amKind \in Kinds
    /\ held \in Helds
    /\ vrec \in Recs
    /\ amLast = NoCall

\* the refresh job of the account manager: the accounts (an empty listing keeps the old ones), then the
\* validators manager's table from the beacon node
\* (standard validators manager: the table is replaced by what the node reports for the held keys; a reply
\* with no validator at all leaves the table as it is)
Refresh(H, R) ==
    /\ held' = IF H = {} THEN held ELSE H
    /\ vrec' = IF \A v \in held' : ~R[v].known THEN vrec ELSE R
    /\ UNCHANGED <<vars, amKind, amLast>>

\* run r asks for the accounts of the validators it claimed; the attester takes the map as it comes
AMByIndexAns(r, A) ==
    LET rr == run[r]
        e == Epoch(rr.duty.slot) IN
    /\ AccountsAny(r, A)
    /\ amLast' = [run |-> r, epoch |-> e, req |-> rr.claimed, res |-> A, val |-> Validating(e)]
    /\ UNCHANGED <<amKind, held, vrec>>
AMByIndex(r) == AMByIndexAns(r, AMAnswer(run[r].claimed, Epoch(run[r].duty.slot)))

\* the operation asked directly: rs any sequence of indices (repeats, strangers, none)
AMAskAns(e, rs, A) ==
    /\ amLast' = [run |-> 0, epoch |-> e, req |-> Range(rs), res |-> A, val |-> Validating(e)]
    /\ UNCHANGED <<vars, amKind, held, vrec>>
AMAsk(e, rs) == AMAskAns(e, rs, AMAnswer(Range(rs), e))

\* the request the attester builds from the map it was given: one position per account; the committee of
\* the validator's entry - of entry 0 (the zero value of validatorIndexToArrayIndexMap) for a stranger
CommOfVZ(d, v) == IF Entries(d, v) = {} THEN d.comm[1] ELSE CommOfV(d, v)
MapReq(rr) == SeqOfSet({<<v, CommOfVZ(rr.duty, v)>> : v \in rr.accts})
SignAMSeq(r, rs, sd) == SignCallSeqG(r, rs, sd, FALSE) /\ UNCHANGED amvars
SignAM(r) == SignAMSeq(r, MapReq(run[r]), SignData(run[r]))

\* createAttestations for the map's validators (a stranger: committee / position of entry 0, its own signature)
AttZ(d, v, a) == IF Entries(d, v) # {} THEN ExpectedAtt(d, v, a)
                 ELSE LET x == ExpectedAttAt(d, 1, a) IN [x EXCEPT !.sig = [x.sig EXCEPT !.v = v]]

Lift(A) == A /\ UNCHANGED amvars

NextAM(Duties, Lean, Helds, Recs, Asks, MayRefresh) ==
    \/ \E r \in RunIds, d \in Duties :
            /\ \A q \in RunIds : q < r => run[q].pc # "idle"
            /\ Lift(Deliver(r, d))
    \/ \E r \in RunIds :
        \/ \E claim \in BOOLEAN : Lift(MarkOne(r, claim))
        \/ \E a \in DataChoices(run[r].duty) : Lift(Fetch(r, a))
        \/ Lift(FetchErr(r))
        \/ \E pass \in BOOLEAN : Lift(Validate(r, pass))
        \/ AMByIndex(r)
        \/ Lift(AccountsErr(r))
        \/ SignAM(r)
        \/ \E Z \in SUBSET ReqVals(run[r].req), ok \in BOOLEAN : Lift(SignRet(r, Z, ok))
        \/ \E S \in Choice(Lean, Signed(run[r])) : Lift(Build(r, {AttZ(run[r].duty, v, run[r].data) : v \in S}))
        \/ Lift(SubmitCall(r))
        \/ \E ok \in BOOLEAN : Lift(SubmitRet(r, ok))
        \/ \E P \in Choice(Lean, OldPairs(run[r])) \cup {{}} : Lift(Housekeep(r, P))
        \/ \E P \in Choice(Lean, OwnUnsigned(r)) : Lift(Housekeep(r, P))
    \/ MayRefresh /\ \E H \in Helds, R \in Recs : Refresh(H, R)
    \/ \E a \in Asks : AMAsk(a[1], a[2])

-----------------------------------------------------------------------------
(* The C01 invariants of Attester.tla (NoDoubleSign, NoDoubleVote, SignedDataSound,             *)
(* RefusedMeansNoSign, AttestedMonotone) are stated over signReq and hold for the composition.  *)

\* the signer is asked for validators the run claimed (= marked for the epoch in this run) only: the marks are
\* the service's only memory of who has been signed for, a signature asked for an unmarked validator is one it
\* will ask for again when that validator's own duty comes
SignOnlyClaimed ==
    \A r \in RunIds : run[r].pc \in {"signing", "build", "submit", "submitting", "ret"}
                        => ReqVals(run[r].req) \subseteq run[r].claimed

\* the ByIndex contract, on the last call: only requested validators ...
ByIndexSubset == amLast.res \subseteq amLast.req
\* ... and exactly those of them that are held and validating in the epoch asked for
ByIndexExact == amLast.res = amLast.req \cap amLast.val
=============================================================================
