SPECIFICATION SSpec
CONSTANTS
  MaxSlot = 3
  MaxVer = 2
  MaxReorgs = 2
  MaxCrashes = 0
  Gates = {"att", "prop"}
  Interleave = FALSE
  Cfgs <- CfgsGatedOne
  OraclesFor <- SeedOracles
  MaxAccts = 0
  AnswersFor <- AllAnswers
  Deviation = {}
  ScenLen = 10
  Seeds = {2}
  StartSlots = {2}
  MaxHeads = 3
  Stimuli = {"Start", "Reorg", "HeadEvent", "Hold", "Release"}
  MaxHolds = 99
  Focus = FALSE
  Disjoint = FALSE
  Tight = FALSE
INVARIANTS EmitStale
CONSTRAINT HistBound
CHECK_DEADLOCK FALSE
