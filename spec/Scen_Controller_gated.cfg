SPECIFICATION SSpec
CONSTANTS
  MaxSlot = 3
  MaxVer = 2
  MaxReorgs = 2
  MaxCrashes = 0
  Gated = TRUE
  Cfgs <- CfgsGatedOne
  OraclesFor <- SeedOracles
  ScenLen = 10
  Seeds = {2}
  StartSlots = {2}
  MaxHeads = 3
  Directed = TRUE
INVARIANTS EmitStale
CONSTRAINT HistBound
CHECK_DEADLOCK FALSE
