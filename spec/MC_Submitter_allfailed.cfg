SPECIFICATION Spec
CONSTANTS
  KindSet = {"agg", "syncmsg"}
  ConcSet = {3}
  ItemSet = {1}
  NodeCounts = {3}
  DefaultConc = 16
  MaxCalls = 1
  HistClients = {}
  HistOutcomes = {}
  Design = "allfailed"
  MaxLat = 2
  CanonOuts = {"accept", "reject", "slowok1", "slowok2", "slowrej1", "hang"}
  ConfSets = {{1}, {1, 2}, {2, 3}, {1, 2, 3}}
  OtherSets = {{1}}
  RefKind = "att"
INVARIANTS TypeOK FlagSound TimeoutSignalHeard OfferedInFull SuccessIff ReturnsByTimeout Independence DeliveredToEach ClassifiedByNow
CHECK_DEADLOCK FALSE
