------------------------------ MODULE SignerBoot ------------------------------
(* A signer that LEARNS its domain types at start-up, checked against C06 (Signer.tla) over every  *)
(* start-up input of the environment.                                                             *)
(*                                                                                                *)
(* The design of services/signer/standard/service.go: New() reads each domain type from the spec   *)
(* map the beacon node hands over and keeps it on the Service (`held`); an operation asks the      *)
(* domain provider for the type it HOLDS.  What happens with a key the map does not give a usable  *)
(* value for is the design decision this module parametrises:                                     *)
(*   Fallback[k] = "refuse"   New() refuses to start when k is not usable (the phase0 types and    *)
(*                            SLOTS_PER_EPOCH in the pinned code)                                  *)
(*   Fallback[k] = "nil"      nothing is held; the operation that needs k refuses (the later       *)
(*                            types in the pinned code)                                            *)
(*   Fallback[k] = <<bytes>>  a built-in default is held instead                                   *)
(* PinnedFallback (refuse / nil) and RightDefault (the builder type defaults to the builder         *)
(* specification's 0x00000001) satisfy every invariant of Signer.tla: a service that knows a        *)
(* constant on its own is a legal implementation.  PatternDefault (the builder type defaults to     *)
(* 0x01000000, "like every consensus domain type": seeded/C06-builder-domain-default-wrong-bytes)   *)
(* and ZeroValueDefault (a phase0 key that is not usable leaves Go's zero value 0x00000000 =        *)
(* DOMAIN_BEACON_PROPOSER on the Service and New() starts all the same) and ReuseDefault (the sync  *)
(* committee selection proof falls back to the phase0 selection proof type) are right for EVERY     *)
(* complete spec map - every repository test, every node that lists the key - and wrong as soon as  *)
(* the environment omits the key: TLC finds the history (DomainRight / SigCorrect violated) and     *)
(* checks/C06.py requires it to - the model can see the class.                                     *)
EXTENDS Signer

CONSTANTS BootOps      \* the operations requested

\* the fallback tables (cfg: Fallback <- ...): [how |-> "refuse" | "nil" | "default", v |-> the default's bytes]
RefuseStart == [how |-> "refuse", v |-> <<>>]
HoldNothing == [how |-> "nil", v |-> <<>>]
Default(b) == [how |-> "default", v |-> b]
PinnedFallback == [k \in SpecKeys |-> IF k \in LaterKeys THEN HoldNothing ELSE RefuseStart]
RightDefault == [PinnedFallback EXCEPT !["DOMAIN_APPLICATION_BUILDER"] = Default(<<0, 0, 0, 1>>)]
PatternDefault == [PinnedFallback EXCEPT !["DOMAIN_APPLICATION_BUILDER"] = Default(<<1, 0, 0, 0>>)]
ZeroValueDefault == [k \in SpecKeys |-> IF k \in LaterKeys THEN HoldNothing
                                         ELSE IF k = "SLOTS_PER_EPOCH" THEN RefuseStart ELSE Default(<<0, 0, 0, 0>>)]
ReuseDefault == [PinnedFallback EXCEPT !["DOMAIN_SYNC_COMMITTEE_SELECTION_PROOF"] =
                                          Default(DomainTypeBytes["DOMAIN_SELECTION_PROOF"])]
Fallback == PinnedFallback

VARIABLE held        \* what the Service keeps after New(): key -> type bytes, <<>> = nothing (nil)

bvars == <<vars, held>>

\* the start-up inputs: every subset of the later keys not listed, every single key broken in either way, the
\* failed lookup
BootsAll == BootsOver(LaterKeys, {"ok", "absent"}, SlotsPerEpoch) \cup BootsOneBroken(SpecKeys, SlotsPerEpoch)
              \cup {SpecErrBoot(SlotsPerEpoch)}

BootCalls == {c \in [op : BootOps, slot : Slots, epoch : {CHOOSE e \in GivenEpochs : TRUE},
                     kinds : {<<"plain">>}, fail : {"none"}, failidx : {0}] :
                 /\ ValidCall(c)
                 /\ (SigSpec[c.op].epoch # "slot") => c.slot = CHOOSE s \in Slots : TRUE}

DomainKeys == SpecKeys \ {"SLOTS_PER_EPOCH"}
Unset == [k \in DomainKeys |-> <<>>]

BInit == Init /\ held = Unset

\* New(): one pass over the map
BStart ==
    LET refuses == \E k \in SpecKeys : ~Usable(k) /\ Fallback[k].how = "refuse"
    IN /\ Start(~refuses)
       /\ held' = IF refuses THEN Unset
                  ELSE [k \in DomainKeys |-> IF Usable(k) THEN DomainTypeBytes[k] ELSE Fallback[k].v]

\* an operation: refuse when nothing is held for its key, else ask for the domain of the type HELD
BFetch(r) ==
    /\ pc[r] = "called"
    /\ LET k == SigSpec[req[r].op].dom
       IN IF held[k] = <<>>
          THEN Refuse(r)
          ELSE FetchDomainWith(r, [DomainReq(req[r]) EXCEPT !.type = held[k]])
    /\ UNCHANGED held

BNext ==
    \/ BStart
    \/ \E r \in Rids, c \in BootCalls : Call(r, c) /\ UNCHANGED held
    \/ \E r \in Rids :
          \/ BFetch(r)
          \/ (DomainResp(r) \/ SignGroup(r, 1) \/ Return(r)) /\ UNCHANGED held

BSpec == BInit /\ [][BNext]_bvars

\* the passing configurations are not empty: a registration IS signed by an instance whose node did not
\* list the builder domain type (reachability witness for RightDefault: TLC must violate it)
NeverSignsWithoutKey ==
    ~(\E r \in Rids : pc[r] = "done" /\ ~CanServe(req[r].op))
=============================================================================
