------------------------------ MODULE Attester ------------------------------
(* The attester of Vouch (services/attester/standard/attest.go, service.go).                    *)
(*                                                                                              *)
(* One action per step of standard.Attest; the environment's answers are action parameters:     *)
(*   Deliver(r, d)          the controller starts run r of Attest for duty d                    *)
(*   MarkOne(r, claim)      fetchValidatorIndices: ONE iteration of the loop, i.e. one critical *)
(*                          section under attestedMu (skip the index if marked, else claim it)  *)
(*   Fetch(r, a) / FetchErr attestationDataProvider.AttestationData returns data a / an error   *)
(*   Validate(r, pass)      validateAttestationData                                             *)
(*   Accounts(r, A) / AccountsErr   ValidatingAccountsForEpochByIndex returns accounts for A    *)
(*   SignCallSeq(r, rs, sd) SignBeaconAttestations is asked for rs (the SEQUENCE of validator,  *)
(*                          committee index pairs, one per position of its account list) over   *)
(*                          data sd ...  (SignCall(r, req, sd): the same for a set of pairs)    *)
(*   SignRet(r, Z, ok)      ... and answers (Z = zero signatures returned) or fails             *)
(*   Build(r, A)            createAttestations yields the attestations A                        *)
(*   SubmitCall(r)          SubmitAttestations is handed the attestations ...                   *)
(*   SubmitRet(r, ok)       ... and returns                                                     *)
(*   Housekeep(r, P)        housekeepAttestedMap + return (P = entries dropped)                 *)
(*                                                                                              *)
(* THE INSTANCE AND ITS HISTORY.  A behaviour is the history of ONE long-lived Service: the      *)
(* controller starts one AttestAndScheduleAggregate goroutine per slot against the same         *)
(* attester, and a job whose signer or beacon node is slow is still under way when the next     *)
(* slot's job starts (or starts early on a head event).  Runs therefore OVERLAP: every call the *)
(* service makes on one of its interfaces is a pair of actions (Fetch, Accounts: the reply      *)
(* step; signer and submitter: call and return apart), and between any two actions of a run any *)
(* number of actions of other runs - whole runs, with any duty, any outcome - may take place.   *)
(* The ONLY state of the instance that one run may leave for another is `attested` (C01 makes   *)
(* it persistent: who has been signed for in an epoch).  Everything a run asks of the signer    *)
(* and hands to the submitter is a function of that run's OWN duty, of the data IT fetched, the *)
(* accounts IT was given and the signatures IT received (ExpectedReq, SignData, ExpectedAtt     *)
(* read nothing but run[r]): history-independent.  The invariants below are stated over the     *)
(* histories signReq / submitted, i.e. for EVERY call of the history.  A design that keeps more *)
(* on the instance (retained per-validator arrays, a memo of committee sizes, the duty "being   *)
(* worked on") is right on every fresh instance and in every sequential history as long as it   *)
(* rewrites what it reads; AttesterScratch.tla is such a design and TLC must reject it.         *)
(*                                                                                              *)
(* C01: NoDoubleSign, NoDoubleVote, SignedDataSound, RefusedMeansNoSign, AttestedMonotone.      *)
(* C04: AssignmentExact, SignAssignmentExact, UnsignedYieldNothing.                             *)
(*                                                                                              *)
(* Strict01 / Strict04 select which property's obligations the actions enforce.  Model checking *)
(* uses both; the trace specification of C01 (C04) switches the other one off, so that a defect *)
(* of the other property in the code is not reported by this one.                               *)
EXTENDS Integers, FiniteSets, Sequences, TLC

CONSTANTS RunIds,          \* ids of Attest runs (each used once per behaviour)
          SlotsPerEpoch,
          Roots,           \* ids of attestation data contents (block/source/target roots)
          Strict01,
          Strict04

VARIABLES attested,   \* set of <<epoch, validator>>: Service.attested
          run,        \* [RunIds -> run record]
          signReq,    \* history: every request made to the signer
          submitted,  \* history: every attestation handed to the submitter
          horizon     \* highest epoch a run has been started for (Env_Window)

vars == <<attested, run, signReq, submitted, horizon>>

Epoch(s) == s \div SlotsPerEpoch
Range(s) == {s[i] : i \in DOMAIN s}
Max(a, b) == IF a > b THEN a ELSE b

-----------------------------------------------------------------------------
(* Duties.  d.vals / d.comm / d.pos are the parallel arrays of attester.Duty, d.sizes is a      *)
(* sequence of <<committee, size>> pairs (committeeLengths).                                    *)
(*                                                                                              *)
(* THE SHAPE OF A DUTY IS THE BEACON NODE'S.  A duty is a SEQUENCE of entries                   *)
(* (validator, committee, position): the controller groups whatever the node's attester-duties  *)
(* endpoint returned by slot (attester.MergeDuties appends entry after entry) and removes       *)
(* nothing.  The same validator may therefore be listed MORE THAN ONCE in one duty - with the   *)
(* same or with different committees (a node confused about a re-org; two nodes' answers        *)
(* concatenated) -, every / some / none of the listed validators may have attested already or   *)
(* have no account.  The property is quantified over "any duties ... repeated validators": the  *)
(* signer may be asked at most once per validator and epoch all the same, counted over the      *)
(* POSITIONS of the account list of every call (signReq[..].mult), not over the marks.          *)
NoDuty == [slot |-> -1, vals |-> <<>>, comm |-> <<>>, pos |-> <<>>, sizes |-> <<>>]
NoData == [slot |-> -1, src |-> -1, tgt |-> -1, root |-> -1]
\* a response without data / without source / without target checkpoint (the node answered, there is
\* no error): data that does not meet the rule, whatever the duty
Incomplete == [slot |-> 1000000000, src |-> 1000000000, tgt |-> 1000000000, root |-> 0]

\* the entries of duty d that list validator v (one, unless the node repeats the validator)
Entries(d, v) == {i \in DOMAIN d.vals : d.vals[i] = v}
Idx(d, v) == CHOOSE i \in DOMAIN d.vals : d.vals[i] = v
CommOfV(d, v) == d.comm[Idx(d, v)]
PosOfV(d, v) == d.pos[Idx(d, v)]
SizeOf(d, c) == (CHOOSE p \in Range(d.sizes) : p[1] = c)[2]
Repeats(d) == \E i, j \in DOMAIN d.vals : i # j /\ d.vals[i] = d.vals[j]

\* Env_DutyWellFormed: what the controller delivers (attester.NewDuty / MergeDuties): at least one
\* entry (MergeDuties makes a duty for a slot out of at least one API duty; an empty duty never
\* leaves it), arrays parallel, every committee named has a size.  NOT assumed: distinct validators.
WellFormed(d) ==
    /\ Len(d.vals) > 0
    /\ Len(d.comm) = Len(d.vals) /\ Len(d.pos) = Len(d.vals)
    /\ \A p, q \in Range(d.sizes) : p[1] = q[1] => p = q
    /\ \A i \in DOMAIN d.vals : \E p \in Range(d.sizes) : p[1] = d.comm[i] /\ d.pos[i] < p[2]

\* C01: the rule attestation data has to meet for a duty
DataOK(d, a) == a.slot = d.slot /\ a.tgt = Epoch(d.slot) /\ a.src <= a.tgt

\* what a beacon node may answer (used by Next; Fetch itself accepts any a)
DataChoices(d) ==
    LET e == Epoch(d.slot) IN
    {[slot |-> d.slot, src |-> Max(e - 1, 0), tgt |-> e, root |-> k] : k \in Roots}
    \cup {[slot |-> d.slot + 1, src |-> Max(e - 1, 0), tgt |-> e, root |-> 1],
          [slot |-> d.slot, src |-> Max(e - 1, 0), tgt |-> e + 1, root |-> 1],
          [slot |-> d.slot, src |-> e + 1, tgt |-> e, root |-> 1]}
    \cup (IF e > 0 THEN {[slot |-> d.slot, src |-> Max(e - 2, 0), tgt |-> e - 1, root |-> 1]} ELSE {})
    \cup {Incomplete}

\* C04: the attestation that entry i of the duty d and the obtained data a prescribe
ExpectedAttAt(d, i, a) ==
    LET c == d.comm[i]
        dd == [slot |-> d.slot, src |-> a.src, tgt |-> a.tgt, root |-> a.root] IN
    [index |-> c, size |-> SizeOf(d, c), bits |-> {d.pos[i]}, data |-> dd,
     sig |-> [v |-> d.vals[i], c |-> c, data |-> dd]]
\* ... for validator v: the one of its entry (a validator listed more than once: of either entry -
\* each is the duty's word; ExpectedAtt is one of them)
ExpectedAtt(d, v, a) == ExpectedAttAt(d, Idx(d, v), a)
ExpectedAtts(d, v, a) == {ExpectedAttAt(d, i, a) : i \in Entries(d, v)}

IdleRun == [pc |-> "idle", duty |-> NoDuty, i |-> 0, claimed |-> {}, data |-> NoData,
            accts |-> {}, req |-> {}, sd |-> NoData, zero |-> {}, atts |-> {}]

\* a finished run keeps nothing: what the invariants need is in signReq / submitted
DoneRun == [IdleRun EXCEPT !.pc = "done"]

ReqVals(req) == {p[1] : p \in req}
ExpectedReq(rr) == {<<v, CommOfV(rr.duty, v)>> : v \in rr.accts}
\* C04: one pair for every validator with an account, carrying the committee of an entry of that validator
ReqOK(rr, req) ==
    /\ ReqVals(req) = rr.accts
    /\ Cardinality(req) = Cardinality(rr.accts)
    /\ \A p \in req : \E i \in Entries(rr.duty, p[1]) : rr.duty.comm[i] = p[2]
\* a set as a sequence (some order), and how many positions of a request sequence name validator v
RECURSIVE SeqOfSet(_)
SeqOfSet(S) == IF S = {} THEN <<>> ELSE LET x == CHOOSE y \in S : TRUE IN <<x>> \o SeqOfSet(S \ {x})
Mult(rs, v) == Cardinality({i \in DOMAIN rs : rs[i][1] = v})
\* the request of a design that walks the RAW duty and takes every entry whose validator has an account
\* (right whenever the duty lists each validator once): the control design of the duty-shape class
WalkReq(rr) == LET d == rr.duty
                   hit == SelectSeq([i \in DOMAIN d.vals |-> i], LAMBDA i : d.vals[i] \in rr.accts) IN
               [k \in DOMAIN hit |-> <<d.vals[hit[k]], d.comm[hit[k]]>>]
SignData(rr) == [slot |-> rr.duty.slot, src |-> rr.data.src, tgt |-> rr.data.tgt, root |-> rr.data.root]
Signed(rr) == ReqVals(rr.req) \ rr.zero
OldPairs(rr) == {p \in attested : p[1] + 1 < Epoch(rr.duty.slot)}
\* the marks a run made itself, as long as it has not asked the signer for anything: the property
\* does not forbid giving them back (e.g. to allow a retry after a failed fetch)
OwnUnsigned(r) == IF \E s \in signReq : s.run = r THEN {}
                  ELSE {<<Epoch(run[r].duty.slot), v>> : v \in run[r].claimed} \cap attested

-----------------------------------------------------------------------------
Init ==
    /\ attested = {}
    /\ run = [r \in RunIds |-> IdleRun]
    /\ signReq = {}
    /\ submitted = {}
    /\ horizon = 0

Started == {q \in RunIds : run[q].pc # "idle"}

(* Env_Window: the controller schedules attestation jobs for the current and the next epoch at  *)
(* slot starts.  A run for epoch e is not started once a run for an epoch >= e+2 has started,   *)
(* and a run for epoch e+2 or later starts only when the runs for epoch <= e have left the      *)
(* marking loop (that loop takes microseconds, the distance is more than an epoch).             *)
EnvWindow(d) ==
    /\ horizon < Epoch(d.slot) + 2
    /\ \A q \in Started : run[q].pc = "mark" => Epoch(d.slot) < Epoch(run[q].duty.slot) + 2

Deliver(r, d) ==
    /\ run[r].pc = "idle"
    /\ WellFormed(d)
    /\ EnvWindow(d)
    /\ run' = [run EXCEPT ![r] = [IdleRun EXCEPT !.pc = "mark", !.duty = d]]
    /\ horizon' = Max(horizon, Epoch(d.slot))
    /\ UNCHANGED <<attested, signReq, submitted>>

\* one iteration of the loop in fetchValidatorIndices (one Lock/Unlock of attestedMu)
MarkOne(r, claim) ==
    LET rr == run[r]
        v == rr.duty.vals[rr.i + 1]
        p == <<Epoch(rr.duty.slot), v>> IN
    /\ rr.pc = "mark"
    /\ Strict01 => (claim <=> p \notin attested)
    /\ attested' = IF claim THEN attested \cup {p} ELSE attested
    /\ run' = [run EXCEPT ![r] = [rr EXCEPT !.i = rr.i + 1,
                                            !.claimed = IF claim THEN rr.claimed \cup {v} ELSE rr.claimed,
                                            !.pc = IF rr.i + 1 = Len(rr.duty.vals) THEN "fetch" ELSE "mark"]]
    /\ UNCHANGED <<signReq, submitted, horizon>>

Fetch(r, a) ==
    /\ run[r].pc = "fetch"
    /\ run' = [run EXCEPT ![r].pc = "validate", ![r].data = a]
    /\ UNCHANGED <<attested, signReq, submitted, horizon>>

FetchErr(r) ==
    /\ run[r].pc = "fetch"
    /\ run' = [run EXCEPT ![r].pc = "ret"]
    /\ UNCHANGED <<attested, signReq, submitted, horizon>>

Validate(r, pass) ==
    /\ run[r].pc = "validate"
    /\ Strict01 => (pass <=> DataOK(run[r].duty, run[r].data))
    /\ run' = [run EXCEPT ![r].pc = IF pass THEN "accounts" ELSE "ret"]
    /\ UNCHANGED <<attested, signReq, submitted, horizon>>

\* the attester takes whatever map ValidatingAccountsForEpochByIndex returns (it does not filter it)
AccountsAny(r, A) ==
    /\ run[r].pc = "accounts"
    /\ run' = [run EXCEPT ![r].pc = "sign", ![r].accts = A]
    /\ UNCHANGED <<attested, signReq, submitted, horizon>>

\* Env_AccountsSubset: the account manager answers with accounts of requested validators only.  An
\* ASSUMPTION while the account manager is outside the specification (scripted fake); AttesterAM.tla puts
\* the account manager (and the validators manager behind it) INSIDE: there the answer is an action of
\* that component (its ByIndex contract), and a design that breaks it is judged by the invariants below.
Accounts(r, A) ==
    /\ A \subseteq run[r].claimed
    /\ AccountsAny(r, A)

AccountsErr(r) ==
    /\ run[r].pc = "accounts"
    /\ run' = [run EXCEPT ![r].pc = "ret"]
    /\ UNCHANGED <<attested, signReq, submitted, horizon>>

(* The signer is asked to sign for the SEQUENCE rs of <<validator, committee>> pairs - its       *)
(* account list and committee list, position by position - over the data sd (SignCallSeq);      *)
(* while it works (pc = "signing": a remote signer takes its time) other runs go on; it answers *)
(* with zero signatures for Z, or with an error - a request all the same (SignRet).             *)
(* Every POSITION is a signature asked for: the history keeps, per validator, how many          *)
(* positions of the call name it (mult).  Nothing here keeps a validator from being named       *)
(* twice: that is what NoDoubleSign judges, from the call as the signer received it.            *)
\* ClaimedOnly: the request names validators this run claimed only (a C01 obligation on the service as long as
\* the account manager is trusted to answer for requested validators; AttesterAM.tla switches the guard off and
\* states it as the invariant SignOnlyClaimed, so that a design that breaks it is REJECTED, not blocked)
SignCallSeqG(r, rs, sd, ClaimedOnly) ==
    LET rr == run[r]
        req == Range(rs) IN
    /\ rr.pc = "sign"
    /\ ReqVals(req) \subseteq rr.accts
    /\ Strict01 => /\ ClaimedOnly => ReqVals(req) \subseteq rr.claimed
                   /\ DataOK(rr.duty, sd)
    /\ Strict04 => /\ ReqOK(rr, req)
                   /\ Len(rs) = Cardinality(req)
                   /\ sd = SignData(rr)
    /\ signReq' = signReq \cup {[run |-> r, duty |-> rr.duty, dslot |-> rr.duty.slot, fetched |-> rr.data, req |-> req,
                                 mult |-> [v \in ReqVals(req) |-> Mult(rs, v)], data |-> sd]}
    /\ run' = [run EXCEPT ![r].pc = "signing", ![r].req = req, ![r].sd = sd]
    /\ UNCHANGED <<attested, submitted, horizon>>

SignCallSeq(r, rs, sd) == SignCallSeqG(r, rs, sd, TRUE)

\* ... for a set of pairs (each pair one position)
SignCall(r, req, sd) == SignCallSeq(r, SeqOfSet(req), sd)

SignRet(r, Z, ok) ==
    LET rr == run[r] IN
    /\ rr.pc = "signing"
    /\ Z \subseteq ReqVals(rr.req)
    /\ run' = [run EXCEPT ![r].pc = IF ok THEN "build" ELSE "ret",
                          ![r].zero = IF ok THEN Z ELSE ReqVals(rr.req)]
    /\ UNCHANGED <<attested, signReq, submitted, horizon>>

(* createAttestations.  The property says what a submitted attestation must look like and that  *)
(* unsigned validators yield none; it does not oblige every signed validator to be submitted.   *)
Build(r, A) ==
    LET rr == run[r] IN
    /\ rr.pc = "build"
    /\ Strict04 => /\ \A a \in A : /\ a.sig.v \in Signed(rr)
                                   /\ a \in ExpectedAtts(rr.duty, a.sig.v, rr.data)
                   /\ Cardinality({a.sig.v : a \in A}) = Cardinality(A)
    /\ run' = [run EXCEPT ![r].pc = IF A = {} THEN "ret" ELSE "submit", ![r].atts = A]
    /\ UNCHANGED <<attested, signReq, submitted, horizon>>

\* the attestations are handed to the submitter (SubmitCall) ... and it returns (SubmitRet)
SubmitCall(r) ==
    LET rr == run[r] IN
    /\ rr.pc = "submit"
    /\ submitted' = submitted \cup {[run |-> r, duty |-> rr.duty, fetched |-> rr.data,
                                     signed |-> Signed(rr), att |-> a] : a \in rr.atts}
    /\ run' = [run EXCEPT ![r].pc = "submitting"]
    /\ UNCHANGED <<attested, signReq, horizon>>

SubmitRet(r, ok) ==
    /\ run[r].pc = "submitting"
    /\ run' = [run EXCEPT ![r].pc = "ret"]
    /\ UNCHANGED <<attested, signReq, submitted, horizon>>

\* housekeepAttestedMap and the return of Attest: only entries older than epoch-1 may go (and the
\* run's own marks if it never reached the signer)
Housekeep(r, P) ==
    /\ run[r].pc = "ret"
    /\ P \subseteq attested
    /\ Strict01 => P \subseteq OldPairs(run[r]) \cup OwnUnsigned(r)
    /\ attested' = attested \ P
    /\ run' = [run EXCEPT ![r] = DoneRun]
    /\ UNCHANGED <<signReq, submitted, horizon>>

-----------------------------------------------------------------------------
\* Next quantifies over the intended mechanism (Duties is supplied by the model).  Lean = the
\* choices the property leaves to the implementation are taken as the code takes them (every signed
\* validator is submitted, housekeeping drops all old entries or none): used for longer histories.
Choice(Lean, S) == IF Lean THEN {S} ELSE SUBSET S
\* ReqSeq(rr): the request (sequence) the design under study builds from the run's duty and accounts
NextWithReq(Duties, Lean, ReqSeq(_)) ==
    \/ \E r \in RunIds, d \in Duties :
            /\ \A q \in RunIds : q < r => run[q].pc # "idle"
            /\ Deliver(r, d)
    \/ \E r \in RunIds :
        \/ \E claim \in BOOLEAN : MarkOne(r, claim)
        \/ \E a \in DataChoices(run[r].duty) : Fetch(r, a)
        \/ FetchErr(r)
        \/ \E pass \in BOOLEAN : Validate(r, pass)
        \/ \E A \in SUBSET run[r].claimed : Accounts(r, A)
        \/ AccountsErr(r)
        \/ SignCallSeq(r, ReqSeq(run[r]), SignData(run[r]))
        \/ \E Z \in SUBSET ReqVals(run[r].req), ok \in BOOLEAN : SignRet(r, Z, ok)
        \/ \E S \in Choice(Lean, Signed(run[r])) : Build(r, {ExpectedAtt(run[r].duty, v, run[r].data) : v \in S})
        \/ SubmitCall(r)
        \/ \E ok \in BOOLEAN : SubmitRet(r, ok)
        \/ \E P \in Choice(Lean, OldPairs(run[r])) \cup {{}} : Housekeep(r, P)
        \/ \E P \in Choice(Lean, OwnUnsigned(r)) : Housekeep(r, P)

\* the intended mechanism: one position per validator with an account
IntendedReq(rr) == SeqOfSet(ExpectedReq(rr))
NextWith(Duties, Lean) == NextWithReq(Duties, Lean, IntendedReq)
\* the control design: the raw duty walked (must be rejected once a duty may repeat a validator)
NextWalk(Duties, Lean) == NextWithReq(Duties, Lean, WalkReq)

-----------------------------------------------------------------------------
(* C01 *)
\* at most one signature request per validator and epoch: no validator at two positions of one call
\* (the same pair twice, or with two committees), none in two calls for one epoch
NoDoubleSign ==
    /\ \A s \in signReq : \A v \in DOMAIN s.mult : s.mult[v] = 1
    /\ \A s1, s2 \in signReq : \A p1 \in s1.req, p2 \in s2.req :
        (p1[1] = p2[1] /\ Epoch(s1.data.slot) = Epoch(s2.data.slot)) => (s1 = s2 /\ p1 = p2)

\* ... hence never two votes of a validator for one target epoch (the slashable case)
NoDoubleVote ==
    \A s1, s2 \in signReq : \A p1 \in s1.req, p2 \in s2.req :
        (p1[1] = p2[1] /\ s1.data.tgt = s2.data.tgt) => (s1 = s2 /\ p1 = p2)

\* every request carries the duty's slot, target = epoch of that slot, source <= target
SignedDataSound ==
    \A s \in signReq : /\ s.data.slot = s.dslot
                       /\ s.data.tgt = Epoch(s.dslot)
                       /\ s.data.src <= s.data.tgt

\* data that does not meet the rule is refused without any signature being requested
RefusedMeansNoSign ==
    /\ \A s \in signReq : s.fetched.slot = s.dslot /\ s.fetched.tgt = Epoch(s.dslot) /\ s.fetched.src <= s.fetched.tgt
    /\ \A r \in RunIds : (run[r].data # NoData /\ ~DataOK(run[r].duty, run[r].data))
                            => ~\E s \in signReq : s.run = r

\* attested only grows, except for entries older than epoch-1 (or a run's own unused marks)
\* dropped when a run finishes
AttestedMonotoneStep ==
    \A p \in attested \ attested' :
        \E r \in RunIds : /\ run[r].pc = "ret" /\ run'[r].pc = "done"
                          /\ p[1] + 1 < Epoch(run[r].duty.slot) \/ p \in OwnUnsigned(r)
AttestedMonotone == [][AttestedMonotoneStep]_vars

(* C04 *)
\* every submitted attestation is the one the duty assigns to its validator, with the obtained data
AssignmentExact ==
    \A x \in submitted :
        /\ x.att.sig.v \in Range(x.duty.vals)
        /\ x.att \in ExpectedAtts(x.duty, x.att.sig.v, x.fetched)

\* ... and the signer was asked with that validator's committee index over the same data
SignAssignmentExact ==
    \A s \in signReq :
        /\ \A p \in s.req : p[1] \in Range(s.duty.vals) /\ \E i \in Entries(s.duty, p[1]) : p[2] = s.duty.comm[i]
        /\ s.data = [slot |-> s.dslot, src |-> s.fetched.src, tgt |-> s.fetched.tgt, root |-> s.fetched.root]

\* validators without a signature yield no attestation
UnsignedYieldNothing == \A x \in submitted : x.att.sig.v \in x.signed
=============================================================================
