------------------------------ MODULE Submitter ------------------------------
(* Multi-node submitter of Vouch (services/submitter/multinode/submit*.go, helpers.go;           *)
(* util/scatter.go; services/submitter/immediate/service.go).                                    *)
(*                                                                                                *)
(* Property C08: every submission is offered in full to every configured beacon node, is          *)
(* reported successful exactly when, within the time-out, at least one node accepted it or        *)
(* rejected it only for a reason Vouch deliberately tolerates from that client, and returns no    *)
(* later than the time-out.  If the process concurrency is not below the number of nodes, a node  *)
(* that errors, hangs or is slow never prevents delivery to, or success via, the other nodes.     *)
(*                                                                                                *)
(* The module has three layers.                                                                   *)
(*  1. Pure operators: the client-specific classifier Tolerated(kind, client, reason); the         *)
(*     Scatter partition (ExtentSize, Extents, IsPartition) is in SubmitterScatter.tla.           *)
(*  2. Observation variables (what can be seen at the service's interfaces: which chunks each     *)
(*     node was offered and when, what each node replied and when, what the call returned and     *)
(*     when) and the invariants of C08 written over them.  Instants are classes relative to the   *)
(*     time-out T: "before", "amb" (within the tolerance window around T), "after".               *)
(*  3. The mechanism of the code, one action per critical step: one goroutine per node            *)
(*     (AcquireCall, Complete = reply + classification + completed.Store(true), SignalN =         *)
(*     w.Signal() + deferred sem.Release), the caller (WaitReg = w.Wait() registering on the      *)
(*     notify list, Return = wake + completed.Load()), the time-out signaller (TimeoutSignal),    *)
(*     and the clock (Tick).  The condition variable is modelled as Go implements it: a Signal    *)
(*     when nobody is registered is dropped (the node goroutines signal without holding the       *)
(*     lock, so they can signal before the caller waits).  Code steps take no time relative to    *)
(*     T: Tick is enabled only when no code step is enabled (Env_StepsAreFast).                   *)
(*                                                                                                *)
(* TLC checks that the mechanism satisfies the invariants for all outcome vectors; recorded       *)
(* traces of the real code are judged by the same invariants over the same observation variables  *)
(* (Trace_Submitter.tla), not by the mechanism, so that another correct implementation of the     *)
(* property would not raise an alarm.                                                             *)
(*                                                                                                *)
(* THE INSTANCE IS LONG-LIVED.  The submitter is built once (its nodes, their addresses, the      *)
(* process concurrency and the time-out are fixed then) and serves every submission of the        *)
(* process: a behaviour is a HISTORY of submissions of different kinds on one instance (NextCall). *)
(* What a node does is decided per submission, including whether its version query works at that  *)
(* submission (`ver`): a node can be down when Vouch starts and answer later.  C08 must hold for   *)
(* EVERY submission of the history, and the outcome of a submission depends only on that          *)
(* submission's own inputs and on ONE piece of state the property lets the instance keep:         *)
(*     known[n] = the client types node n reported at successful version lookups so far          *)
(*     (as an upper bound: what it would have reported at any submission started so far, whether  *)
(*     or not the instance got round to asking).                                                  *)
(* A rejection MUST be tolerated when the node reports, at this submission, a client from which    *)
(* Vouch tolerates it (MustAccept); it MAY be tolerated when the node cannot be asked now but      *)
(* reported such a client at an earlier submission (MayAccept: remembering a successful lookup is  *)
(* allowed, so is asking again and classifying conservatively when the question fails now).        *)
(* Nothing else may carry over: not the result of a FAILED lookup, not a semaphore permit held by  *)
(* a goroutine of an earlier (or concurrently running) submission, not a completion flag.  The     *)
(* constant Design selects the design TLC checks: "asks" (the code: a fresh semaphore, flag and    *)
(* condition variable per submission, the node asked at every classification), "cacheok" (a        *)
(* successful lookup is remembered and used while the node cannot be asked; also satisfies C08),   *)
(* and two deviations that are right on every fresh instance and that TLC must REJECT over         *)
(* histories (vacuity self-checks run by checks/C08.py): "memofail" (the first answer is           *)
(* remembered, also the "unknown" of a failed lookup - seeded/C08-client-type-cached-on-failed-    *)
(* lookup) and "sharedsem" (the semaphore lives on the instance: permits held by hanging node      *)
(* calls of earlier submissions are missing later).  Overlapping submissions on one instance are   *)
(* in SubmitterInst.tla.                                                                           *)
EXTENDS Integers, Sequences, FiniteSets, TLC, SubmitterScatter, SubmitterClassifier

CONSTANTS KindSet,      \* submission kinds explored
          ConcSet,      \* process concurrency values explored
          ItemSet,      \* payload sizes explored
          NodeCounts,   \* numbers of configured nodes explored
          MaxCalls,     \* length of the history of submissions on one instance
          HistClients,  \* client types of the instance's nodes in histories ({}: the canonical nodes
                        \* of the single-submission quantifier, MaxCalls = 1)
          HistOutcomes, \* outcomes a node can show at one submission of a history
          Design        \* "asks" | "cacheok" | "memofail" | "sharedsem" (see above)

-----------------------------------------------------------------------------
(* Layer 2: the instance, the configuration of the current submission, observation variables,    *)
(* invariants                                                                                    *)

VARIABLES kind, conc, items, nodes,       \* configuration of this submission (nodes: sequence of NodeV; conc and
                                          \* the nodes' clients belong to the instance and never change)
          known,      \* INSTANCE, persistent: per node, the client types it reported (was ready to report) at the
                      \* submissions started so far - all the instance can have learned about it
          callNo,     \* INSTANCE: index of the current submission in the history
          offered,    \* per node: sequence of chunks it was called with
          callAt,     \* per node: "no" | "early" | "amb" | "late": when its first call arrived (relative to the start)
          reply,      \* per node: "none" | "accept" | "error"
          done,       \* per node: "no" | "before" | "amb" | "after": when it finished replying, relative to T
          pre,        \* per node: it finished replying before the submission returned
          ret,        \* "none" | "ok" | "err"
          retAt,      \* "none" | "before" | "amb" | "after": return instant relative to T
          final       \* the observation is over (everything that happens by T + tolerance has happened)

cvars == <<kind, conc, items, nodes>>
ivars == <<known, callNo>>
ovars == <<offered, callAt, reply, done, pre, ret, retAt, final>>

N == 1..Len(nodes)

ObsInit ==
    /\ offered = [n \in N |-> <<>>]
    /\ callAt = [n \in N |-> "no"]
    /\ reply = [n \in N |-> "none"]
    /\ done = [n \in N |-> "no"]
    /\ pre = [n \in N |-> FALSE]
    /\ ret = "none"
    /\ retAt = "none"
    /\ final = FALSE

Learn(old, nds) == [n \in DOMAIN nds |-> old[n] \cup (IF Reported(nds[n]) = "none" THEN {} ELSE {Reported(nds[n])})]
InstInit ==
    /\ known = Learn([n \in N |-> {}], nodes)
    /\ callNo = 1

\* node n is called (first chunk arrives at instant class `at`) and is handed `chunks`
ObsCall(n, chunks, at) ==
    /\ offered' = [offered EXCEPT ![n] = chunks]
    /\ callAt' = [callAt EXCEPT ![n] = at]

\* node n finished replying `r` at instant class `at`
ObsComplete(n, r, at) ==
    /\ reply' = [reply EXCEPT ![n] = r]
    /\ done' = [done EXCEPT ![n] = at]
    /\ pre' = [pre EXCEPT ![n] = (ret = "none")]

ObsReturn(r, at) ==
    /\ ret' = r
    /\ retAt' = at

\* The next submission on the SAME instance: same nodes (same clients), same concurrency; kind,
\* payload and what every node does - including whether it answers its version query - are new.
\* Only `known` is carried over (and grows by what the nodes report from now on).
SameInstance(nds) == Len(nds) = Len(nodes) /\ \A n \in N : nds[n].client = nodes[n].client
ObsNextCall(k, it, nds) ==
    /\ final
    /\ SameInstance(nds)
    /\ kind' = k /\ items' = it /\ nodes' = nds /\ conc' = conc
    /\ callNo' = callNo + 1
    /\ known' = Learn(known, nds)
    /\ offered' = [n \in N |-> <<>>]
    /\ callAt' = [n \in N |-> "no"]
    /\ reply' = [n \in N |-> "none"]
    /\ done' = [n \in N |-> "no"]
    /\ pre' = [n \in N |-> FALSE]
    /\ ret' = "none" /\ retAt' = "none" /\ final' = FALSE

\* The node's reply counts as a delivery ...
\* ... necessarily: accepted, or rejected for a reason tolerated from the client it reports NOW
MustAccept(n) ==
    \/ reply[n] = "accept"
    \/ reply[n] = "error" /\ Tolerated(kind, Reported(nodes[n]), nodes[n].reason)
\* ... possibly: also when it cannot be asked now but reported such a client earlier on this instance
MayAccept(n) ==
    \/ MustAccept(n)
    \/ reply[n] = "error" /\ \E c \in known[n] : Tolerated(kind, c, nodes[n].reason)

Count(chunks, i) == Cardinality({p \in {<<c, k>> : c \in 1..Len(chunks), k \in 1..items} :
                                    p[2] <= Len(chunks[p[1]]) /\ chunks[p[1]][p[2]] = i})
InRange(chunks) == \A c \in 1..Len(chunks) : \A k \in 1..Len(chunks[c]) : chunks[c][k] \in 0..(items - 1)
Whole(n) == InRange(offered[n]) /\ \A i \in 0..(items - 1) : Count(offered[n], i) = 1
AllQuick == \A n \in N : nodes[n].out \in {"accept", "error"}
Roomy == conc >= Len(nodes)

\* C08, first sentence and proviso: offered in full to every node (each element once), also to a
\* slow or hanging one.  Without room for every node the property only promises this when no
\* node is slow.  (What nodes did at EARLIER submissions - hanging calls still in flight - and what
\* other submissions running now do is not part of the proviso: Roomy / AllQuick are about this
\* submission alone.)
OfferedInFull ==
    final => /\ (Roomy \/ AllQuick) => \A n \in N : callAt[n] # "no" /\ Whole(n)
             /\ \A n \in N : InRange(offered[n]) /\ \A i \in 0..(items - 1) : Count(offered[n], i) <= 1

\* C08: reported successful exactly when, within the time-out, some node accepted or
\* tolerated-rejected.  A success needs an acceptance that precedes the return; a failure must
\* not coexist with an acceptance that clearly preceded the time-out.
SuccessIff ==
    final => /\ ret = "ok" => \E n \in N : MayAccept(n) /\ pre[n]
             /\ ret = "err" => ~ \E n \in N : MustAccept(n) /\ done[n] = "before"

\* C08: returns no later than the time-out (also when every completion signal was lost).
ReturnsByTimeout == final => ret # "none" /\ retAt # "after"

\* C08, last sentence: with room for every node, no node's delivery waits for another node.
Independence == (final /\ Roomy) => \A n \in N : callAt[n] \notin {"no", "late"}

-----------------------------------------------------------------------------
(* Layer 3: the mechanism                                                                        *)

VARIABLES mpc,        \* caller: "pre" (goroutines started, not yet in Wait) | "waiting" | "woken" | "ret"
          npc,        \* per node goroutine: "start" | "calling" | "sig" | "end"
          sem,        \* permits taken from the weighted semaphore by goroutines of this submission
          due,        \* per node: clock value from which its reply is available (99: never)
          completed,  \* the atomic flag
          tpc,        \* time-out signaller: "armed" | "done"
          clock,      \* 0 start, 1 between start and T, 2 at T, 3 after T
          lost,       \* dropped signals (observation only)
          memo,       \* INSTANCE, designs "cacheok" / "memofail" only: per node the remembered client type ("unset": nothing yet)
          held        \* INSTANCE, design "sharedsem" only: permits still held by node calls of earlier submissions

mvars == <<mpc, npc, sem, due, completed, tpc, clock, lost, memo, held>>
vars == <<cvars, ivars, ovars, mvars>>

AtOfCall == IF clock = 0 THEN "early" ELSE "late"
AtOfClock == IF clock <= 1 THEN "before" ELSE IF clock = 2 THEN "amb" ELSE "after"

\* what every node does at one submission of a history: outcome x version query
HistVector(k, clientOf) ==
    {[n \in DOMAIN clientOf |-> HNode(k, clientOf[n], f[n][1], f[n][2])] :
        f \in [DOMAIN clientOf -> HistOutcomes \X Vers]}

MechInit ==
    /\ mpc = "pre"
    /\ npc = [n \in N |-> "start"]
    /\ sem = 0
    /\ due = [n \in N |-> 99]
    /\ completed = FALSE
    /\ tpc = "armed"
    /\ clock = 0
    /\ lost = 0

Init ==
    /\ kind \in KindSet
    /\ conc \in ConcSet
    /\ items \in ItemSet
    /\ IF HistClients = {}
       THEN \E k \in NodeCounts : nodes \in [1..k -> CanonNodes(kind)]
       ELSE \E k \in NodeCounts : \E cl \in [1..k -> HistClients] : nodes \in HistVector(kind, cl)
    /\ ObsInit
    /\ InstInit
    /\ MechInit
    /\ memo = [n \in N |-> "unset"]
    /\ held = 0

\* w.Wait(): the caller registers on the notify list
WaitReg ==
    /\ mpc = "pre"
    /\ mpc' = "waiting"
    /\ UNCHANGED <<cvars, ivars, ovars, npc, sem, due, completed, tpc, clock, lost, memo, held>>

DueOf(out) == CASE out \in {"accept", "error"} -> clock
                [] out \in {"slowok", "held"} -> clock + 1
                [] out = "late" -> IF clock < 2 THEN 3 ELSE clock + 1
                [] out = "hang" -> 99

\* serviceInfo(): what the design remembers about node n after looking it up now
MemoAfterLookup(n) ==
    CASE Design = "memofail" -> IF memo[n] = "unset" THEN Reported(nodes[n]) ELSE memo[n]
      [] Design = "cacheok" -> IF Reported(nodes[n]) # "none" THEN Reported(nodes[n]) ELSE memo[n]
      [] OTHER -> memo[n]

\* the client type the design classifies node n's rejection by
ClassClient(n) ==
    CASE Design = "memofail" -> memo[n]
      [] Design = "cacheok" -> IF Reported(nodes[n]) # "none" THEN Reported(nodes[n]) ELSE memo[n]
      [] OTHER -> Reported(nodes[n])

\* sem.Acquire succeeded; the node is looked up (address, version) and called with the payload
\* (Scatter chunks for attestations)
AcquireCall(n) ==
    /\ npc[n] = "start"
    /\ sem + held < conc
    /\ sem' = sem + 1
    /\ npc' = [npc EXCEPT ![n] = "calling"]
    /\ due' = [due EXCEPT ![n] = DueOf(nodes[n].out)]
    /\ memo' = [memo EXCEPT ![n] = MemoAfterLookup(n)]
    /\ ObsCall(n, ChunksFor(kind, items, conc), AtOfCall)
    /\ UNCHANGED <<cvars, ivars, reply, done, pre, ret, retAt, final, mpc, completed, tpc, clock, lost, held>>

\* the node replied; the code classifies the reply and, for an (effective) acceptance, sets the flag
Complete(n) ==
    /\ npc[n] = "calling"
    /\ due[n] <= clock
    /\ LET r == IF nodes[n].out = "error" \/ (nodes[n].out = "held" /\ nodes[n].reason # "none") THEN "error" ELSE "accept"
           eff == r = "accept" \/ Tolerated(kind, ClassClient(n), nodes[n].reason)
       IN /\ ObsComplete(n, r, AtOfClock)
          /\ IF eff THEN /\ completed' = TRUE
                         /\ npc' = [npc EXCEPT ![n] = "sig"]
                         /\ sem' = sem
                    ELSE /\ completed' = completed
                         /\ npc' = [npc EXCEPT ![n] = "end"]
                         /\ sem' = sem - 1
    /\ UNCHANGED <<cvars, ivars, offered, callAt, ret, retAt, final, mpc, due, tpc, clock, lost, memo, held>>

\* Go's Cond.Signal: wakes a registered waiter, otherwise does nothing
SignalEffect ==
    IF mpc = "waiting" THEN mpc' = "woken" /\ lost' = lost
    ELSE mpc' = mpc /\ lost' = lost + 1

\* w.Signal() by a node goroutine, then the deferred sem.Release
SignalN(n) ==
    /\ npc[n] = "sig"
    /\ SignalEffect
    /\ npc' = [npc EXCEPT ![n] = "end"]
    /\ sem' = sem - 1
    /\ UNCHANGED <<cvars, ivars, ovars, due, completed, tpc, clock, memo, held>>

\* time.Sleep(timeout); w.Signal()
TimeoutSignal ==
    /\ tpc = "armed"
    /\ clock >= 2
    /\ SignalEffect
    /\ tpc' = "done"
    /\ UNCHANGED <<cvars, ivars, ovars, npc, sem, due, completed, clock, memo, held>>

\* the caller wakes, reads the flag and returns
Return ==
    /\ mpc = "woken"
    /\ mpc' = "ret"
    /\ ObsReturn(IF completed THEN "ok" ELSE "err", AtOfClock)
    /\ UNCHANGED <<cvars, ivars, offered, callAt, reply, done, pre, final, npc, sem, due, completed, tpc, clock, lost, memo, held>>

\* Env_StepsAreFast: a code step that can be taken is taken before time passes
Urgent ==
    \/ mpc \in {"pre", "woken"}
    \/ \E n \in N : npc[n] = "start" /\ sem + held < conc
    \/ \E n \in N : npc[n] = "calling" /\ due[n] <= clock
    \/ \E n \in N : npc[n] = "sig"
    \/ tpc = "armed" /\ clock >= 2

Tick ==
    /\ clock < 3
    /\ ~ Urgent
    /\ clock' = clock + 1
    /\ UNCHANGED <<cvars, ivars, ovars, mpc, npc, sem, due, completed, tpc, lost, memo, held>>

Finish ==
    /\ clock = 3
    /\ ~ Urgent
    /\ ~ final
    /\ final' = TRUE
    /\ UNCHANGED <<cvars, ivars, offered, callAt, reply, done, pre, ret, retAt, mvars>>

\* The next submission of the history.  Everything of the finished submission is dropped: its
\* semaphore, flag, condition variable, time-out signaller and goroutines (a goroutine still blocked
\* in a hanging node call keeps ITS submission's permit, which nobody needs any more).  The designs
\* "cacheok" / "memofail" keep memo; "sharedsem" keeps the permits of the blocked goroutines.
NextCall ==
    /\ callNo < MaxCalls
    /\ HistClients # {}
    /\ \E k \in KindSet, it \in ItemSet :
         \E nds \in HistVector(k, [n \in N |-> nodes[n].client]) : ObsNextCall(k, it, nds)
    /\ mpc' = "pre"
    /\ npc' = [n \in N |-> "start"]
    /\ sem' = 0
    /\ due' = [n \in N |-> 99]
    /\ completed' = FALSE
    /\ tpc' = "armed"
    /\ clock' = 0
    /\ lost' = 0
    /\ memo' = memo
    /\ held' = IF Design = "sharedsem" THEN held + Cardinality({n \in N : npc[n] = "calling"}) ELSE held

Next ==
    \/ WaitReg \/ TimeoutSignal \/ Return \/ Tick \/ Finish \/ NextCall
    \/ \E n \in N : AcquireCall(n) \/ Complete(n) \/ SignalN(n)

Spec == Init /\ [][Next]_vars

-----------------------------------------------------------------------------
TypeOK ==
    /\ kind \in Kinds
    /\ sem \in 0..Len(nodes)
    /\ sem <= conc
    /\ clock \in 0..3
    /\ ret \in {"none", "ok", "err"}
    /\ lost \in 0..(Len(nodes) + 1)
    /\ callNo \in 1..MaxCalls
    /\ \A n \in N : known[n] \subseteq Clients

\* the flag is set only by an acceptance that has been observed
FlagSound == completed => \E n \in N : MayAccept(n)

\* the time-out signal itself is never lost (the caller is registered long before T)
TimeoutSignalHeard == (tpc = "done" /\ ret = "none") => mpc = "woken"

\* history independence, stated directly: whatever was remembered, a node that answers its version
\* query now is classified by that answer (the deviation "memofail" breaks exactly this)
ClassifiedByNow ==
    \A n \in N : (npc[n] = "calling" /\ Reported(nodes[n]) # "none") => ClassClient(n) = Reported(nodes[n])

\* reachability witnesses (must be VIOLATED; run by hand, see docs/C08.md)
NeverSecondCall == callNo = 1
NeverKnownUsed == ~ (final /\ ret = "ok" /\ ~ \E n \in N : MustAccept(n) /\ pre[n])
=============================================================================
