------------------------------ MODULE Submitter ------------------------------
(* Multi-node submitter of Vouch (services/submitter/multinode/submit*.go, helpers.go;           *)
(* util/scatter.go; services/submitter/immediate/service.go).                                    *)
(*                                                                                                *)
(* Property C08: every submission is offered in full to every configured beacon node, is          *)
(* reported successful exactly when, within the time-out, at least one node accepted it or        *)
(* rejected it only for a reason Vouch deliberately tolerates from that client, and returns no    *)
(* later than the time-out.  If the process concurrency is not below the number of nodes, a node  *)
(* that errors, hangs or is slow never prevents delivery to, or success via, the other nodes.     *)
(*                                                                                                *)
(* The module has three layers.                                                                   *)
(*  1. Pure operators: the client-specific classifier Tolerated(kind, client, reason); the         *)
(*     Scatter partition (ExtentSize, Extents, IsPartition) is in SubmitterScatter.tla.           *)
(*  2. Observation variables (what can be seen at the service's interfaces: which chunks each     *)
(*     node was offered and when, what each node replied and when, what the call returned and     *)
(*     when) and the invariants of C08 written over them.  Instants are classes relative to the   *)
(*     time-out T: "before", "amb" (within the tolerance window around T), "after".               *)
(*  3. The mechanism of the code, one action per critical step: one goroutine per node            *)
(*     (AcquireCall, Complete = reply + classification + completed.Store(true), SignalN =         *)
(*     w.Signal() + deferred sem.Release), the caller (WaitReg = w.Wait() registering on the      *)
(*     notify list, Return = wake + completed.Load()), the time-out signaller (TimeoutSignal),    *)
(*     and the clock (Tick).  The condition variable is modelled as Go implements it: a Signal    *)
(*     when nobody is registered is dropped (the node goroutines signal without holding the       *)
(*     lock, so they can signal before the caller waits).  Code steps take no time relative to    *)
(*     T: Tick is enabled only when no code step is enabled (Env_StepsAreFast).                   *)
(*                                                                                                *)
(* TLC checks that the mechanism satisfies the invariants for all outcome vectors; recorded       *)
(* traces of the real code are judged by the same invariants over the same observation variables  *)
(* (Trace_Submitter.tla), not by the mechanism, so that another correct implementation of the     *)
(* property would not raise an alarm.                                                             *)
(*                                                                                                *)
(* THE INSTANCE IS LONG-LIVED.  The submitter is built once (its nodes, their addresses, the      *)
(* process concurrency and the time-out are fixed then) and serves every submission of the        *)
(* process: a behaviour is a HISTORY of submissions of different kinds on one instance (NextCall). *)
(* What a node does is decided per submission, including whether its version query works at that  *)
(* submission (`ver`): a node can be down when Vouch starts and answer later.  C08 must hold for   *)
(* EVERY submission of the history, and the outcome of a submission depends only on that          *)
(* submission's own inputs and on ONE piece of state the property lets the instance keep:         *)
(*     known[n] = the client types node n reported at successful version lookups so far          *)
(*     (as an upper bound: what it would have reported at any submission started so far, whether  *)
(*     or not the instance got round to asking).                                                  *)
(* A rejection MUST be tolerated when the node reports, at this submission, a client from which    *)
(* Vouch tolerates it (MustAccept); it MAY be tolerated when the node cannot be asked now but      *)
(* reported such a client at an earlier submission (MayAccept: remembering a successful lookup is  *)
(* allowed, so is asking again and classifying conservatively when the question fails now).        *)
(* Nothing else may carry over: not the result of a FAILED lookup, not a semaphore permit held by  *)
(* a goroutine of an earlier (or concurrently running) submission, not a completion flag.  The     *)
(* constant Design selects the design TLC checks: "asks" (the code: a fresh semaphore, flag and    *)
(* condition variable per submission, the node asked at every classification), "cacheok" (a        *)
(* successful lookup is remembered and used while the node cannot be asked; also satisfies C08),   *)
(* and two deviations that are right on every fresh instance and that TLC must REJECT over         *)
(* histories (vacuity self-checks run by checks/C08.py): "memofail" (the first answer is           *)
(* remembered, also the "unknown" of a failed lookup - seeded/C08-client-type-cached-on-failed-    *)
(* lookup) and "sharedsem" (the semaphore lives on the instance: permits held by hanging node      *)
(* calls of earlier submissions are missing later).  Overlapping submissions on one instance are   *)
(* in SubmitterInst.tla.                                                                           *)
(*                                                                                                *)
(* EVERY KIND HAS ITS OWN NODE LIST (round 4).  Vouch configures the beacon nodes of each of the   *)
(* eight kinds of submission separately (submitter.<kind>.multinode.beacon-node-addresses): the    *)
(* instance is a POOL of peers (nodes, indexed 1..Len(nodes)) and conf[k], the peers configured    *)
(* for kind k - any non-empty subset, of different sizes for different kinds.  "Every configured   *)
(* node", "some node accepted", "process concurrency not below the number of nodes" all read       *)
(* conf[kind] of the submission at hand (N), never another kind's list; a peer outside N is never   *)
(* called.  The environment also chooses, per node, a delayed reply of either sign and its RANK    *)
(* (lat: 1..MaxLat in-time clock phases), i.e. the ORDER of the completions: rejections that       *)
(* arrive before, between and after the first acceptance within the time-out.  Designs: "allfailed" *)
(* (the caller is also woken when the last of ITS nodes has failed; satisfies C08: an early error   *)
(* return is right when nobody is left who could accept) and the deviation "wrongcount" (the       *)
(* failures are counted against the node list of ANOTHER kind, RefKind - seeded/C08-allfailed-     *)
(* early-return-wrong-count), right whenever the two lists are equally long and REJECTED by TLC     *)
(* when kind's list is longer (vacuity self-check).                                               *)
(*                                                                                                *)
(* THE SIBLING FAN-OUTS (round 5).  The boundary of the specification is where the PROPERTY draws  *)
(* it - "every submission is offered in full to every beacon node configured for it" - not where   *)
(* services/submitter ends.  main.go fans a submission out to several nodes WITHOUT the submitter   *)
(* in three places (SubmitterClassifier: DirectKinds): the proposal preparer's own loop over the    *)
(* nodes configured for proposing ("prepdirect" - in a running Vouch NO proposal preparation goes   *)
(* through the submitter's "prep"), the block relay's fan-out of validator registrations to the     *)
(* secondary beacon nodes ("regnodes") and to the relays ("regrelays").  They are values of `kind`   *)
(* with a mechanism of their own (CompleteD / AbortD / ReturnD: a loop or a WaitGroup, the caller's *)
(* context, no time-out, no result) and THE SAME invariants: OfferedInFull (for a fan-out without   *)
(* time-out: whenever every node answers at all), Independence, and DeliveredToEach - a call the     *)
(* fan-out made ends with the NODE's own outcome, never because the fan-out tore it down.  Every     *)
(* node call carries a context and the environment honours it like an HTTP client: AbortD(n) ends a  *)
(* call in flight once its context is cancelled; the reply "aborted" is an observation of its own.   *)
(* Designs of the sibling fan-outs: the code's ("asks": sequential for the preparer, one goroutine   *)
(* per node for the registrations), "parfan" (every sibling fan-out parallel, each call with the     *)
(* caller's context; satisfies C08 and makes the fan-out Roomy) and the deviations TLC must REJECT:  *)
(* "errgroup" (parallel, ONE derived context for the whole fan-out, cancelled by the first call that *)
(* fails - errgroup.WithContext, seeded/C08-preparer-errgroup-aborts-healthy-nodes: the call to a    *)
(* healthy node that is still in flight is torn down, DeliveredToEach) and "seqstop" (the loop gives *)
(* up at the first failure: OfferedInFull).                                                         *)
EXTENDS Integers, Sequences, FiniteSets, TLC, SubmitterScatter, SubmitterClassifier

CONSTANTS KindSet,      \* submission kinds explored
          ConcSet,      \* process concurrency values explored
          ItemSet,      \* payload sizes explored
          NodeCounts,   \* numbers of configured nodes explored
          MaxCalls,     \* length of the history of submissions on one instance
          HistClients,  \* client types of the instance's nodes in histories ({}: the canonical nodes
                        \* of the single-submission quantifier, MaxCalls = 1)
          HistOutcomes, \* outcomes a node can show at one submission of a history
          Design,       \* "asks" | "cacheok" | "memofail" | "sharedsem" | "allfailed" | "wrongcount" |
                        \* "parfan" | "errgroup" | "seqstop" (see above)
          MaxLat,       \* number of in-time clock phases after the start = ranks of delayed replies (>= 2)
          CanonOuts,    \* single submissions: the outcomes assigned to the configured nodes ({}: Outcomes)
          ConfSets,     \* node lists a kind can be configured with ({}: every kind has the whole pool)
          OtherSets,    \* single submissions: node lists of the OTHER kinds ({}: the whole pool)
          RefKind       \* design "wrongcount": the kind whose node list the failures are counted against

-----------------------------------------------------------------------------
(* Layer 2: the instance, the configuration of the current submission, observation variables,    *)
(* invariants                                                                                    *)

VARIABLES kind, conc, items, nodes,       \* configuration of this submission (nodes: sequence of NodeV, one per peer
                                          \* of the pool; conc and the peers' clients belong to the instance and never change)
          conf,       \* INSTANCE, fixed: kind -> the peers configured for that kind of submission
          known,      \* INSTANCE, persistent: per node, the client types it reported (was ready to report) at the
                      \* submissions started so far - all the instance can have learned about it
          callNo,     \* INSTANCE: index of the current submission in the history
          offered,    \* per node: sequence of chunks it was called with
          callAt,     \* per node: "no" | "early" | "amb" | "late": when its first call arrived (relative to the start)
          reply,      \* per node: "none" | "accept" | "error" | "aborted" (the call was ended by the cancellation
                      \* of the context the fan-out gave it, not by the node)
          done,       \* per node: "no" | "before" | "amb" | "after": when it finished replying, relative to T
          pre,        \* per node: it finished replying before the submission returned
          ret,        \* "none" | "ok" | "err" | "done" (a sibling fan-out is over; it reports nothing)
          retAt,      \* "none" | "before" | "amb" | "after": return instant relative to T
          final       \* the observation is over (everything that happens by T + tolerance has happened)

cvars == <<kind, conc, items, nodes>>
ivars == <<conf, known, callNo>>
ovars == <<offered, callAt, reply, done, pre, ret, retAt, final>>

Pool == 1..Len(nodes)
N == conf[kind]          \* the nodes of THIS submission: the peers configured for its kind

ObsInit ==
    /\ offered = [n \in N |-> <<>>]
    /\ callAt = [n \in N |-> "no"]
    /\ reply = [n \in N |-> "none"]
    /\ done = [n \in N |-> "no"]
    /\ pre = [n \in N |-> FALSE]
    /\ ret = "none"
    /\ retAt = "none"
    /\ final = FALSE

\* what the instance can learn at a submission to the peers `who`
Learn(old, nds, who) == [n \in DOMAIN old |-> IF n \in who /\ Reported(nds[n]) # "none" THEN old[n] \cup {Reported(nds[n])} ELSE old[n]]
InstInit ==
    /\ known = Learn([n \in Pool |-> {}], nodes, N)
    /\ callNo = 1

\* node n is called (first chunk arrives at instant class `at`) and is handed `chunks`
ObsCall(n, chunks, at) ==
    /\ offered' = [offered EXCEPT ![n] = chunks]
    /\ callAt' = [callAt EXCEPT ![n] = at]

\* node n finished replying `r` at instant class `at`
ObsComplete(n, r, at) ==
    /\ reply' = [reply EXCEPT ![n] = r]
    /\ done' = [done EXCEPT ![n] = at]
    /\ pre' = [pre EXCEPT ![n] = (ret = "none")]

ObsReturn(r, at) ==
    /\ ret' = r
    /\ retAt' = at

\* The next submission on the SAME instance: same nodes (same clients), same concurrency; kind,
\* payload and what every node does - including whether it answers its version query - are new.
\* Only `known` is carried over (and grows by what the nodes report from now on).
SameInstance(nds) == Len(nds) = Len(nodes) /\ \A n \in Pool : nds[n].client = nodes[n].client
ObsNextCall(k, it, nds) ==
    /\ final
    /\ SameInstance(nds)
    /\ kind' = k /\ items' = it /\ nodes' = nds /\ conc' = conc /\ conf' = conf
    /\ callNo' = callNo + 1
    /\ known' = Learn(known, nds, conf[k])
    /\ offered' = [n \in conf[k] |-> <<>>]
    /\ callAt' = [n \in conf[k] |-> "no"]
    /\ reply' = [n \in conf[k] |-> "none"]
    /\ done' = [n \in conf[k] |-> "no"]
    /\ pre' = [n \in conf[k] |-> FALSE]
    /\ ret' = "none" /\ retAt' = "none" /\ final' = FALSE

\* The node's reply counts as a delivery ...
\* ... necessarily: accepted, or rejected for a reason tolerated from the client it reports NOW
MustAccept(n) ==
    \/ reply[n] = "accept"
    \/ reply[n] = "error" /\ Tolerated(kind, Reported(nodes[n]), nodes[n].reason)
\* ... possibly: also when it cannot be asked now but reported such a client earlier on this instance
MayAccept(n) ==
    \/ MustAccept(n)
    \/ reply[n] = "error" /\ \E c \in known[n] : Tolerated(kind, c, nodes[n].reason)

Count(chunks, i) == Cardinality({p \in {<<c, k>> : c \in 1..Len(chunks), k \in 1..items} :
                                    p[2] <= Len(chunks[p[1]]) /\ chunks[p[1]][p[2]] = i})
InRange(chunks) == \A c \in 1..Len(chunks) : \A k \in 1..Len(chunks[c]) : chunks[c][k] \in 0..(items - 1)
Whole(n) == InRange(offered[n]) /\ \A i \in 0..(items - 1) : Count(offered[n], i) = 1
AllQuick == \A n \in N : nodes[n].out \in {"accept", "error"}
\* every node answers, sooner or later (a fan-out without time-out waits for each of them)
AllRespond == \A n \in N : nodes[n].out \in {"accept", "error", "slowok", "slowerr", "late"}
\* how many node calls the fan-out has in flight at a time: the configured process concurrency of the
\* submitter; 1 for a sibling fan-out that walks over its nodes (the preparer's loop), every node for
\* one that starts a goroutine per node
ParDesign == Design \in {"parfan", "errgroup"}
EffConc == IF Timed(kind) THEN conc
           ELSE IF kind \in SeqKinds /\ ~ ParDesign THEN 1 ELSE Cardinality(N)
Roomy == EffConc >= Cardinality(N)

\* (N is the node list of THIS kind: with per-kind lists of different sizes "every node", "room for
\* every node" and - in SuccessIff - "some node" are about conf[kind] and nothing else.)
\* C08, first sentence and proviso: offered in full to every node (each element once), also to a
\* slow or hanging one.  Without room for every node the property only promises this when no
\* node is slow.  (What nodes did at EARLIER submissions - hanging calls still in flight - and what
\* other submissions running now do is not part of the proviso: Roomy / AllQuick are about this
\* submission alone.)
OfferedInFull ==
    final => /\ (Roomy \/ AllQuick \/ (~ Timed(kind) /\ AllRespond)) => \A n \in N : callAt[n] # "no" /\ Whole(n)
             /\ \A n \in N : InRange(offered[n]) /\ \A i \in 0..(items - 1) : Count(offered[n], i) <= 1

\* C08: reported successful exactly when, within the time-out, some node accepted or
\* tolerated-rejected.  A success needs an acceptance that precedes the return; a failure must
\* not coexist with an acceptance that clearly preceded the time-out.
SuccessIff ==
    (final /\ Timed(kind)) =>
             /\ ret = "ok" => \E n \in N : MayAccept(n) /\ pre[n]
             /\ ret = "err" => ~ \E n \in N : MustAccept(n) /\ done[n] = "before"

\* C08: returns no later than the time-out (also when every completion signal was lost).
\* (the sibling fan-outs have no time-out and report nothing)
ReturnsByTimeout == (final /\ Timed(kind)) => ret # "none" /\ retAt # "after"

\* C08, last sentence: with room for every node, no node's delivery waits for another node.
Independence == (final /\ Roomy) => \A n \in N : callAt[n] \notin {"no", "late"}

\* C08, last sentence, at the level of the single node call: what a node is handed really reaches it.
\* A call the fan-out has made ends with the node's OWN outcome (acceptance, rejection, or no answer at
\* all) - it is never torn down by the fan-out itself (the cancellation of a context it derived: because
\* ANOTHER node failed, or accepted) while the submission is still within its time-out.  (After the
\* time-out the submission is over; giving up on the stragglers then is a legitimate design.  The sibling
\* fan-outs have no time-out: nothing but the caller ends their calls.)
DeliveredToEach == \A n \in N : reply[n] = "aborted" => (Timed(kind) /\ done[n] # "before")

-----------------------------------------------------------------------------
(* Layer 3: the mechanism                                                                        *)

VARIABLES mpc,        \* caller: "pre" (goroutines started, not yet in Wait) | "waiting" | "woken" | "ret"
          npc,        \* per node goroutine: "start" | "calling" | "sig" | "end"
          sem,        \* permits taken from the weighted semaphore by goroutines of this submission
          due,        \* per node: clock value from which its reply is available (99: never)
          completed,  \* the atomic flag
          tpc,        \* time-out signaller: "armed" | "done"
          clock,      \* 0 start, 1..MaxLat between start and T, MaxLat + 1 at T, MaxLat + 2 after T
          lost,       \* dropped signals (observation only)
          memo,       \* INSTANCE, designs "cacheok" / "memofail" only: per node the remembered client type ("unset": nothing yet)
          held,       \* INSTANCE, design "sharedsem" only: permits still held by node calls of earlier submissions
          fails       \* designs "allfailed" / "wrongcount", and every sibling fan-out: node goroutines / loop
                      \* iterations of this submission that have failed

mvars == <<mpc, npc, sem, due, completed, tpc, clock, lost, memo, held, fails>>
vars == <<cvars, ivars, ovars, mvars>>

\* clock: 0 start, 1..MaxLat between start and T (the ranks of delayed in-time replies), TAt at T, TAfter after T
TAt == MaxLat + 1
TAfter == MaxLat + 2
AtOfCall == IF clock = 0 THEN "early" ELSE "late"
AtOfClock == IF ~ Timed(kind) \/ clock < TAt THEN "before" ELSE IF clock = TAt THEN "amb" ELSE "after"
\* the end of the observation: after the time-out; a fan-out without time-out is watched until every node
\* that answers at all has answered, also one after the other
ClockEnd == IF Timed(kind) THEN TAfter ELSE TAfter + (MaxLat + 1) * Cardinality(N)

\* what every node does at one submission of a history: outcome x version query
\* (a peer that is not configured for kind k plays no part in the submission: one fixed description)
HistVector(k, clientOf) ==
    {[n \in DOMAIN clientOf |-> HNode(k, clientOf[n], f[n][1], f[n][2])] :
        f \in {g \in [DOMAIN clientOf -> HistOutcomes \X Vers] : \A n \in DOMAIN clientOf \ conf[k] : g[n] = <<"accept", "ok">>}}

MechInit ==
    /\ mpc = IF Timed(kind) THEN "pre" ELSE "waiting"      \* a sibling fan-out: the loop itself / wg.Wait()
    /\ npc = [n \in N |-> "start"]
    /\ sem = 0
    /\ due = [n \in N |-> 99]
    /\ completed = FALSE
    /\ tpc = IF Timed(kind) THEN "armed" ELSE "done"       \* ... has no time-out
    /\ clock = 0
    /\ lost = 0
    /\ fails = 0

\* the node lists the kinds can be configured with on a pool of k peers
ConfsFor(k) == IF ConfSets = {} THEN {1..k} ELSE {c \in ConfSets : c # {} /\ c \subseteq 1..k}
OthersFor(k) == IF OtherSets = {} THEN {1..k} ELSE {c \in OtherSets : c # {} /\ c \subseteq 1..k}
InitOuts == IF CanonOuts = {} THEN Outcomes ELSE CanonOuts

Init ==
    /\ kind \in KindSet
    /\ conc \in ConcSet
    /\ items \in ItemSet
    /\ IF HistClients = {}
       THEN \* one submission: what matters of the configuration is the node list of its kind and (for the
            \* design that looks at another kind's list) the list all other kinds have
            \E k \in NodeCounts : \E own \in ConfsFor(k), other \in OthersFor(k) :
               /\ conf = [kk \in AllKinds |-> IF kk = kind THEN own ELSE other]
               /\ nodes \in [1..k -> {Canon(kind, o) : o \in InitOuts}]
               /\ \A n \in (1..k) \ own : nodes[n] = Canon(kind, "accept")
       ELSE \E k \in NodeCounts : \E cf \in [KindSet -> ConfsFor(k)] :
               /\ conf = [kk \in AllKinds |-> IF kk \in KindSet THEN cf[kk] ELSE 1..k]
               /\ \E cl \in [1..k -> HistClients] : nodes \in HistVector(kind, cl)
    /\ ObsInit
    /\ InstInit
    /\ MechInit
    /\ memo = [n \in Pool |-> "unset"]
    /\ held = 0

\* w.Wait(): the caller registers on the notify list
WaitReg ==
    /\ mpc = "pre"
    /\ mpc' = "waiting"
    /\ UNCHANGED <<cvars, ivars, ovars, npc, sem, due, completed, tpc, clock, lost, memo, held, fails>>

DueOf(nd) == CASE nd.out \in {"accept", "error"} -> clock
               [] nd.out \in {"slowok", "slowerr"} -> clock + LatOf(nd)
               [] nd.out = "held" -> clock + 1
               [] nd.out = "late" -> IF clock < TAt THEN TAfter ELSE clock + 1
               [] nd.out = "hang" -> 99

\* serviceInfo(): what the design remembers about node n after looking it up now
MemoAfterLookup(n) ==
    CASE Design = "memofail" -> IF memo[n] = "unset" THEN Reported(nodes[n]) ELSE memo[n]
      [] Design = "cacheok" -> IF Reported(nodes[n]) # "none" THEN Reported(nodes[n]) ELSE memo[n]
      [] OTHER -> memo[n]

\* the client type the design classifies node n's rejection by
ClassClient(n) ==
    CASE Design = "memofail" -> memo[n]
      [] Design = "cacheok" -> IF Reported(nodes[n]) # "none" THEN Reported(nodes[n]) ELSE memo[n]
      [] OTHER -> Reported(nodes[n])

\* sem.Acquire succeeded; the node is looked up (address, version) and called with the payload
\* (Scatter chunks for attestations)
\* (a sibling fan-out: the loop reaches the node / the node's goroutine starts; design "seqstop": the
\* loop has given up)
Stopped == ~ Timed(kind) /\ Design = "seqstop" /\ fails > 0
AcquireCall(n) ==
    /\ npc[n] = "start"
    /\ sem + held < EffConc
    /\ ~ Stopped
    /\ sem' = sem + 1
    /\ npc' = [npc EXCEPT ![n] = "calling"]
    /\ due' = [due EXCEPT ![n] = DueOf(nodes[n])]
    /\ memo' = [memo EXCEPT ![n] = MemoAfterLookup(n)]
    /\ ObsCall(n, ChunksFor(kind, items, conc), AtOfCall)
    /\ UNCHANGED <<cvars, ivars, reply, done, pre, ret, retAt, final, mpc, completed, tpc, clock, lost, held, fails>>

\* designs "allfailed" / "wrongcount": the number of failed node goroutines at which the caller is woken
\* ("allfailed": the nodes of this submission; "wrongcount": the node list of kind RefKind)
CountsFailures == Design \in {"allfailed", "wrongcount"}
FailBound == IF Design = "wrongcount" THEN Cardinality(conf[RefKind]) ELSE Cardinality(N)

\* the node replied; the code classifies the reply and, for an (effective) acceptance, sets the flag
\* (designs that count failures: the goroutine whose failure reaches the bound signals the caller)
Complete(n) ==
    /\ Timed(kind)
    /\ npc[n] = "calling"
    /\ due[n] <= clock
    /\ LET r == IF IsErr(nodes[n]) THEN "error" ELSE "accept"
           eff == r = "accept" \/ Tolerated(kind, ClassClient(n), nodes[n].reason)
       IN /\ ObsComplete(n, r, AtOfClock)
          /\ IF eff THEN /\ completed' = TRUE
                         /\ npc' = [npc EXCEPT ![n] = "sig"]
                         /\ sem' = sem
                         /\ fails' = fails
                    ELSE IF CountsFailures /\ fails + 1 = FailBound
                    THEN /\ completed' = completed
                         /\ npc' = [npc EXCEPT ![n] = "sig"]
                         /\ sem' = sem
                         /\ fails' = fails + 1
                    ELSE /\ completed' = completed
                         /\ npc' = [npc EXCEPT ![n] = "end"]
                         /\ sem' = sem - 1
                         /\ fails' = IF CountsFailures THEN fails + 1 ELSE fails
    /\ UNCHANGED <<cvars, ivars, offered, callAt, ret, retAt, final, mpc, due, tpc, clock, lost, memo, held>>

\* ---- the sibling fan-outs (DirectKinds): a loop or a WaitGroup, no flag, no signal, no time-out
\* the node replied: the loop goes on / the goroutine ends.  A failure of the node's own is counted
\* ("not active" is not one for the preparer; it cancels nothing in any design)
RealFailure(nd) == IsErr(nd) /\ nd.reason # "notActive"
CompleteD(n) ==
    /\ ~ Timed(kind)
    /\ npc[n] = "calling"
    /\ due[n] <= clock
    /\ ObsComplete(n, IF IsErr(nodes[n]) THEN "error" ELSE "accept", AtOfClock)
    /\ npc' = [npc EXCEPT ![n] = "end"]
    /\ sem' = sem - 1
    /\ fails' = IF RealFailure(nodes[n]) THEN fails + 1 ELSE fails
    /\ UNCHANGED <<cvars, ivars, offered, callAt, ret, retAt, final, mpc, due, completed, tpc, clock, lost, memo, held>>

\* Env_HonoursContext: every node call carries a context, and the node's client honours it the way an
\* HTTP client does - once the context is cancelled, a call in flight ends without the node's reply
\* (when the reply is due at the same moment either can win).  In the intended protocol nobody cancels
\* the context of a node call; design "errgroup": ONE derived context for the whole fan-out, cancelled
\* as soon as a call has failed.
Cancelled(n) == ~ Timed(kind) /\ Design = "errgroup" /\ fails > 0
AbortD(n) ==
    /\ npc[n] = "calling"
    /\ Cancelled(n)
    /\ ObsComplete(n, "aborted", AtOfClock)
    /\ npc' = [npc EXCEPT ![n] = "end"]
    /\ sem' = sem - 1
    /\ UNCHANGED <<cvars, ivars, offered, callAt, ret, retAt, final, mpc, due, completed, tpc, clock, lost, memo, held, fails>>

\* the loop is over / wg.Wait() returns
ReturnD ==
    /\ ~ Timed(kind)
    /\ mpc = "waiting"
    /\ \A n \in N : npc[n] = "end" \/ (Stopped /\ npc[n] = "start")
    /\ mpc' = "ret"
    /\ ObsReturn("done", AtOfClock)
    /\ UNCHANGED <<cvars, ivars, offered, callAt, reply, done, pre, final, npc, sem, due, completed, tpc, clock, lost, memo, held, fails>>

\* Go's Cond.Signal: wakes a registered waiter, otherwise does nothing
SignalEffect ==
    IF mpc = "waiting" THEN mpc' = "woken" /\ lost' = lost
    ELSE mpc' = mpc /\ lost' = lost + 1

\* w.Signal() by a node goroutine, then the deferred sem.Release
SignalN(n) ==
    /\ npc[n] = "sig"
    /\ SignalEffect
    /\ npc' = [npc EXCEPT ![n] = "end"]
    /\ sem' = sem - 1
    /\ UNCHANGED <<cvars, ivars, ovars, due, completed, tpc, clock, memo, held, fails>>

\* time.Sleep(timeout); w.Signal()
TimeoutSignal ==
    /\ tpc = "armed"
    /\ clock >= TAt
    /\ SignalEffect
    /\ tpc' = "done"
    /\ UNCHANGED <<cvars, ivars, ovars, npc, sem, due, completed, clock, memo, held, fails>>

\* the caller wakes, reads the flag and returns
Return ==
    /\ mpc = "woken"
    /\ mpc' = "ret"
    /\ ObsReturn(IF completed THEN "ok" ELSE "err", AtOfClock)
    /\ UNCHANGED <<cvars, ivars, offered, callAt, reply, done, pre, final, npc, sem, due, completed, tpc, clock, lost, memo, held, fails>>

\* Env_StepsAreFast: a code step that can be taken is taken before time passes
Urgent ==
    \/ mpc \in {"pre", "woken"}
    \/ \E n \in N : npc[n] = "start" /\ sem + held < EffConc /\ ~ Stopped
    \/ \E n \in N : npc[n] = "calling" /\ Cancelled(n)
    \/ ~ Timed(kind) /\ mpc = "waiting" /\ \A n \in N : npc[n] = "end" \/ (Stopped /\ npc[n] = "start")
    \/ \E n \in N : npc[n] = "calling" /\ due[n] <= clock
    \/ \E n \in N : npc[n] = "sig"
    \/ tpc = "armed" /\ clock >= TAt

Tick ==
    /\ clock < ClockEnd
    /\ ~ Urgent
    /\ clock' = clock + 1
    /\ UNCHANGED <<cvars, ivars, ovars, mpc, npc, sem, due, completed, tpc, lost, memo, held, fails>>

Finish ==
    /\ clock = ClockEnd
    /\ ~ Urgent
    /\ ~ final
    /\ final' = TRUE
    /\ UNCHANGED <<cvars, ivars, offered, callAt, reply, done, pre, ret, retAt, mvars>>

\* The next submission of the history.  Everything of the finished submission is dropped: its
\* semaphore, flag, condition variable, time-out signaller and goroutines (a goroutine still blocked
\* in a hanging node call keeps ITS submission's permit, which nobody needs any more).  The designs
\* "cacheok" / "memofail" keep memo; "sharedsem" keeps the permits of the blocked goroutines.
NextCall ==
    /\ callNo < MaxCalls
    /\ HistClients # {}
    /\ \E k \in KindSet, it \in ItemSet :
         \E nds \in HistVector(k, [n \in Pool |-> nodes[n].client]) : ObsNextCall(k, it, nds)
    /\ mpc' = IF Timed(kind') THEN "pre" ELSE "waiting"
    /\ npc' = [n \in conf[kind'] |-> "start"]
    /\ sem' = 0
    /\ due' = [n \in conf[kind'] |-> 99]
    /\ fails' = 0
    /\ completed' = FALSE
    /\ tpc' = IF Timed(kind') THEN "armed" ELSE "done"
    /\ clock' = 0
    /\ lost' = 0
    /\ memo' = memo
    /\ held' = IF Design = "sharedsem" THEN held + Cardinality({n \in N : npc[n] = "calling"}) ELSE held

Next ==
    \/ WaitReg \/ TimeoutSignal \/ Return \/ Tick \/ Finish \/ NextCall
    \/ \E n \in N : AcquireCall(n) \/ Complete(n) \/ SignalN(n)
    \/ ReturnD
    \/ \E n \in N : CompleteD(n) \/ AbortD(n)

Spec == Init /\ [][Next]_vars

-----------------------------------------------------------------------------
TypeOK ==
    /\ kind \in AllKinds
    /\ sem \in 0..Cardinality(N)
    /\ sem <= EffConc
    /\ clock \in 0..ClockEnd
    /\ N # {} /\ N \subseteq Pool
    /\ DOMAIN offered = N /\ DOMAIN npc = N
    /\ fails \in 0..Cardinality(N)
    /\ ret \in {"none", "ok", "err", "done"}
    /\ (ret = "done") => ~ Timed(kind)
    /\ lost \in 0..(Cardinality(N) + 1)
    /\ callNo \in 1..MaxCalls
    /\ \A n \in Pool : known[n] \subseteq Clients

\* the flag is set only by an acceptance that has been observed
FlagSound == completed => \E n \in N : MayAccept(n)

\* the time-out signal itself is never lost (the caller is registered long before T)
TimeoutSignalHeard == (Timed(kind) /\ tpc = "done" /\ ret = "none") => mpc = "woken"

\* history independence, stated directly: whatever was remembered, a node that answers its version
\* query now is classified by that answer (the deviation "memofail" breaks exactly this)
ClassifiedByNow ==
    \A n \in N : (npc[n] = "calling" /\ Reported(nodes[n]) # "none") => ClassClient(n) = Reported(nodes[n])

\* reachability witnesses (must be VIOLATED; run by hand, see docs/C08.md)
NeverSecondCall == callNo = 1
NeverKnownUsed == ~ (final /\ ret = "ok" /\ ~ \E n \in N : MustAccept(n) /\ pre[n])
=============================================================================
