------------------------------ MODULE Submitter ------------------------------
(* Multi-node submitter of Vouch (services/submitter/multinode/submit*.go, helpers.go;           *)
(* util/scatter.go; services/submitter/immediate/service.go).                                    *)
(*                                                                                                *)
(* Property C08: every submission is offered in full to every configured beacon node, is          *)
(* reported successful exactly when, within the time-out, at least one node accepted it or        *)
(* rejected it only for a reason Vouch deliberately tolerates from that client, and returns no    *)
(* later than the time-out.  If the process concurrency is not below the number of nodes, a node  *)
(* that errors, hangs or is slow never prevents delivery to, or success via, the other nodes.     *)
(*                                                                                                *)
(* The module has three layers.                                                                   *)
(*  1. Pure operators: the client-specific classifier Tolerated(kind, client, reason); the         *)
(*     Scatter partition (ExtentSize, Extents, IsPartition) is in SubmitterScatter.tla.           *)
(*  2. Observation variables (what can be seen at the service's interfaces: which chunks each     *)
(*     node was offered and when, what each node replied and when, what the call returned and     *)
(*     when) and the invariants of C08 written over them.  Instants are classes relative to the   *)
(*     time-out T: "before", "amb" (within the tolerance window around T), "after".               *)
(*  3. The mechanism of the code, one action per critical step: one goroutine per node            *)
(*     (AcquireCall, Complete = reply + classification + completed.Store(true), SignalN =         *)
(*     w.Signal() + deferred sem.Release), the caller (WaitReg = w.Wait() registering on the      *)
(*     notify list, Return = wake + completed.Load()), the time-out signaller (TimeoutSignal),    *)
(*     and the clock (Tick).  The condition variable is modelled as Go implements it: a Signal    *)
(*     when nobody is registered is dropped (the node goroutines signal without holding the       *)
(*     lock, so they can signal before the caller waits).  Code steps take no time relative to    *)
(*     T: Tick is enabled only when no code step is enabled (Env_StepsAreFast).                   *)
(*                                                                                                *)
(* TLC checks that the mechanism satisfies the invariants for all outcome vectors; recorded       *)
(* traces of the real code are judged by the same invariants over the same observation variables  *)
(* (Trace_Submitter.tla), not by the mechanism, so that another correct implementation of the     *)
(* property would not raise an alarm.                                                             *)
EXTENDS Integers, Sequences, FiniteSets, TLC, SubmitterScatter

CONSTANTS KindSet,      \* submission kinds explored
          ConcSet,      \* process concurrency values explored
          ItemSet,      \* payload sizes explored
          NodeCounts    \* numbers of configured nodes explored

-----------------------------------------------------------------------------
(* Layer 1a: classification of rejections                                                        *)

Kinds == {"att", "agg", "proposal", "syncmsg", "contrib", "bcsub", "scsub", "prep"}
Clients == {"lighthouse", "teku", "nimbus", "prysm", "lodestar", "unknown", "broken"}
    \* "unknown": the node does not tell its version; "broken": the version query fails

\* What a node can do with a call.  "error" carries a reason (the shape of the error it returns).
Outs == {"accept", "error", "slowok", "late", "hang"}
Reasons == {"none",
            "plain",            \* free text, no JSON
            "lhPrior",          \* lighthouse: PriorAttestationKnown
            "lhUnknownHead",    \* lighthouse: UnknownHeadBlock
            "nimbusTarget",     \* nimbus: Attempt to send attestation for unknown target
            "lhDupAll",         \* lighthouse JSON, >= 1 failure, all PriorSyncCommitteeMessageKnown
            "lhDupSome",        \* lighthouse JSON, one duplicate and one real failure
            "tekuDupAll",       \* teku JSON, >= 1 failure, all duplicates
            "tekuDupSome",      \* teku JSON, one duplicate and one real failure
            "lhAggKnownAll",    \* lighthouse JSON, >= 1 failure, all AggregatorAlreadyKnown
            "lhAggKnownSome",   \* lighthouse JSON, one already-known and one real failure
            "attMixed",         \* attestations in several chunks: the chunk holding item 0 is rejected as
                                \* already known (lighthouse wording), every other chunk for a real reason
                                \* (a payload that arrives in one piece is rejected for the real reason)
            "noFailures",       \* error JSON without a failures array (e.g. a 500)
            "emptyFailures",    \* error JSON with "failures": []
            "badJson"}          \* text with a brace that is not JSON

\* The rejections Vouch deliberately tolerates (comments in submitattestations.go,
\* submitsynccommitteemessages.go, submitsynccommitteecontributions.go): already known, or node
\* behind the head; per client; for the batch kinds only when at least one failure is listed and
\* every listed failure is a duplicate.
Tolerated(kind, client, reason) ==
    \/ kind = "att" /\ client = "lighthouse" /\ reason \in {"lhPrior", "lhUnknownHead"}
    \/ kind = "att" /\ client = "nimbus" /\ reason = "nimbusTarget"
    \/ kind = "syncmsg" /\ client = "lighthouse" /\ reason = "lhDupAll"
    \/ kind = "syncmsg" /\ client = "teku" /\ reason = "tekuDupAll"
    \/ kind = "contrib" /\ client = "lighthouse" /\ reason = "lhAggKnownAll"

\* Reasons that make sense to script per kind (any other combination is simply a rejection).
ReasonsOf(kind) ==
    CASE kind = "att" -> {"plain", "lhPrior", "lhUnknownHead", "nimbusTarget", "noFailures", "attMixed"}
      [] kind = "syncmsg" -> {"plain", "lhDupAll", "lhDupSome", "tekuDupAll", "tekuDupSome",
                              "noFailures", "emptyFailures", "badJson"}
      [] kind = "contrib" -> {"plain", "lhAggKnownAll", "lhAggKnownSome", "noFailures",
                              "emptyFailures", "badJson"}
      [] OTHER -> {"plain", "lhPrior", "noFailures"}

Node(client, out, reason) == [client |-> client, out |-> out, reason |-> reason]

\* The seven outcomes of the property's quantifier, as canonical node descriptions per kind:
\* accept / reject / tolerated-reject (client-specific) / malformed-error / slow-in-time /
\* slow-late / hang.
TolClient(kind) == IF kind = "att" THEN "lighthouse" ELSE IF kind = "syncmsg" THEN "teku" ELSE "lighthouse"
TolReason(kind) ==
    CASE kind = "att" -> "lhUnknownHead"
      [] kind = "syncmsg" -> "tekuDupAll"
      [] kind = "contrib" -> "lhAggKnownAll"
      [] OTHER -> "lhPrior"        \* nothing is tolerated for the other kinds: a plain rejection
Outcomes == {"accept", "reject", "treject", "malformed", "slowok", "late", "hang"}
Canon(kind, o) ==
    CASE o = "accept" -> Node("prysm", "accept", "none")
      [] o = "reject" -> Node("lighthouse", "error", "plain")
      [] o = "treject" -> Node(TolClient(kind), "error", TolReason(kind))
      [] o = "malformed" -> Node(TolClient(kind), "error", "noFailures")
      [] o = "slowok" -> Node("teku", "slowok", "none")
      [] o = "late" -> Node("nimbus", "late", "none")
      [] o = "hang" -> Node("lodestar", "hang", "none")
CanonNodes(kind) == {Canon(kind, o) : o \in Outcomes}

-----------------------------------------------------------------------------
(* Layer 2: configuration, observation variables, invariants                                     *)

VARIABLES kind, conc, items, nodes,       \* configuration of this submission (nodes: sequence of Node)
          offered,    \* per node: sequence of chunks it was called with
          callAt,     \* per node: "no" | "early" | "amb" | "late": when its first call arrived (relative to the start)
          reply,      \* per node: "none" | "accept" | "error"
          done,       \* per node: "no" | "before" | "amb" | "after": when it finished replying, relative to T
          pre,        \* per node: it finished replying before the submission returned
          ret,        \* "none" | "ok" | "err"
          retAt,      \* "none" | "before" | "amb" | "after": return instant relative to T
          final       \* the observation is over (everything that happens by T + tolerance has happened)

cvars == <<kind, conc, items, nodes>>
ovars == <<offered, callAt, reply, done, pre, ret, retAt, final>>

N == 1..Len(nodes)

ObsInit ==
    /\ offered = [n \in N |-> <<>>]
    /\ callAt = [n \in N |-> "no"]
    /\ reply = [n \in N |-> "none"]
    /\ done = [n \in N |-> "no"]
    /\ pre = [n \in N |-> FALSE]
    /\ ret = "none"
    /\ retAt = "none"
    /\ final = FALSE

\* node n is called (first chunk arrives at instant class `at`) and is handed `chunks`
ObsCall(n, chunks, at) ==
    /\ offered' = [offered EXCEPT ![n] = chunks]
    /\ callAt' = [callAt EXCEPT ![n] = at]

\* node n finished replying `r` at instant class `at`
ObsComplete(n, r, at) ==
    /\ reply' = [reply EXCEPT ![n] = r]
    /\ done' = [done EXCEPT ![n] = at]
    /\ pre' = [pre EXCEPT ![n] = (ret = "none")]

ObsReturn(r, at) ==
    /\ ret' = r
    /\ retAt' = at

EffAccept(n) ==
    \/ reply[n] = "accept"
    \/ reply[n] = "error" /\ Tolerated(kind, nodes[n].client, nodes[n].reason)

Count(chunks, i) == Cardinality({p \in {<<c, k>> : c \in 1..Len(chunks), k \in 1..items} :
                                    p[2] <= Len(chunks[p[1]]) /\ chunks[p[1]][p[2]] = i})
InRange(chunks) == \A c \in 1..Len(chunks) : \A k \in 1..Len(chunks[c]) : chunks[c][k] \in 0..(items - 1)
Whole(n) == InRange(offered[n]) /\ \A i \in 0..(items - 1) : Count(offered[n], i) = 1
AllQuick == \A n \in N : nodes[n].out \in {"accept", "error"}
Roomy == conc >= Len(nodes)

\* C08, first sentence and proviso: offered in full to every node (each element once), also to a
\* slow or hanging one.  Without room for every node the property only promises this when no
\* node is slow.
OfferedInFull ==
    final => /\ (Roomy \/ AllQuick) => \A n \in N : callAt[n] # "no" /\ Whole(n)
             /\ \A n \in N : InRange(offered[n]) /\ \A i \in 0..(items - 1) : Count(offered[n], i) <= 1

\* C08: reported successful exactly when, within the time-out, some node accepted or
\* tolerated-rejected.  A success needs an acceptance that precedes the return; a failure must
\* not coexist with an acceptance that clearly preceded the time-out.
SuccessIff ==
    final => /\ ret = "ok" => \E n \in N : EffAccept(n) /\ pre[n]
             /\ ret = "err" => ~ \E n \in N : EffAccept(n) /\ done[n] = "before"

\* C08: returns no later than the time-out (also when every completion signal was lost).
ReturnsByTimeout == final => ret # "none" /\ retAt # "after"

\* C08, last sentence: with room for every node, no node's delivery waits for another node.
Independence == (final /\ Roomy) => \A n \in N : callAt[n] \notin {"no", "late"}

-----------------------------------------------------------------------------
(* Layer 3: the mechanism                                                                        *)

VARIABLES mpc,        \* caller: "pre" (goroutines started, not yet in Wait) | "waiting" | "woken" | "ret"
          npc,        \* per node goroutine: "start" | "calling" | "sig" | "end"
          sem,        \* permits taken from the weighted semaphore
          due,        \* per node: clock value from which its reply is available (99: never)
          completed,  \* the atomic flag
          tpc,        \* time-out signaller: "armed" | "done"
          clock,      \* 0 start, 1 between start and T, 2 at T, 3 after T
          lost        \* dropped signals (observation only)

mvars == <<mpc, npc, sem, due, completed, tpc, clock, lost>>
vars == <<cvars, ovars, mvars>>

AtOfCall == IF clock = 0 THEN "early" ELSE "late"
AtOfClock == IF clock <= 1 THEN "before" ELSE IF clock = 2 THEN "amb" ELSE "after"

Init ==
    /\ kind \in KindSet
    /\ conc \in ConcSet
    /\ items \in ItemSet
    /\ \E k \in NodeCounts : nodes \in [1..k -> CanonNodes(kind)]
    /\ ObsInit
    /\ mpc = "pre"
    /\ npc = [n \in N |-> "start"]
    /\ sem = 0
    /\ due = [n \in N |-> 99]
    /\ completed = FALSE
    /\ tpc = "armed"
    /\ clock = 0
    /\ lost = 0

\* w.Wait(): the caller registers on the notify list
WaitReg ==
    /\ mpc = "pre"
    /\ mpc' = "waiting"
    /\ UNCHANGED <<cvars, ovars, npc, sem, due, completed, tpc, clock, lost>>

DueOf(out) == CASE out \in {"accept", "error"} -> clock
                [] out = "slowok" -> clock + 1
                [] out = "late" -> IF clock < 2 THEN 3 ELSE clock + 1
                [] out = "hang" -> 99

\* sem.Acquire succeeded; the node is called with the payload (Scatter chunks for attestations)
AcquireCall(n) ==
    /\ npc[n] = "start"
    /\ sem < conc
    /\ sem' = sem + 1
    /\ npc' = [npc EXCEPT ![n] = "calling"]
    /\ due' = [due EXCEPT ![n] = DueOf(nodes[n].out)]
    /\ ObsCall(n, ChunksFor(kind, items, conc), AtOfCall)
    /\ UNCHANGED <<cvars, reply, done, pre, ret, retAt, final, mpc, completed, tpc, clock, lost>>

\* the node replied; the code classifies the reply and, for an (effective) acceptance, sets the flag
Complete(n) ==
    /\ npc[n] = "calling"
    /\ due[n] <= clock
    /\ LET r == IF nodes[n].out = "error" THEN "error" ELSE "accept"
           eff == r = "accept" \/ Tolerated(kind, nodes[n].client, nodes[n].reason)
       IN /\ ObsComplete(n, r, AtOfClock)
          /\ IF eff THEN /\ completed' = TRUE
                         /\ npc' = [npc EXCEPT ![n] = "sig"]
                         /\ sem' = sem
                    ELSE /\ completed' = completed
                         /\ npc' = [npc EXCEPT ![n] = "end"]
                         /\ sem' = sem - 1
    /\ UNCHANGED <<cvars, offered, callAt, ret, retAt, final, mpc, due, tpc, clock, lost>>

\* Go's Cond.Signal: wakes a registered waiter, otherwise does nothing
SignalEffect ==
    IF mpc = "waiting" THEN mpc' = "woken" /\ lost' = lost
    ELSE mpc' = mpc /\ lost' = lost + 1

\* w.Signal() by a node goroutine, then the deferred sem.Release
SignalN(n) ==
    /\ npc[n] = "sig"
    /\ SignalEffect
    /\ npc' = [npc EXCEPT ![n] = "end"]
    /\ sem' = sem - 1
    /\ UNCHANGED <<cvars, ovars, due, completed, tpc, clock>>

\* time.Sleep(timeout); w.Signal()
TimeoutSignal ==
    /\ tpc = "armed"
    /\ clock >= 2
    /\ SignalEffect
    /\ tpc' = "done"
    /\ UNCHANGED <<cvars, ovars, npc, sem, due, completed, clock>>

\* the caller wakes, reads the flag and returns
Return ==
    /\ mpc = "woken"
    /\ mpc' = "ret"
    /\ ObsReturn(IF completed THEN "ok" ELSE "err", AtOfClock)
    /\ UNCHANGED <<cvars, offered, callAt, reply, done, pre, final, npc, sem, due, completed, tpc, clock, lost>>

\* Env_StepsAreFast: a code step that can be taken is taken before time passes
Urgent ==
    \/ mpc \in {"pre", "woken"}
    \/ \E n \in N : npc[n] = "start" /\ sem < conc
    \/ \E n \in N : npc[n] = "calling" /\ due[n] <= clock
    \/ \E n \in N : npc[n] = "sig"
    \/ tpc = "armed" /\ clock >= 2

Tick ==
    /\ clock < 3
    /\ ~ Urgent
    /\ clock' = clock + 1
    /\ UNCHANGED <<cvars, ovars, mpc, npc, sem, due, completed, tpc, lost>>

Finish ==
    /\ clock = 3
    /\ ~ Urgent
    /\ ~ final
    /\ final' = TRUE
    /\ UNCHANGED <<cvars, offered, callAt, reply, done, pre, ret, retAt, mvars>>

Next ==
    \/ WaitReg \/ TimeoutSignal \/ Return \/ Tick \/ Finish
    \/ \E n \in N : AcquireCall(n) \/ Complete(n) \/ SignalN(n)

Spec == Init /\ [][Next]_vars

-----------------------------------------------------------------------------
TypeOK ==
    /\ kind \in Kinds
    /\ sem \in 0..Len(nodes)
    /\ sem <= conc
    /\ clock \in 0..3
    /\ ret \in {"none", "ok", "err"}
    /\ lost \in 0..(Len(nodes) + 1)

\* the flag is set only by an acceptance that has been observed
FlagSound == completed => \E n \in N : EffAccept(n)

\* the time-out signal itself is never lost (the caller is registered long before T)
TimeoutSignalHeard == (tpc = "done" /\ ret = "none") => mpc = "woken"

=============================================================================
