SPECIFICATION SSpec
CONSTANTS
  Calls = {1}
  DocIds = {1, 2, 3, 4, 5}
  FailKinds = {"error", "malformed"}
  MaxFetches = 9
  MaxOpen = 2
  Overlap = TRUE
  Design = "resolve"
  Family = "hist"
INVARIANTS Emit
CHECK_DEADLOCK FALSE
