------------------------- MODULE Scen_CollectorInst -------------------------
(* Scenario generator for C07 over HISTORIES of calls on one strategy instance.                  *)
(*                                                                                              *)
(* A history is a behaviour of CollectorInst.tla projected on the steps in which the environment *)
(* calls the instance: per call what every node does this time (an element of the set NextCall / *)
(* StartOverlap choose from) and when it starts relative to the previous call:                   *)
(*   "seq"    after every earlier call has returned                       (EndCall; NextCall)    *)
(*   "early"  together with the previous call                            (StartOverlap, the call *)
(*   "mid"    when the previous call has passed its soft time-out          in front at that phase)*)
(* At most two calls are in flight (the call before an overlapped one is a "seq" one).  The      *)
(* steps in between are the collector's own and need no script.  The construction parameters     *)
(* (variant, n, thr and the process concurrency pcy, which the model does not know: nothing may  *)
(* depend on it) are fixed per history; a history has at least pcy + 2 calls.                    *)
(*                                                                                              *)
(* Families (fam) shape what the earlier calls leave behind and what the later ones need:        *)
(*   "leak"    calls in which one node shows the same fault (flt: an invalid answer or a failure *)
(*             early in the call, silence, a late answer; strict: the other nodes answer later, *)
(*             so the faulty answer is certainly consumed) ... then two healthy calls            *)
(*   "stale"   healthy and dead (nothing acceptable in time) calls alternate                     *)
(*   "repeat"  the same node behaviours in every call                                            *)
(*   "pairs"   overlapped pairs: a long call (some node not early) with a second call beside it  *)
(*   "free"    anything, any start                                                               *)
(* TLC draws histories in simulation mode (seeded); checks/C07.py maps each to the real          *)
(* strategies of its variant and the driver runs it on ONE real instance.                        *)
EXTENDS Collector, Json

CONSTANTS MaxPC, Families

VARIABLES hv, hn, hthr, pcy, fam, klen,     \* the instance and the shape of the history
          flt, strict,                      \* family "leak": the recurring fault; whether it is certainly consumed
          calls,                            \* the calls composed so far: [at, env]
          at, cur,                          \* the call being composed: its start, its nodes so far
          complete

shape == <<hv, hn, hthr, pcy, fam, klen, flt, strict>>
hvars == <<vars, shape, calls, at, cur, complete>>

Phases == {"early", "mid", "late"}

\* what one node does in one call: NextCall / StartOverlap / Init of Collector.tla choose from the same set
\* (there one representative per multiset of nodes; here the nodes are drawn one by one, in any order)
NodeChoices == {c \in [b : Behaviours(hv), f : Phases] : c.b.k = "silent" => c.f = "late"}

HealthyNode(c) == c.b.k = "valid" /\ c.f # "late" /\ (Len(cur) > 0 => c.b.v = cur[1].b.v)
\* the fault that recurs in family "leak" (one lagging / broken node, slot after slot)
FaultNode(c) ==
    CASE flt = "invalid" -> c.b.k = "invalid" /\ c.f = "early"
      [] flt = "error"   -> c.b.k = "error" /\ c.f = "early"
      [] flt = "silent"  -> c.b.k = "silent"
      [] flt = "late"    -> c.b.k # "silent" /\ c.f = "late"
      [] OTHER -> FALSE
DeadNode(c) == ~(c.b.k = "valid" /\ c.f # "late")
LongNode(c) == c.f # "early"
Some(P(_)) == \E q \in 1..Len(cur) : P(cur[q])

i == Len(calls) + 1          \* the call being composed

\* when a call may start, per family; at most two calls in flight
AtAllowed(a) ==
    /\ i > 1 \/ a = "seq"
    /\ (a # "seq") => calls[i - 1].at = "seq"
    /\ CASE fam \in {"leak", "stale", "repeat"} -> a = "seq"
         [] fam = "pairs" -> (a = "seq") = (i % 2 = 1)
         [] OTHER -> TRUE

\* what node p of the call may do, per family (healthy: every node reports the same valid value in time;
\* dead: nothing acceptable in time; long: some node does not answer early)
NodeAllowed(p, c) ==
    CASE fam = "leak"   -> IF i <= klen - 2
                           THEN IF p = 1 THEN FaultNode(c) ELSE (strict => c.f # "early")
                           ELSE HealthyNode(c)
      [] fam = "stale"  -> IF i % 2 = 1 THEN HealthyNode(c) ELSE DeadNode(c)
      [] fam = "repeat" -> i > 1 => c = calls[1].env[p]
      [] fam = "pairs"  -> IF i % 2 = 0 THEN TRUE
                           ELSE IF i = klen THEN HealthyNode(c)
                           ELSE (p = hn /\ ~Some(LongNode)) => LongNode(c)
      [] OTHER          -> TRUE

ChooseAt ==
    /\ i <= klen /\ at = "none"
    /\ \E a \in {"seq", "early", "mid"} : AtAllowed(a) /\ at' = a
    /\ UNCHANGED <<vars, shape, calls, cur, complete>>

AddNode ==
    /\ at # "none"
    /\ \E c \in NodeChoices :
          /\ NodeAllowed(Len(cur) + 1, c)
          /\ IF Len(cur) + 1 < hn
             THEN cur' = Append(cur, c) /\ UNCHANGED <<calls, at>>
             ELSE calls' = Append(calls, [at |-> at, env |-> Append(cur, c)]) /\ cur' = <<>> /\ at' = "none"
    /\ UNCHANGED <<vars, shape, complete>>

\* (a step of its own, so that simulation prints the one history it has drawn and not every candidate)
Finish ==
    /\ Len(calls) = klen /\ ~complete
    /\ complete' = TRUE
    /\ UNCHANGED <<vars, shape, calls, at, cur>>

SInit ==
    \* the collector's own variables play no part in the projection
    /\ variant = "First" /\ n = 1 /\ thr = 0 /\ cap = 1
    /\ beh = [p \in 1..1 |-> [k |-> "silent", v |-> 0, s |-> 0]]
    /\ ph = [p \in 1..1 |-> "late"]
    /\ InitCollector
    /\ hv \in Variants
    /\ hn \in 1..MaxN
    /\ hthr \in (IF hv = "Majority" THEN 0..hn ELSE {0})
    /\ pcy \in 1..MaxPC
    /\ klen \in {pcy + 2, pcy + 3}
    /\ fam \in Families
    /\ flt \in (IF fam = "leak" THEN {"error", "silent", "late"} \cup (IF hv # "RootMajority" THEN {"invalid"} ELSE {})
                ELSE {"none"})
    /\ strict \in (IF fam = "leak" THEN BOOLEAN ELSE {FALSE})
    /\ calls = <<>> /\ at = "none" /\ cur = <<>>
    /\ complete = FALSE

SSpec == SInit /\ [][ChooseAt \/ AddNode \/ Finish]_hvars

Emit == complete =>
    PrintT(ToJson([variant |-> hv, n |-> hn, thr |-> hthr, pc |-> pcy, fam |-> fam, flt |-> flt, strict |-> strict,
                   calls |-> [j \in 1..klen |->
                        [at |-> calls[j].at,
                         provs |-> [p \in 1..hn |-> [k |-> calls[j].env[p].b.k, v |-> calls[j].env[p].b.v,
                                                     s |-> calls[j].env[p].b.s, ph |-> calls[j].env[p].f]]]]]))
=============================================================================
