-------------------------- MODULE Trace_SyncPaths --------------------------
(* Trace specification for the scheduling-path family of C15: a trace recorded from ONE wired     *)
(* instance per history - the real controller (New, the epoch ticker, the Altair fork handler,    *)
(* HandleHeadEvent and its reorg refresh), the real advanced scheduler, the real wallet account   *)
(* manager over the real validators manager, the real signer, messenger, aggregator and           *)
(* subscriber; fakes only at the beacon node and the wallet store - is a behaviour of SyncPaths.  *)
(*   Reset            fork, start, acct, comm (per period), life (the node's validator records)   *)
(*   Start/Tick/Head  prep = slots of the prepare jobs in the scheduler afterwards                *)
(*   Exit/Slash       the node's record of v changes                                              *)
(*   RefreshAccounts  the accounts refresher job ran; table = the validators manager's records    *)
(*   RunSlot          the prepare, message and aggregation jobs of the current slot were run:     *)
(*                    fired = the prepare job existed, msgs = validators with a submitted message *)
(*                    for the slot (rootok: over the node's head root, BLS-verified against the   *)
(*                    validator's key), aggs = validators with a submitted contribution           *)
(*   Crash / Hung     a job panicked / did not return: no action of the specification             *)
EXTENDS SyncPaths, TraceLib

VARIABLE l
tvars == <<vars, l>>

TraceInit ==
    /\ l = 1
    /\ now = 0 /\ fork = 0 /\ start = 0 /\ up = FALSE
    /\ life = [v \in Validators |-> Ongoing] /\ known = life
    /\ acct = {} /\ comm = [p \in Periods |-> {}]
    /\ jobs = NoJobs /\ ran = {} /\ msgs = {}
    /\ lastEp = 0 /\ curRoot = 0 /\ ticked = -1
    /\ cnt = [heads |-> 0, env |-> 0, refresh |-> 0, xticks |-> 0]
    /\ InitHWM

IsEvent(e) == l <= TraceLen /\ Trace[l].ev = e /\ l' = l + 1

RecOf(S, v) == LET x == CHOOSE x \in S : x.v = v IN [exit |-> x.exit, wd |-> x.wd, slashed |-> x.slashed]
LifeOf(seq) == [v \in Validators |-> RecOf(SeqToSet(seq), v)]

TraceReset ==
    /\ IsEvent("Reset")
    /\ LET t == Trace[l] IN
         /\ t.spe = SPE /\ t.epp = EPP /\ t.prep = Prep
         /\ {x.v : x \in SeqToSet(t.life)} = Validators
         /\ fork' = t.fork /\ start' = t.start /\ now' = t.start
         /\ life' = LifeOf(t.life) /\ known' = LifeOf(t.life)
         /\ acct' = SeqToSet(t.acct)
         /\ comm' = [p \in Periods |-> IF p + 1 <= Len(t.comm) THEN SeqToSet(t.comm[p + 1]) ELSE {}]
    /\ up' = FALSE
    /\ jobs' = NoJobs /\ ran' = {} /\ msgs' = {}
    /\ lastEp' = 0 /\ curRoot' = 0 /\ ticked' = -1
    /\ cnt' = [heads |-> 0, env |-> 0, refresh |-> 0, xticks |-> 0]

\* the prepare jobs found in the scheduler are exactly those of the specification
Table == DOMAIN jobs' = SeqToSet(Trace[l].prep)

TraceStart == IsEvent("Start") /\ Start /\ Table
TraceTick == IsEvent("Tick") /\ Tick /\ Trace[l].epoch = CurEp /\ Table
TraceHead == IsEvent("Head") /\ Head(Trace[l].root) /\ Table
TraceAdvance == IsEvent("Advance") /\ Advance(Trace[l].to)
TraceExit == IsEvent("Exit") /\ ExitV(Trace[l].v, Trace[l].x)
TraceSlash == IsEvent("Slash") /\ SlashV(Trace[l].v) /\ Trace[l].x = CurEp + 2

\* after the accounts refresher the validators manager holds the node's records
TraceRefreshAccounts ==
    /\ IsEvent("RefreshAccounts")
    /\ up /\ known' = life
    /\ LET T == SeqToSet(Trace[l].table) IN
         /\ {x.v : x \in T} = acct
         /\ \A v \in acct : RecOf(T, v) = life[v]
    /\ UNCHANGED <<now, fork, start, up, life, acct, comm, jobs, ran, msgs, lastEp, curRoot, ticked, cnt>>

\* the slot's jobs ran: exactly the members of the duty the specification's job carries have a message over
\* the head root (and, every member being an aggregator in this geometry, a contribution)
TraceRunSlot ==
    /\ IsEvent("RunSlot")
    /\ LET t == Trace[l] IN
         /\ t.slot = now
         /\ IF t.fired
            THEN /\ RunSlot
                 /\ SeqToSet(t.msgs) = jobs[now].acc
                 /\ t.rootok
                 /\ SeqToSet(t.aggs) = jobs[now].acc
            ELSE /\ now \notin DOMAIN jobs
                 /\ UNCHANGED vars

TraceNext == TraceReset \/ TraceStart \/ TraceTick \/ TraceHead \/ TraceAdvance \/ TraceExit \/ TraceSlash
             \/ TraceRefreshAccounts \/ TraceRunSlot

TraceSpec == TraceInit /\ [][TraceNext]_tvars

HWM == UpdateHWM(l)
TraceAccepted == TraceAcceptedUpTo
=============================================================================
