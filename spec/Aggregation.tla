----------------------------- MODULE Aggregation -----------------------------
(* The two aggregation pipelines of Vouch that run after the duties of C14 / C15.               *)
(*                                                                                              *)
(*   (A) services/attestationaggregator/standard/service.go   Aggregate(ctx, duty)              *)
(*   (B) services/synccommitteeaggregator/standard/service.go SetBeaconBlockRoot, Aggregate     *)
(*                                                                                              *)
(* One action per interface call the Go code makes, with the call's arguments as action         *)
(* parameters and the environment's answer as the last parameter:                               *)
(*                                                                                              *)
(*   A  AStart(d)                  the aggregation job of C14 calls Aggregate(duty d)           *)
(*      AFetch(slot, root, res)    AggregateAttestationProvider.AggregateAttestation            *)
(*      AAccounts(epoch, vs, res)  ValidatingAccountsProvider.ValidatingAccountsForEpochByIndex *)
(*      ASign(acct, slot, m, res)  AggregateAndProofSigner.SignAggregateAndProof (m = message   *)
(*                                 whose hash tree root was handed to the signer)               *)
(*      ASubmit(payload, ok)       AggregateAttestationsSubmitter.SubmitAggregateAttestations   *)
(*      ADone                      Aggregate returns                                            *)
(*   B  BSetRoot(s, r, P)          SetBeaconBlockRoot(slot, root) (called by the messenger)     *)
(*      BNewHead(r)                environment: the node's head changes                         *)
(*      BStart(d)                  the aggregation job of C15 calls Aggregate(duty d)           *)
(*      BHeadRoot(block, res)      BeaconBlockRootProvider.BeaconBlockRoot                      *)
(*      BFetch(slot, sub, root, res) SyncCommitteeContributionProvider.SyncCommitteeContribution*)
(*      BSign(reqs, res)           ContributionAndProofSigner.SignContributionAndProofs         *)
(*      BSubmit(payload, ok)       SyncCommitteeContributionsSubmitter.Submit...Contributions   *)
(*      BDone(P)                   Aggregate returns; the remembered roots afterwards           *)
(*                                                                                              *)
(* What is demanded (the guards; the invariants below restate it over what was submitted):      *)
(* every call carries the arguments the duty determines; the signed and submitted message is    *)
(* built from the duty's validator, exactly the aggregate / contribution obtained in THIS job   *)
(* for the duty's slot and root, and the duty's own selection proof; the submitted signature is *)
(* the one the signer returned for that message and that validator's account; a job may end     *)
(* without having submitted only after a failure of the environment.                            *)
(* What is left open: the order of independent calls, repeated calls (retries), what happens    *)
(* to the rest of a job after an environment failure (beacon node error, signer error for the   *)
(* whole request, submit error, a duty naming an aggregator without an account), and whether a  *)
(* message for which the signer returned the zero signature is submitted.  A zero signature for *)
(* ONE contribution is a per-aggregator fault: it gives no licence to drop the others.          *)
EXTENDS Integers, FiniteSets, Sequences, TLC

CONSTANTS Pipelines,       \* subset of {"A", "B"}: which pipeline the run explores
          SlotsPerEpoch,
          ASlots, ADataRoots, AValidators, AProofs, AAggIds, AMaxJobs,
          BSlots, BRoots, BValidators, BSubs, BContribIds, BMaxSel, BMaxJobs, BMaxSets

VARIABLES
    \* ---- pipeline A
    aPhase,     \* "idle" | "run" | "done"
    aJobs,      \* number of Aggregate calls so far
    aDuty,      \* the duty of the current job
    aGot,       \* aggregate obtained in this job (NoAgg: none)
    aAcct,      \* account obtained in this job (0: none)
    aAns,       \* the signer's latest answer in this job
    aSigned,    \* the signer has answered without an error in this job
    aFail,      \* environment failures seen in this job
    aSub,       \* everything submitted successfully, with the job's context
    \* ---- pipeline B
    bPhase, bJobs, bSets,
    bRem,       \* the service's remembered roots: function slot -> root
    bHead,      \* the node's head root
    bDuty,      \* the duty of the current job
    bBefore,    \* bRem when the job started
    bHeadGot,   \* head root obtained from the node in this job (set, empty or one root)
    bFetched,   \* contributions obtained in this job
    bSigned,    \* the signer's latest answers in this job: set of [msg, sig], one per (v, sub)
    bFail,      \* an environment failure was seen in this job (BOOLEAN)
    bSub        \* everything submitted successfully, with the job's context

AVars == <<aPhase, aJobs, aDuty, aGot, aAcct, aAns, aSigned, aFail, aSub>>
BVars == <<bPhase, bJobs, bSets, bRem, bHead, bDuty, bBefore, bHeadGot, bFetched, bSigned, bFail, bSub>>
vars == <<AVars, BVars>>

Epoch(s) == s \div SlotsPerEpoch

-----------------------------------------------------------------------------
(* Values of pipeline A.  0 / n = 0 stand for "none"; slots, roots, validators are >= 1.        *)
NoAgg == [slot |-> 0, root |-> 0, n |-> 0]
\* the validator's signature over the slot, computed when subscribing (C14): the selection proof
SlotSig(v, slot, p) == [v |-> v, slot |-> slot, p |-> p]
AMsg(v, g, pr) == [v |-> v, agg |-> g, proof |-> pr]                \* phase0.AggregateAndProof
NoAMsg == AMsg(0, NoAgg, SlotSig(0, 0, 0))
ASig(acct, slot, m) == [z |-> FALSE, acct |-> acct, slot |-> slot, over |-> m]
AZeroSig == [z |-> TRUE, acct |-> 0, slot |-> 0, over |-> NoAMsg]
ADuties == {[slot |-> s, root |-> r, v |-> v, proof |-> SlotSig(v, s, p)] :
                s \in ASlots, r \in ADataRoots, v \in AValidators, p \in AProofs}
NoADuty == [slot |-> 0, root |-> 0, v |-> 0, proof |-> SlotSig(0, 0, 0)]
AAggs(slot, root) == {[slot |-> slot, root |-> root, n |-> n] : n \in AAggIds}
ADutyMsg == AMsg(aDuty.v, aGot, aDuty.proof)

AStart(d) ==
    /\ "A" \in Pipelines
    /\ aPhase # "run" /\ aJobs < AMaxJobs
    /\ aPhase' = "run" /\ aJobs' = aJobs + 1 /\ aDuty' = d
    /\ aGot' = NoAgg /\ aAcct' = 0 /\ aAns' = AZeroSig /\ aSigned' = FALSE /\ aFail' = {}
    /\ UNCHANGED <<aSub, BVars>>

\* res = [err, agg]; an answer without error is an aggregate for the requested slot and data root
AFetch(slot, root, res) ==
    /\ aPhase = "run" /\ ~aSigned
    /\ slot = aDuty.slot /\ root = aDuty.root
    /\ IF res.err
         THEN aFail' = aFail \cup {"fetch"} /\ UNCHANGED aGot
         ELSE /\ res.agg.slot = slot /\ res.agg.root = root /\ res.agg.n > 0
              /\ aGot' = res.agg /\ UNCHANGED aFail
    /\ UNCHANGED <<aPhase, aJobs, aDuty, aAcct, aAns, aSigned, aSub, BVars>>

\* res: "ok" (the account of every requested validator), "none" (an empty answer), "err"
AAccounts(epoch, vs, res) ==
    /\ aPhase = "run" /\ ~aSigned
    /\ epoch = Epoch(aDuty.slot) /\ vs = {aDuty.v}
    /\ IF res = "ok"
         THEN aAcct' = aDuty.v /\ UNCHANGED aFail
         ELSE aFail' = aFail \cup {"acct"} /\ UNCHANGED aAcct
    /\ UNCHANGED <<aPhase, aJobs, aDuty, aGot, aAns, aSigned, aSub, BVars>>

\* res: "ok" (the signature of acct for slot over m), "zero" (the zero signature), "err"
ASign(acct, slot, m, res) ==
    /\ aPhase = "run" /\ aGot # NoAgg /\ aAcct # 0
    /\ acct = aAcct /\ slot = aDuty.slot /\ m = ADutyMsg
    /\ CASE res = "ok"   -> aAns' = ASig(acct, slot, m) /\ aSigned' = TRUE /\ UNCHANGED aFail
         [] res = "zero" -> aAns' = AZeroSig /\ aSigned' = TRUE /\ aFail' = aFail \cup {"zerosig"}
         [] OTHER        -> aFail' = aFail \cup {"sign"} /\ UNCHANGED <<aAns, aSigned>>
    /\ UNCHANGED <<aPhase, aJobs, aDuty, aGot, aAcct, aSub, BVars>>

ASubmittedThisJob == \E e \in aSub : e.job = aJobs

\* payload: the set of [msg, sig] handed to the submitter
ASubmit(payload, ok) ==
    /\ aPhase = "run" /\ aSigned /\ ~ASubmittedThisJob
    /\ payload = {[msg |-> ADutyMsg, sig |-> aAns]}
    /\ IF ok
         THEN /\ aSub' = aSub \cup {[job |-> aJobs, duty |-> aDuty, got |-> aGot, ans |-> aAns,
                                     msg |-> e.msg, sig |-> e.sig] : e \in payload}
              /\ UNCHANGED aFail
         ELSE aFail' = aFail \cup {"submit"} /\ UNCHANGED aSub
    /\ UNCHANGED <<aPhase, aJobs, aDuty, aGot, aAcct, aAns, aSigned, BVars>>

\* the job may end once it has submitted, or after a failure of its environment
ADone ==
    /\ aPhase = "run"
    /\ aFail # {} \/ ASubmittedThisJob
    /\ aPhase' = "done"
    /\ UNCHANGED <<aJobs, aDuty, aGot, aAcct, aAns, aSigned, aFail, aSub, BVars>>

ANext ==
    \/ \E d \in ADuties : AStart(d)
    \/ \E res \in {[err |-> TRUE, agg |-> NoAgg]} \cup {[err |-> FALSE, agg |-> g] : g \in AAggs(aDuty.slot, aDuty.root)} :
          AFetch(aDuty.slot, aDuty.root, res)
    \/ \E res \in {"ok", "none", "err"} : AAccounts(Epoch(aDuty.slot), {aDuty.v}, res)
    \/ \E res \in {"ok", "zero", "err"} : ASign(aAcct, aDuty.slot, ADutyMsg, res)
    \/ \E ok \in BOOLEAN : ASubmit({[msg |-> ADutyMsg, sig |-> aAns]}, ok)
    \/ ADone

-----------------------------------------------------------------------------
(* Values of pipeline B.                                                                        *)
NoContrib == [slot |-> 0, sub |-> 0, root |-> 0, n |-> 0]
\* the validator's selection signature for (slot, subcommittee), computed in Prepare (C15)
SelSig(v, sub, slot) == [v |-> v, sub |-> sub, slot |-> slot]
BMsg(v, c, pr) == [v |-> v, contrib |-> c, proof |-> pr]            \* altair.ContributionAndProof
NoBMsg == BMsg(0, NoContrib, SelSig(0, 0, 0))
BSig(acct, m) == [z |-> FALSE, acct |-> acct, over |-> m]
BZeroSig == [z |-> TRUE, acct |-> 0, over |-> NoBMsg]
Pair(v, sub) == [v |-> v, sub |-> sub]
PairOf(m) == Pair(m.v, m.contrib.sub)
BPairs == {Pair(v, sub) : v \in BValidators, sub \in BSubs}
\* sel: the selected (validator, subcommittee) pairs; noacct: validators of sel for which the duty
\* carries no account
BDuties == {d \in [slot : BSlots, sel : {X \in SUBSET BPairs : X # {} /\ Cardinality(X) <= BMaxSel},
                    noacct : SUBSET BValidators] : d.noacct \subseteq {p.v : p \in d.sel}}
NoBDuty == [slot |-> 0, sel |-> {}, noacct |-> {}]
EmptyRem == [t \in {} |-> 0]

\* entries of the remembered roots that are too old to be used when slot s is being handled
Stale(s) == {t \in DOMAIN bRem : t # s /\ t + SlotsPerEpoch < s}

BCached == IF bDuty.slot \in DOMAIN bBefore THEN {bBefore[bDuty.slot]} ELSE {}
\* the root this job works with: the one remembered for ITS slot, else the head the node reported
JobRoot == IF BCached # {} THEN BCached ELSE bHeadGot

BSetRoot(s, r, P) ==
    /\ "B" \in Pipelines
    /\ bPhase # "run" /\ bSets < BMaxSets
    /\ P \subseteq Stale(s)
    /\ bRem' = [t \in (DOMAIN bRem \cup {s}) \ P |-> IF t = s THEN r ELSE bRem[t]]
    /\ bSets' = bSets + 1
    /\ bPhase' = "idle"
    /\ UNCHANGED <<bJobs, bHead, bDuty, bBefore, bHeadGot, bFetched, bSigned, bFail, bSub, AVars>>

BNewHead(r) ==
    /\ "B" \in Pipelines
    /\ bPhase # "run" /\ r # bHead
    /\ bHead' = r
    /\ UNCHANGED <<bPhase, bJobs, bSets, bRem, bDuty, bBefore, bHeadGot, bFetched, bSigned, bFail, bSub, AVars>>

BStart(d) ==
    /\ "B" \in Pipelines
    /\ bPhase # "run" /\ bJobs < BMaxJobs
    /\ bPhase' = "run" /\ bJobs' = bJobs + 1 /\ bDuty' = d /\ bBefore' = bRem
    /\ bHeadGot' = {} /\ bFetched' = {} /\ bSigned' = {}
    /\ bFail' = (d.noacct # {})
    /\ UNCHANGED <<bSets, bRem, bHead, bSub, AVars>>

\* res = [err, root]
BHeadRoot(block, res) ==
    /\ bPhase = "run"
    /\ block = "head"
    /\ IF res.err
         THEN bFail' = TRUE /\ UNCHANGED bHeadGot
         ELSE res.root = bHead /\ bHeadGot' = {res.root} /\ UNCHANGED bFail
    /\ UNCHANGED <<bPhase, bJobs, bSets, bRem, bHead, bDuty, bBefore, bFetched, bSigned, bSub, AVars>>

\* res = [err, c]; an answer without error is a contribution for the requested slot, subcommittee and root
BFetch(slot, sub, root, res) ==
    /\ bPhase = "run"
    /\ slot = bDuty.slot /\ root \in JobRoot /\ \E p \in bDuty.sel : p.sub = sub
    /\ IF res.err
         THEN bFail' = TRUE /\ UNCHANGED bFetched
         ELSE /\ res.c.slot = slot /\ res.c.sub = sub /\ res.c.root = root /\ res.c.n > 0
              /\ bFetched' = bFetched \cup {res.c} /\ UNCHANGED bFail
    /\ UNCHANGED <<bPhase, bJobs, bSets, bRem, bHead, bDuty, bBefore, bHeadGot, bSigned, bSub, AVars>>

\* the messages that can be built in this job
Buildable == UNION {{BMsg(p.v, c, SelSig(p.v, p.sub, bDuty.slot)) : c \in {x \in bFetched : x.sub = p.sub}} : p \in bDuty.sel}

\* reqs: set of [acct, msg], the accounts and messages handed to the signer, paired by position;
\* res = [err, zero]: an error for the whole request, or a signature per message of which those
\* for the pairs in zero are the zero signature
BSign(reqs, res) ==
    /\ bPhase = "run" /\ reqs # {}
    /\ \A q \in reqs : q.msg \in Buildable /\ q.acct = q.msg.v /\ q.msg.v \notin bDuty.noacct
    /\ \A q1, q2 \in reqs : PairOf(q1.msg) = PairOf(q2.msg) => q1 = q2
    /\ IF res.err
         THEN bFail' = TRUE /\ UNCHANGED bSigned
         ELSE /\ res.zero \subseteq {PairOf(q.msg) : q \in reqs}
              /\ bSigned' = {e \in bSigned : ~\E q \in reqs : PairOf(q.msg) = PairOf(e.msg)} \cup
                            {[msg |-> q.msg, sig |-> IF PairOf(q.msg) \in res.zero THEN BZeroSig ELSE BSig(q.acct, q.msg)] : q \in reqs}
              /\ UNCHANGED bFail
    /\ UNCHANGED <<bPhase, bJobs, bSets, bRem, bHead, bDuty, bBefore, bHeadGot, bFetched, bSub, AVars>>

\* payload: the set of [msg, sig] handed to the submitter: messages with the signature the signer returned for them
BSubmit(payload, ok) ==
    /\ bPhase = "run" /\ payload # {}
    /\ payload \subseteq bSigned
    /\ IF ok
         THEN /\ bSub' = bSub \cup {[job |-> bJobs, slot |-> bDuty.slot, sel |-> bDuty.sel, cached |-> BCached,
                                     roots |-> JobRoot, msg |-> e.msg, sig |-> e.sig] : e \in payload}
              /\ UNCHANGED bFail
         ELSE bFail' = TRUE /\ UNCHANGED bSub
    /\ UNCHANGED <<bPhase, bJobs, bSets, bRem, bHead, bDuty, bBefore, bHeadGot, bFetched, bSigned, AVars>>

BSubmitted(e) == \E x \in bSub : x.job = bJobs /\ x.msg = e.msg /\ x.sig = e.sig

\* every selected pair has been signed for, and every message with a real signature has been submitted
BComplete == \A p \in bDuty.sel : \E e \in bSigned : PairOf(e.msg) = p /\ (e.sig.z \/ BSubmitted(e))

\* The job may end once it is complete, or after a failure of its environment.  The root remembered
\* for the job's slot is gone afterwards; other entries stay (stale ones may be pruned: P).
BDone(P) ==
    /\ bPhase = "run"
    /\ bFail \/ BComplete
    /\ P \subseteq Stale(bDuty.slot)
    /\ bRem' = [t \in DOMAIN bRem \ ({bDuty.slot} \cup P) |-> bRem[t]]
    /\ bPhase' = "done"
    /\ UNCHANGED <<bJobs, bSets, bHead, bDuty, bBefore, bHeadGot, bFetched, bSigned, bFail, bSub, AVars>>

\* the sets of requests the signer may be handed: one buildable message for each pair of a set of pairs
BReqSets == {R \in SUBSET {[acct |-> m.v, msg |-> m] : m \in {x \in Buildable : x.v \notin bDuty.noacct}} :
                R # {} /\ \A q1, q2 \in R : PairOf(q1.msg) = PairOf(q2.msg) => q1 = q2}

BNext ==
    \/ \E s \in BSlots : \E r \in BRoots : \E P \in SUBSET Stale(s) : BSetRoot(s, r, P)
    \/ \E r \in BRoots : BNewHead(r)
    \/ \E d \in BDuties : BStart(d)
    \/ \E res \in {[err |-> TRUE, root |-> 0], [err |-> FALSE, root |-> bHead]} : BHeadRoot("head", res)
    \/ \E p \in bDuty.sel : \E r \in JobRoot :
          \E res \in {[err |-> TRUE, c |-> NoContrib]} \cup
                     {[err |-> FALSE, c |-> [slot |-> bDuty.slot, sub |-> p.sub, root |-> r, n |-> n]] : n \in BContribIds} :
             BFetch(bDuty.slot, p.sub, r, res)
    \/ \E R \in BReqSets :
          \E res \in {[err |-> TRUE, zero |-> {}]} \cup {[err |-> FALSE, zero |-> Z] : Z \in SUBSET {PairOf(q.msg) : q \in R}} :
             BSign(R, res)
    \/ \E payload \in SUBSET bSigned : \E ok \in BOOLEAN : BSubmit(payload, ok)
    \/ \E P \in SUBSET Stale(bDuty.slot) : BDone(P)

-----------------------------------------------------------------------------
Init ==
    /\ aPhase = "idle" /\ aJobs = 0 /\ aDuty = NoADuty /\ aGot = NoAgg /\ aAcct = 0 /\ aAns = AZeroSig
    /\ aSigned = FALSE /\ aFail = {} /\ aSub = {}
    /\ bPhase = "idle" /\ bJobs = 0 /\ bSets = 0 /\ bRem = EmptyRem /\ bHead \in BRoots /\ bDuty = NoBDuty
    /\ bBefore = EmptyRem /\ bHeadGot = {} /\ bFetched = {} /\ bSigned = {} /\ bFail = FALSE /\ bSub = {}

Next == ANext \/ BNext

Spec == Init /\ [][Next]_vars

-----------------------------------------------------------------------------
(* Invariants, pipeline A (C14: every selected aggregator aggregates).                          *)

\* the aggregate-and-proof names the duty's validator ...
ANamesDutyValidator == \A e \in aSub : e.msg.v = e.duty.v
\* ... carries exactly the aggregate obtained in this job, which is one for the duty's slot and data root ...
ACarriesObtainedAggregate ==
    \A e \in aSub : e.msg.agg = e.got /\ e.got.n > 0 /\ e.got.slot = e.duty.slot /\ e.got.root = e.duty.root
\* ... and the duty's own slot signature as selection proof
ASelectionProofIsSlotSignature ==
    \A e \in aSub : e.msg.proof = e.duty.proof /\ e.msg.proof.v = e.duty.v /\ e.msg.proof.slot = e.duty.slot
\* it is submitted with the signer's answer, which is the validator's account signing that message for the duty's slot
ASignedByAccountOverMessage ==
    \A e \in aSub : e.sig = e.ans /\ (~e.sig.z => e.sig.acct = e.duty.v /\ e.sig.slot = e.duty.slot /\ e.sig.over = e.msg)
\* nothing is submitted when no aggregate was obtained
ANothingWithoutAggregate == (aPhase # "idle" /\ aGot = NoAgg) => ~ASubmittedThisJob
AOncePerJob == \A e1, e2 \in aSub : e1.job = e2.job => e1 = e2
\* a job whose environment worked has submitted
AEveryAggregatorAggregates == (aPhase = "done" /\ aFail = {}) => ASubmittedThisJob

(* Invariants, pipeline B (C15: contributions by the rule, members independent).                *)

\* a contribution-and-proof is for a selected pair of its duty and carries a contribution for the duty's slot and that subcommittee
BContributionOfDuty ==
    \A e \in bSub : PairOf(e.msg) \in e.sel /\ e.msg.contrib.slot = e.slot /\ e.msg.contrib.n > 0
\* ... over the root remembered for THAT slot (over the node's head only if none was remembered)
BRememberedRootUsed ==
    \A e \in bSub : e.msg.contrib.root \in e.roots /\ (e.cached # {} => e.roots = e.cached)
\* ... with the selection proof computed for this validator, subcommittee and slot
BProofOfPair == \A e \in bSub : e.msg.proof = SelSig(e.msg.v, e.msg.contrib.sub, e.slot)
\* ... signed by the aggregator's own account over that message
BSignedByOwnAccount == \A e \in bSub : ~e.sig.z => e.sig.acct = e.msg.v /\ e.sig.over = e.msg
\* a pair whose signature is missing takes nothing away from the other pairs
BAggregatorsIndependent ==
    (bPhase = "done" /\ ~bFail) =>
        \A p \in bDuty.sel : \E e \in bSigned : PairOf(e.msg) = p /\ (~e.sig.z => BSubmitted(e))
\* the remembered root of the slot is removed by the aggregation, the others are kept
BRememberedRemoved == bPhase = "done" => bDuty.slot \notin DOMAIN bRem
BOthersKept ==
    bPhase = "done" => \A t \in DOMAIN bBefore : (t # bDuty.slot /\ ~(t + SlotsPerEpoch < bDuty.slot)) =>
                            t \in DOMAIN bRem /\ bRem[t] = bBefore[t]

TypeOK ==
    /\ aPhase \in {"idle", "run", "done"} /\ bPhase \in {"idle", "run", "done"}
    /\ aJobs \in 0 .. AMaxJobs /\ bJobs \in 0 .. BMaxJobs /\ bSets \in 0 .. BMaxSets
    /\ Cardinality(bHeadGot) <= 1
    /\ \A e1, e2 \in bSigned : PairOf(e1.msg) = PairOf(e2.msg) => e1 = e2
=============================================================================
