SPECIFICATION ISpec
CONSTANTS
  MaxN = 2
  Kinds = {"first", "unblind"}
  CapOne = FALSE
  AllFailedReturns = TRUE
  Retries = 2
  MaxCalls = 1
  Carry = "chan"
INVARIANTS TypeOK NoBlockedSender NoWaitForEver OkMeansDelivered NothingLeft
CHECK_DEADLOCK FALSE
