SPECIFICATION SSpec
CONSTANTS
  P = 4
  EP = 2
  G = 2
  MaxSlot = 1200
  StartSlots = {1000}
  Mode = "design"
  RecMax = 100
  RecKeep = 32
  RootKeep = 4
  BidKeep = 32
  KRoots = 8
  KBids = 64
  Menu = {{}, {1}, {0, 3}, {0, 2, 3}, {1, 2, 3}}
  Moods = {"quiet", "plain", "plain", "reorg", "reorg"}
  MaxReorgs = 1
  Focus = FALSE
  Fams = {"bids"}
INVARIANTS Emit BidsBounded
CHECK_DEADLOCK FALSE
