SPECIFICATION Spec
CONSTANTS
  Mode = "wide"
  HKinds = {"att", "agg", "proposal", "syncmsg", "contrib", "bcsub", "scsub", "prep"}
  HConcSet = {3}
  HItemSet = {2}
  HClients = {"lighthouse"}
  HNodeCounts = {3}
  HLens = {1}
  HOutcomes = {}
  HConfSets = {}
  HVecOuts = {"reject", "slowok1", "hang"}
INVARIANTS Emit
CHECK_DEADLOCK FALSE
