SPECIFICATION Spec
CONSTANTS
  EPs = {"execv2", "execv1", "execmutate", "execdoc", "execservice", "graffiti", "builderbid", "proposalbest", "proposer", "attester", "aggregator", "syncmessenger", "syncaggregator", "mergeduties", "cacheevents", "submitclassify"}
INVARIANTS TypeOK KeepsRunning EndsProperly UsedOnlyIfDecoded AuxFaultsSurvived PollSequencesSurvived Total
CHECK_DEADLOCK FALSE
