SPECIFICATION SSpec
CONSTANTS
  DutySlots = {9}
  Validators = {2}
  SlotsPerEpoch = 4
  Relays = {1}
  NRelays = 1
  AllChoices = {{1}}
  Versions = {"deneb"}
  Blindable = {"deneb"}
  Outcomes = {"full"}
  Scripts = {"full", "err", "never"}
  GraffitiOuts = {"static", "template", "err"}
  PrepOuts = {"ok", "err"}
  CfgFilter = "graffiti"
  Dslots <- AllDslots
  MaxCalls = 3
  NDuties = 2
  SlotGaps = {1}
  MaxOpen = 1
  MaxInFlight = 1
  InitCfgs <- AllCfgs
  LaterAllChoices = {{1}}
  LaterVersions = {"deneb"}
  LaterOutcomes = {"full"}
  LaterDslots = {0}
  LaterScripts = {"full"}
  LaterGraffitiOuts = {"static", "template", "err"}
  LaterPrepOuts = {"ok"}
  LaterNodeClientOuts = {"ok", "err"}
  LaterStepOuts = {"ok"}
INVARIANTS Emit
CHECK_DEADLOCK FALSE
