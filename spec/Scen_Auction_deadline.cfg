SPECIFICATION SSpec
CONSTANTS
  Variants = {"deadline"}
  Relays = {1, 2, 3}
  Values = {0, 1, 2, 3}
  CfgSet <- ScenCfgSet
  BuilderSet = {"std", "plus", "minus", "excl", "half", "boost"}
  AnswerSet <- ScenAnswers
  Headers = {1, 2}
  MaxRounds = 3
  Keys = {1, 2}
  MaxAuctions = 2
  TickWeight = 3
INVARIANTS Emit WinnerIsArgmax ProvidersOfferedWinner NoWinnerIffNone
CHECK_DEADLOCK FALSE
