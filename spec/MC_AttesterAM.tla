---------------------------- MODULE MC_AttesterAM ----------------------------
(* Models for the exhaustive TLC runs of AttesterAM.tla (attester + account manager + validators *)
(* manager records): the duties of MC_Attester, every sibling implementation (amKind), every     *)
(* non-empty set of held accounts, every table of records, refreshes at any moment.             *)
EXTENDS AttesterAM, MC_Attester

CONSTANTS MCExits       \* exit epochs of known validators besides "never" (active in [0, exit))

\* index lists asked directly (AMAsk): none, one validator twice, a validator and an index nobody has
MCAskLists == {<<>>, <<1, 1>>, <<2, 7>>}

MCRecChoices == {ActiveRec, UnknownRec} \cup {[known |-> TRUE, act |-> 0, exit |-> x] : x \in MCExits}
MCRecs == [AllVals -> MCRecChoices]
MCHelds == (SUBSET AllVals) \ {{}}
MCAsks == {<<Epoch(s), rs>> : s \in MCSlots, rs \in MCAskLists}

\* Refresh replaces held / vrec in one step each and reads nothing of the attester; the only step that reads them
\* is AMByIndex (and AMAsk): a refresh commutes with every other step, so it is taken just before a lookup only
\* (every interleaving of refreshes and runs is equivalent to one of these)
RefreshNow == \E r \in RunIds : run[r].pc = "accounts"
AMNext == NextAM(Duties, MCLean, MCHelds \cup {{}}, MCRecs, {}, RefreshNow)
\* the operation asked directly, on any state of the account manager (no attester runs)
AskNext == NextAM({}, MCLean, MCHelds \cup {{}}, MCRecs, MCAsks, amLast.run = 0 /\ amLast.res = {} /\ amLast.req = {})
AskSpec == MCInit /\ AMInit(AMKinds, MCHelds, MCRecs) /\ [][AskNext]_avars
AMSpec == MCInit /\ AMInit(AMKinds, MCHelds, MCRecs) /\ [][AMNext]_avars

AMTypeOK == /\ amKind \in AMKinds /\ held \in MCHelds /\ vrec \in MCRecs
            /\ amLast.res \subseteq AllVals
=============================================================================
