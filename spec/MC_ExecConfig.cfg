SPECIFICATION Spec
CONSTANTS
  Pairs = FALSE
  Wide = FALSE
INVARIANTS TypeOK FeeRecipientRight DisabledRemoved ResetDiscards RelaySetRight MostSpecificWins OnlyFirstMatch NoMatchDefaults LegacyRight
CHECK_DEADLOCK FALSE
