------------------------------ MODULE Proposer ------------------------------
(* Block proposal of Vouch (services/beaconblockproposer/standard: service.go Prepare,          *)
(* propose.go Propose/proposeBlock/signProposalData/unblindProposal).  One duty per behaviour.  *)
(*                                                                                              *)
(* One action per interface call the code makes (the arguments are what the code passed, the    *)
(* outcome is what the environment answered), plus the environment's own steps:                 *)
(*   AccountsCall    Prepare: ValidatingAccountsForEpochByIndex                                 *)
(*   RandaoCall      Prepare: RANDAORevealSigner.SignRANDAOReveal                               *)
(*   ProposeCall     the controller calls Propose (validateDuty decides whether anything follows)*)
(*   GraffitiCall    graffitiProvider.Graffiti                (only if a provider is configured)*)
(*   AuctionCall     blockAuctioneer.AuctionBlock           (only if an auctioneer is configured)*)
(*   ProposalCall    proposalProvider.Proposal                                                  *)
(*   SignCall        beaconBlockSigner.SignBeaconBlockProposal                                  *)
(*   UnblindCall     relay r: UnblindProposal (one goroutine per relay, up to three attempts)   *)
(*   Cancel          the job context ends (the environment; production contexts have no deadline)*)
(*   SubmitCall      proposalSubmitter.SubmitProposal                                           *)
(*   Ret             Propose returns                                                            *)
(*                                                                                              *)
(* The actions only have *structural* preconditions (the order of the pipeline) and record      *)
(* whatever arguments they are given.  `Next` instantiates them with the arguments the code is  *)
(* supposed to pass; TLC checks that this design satisfies the invariants, which are property   *)
(* C05 sentence by sentence.  The trace specification instantiates the same actions with the    *)
(* arguments the real code passed, so a deviation shows as a false invariant.                   *)
(*                                                                                              *)
(* Abstractions: a proposal is [version, blinded, slot, id]; its roots are Root(id, kind) (the   *)
(* driver decodes the 32-byte roots the code passed with the library's accessors applied to the *)
(* obtained object); a signature is the token the signer fake returned; q is the description of *)
(* what a relay was sent; a submitted container is described by where it comes from.            *)
EXTENDS Integers, FiniteSets, Sequences, TLC

CONSTANTS DutySlots,        \* slots a duty can have
          Validators,       \* validator indices (each has exactly its own account)
          SlotsPerEpoch,
          Relays,
          AllChoices,       \* the sets the auction can report as AllProviders (subsets of Relays)
          Versions,         \* {"phase0", "altair", "bellatrix", "capella", "deneb"}
          Blindable,        \* versions that have a blinded form
          Outcomes,         \* what one UnblindProposal call can do
          MaxCalls          \* bound on calls per relay (the code tries three times)

VARIABLES duty,       \* [slot, v]
          cfg,        \* [graffiti, auctioneer, unblindAll : BOOLEAN]  (what the service was built with)
          pc,
          acct,       \* NoAcct or [epoch, idxs, out]
          randao,     \* NoRandao or [account, slot, out, token]
          graffiti,   \* "none" | "ok" | "err"
          auction,    \* [kind |-> "none" | "err" | "results", all, providers]
          preq,       \* NoPreq or [slot, zerograffiti, reveal]
          prop,       \* NoProp or [version, blinded, slot, id]
          sreq,       \* NoSreq or [account, slot, v, parent, state, body]
          sig,        \* 0 or the token of the signature obtained
          calls,      \* [Relays -> Nat]
          sent,       \* set of [relay, q]: what each relay has been sent
          fulls,      \* set of [relay, q]: relay returned Full(relay, q)
          cancelled,
          submitted,  \* NoSub or a description of the submitted container
          subout      \* "none" | "ok" | "err"

vars == <<duty, cfg, pc, acct, randao, graffiti, auction, preq, prop, sreq, sig, calls, sent, fulls,
          cancelled, submitted, subout>>

Epoch(s) == s \div SlotsPerEpoch

NoAcct   == [epoch |-> -1, idxs |-> <<>>, out |-> "none"]
NoRandao == [account |-> -1, slot |-> -1, out |-> "none", token |-> 0]
NoAuction == [kind |-> "none", all |-> {}, providers |-> {}]
NoPreq   == [slot |-> -1, zerograffiti |-> FALSE, reveal |-> 0]
NoProp   == [version |-> "none", blinded |-> FALSE, slot |-> -1, id |-> 0]
NoRoot   == [id |-> 0, kind |-> "none"]
NoSreq   == [account |-> -1, slot |-> -1, v |-> -1, parent |-> NoRoot, state |-> NoRoot, body |-> NoRoot]
NoQ      == [version |-> "none", containers |-> <<>>, id |-> 0, sig |-> 0, intact |-> FALSE]
NoSub    == [src |-> "none", version |-> "none", blinded |-> FALSE, containers |-> <<>>, id |-> 0,
             sig |-> 0, relay |-> 0, q |-> NoQ, intact |-> FALSE]

Root(id, kind) == [id |-> id, kind |-> kind]

\* the container a full (resp. blinded) block of version v travels in
FullContainer(v) == v
BlindedContainer(v) == v \o "_blinded"

\* precisely the signed blinded block: the message of p, untouched, in the field of p's version,
\* with signature s
SignedQ(p, s) == [version |-> p.version, containers |-> <<p.version>>, id |-> p.id, sig |-> s, intact |-> TRUE]

\* the obtained full proposal p with signature s in the container of p's version
OwnDesc(p, s) == [src |-> "own", version |-> p.version, blinded |-> FALSE,
                  containers |-> <<FullContainer(p.version)>>, id |-> p.id, sig |-> s, relay |-> 0,
                  q |-> NoQ, intact |-> TRUE]

\* the full block relay r returned for q, untouched
RelayDesc(r, q) == [src |-> "relay", version |-> q.version, blinded |-> FALSE,
                    containers |-> <<FullContainer(q.version)>>, id |-> q.id, sig |-> q.sig, relay |-> r,
                    q |-> q, intact |-> TRUE]

\* relays the code is to unblind with: those with the winning bid, or all of them
Cand == IF auction.providers = {} \/ cfg.unblindAll THEN auction.all ELSE auction.providers

AfterGraffiti == IF cfg.auctioneer THEN "auction" ELSE "proposal"
AfterValidate == IF cfg.graffiti THEN "graffiti" ELSE AfterGraffiti

ProposePcs == {"invalid", "graffiti", "auction", "proposal", "confirm", "signed", "submitted"}

Init ==
    /\ duty \in [slot : DutySlots, v : Validators]
    /\ cfg \in {c \in [graffiti : BOOLEAN, auctioneer : BOOLEAN, unblindAll : BOOLEAN] :
                    c.unblindAll => c.auctioneer}
    /\ pc = "start"
    /\ acct = NoAcct /\ randao = NoRandao /\ graffiti = "none" /\ auction = NoAuction
    /\ preq = NoPreq /\ prop = NoProp /\ sreq = NoSreq /\ sig = 0
    /\ calls = [r \in Relays |-> 0] /\ sent = {} /\ fulls = {}
    /\ cancelled = FALSE /\ submitted = NoSub /\ subout = "none"

-----------------------------------------------------------------------------
(* Actions: structural preconditions only. *)

AccountsCall(epoch, idxs, out) ==
    /\ pc = "start"
    /\ acct' = [epoch |-> epoch, idxs |-> idxs, out |-> out]
    /\ pc' = IF out = "ok" THEN "randao" ELSE "prepfailed"
    /\ UNCHANGED <<duty, cfg, randao, graffiti, auction, preq, prop, sreq, sig, calls, sent, fulls,
                   cancelled, submitted, subout>>

RandaoCall(account, slot, out, token) ==
    /\ pc = "randao"
    /\ randao' = [account |-> account, slot |-> slot, out |-> out, token |-> IF out = "ok" THEN token ELSE 0]
    /\ pc' = IF out = "ok" THEN "prepared" ELSE "prepfailed"
    /\ UNCHANGED <<duty, cfg, acct, graffiti, auction, preq, prop, sreq, sig, calls, sent, fulls,
                   cancelled, submitted, subout>>

\* A duty without account or RANDAO reveal is not proposed for (validateDuty).
ProposeCall ==
    /\ pc \in {"randao", "prepfailed", "prepared"}
    /\ pc' = IF pc = "prepared" THEN AfterValidate ELSE "invalid"
    /\ UNCHANGED <<duty, cfg, acct, randao, graffiti, auction, preq, prop, sreq, sig, calls, sent, fulls,
                   cancelled, submitted, subout>>

GraffitiCall(out) ==
    /\ pc = "graffiti"
    /\ graffiti' = out
    /\ pc' = AfterGraffiti
    /\ UNCHANGED <<duty, cfg, acct, randao, auction, preq, prop, sreq, sig, calls, sent, fulls,
                   cancelled, submitted, subout>>

AuctionCall(out, all, providers) ==
    /\ pc = "auction"
    /\ auction' = [kind |-> out, all |-> all, providers |-> providers]
    /\ pc' = "proposal"
    /\ UNCHANGED <<duty, cfg, acct, randao, graffiti, preq, prop, sreq, sig, calls, sent, fulls,
                   cancelled, submitted, subout>>

ProposalCall(slot, zerograffiti, reveal, out, p) ==
    /\ pc = "proposal"
    /\ preq' = [slot |-> slot, zerograffiti |-> zerograffiti, reveal |-> reveal]
    /\ prop' = IF out = "ok" THEN p ELSE NoProp
    /\ pc' = "confirm"
    /\ UNCHANGED <<duty, cfg, acct, randao, graffiti, auction, sreq, sig, calls, sent, fulls,
                   cancelled, submitted, subout>>

SignCall(account, slot, v, parent, state, body, out, token) ==
    /\ pc = "confirm"
    /\ prop # NoProp
    /\ sreq' = [account |-> account, slot |-> slot, v |-> v, parent |-> parent, state |-> state, body |-> body]
    /\ sig' = IF out = "ok" THEN token ELSE 0
    /\ pc' = "signed"
    /\ UNCHANGED <<duty, cfg, acct, randao, graffiti, auction, preq, prop, calls, sent, fulls,
                   cancelled, submitted, subout>>

\* The relay goroutines outlive the select in unblindProposal: calls may also arrive after the submission.
UnblindCall(r, q, out) ==
    /\ pc \in {"signed", "submitted"}
    /\ sig # 0
    /\ calls[r] < MaxCalls
    /\ calls' = [calls EXCEPT ![r] = @ + 1]
    /\ sent' = sent \cup {[relay |-> r, q |-> q]}
    /\ fulls' = IF out = "full" THEN fulls \cup {[relay |-> r, q |-> q]} ELSE fulls
    /\ UNCHANGED <<duty, cfg, pc, acct, randao, graffiti, auction, preq, prop, sreq, sig,
                   cancelled, submitted, subout>>

Cancel ==
    /\ pc \in ProposePcs
    /\ ~cancelled
    /\ cancelled' = TRUE
    /\ UNCHANGED <<duty, cfg, pc, acct, randao, graffiti, auction, preq, prop, sreq, sig, calls, sent, fulls,
                   submitted, subout>>

SubmitCall(desc, out) ==
    /\ pc = "signed"
    /\ submitted' = desc
    /\ subout' = out
    /\ pc' = "submitted"
    /\ UNCHANGED <<duty, cfg, acct, randao, graffiti, auction, preq, prop, sreq, sig, calls, sent, fulls,
                   cancelled>>

Ret ==
    /\ pc \in ProposePcs
    /\ pc' = "done"
    /\ UNCHANGED <<duty, cfg, acct, randao, graffiti, auction, preq, prop, sreq, sig, calls, sent, fulls,
                   cancelled, submitted, subout>>

-----------------------------------------------------------------------------
(* The design: the arguments the code is supposed to pass, and when it may stop. *)

\* Env_BlindedNeedsAuction: a beacon node only hands out a blinded proposal when the auction produced
\* results (a blinded proposal without them is the crash accounted under C16).
Proposals == { p \in [version : Versions, blinded : BOOLEAN, slot : {duty.slot - 1, duty.slot, duty.slot + 1},
                      id : {1}] :
                 p.blinded => (p.version \in Blindable /\ auction.kind = "results") }

MayReturn ==
    \/ pc = "invalid"
    \/ pc = "confirm" /\ (prop = NoProp \/ prop.slot # duty.slot)        \* no proposal / confirmProposalData
    \/ pc = "signed" /\ sig = 0                                           \* signing failed
    \/ pc = "signed" /\ sig # 0 /\ prop.blinded /\ (cancelled \/ Cand = {}) \* nothing to submit
    \/ pc = "submitted"

Next ==
    \/ \E out \in {"ok", "err", "empty"} : AccountsCall(Epoch(duty.slot), <<duty.v>>, out)
    \/ \E out \in {"ok", "err"} : RandaoCall(duty.v, duty.slot, out, 1)
    \/ ProposeCall
    \/ \E out \in {"ok", "err"} : GraffitiCall(out)
    \/ AuctionCall("err", {}, {})
    \/ \E all \in AllChoices : \E providers \in SUBSET all : AuctionCall("results", all, providers)
    \/ ProposalCall(duty.slot, graffiti # "ok", randao.token, "err", NoProp)
    \/ \E p \in Proposals : ProposalCall(duty.slot, graffiti # "ok", randao.token, "ok", p)
    \/ /\ prop.slot = duty.slot
       /\ \E out \in {"ok", "err"} :
            SignCall(duty.v, duty.slot, duty.v, Root(prop.id, "parent"), Root(prop.id, "state"),
                     Root(prop.id, "body"), out, 1)
    \/ /\ pc = "signed" /\ prop.blinded
       /\ \E r \in Cand : \E out \in Outcomes : UnblindCall(r, SignedQ(prop, sig), out)
    \/ pc = "signed" /\ sig # 0 /\ prop.blinded /\ Cancel
    \/ /\ sig # 0 /\ ~prop.blinded
       /\ \E out \in {"ok", "err"} : SubmitCall(OwnDesc(prop, sig), out)
    \/ /\ sig # 0 /\ prop.blinded
       /\ \E f \in fulls : \E out \in {"ok", "err"} : SubmitCall(RelayDesc(f.relay, f.q), out)
    \/ MayReturn /\ Ret

Spec == Init /\ [][Next]_vars

-----------------------------------------------------------------------------
(* Property C05 *)

TypeOK ==
    /\ pc \in {"start", "randao", "prepfailed", "prepared", "done"} \cup ProposePcs
    /\ graffiti \in {"none", "ok", "err"}
    /\ auction.kind \in {"none", "err", "results"}
    /\ cancelled \in BOOLEAN
    /\ \A r \in Relays : calls[r] \in 0..MaxCalls

\* "asks for a RANDAO reveal and for a block signature only for that duty's validator and slot"
OnlyDutySigner ==
    /\ randao # NoRandao => (randao.account = duty.v /\ randao.slot = duty.slot)
    /\ sreq # NoSreq => (sreq.account = duty.v /\ sreq.v = duty.v /\ sreq.slot = duty.slot)

\* "signs only a block whose slot is the duty's slot, over that block's own parent, state and body roots"
SignedIsSelected ==
    sreq # NoSreq =>
        /\ prop # NoProp
        /\ prop.slot = duty.slot
        /\ sreq.parent = Root(prop.id, "parent")
        /\ sreq.state = Root(prop.id, "state")
        /\ sreq.body = Root(prop.id, "body")

\* "submits exactly that block with that signature.  When the selected block is blinded, what is
\*  submitted is the full block returned by a relay that was sent precisely the signed blinded block"
SubmittedIntact ==
    submitted # NoSub =>
        /\ sreq # NoSreq /\ sig # 0
        /\ IF ~prop.blinded
           THEN submitted = OwnDesc(prop, sig)
           ELSE \E f \in fulls : /\ f.q = SignedQ(prop, sig)
                                 /\ submitted = RelayDesc(f.relay, f.q)

\* "and nothing is submitted if no relay returns one"
NothingWithoutUnblind ==
    (submitted # NoSub /\ prop.blinded) => \E f \in fulls : f.relay = submitted.relay

\* "failure to obtain graffiti or relay bids degrades to an ungraffitied or locally built block instead
\*  of skipping the proposal": the proposal is still requested (without graffiti), seen when Propose returns
DegradesNotSkips ==
    (pc = "done" /\ (graffiti = "err" \/ auction.kind = "err")) =>
        /\ preq # NoPreq
        /\ graffiti = "err" => preq.zerograffiti
=============================================================================
