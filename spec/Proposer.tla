------------------------------ MODULE Proposer ------------------------------
(* Block proposal of Vouch (services/beaconblockproposer/standard: service.go Prepare,          *)
(* propose.go Propose/proposeBlock/signProposalData/unblindProposal).                           *)
(*                                                                                              *)
(* One behaviour = the HISTORY of one service instance: a sequence of duties (k = 1..NDuties)    *)
(* handled one after the other by the same service (built once, cfg never changes).  The design *)
(* carries NOTHING from one duty to the next: NextDuty starts every duty from a clean pipeline, *)
(* whatever happened to the earlier ones (`past` = what went wrong for earlier duties on this   *)
(* instance: prepare / graffiti / nodeclient / auction / fetch / wrongslot / sign / unblind /    *)
(* submit / cancelled).  Every per-duty rule below therefore holds for every duty of every      *)
(* history, and every Propose returns (no deadlock before the last duty is done; liveness       *)
(* property EveryDutyTerminates).                                                               *)
(*                                                                                              *)
(* One action per interface call the code makes (the arguments are what the code passed, the    *)
(* outcome is what the environment answered), plus the environment's own steps:                 *)
(*   AccountsCall    Prepare: ValidatingAccountsForEpochByIndex                                 *)
(*   RandaoCall      Prepare: RANDAORevealSigner.SignRANDAOReveal                               *)
(*   ProposeCall     the controller calls Propose (validateDuty decides whether anything follows)*)
(*   GraffitiCall    graffitiProvider.Graffiti                (only if a provider is configured)*)
(*   NodeClientCall  proposalProvider.(NodeClientProvider).NodeClient   (graffiti has {{CLIENT}})*)
(*   AuctionCall     blockAuctioneer.AuctionBlock           (only if an auctioneer is configured)*)
(*   ProposalCall    proposalProvider.Proposal                                                  *)
(*   SignCall        beaconBlockSigner.SignBeaconBlockProposal                                  *)
(*   UnblindCall     relay r: UnblindProposal (one goroutine per relay, up to three attempts)   *)
(*   Cancel          the job context ends (the environment; production contexts have no deadline)*)
(*   SubmitCall      proposalSubmitter.SubmitProposal                                           *)
(*   Ret             Propose returns                                                            *)
(*   NextDuty        the controller hands the next duty to the same service instance            *)
(*                                                                                              *)
(* The actions only have *structural* preconditions (the order of the pipeline) and record      *)
(* whatever arguments they are given.  `Next` instantiates them with the arguments the code is  *)
(* supposed to pass; TLC checks that this design satisfies the invariants, which are property   *)
(* C05 sentence by sentence.  The trace specification instantiates the same actions with the    *)
(* arguments the real code passed, so a deviation shows as a false invariant.                   *)
(*                                                                                              *)
(* Abstractions: a proposal is [version, blinded, slot, id]; its roots are Root(id, kind) (the   *)
(* driver decodes the 32-byte roots the code passed with the library's accessors applied to the *)
(* obtained object); a signature is the token the signer fake returned; q is the description of *)
(* what a relay was sent; a submitted container is described by where it comes from.            *)
EXTENDS Integers, FiniteSets, Sequences, TLC

CONSTANTS DutySlots,        \* slots the first duty of a service instance can have
          Validators,       \* validator indices (each has exactly its own account)
          SlotsPerEpoch,
          Relays,
          AllChoices,       \* the sets the auction can report as AllProviders (subsets of Relays)
          Versions,         \* {"phase0", "altair", "bellatrix", "capella", "deneb"}
          Blindable,        \* versions that have a blinded form
          Outcomes,         \* what one UnblindProposal call can do
          MaxCalls,         \* bound on calls per relay (the code tries three times)
          Dslots,           \* a returned proposal is for slot (duty slot + d), d \in Dslots
          NDuties,          \* length of the history: duties handled by one service instance
          SlotGaps,         \* the next duty is for slot (this duty's slot + g), g \in SlotGaps
          \* bounds of the model only: the environment of the duties after the first ranges over these
          LaterAllChoices, LaterVersions, LaterOutcomes, LaterDslots

VARIABLES k,          \* number of the duty this service instance is handling (1..NDuties)
          past,       \* what went wrong for the earlier duties of this instance (set of FailureTags)
          duty,       \* [slot, v]
          cfg,        \* [graffiti, nodeclient, auctioneer, unblindAll : BOOLEAN]  (what the service was built
                      \*  with; nodeclient: the proposal provider implements NodeClientProvider)
          pc,
          acct,       \* NoAcct or [epoch, idxs, out]
          randao,     \* NoRandao or [account, slot, out, token]
          graffiti,   \* "none" | "static" (text) | "template" (text with {{CLIENT}}) | "err" (provider failed)
          nodeclient, \* "none" | "ok" | "err": the node client lookup for the template
          auction,    \* [kind |-> "none" | "err" | "results", all, providers]
          preq,       \* NoPreq or [slot, zerograffiti, reveal]
          prop,       \* NoProp or [version, blinded, slot, id]
          sreq,       \* NoSreq or [account, slot, v, parent, state, body]
          sig,        \* 0 or the token of the signature obtained
          calls,      \* [Relays -> Nat]
          sent,       \* set of [relay, q]: what each relay has been sent
          fulls,      \* set of [relay, q]: relay returned Full(relay, q)
          cancelled,
          submitted,  \* NoSub or a description of the submitted container
          subout      \* "none" | "ok" | "err"

\* the pipeline of one duty
dvars == <<pc, acct, randao, graffiti, nodeclient, auction, preq, prop, sreq, sig, calls, sent, fulls,
           cancelled, submitted, subout>>
\* the service instance and its history
hvars == <<k, past, duty, cfg>>
vars == <<hvars, dvars>>

Epoch(s) == s \div SlotsPerEpoch

\* values for Dslots (a configuration file cannot write a negative number: Dslots <- AllDslots)
AllDslots == {-1, 0, 1}
FwdDslots == {0, 1}

NoAcct   == [epoch |-> -1, idxs |-> <<>>, out |-> "none"]
NoRandao == [account |-> -1, slot |-> -1, out |-> "none", token |-> 0]
NoAuction == [kind |-> "none", all |-> {}, providers |-> {}]
NoPreq   == [slot |-> -1, zerograffiti |-> FALSE, reveal |-> 0]
NoProp   == [version |-> "none", blinded |-> FALSE, slot |-> -1, id |-> 0]
NoRoot   == [id |-> 0, kind |-> "none"]
NoSreq   == [account |-> -1, slot |-> -1, v |-> -1, parent |-> NoRoot, state |-> NoRoot, body |-> NoRoot]
NoQ      == [version |-> "none", containers |-> <<>>, id |-> 0, sig |-> 0, intact |-> FALSE]
NoSub    == [src |-> "none", version |-> "none", blinded |-> FALSE, containers |-> <<>>, id |-> 0,
             sig |-> 0, relay |-> 0, q |-> NoQ, intact |-> FALSE]

Root(id, kind) == [id |-> id, kind |-> kind]

\* the container a full (resp. blinded) block of version v travels in
FullContainer(v) == v
BlindedContainer(v) == v \o "_blinded"

\* precisely the signed blinded block: the message of p, untouched, in the field of p's version,
\* with signature s
SignedQ(p, s) == [version |-> p.version, containers |-> <<p.version>>, id |-> p.id, sig |-> s, intact |-> TRUE]

\* the obtained full proposal p with signature s in the container of p's version
OwnDesc(p, s) == [src |-> "own", version |-> p.version, blinded |-> FALSE,
                  containers |-> <<FullContainer(p.version)>>, id |-> p.id, sig |-> s, relay |-> 0,
                  q |-> NoQ, intact |-> TRUE]

\* the full block relay r returned for q, untouched
RelayDesc(r, q) == [src |-> "relay", version |-> q.version, blinded |-> FALSE,
                    containers |-> <<FullContainer(q.version)>>, id |-> q.id, sig |-> q.sig, relay |-> r,
                    q |-> q, intact |-> TRUE]

\* relays the code is to unblind with: those with the winning bid, or all of them
Cand == IF auction.providers = {} \/ cfg.unblindAll THEN auction.all ELSE auction.providers

AfterGraffiti == IF cfg.auctioneer THEN "auction" ELSE "proposal"
AfterValidate == IF cfg.graffiti THEN "graffiti" ELSE AfterGraffiti

\* The node client lookup (pc = "nodeclient") may be left out - the name of the beacon node's client may be
\* known already; the property does not say - so the step after it is also possible straight away.
At(step) == pc = step \/ (pc = "nodeclient" /\ AfterGraffiti = step)

ProposePcs == {"invalid", "graffiti", "nodeclient", "auction", "proposal", "confirm", "signed", "submitted"}

Cfgs == {c \in [graffiti : BOOLEAN, nodeclient : BOOLEAN, auctioneer : BOOLEAN, unblindAll : BOOLEAN] :
            (c.unblindAll => c.auctioneer) /\ (c.nodeclient => c.graffiti)}

CleanPipeline ==
    /\ pc = "start"
    /\ acct = NoAcct /\ randao = NoRandao /\ graffiti = "none" /\ nodeclient = "none" /\ auction = NoAuction
    /\ preq = NoPreq /\ prop = NoProp /\ sreq = NoSreq /\ sig = 0
    /\ calls = [r \in Relays |-> 0] /\ sent = {} /\ fulls = {}
    /\ cancelled = FALSE /\ submitted = NoSub /\ subout = "none"

\* CleanPipeline' (TLC wants the primed variables spelled out)
ResetPipeline ==
    /\ pc' = "start"
    /\ acct' = NoAcct /\ randao' = NoRandao /\ graffiti' = "none" /\ nodeclient' = "none" /\ auction' = NoAuction
    /\ preq' = NoPreq /\ prop' = NoProp /\ sreq' = NoSreq /\ sig' = 0
    /\ calls' = [r \in Relays |-> 0] /\ sent' = {} /\ fulls' = {}
    /\ cancelled' = FALSE /\ submitted' = NoSub /\ subout' = "none"

Init ==
    /\ k = 1 /\ past = {}
    /\ duty \in [slot : DutySlots, v : Validators]
    /\ cfg \in Cfgs
    /\ CleanPipeline

-----------------------------------------------------------------------------
(* Actions: structural preconditions only. *)

AccountsCall(epoch, idxs, out) ==
    /\ pc = "start"
    /\ acct' = [epoch |-> epoch, idxs |-> idxs, out |-> out]
    /\ pc' = IF out = "ok" THEN "randao" ELSE "prepfailed"
    /\ UNCHANGED <<hvars, randao, graffiti, nodeclient, auction, preq, prop, sreq, sig, calls, sent, fulls,
                   cancelled, submitted, subout>>

RandaoCall(account, slot, out, token) ==
    /\ pc = "randao"
    /\ randao' = [account |-> account, slot |-> slot, out |-> out, token |-> IF out = "ok" THEN token ELSE 0]
    /\ pc' = IF out = "ok" THEN "prepared" ELSE "prepfailed"
    /\ UNCHANGED <<hvars, acct, graffiti, nodeclient, auction, preq, prop, sreq, sig, calls, sent, fulls,
                   cancelled, submitted, subout>>

\* A duty without account or RANDAO reveal is not proposed for (validateDuty).
ProposeCall ==
    /\ pc \in {"randao", "prepfailed", "prepared"}
    /\ pc' = IF pc = "prepared" THEN AfterValidate ELSE "invalid"
    /\ UNCHANGED <<hvars, acct, randao, graffiti, nodeclient, auction, preq, prop, sreq, sig, calls, sent, fulls,
                   cancelled, submitted, subout>>

\* out: "static" (a text), "template" (a text containing {{CLIENT}}), "err" (the provider failed)
GraffitiCall(out) ==
    /\ pc = "graffiti"
    /\ graffiti' = out
    /\ pc' = IF out = "template" /\ cfg.nodeclient THEN "nodeclient" ELSE AfterGraffiti
    /\ UNCHANGED <<hvars, acct, randao, nodeclient, auction, preq, prop, sreq, sig, calls, sent, fulls,
                   cancelled, submitted, subout>>

\* the beacon node is asked for the name of its client, to fill the template
NodeClientCall(out) ==
    /\ pc = "nodeclient"
    /\ nodeclient' = out
    /\ pc' = AfterGraffiti
    /\ UNCHANGED <<hvars, acct, randao, graffiti, auction, preq, prop, sreq, sig, calls, sent, fulls,
                   cancelled, submitted, subout>>

AuctionCall(out, all, providers) ==
    /\ At("auction")
    /\ auction' = [kind |-> out, all |-> all, providers |-> providers]
    /\ pc' = "proposal"
    /\ UNCHANGED <<hvars, acct, randao, graffiti, nodeclient, preq, prop, sreq, sig, calls, sent, fulls,
                   cancelled, submitted, subout>>

ProposalCall(slot, zerograffiti, reveal, out, p) ==
    /\ At("proposal")
    /\ preq' = [slot |-> slot, zerograffiti |-> zerograffiti, reveal |-> reveal]
    /\ prop' = IF out = "ok" THEN p ELSE NoProp
    /\ pc' = "confirm"
    /\ UNCHANGED <<hvars, acct, randao, graffiti, nodeclient, auction, sreq, sig, calls, sent, fulls,
                   cancelled, submitted, subout>>

SignCall(account, slot, v, parent, state, body, out, token) ==
    /\ pc = "confirm"
    /\ prop # NoProp
    /\ sreq' = [account |-> account, slot |-> slot, v |-> v, parent |-> parent, state |-> state, body |-> body]
    /\ sig' = IF out = "ok" THEN token ELSE 0
    /\ pc' = "signed"
    /\ UNCHANGED <<hvars, acct, randao, graffiti, nodeclient, auction, preq, prop, calls, sent, fulls,
                   cancelled, submitted, subout>>

\* The relay goroutines outlive the select in unblindProposal: calls may also arrive after the submission.
UnblindCall(r, q, out) ==
    /\ pc \in {"signed", "submitted"}
    /\ sig # 0
    /\ calls[r] < MaxCalls
    /\ calls' = [calls EXCEPT ![r] = @ + 1]
    /\ sent' = sent \cup {[relay |-> r, q |-> q]}
    /\ fulls' = IF out = "full" THEN fulls \cup {[relay |-> r, q |-> q]} ELSE fulls
    /\ UNCHANGED <<hvars, pc, acct, randao, graffiti, nodeclient, auction, preq, prop, sreq, sig,
                   cancelled, submitted, subout>>

Cancel ==
    /\ pc \in ProposePcs
    /\ ~cancelled
    /\ cancelled' = TRUE
    /\ UNCHANGED <<hvars, pc, acct, randao, graffiti, nodeclient, auction, preq, prop, sreq, sig, calls, sent,
                   fulls, submitted, subout>>

SubmitCall(desc, out) ==
    /\ pc = "signed"
    /\ submitted' = desc
    /\ subout' = out
    /\ pc' = "submitted"
    /\ UNCHANGED <<hvars, acct, randao, graffiti, nodeclient, auction, preq, prop, sreq, sig, calls, sent, fulls,
                   cancelled>>

Ret ==
    /\ pc \in ProposePcs
    /\ pc' = "done"
    /\ UNCHANGED <<hvars, acct, randao, graffiti, nodeclient, auction, preq, prop, sreq, sig, calls, sent, fulls,
                   cancelled, submitted, subout>>

-----------------------------------------------------------------------------
(* The history of a service instance. *)

FailureTags == {"prepare", "graffiti", "nodeclient", "auction", "fetch", "wrongslot", "sign", "unblind",
                "submit", "cancelled"}

\* what went wrong for the current duty (read when it is over)
Failures ==
    {t \in FailureTags :
        \/ t = "prepare"    /\ (acct.out \in {"err", "empty"} \/ randao.out = "err")
        \/ t = "graffiti"   /\ graffiti = "err"
        \/ t = "nodeclient" /\ nodeclient = "err"
        \/ t = "auction"    /\ auction.kind = "err"
        \/ t = "fetch"      /\ preq # NoPreq /\ prop = NoProp
        \/ t = "wrongslot"  /\ prop # NoProp /\ prop.slot # duty.slot
        \/ t = "sign"       /\ sreq # NoSreq /\ sig = 0
        \/ t = "unblind"    /\ sig # 0 /\ prop.blinded /\ submitted = NoSub
        \/ t = "submit"     /\ subout = "err"
        \/ t = "cancelled"  /\ cancelled}

\* The same service instance is handed its next duty once Propose has returned for the current one.
\* Nothing but the configuration is carried over: the new duty starts from a clean pipeline whatever
\* `Failures` says about the duty that is over and `past` about the ones before it.
NextDuty(slot, v) ==
    /\ pc = "done"
    /\ k < NDuties
    /\ k' = k + 1
    /\ past' = past \cup Failures
    /\ duty' = [slot |-> slot, v |-> v]
    /\ ResetPipeline
    /\ UNCHANGED cfg

\* the history is over (keeps TLC's deadlock check meaningful: a state without successor is a Propose
\* that cannot return or a duty that cannot be started)
Finished ==
    /\ pc = "done" /\ k = NDuties
    /\ UNCHANGED vars

-----------------------------------------------------------------------------
(* The design: the arguments the code is supposed to pass, and when it may stop. *)

\* bounds of the model: the first duty of an instance ranges over the full sets, later ones over reduced sets
Bound(first, later) == IF k = 1 THEN first ELSE later

\* Env_BlindedNeedsAuction: a beacon node only hands out a blinded proposal when the auction produced
\* results (a blinded proposal without them is accounted under C16).
Proposals == { p \in [version : Bound(Versions, LaterVersions), blinded : BOOLEAN,
                      slot : {duty.slot + d : d \in Bound(Dslots, LaterDslots)}, id : {1}] :
                 p.blinded => (p.version \in Blindable /\ auction.kind = "results") }

MayReturn ==
    \/ pc = "invalid"
    \/ pc = "confirm" /\ (prop = NoProp \/ prop.slot # duty.slot)        \* no proposal / confirmProposalData
    \/ pc = "signed" /\ sig = 0                                           \* signing failed
    \/ pc = "signed" /\ sig # 0 /\ prop.blinded /\ (cancelled \/ Cand = {}) \* nothing to submit
    \/ pc = "submitted"

\* the design never reads k or past except to bound the environment
Next ==
    \/ \E out \in {"ok", "err", "empty"} : AccountsCall(Epoch(duty.slot), <<duty.v>>, out)
    \/ \E out \in {"ok", "err"} : RandaoCall(duty.v, duty.slot, out, 1)
    \/ ProposeCall
    \/ \E out \in {"static", "template", "err"} : GraffitiCall(out)
    \/ \E out \in {"ok", "err"} : NodeClientCall(out)
    \/ pc = "auction" /\ AuctionCall("err", {}, {})
    \/ /\ pc = "auction"
       /\ \E all \in Bound(AllChoices, LaterAllChoices) : \E providers \in SUBSET all :
            AuctionCall("results", all, providers)
    \/ /\ pc = "proposal"
       /\ \/ ProposalCall(duty.slot, graffiti \notin {"static", "template"}, randao.token, "err", NoProp)
          \/ \E p \in Proposals :
                ProposalCall(duty.slot, graffiti \notin {"static", "template"}, randao.token, "ok", p)
    \/ /\ prop.slot = duty.slot
       /\ \E out \in {"ok", "err"} :
            SignCall(duty.v, duty.slot, duty.v, Root(prop.id, "parent"), Root(prop.id, "state"),
                     Root(prop.id, "body"), out, 1)
    \/ /\ pc = "signed" /\ prop.blinded
       /\ \E r \in Cand : \E out \in Bound(Outcomes, LaterOutcomes) : UnblindCall(r, SignedQ(prop, sig), out)
    \/ pc = "signed" /\ sig # 0 /\ prop.blinded /\ Cancel
    \/ /\ sig # 0 /\ ~prop.blinded
       /\ \E out \in {"ok", "err"} : SubmitCall(OwnDesc(prop, sig), out)
    \/ /\ sig # 0 /\ prop.blinded
       /\ \E f \in fulls : \E out \in {"ok", "err"} : SubmitCall(RelayDesc(f.relay, f.q), out)
    \/ MayReturn /\ Ret
    \/ \E g \in SlotGaps : \E v \in Validators : NextDuty(duty.slot + g, v)
    \/ Finished

Spec == Init /\ [][Next]_vars

\* every step that can be taken is eventually taken: the environment answers every call, the context of a
\* proposal whose relays do not deliver eventually ends, the controller hands over the next duty
LiveSpec == Spec /\ WF_vars(Next)

-----------------------------------------------------------------------------
(* Property C05 *)

TypeOK ==
    /\ k \in 1..NDuties
    /\ past \subseteq FailureTags
    /\ cfg \in Cfgs
    /\ pc \in {"start", "randao", "prepfailed", "prepared", "done"} \cup ProposePcs
    /\ graffiti \in {"none", "static", "template", "err"}
    /\ nodeclient \in {"none", "ok", "err"}
    /\ auction.kind \in {"none", "err", "results"}
    /\ cancelled \in BOOLEAN
    /\ \A r \in Relays : calls[r] \in 0..MaxCalls

\* the duty came out of Prepare with an account and a RANDAO reveal
Prepared == randao.out = "ok"

\* "asks for a RANDAO reveal and for a block signature only for that duty's validator and slot"
OnlyDutySigner ==
    /\ randao # NoRandao => (randao.account = duty.v /\ randao.slot = duty.slot)
    /\ sreq # NoSreq => (sreq.account = duty.v /\ sreq.v = duty.v /\ sreq.slot = duty.slot)

\* "signs only a block whose slot is the duty's slot, over that block's own parent, state and body roots"
SignedIsSelected ==
    sreq # NoSreq =>
        /\ prop # NoProp
        /\ prop.slot = duty.slot
        /\ sreq.parent = Root(prop.id, "parent")
        /\ sreq.state = Root(prop.id, "state")
        /\ sreq.body = Root(prop.id, "body")

\* "submits exactly that block with that signature.  When the selected block is blinded, what is
\*  submitted is the full block returned by a relay that was sent precisely the signed blinded block"
SubmittedIntact ==
    submitted # NoSub =>
        /\ sreq # NoSreq /\ sig # 0
        /\ IF ~prop.blinded
           THEN submitted = OwnDesc(prop, sig)
           ELSE \E f \in fulls : /\ f.q = SignedQ(prop, sig)
                                 /\ submitted = RelayDesc(f.relay, f.q)

\* "and nothing is submitted if no relay returns one"
NothingWithoutUnblind ==
    (submitted # NoSub /\ prop.blinded) => \E f \in fulls : f.relay = submitted.relay

\* "failure to obtain graffiti or relay bids degrades to an ungraffitied or locally built block instead
\*  of skipping the proposal": the proposal is still requested (without graffiti), seen when Propose returns.
\*  A failed node client lookup is a failure inside the graffiti acquisition: same rule (what graffiti the
\*  request then carries - the template unaltered, or none - is not judged).
DegradesNotSkips ==
    (pc = "done" /\ (graffiti = "err" \/ nodeclient = "err" \/ auction.kind = "err")) =>
        /\ preq # NoPreq
        /\ graffiti = "err" => preq.zerograffiti

\* "a proposal duty ... signs ... and submits exactly that block": when Propose has returned for a prepared
\*  duty and the job context has not ended, every stage the duty could reach was carried out - the proposal
\*  was requested; a proposal for the duty's slot was put to the signer; a signed full block was handed to
\*  the submitter; a signed blinded block for which a relay revealed the full block led to a submission.
\*  (Nothing is demanded once the context has ended.)
\*  Holding for every duty k of a history, this is the history rule: whatever `past` contains, the next
\*  duty is still fetched, signed and submitted.
CompletesDuty ==
    (pc = "done" /\ Prepared /\ ~cancelled) =>
        /\ preq # NoPreq
        /\ (prop # NoProp /\ prop.slot = duty.slot) => sreq # NoSreq
        /\ (sig # 0 /\ ~prop.blinded) => submitted # NoSub
        /\ (sig # 0 /\ prop.blinded /\ fulls # {}) => submitted # NoSub

\* The rules of one duty.
PerDuty == /\ OnlyDutySigner /\ SignedIsSelected /\ SubmittedIntact /\ NothingWithoutUnblind
           /\ DegradesNotSkips /\ CompletesDuty

\* The history rule, spelled out: the rules of a duty do not depend on what happened to earlier duties of
\* the same service instance, and a duty starts with nothing left over from them.
HistoryIndependent ==
    /\ past \in SUBSET FailureTags => PerDuty
    /\ pc = "start" => CleanPipeline

\* every duty of the history is dealt with and Propose returns for it (checked under LiveSpec; together with
\* TLC's deadlock check: no reachable state in which a Propose cannot proceed, whatever the history)
EveryDutyTerminates == <>(pc = "done" /\ k = NDuties)
=============================================================================
