------------------------------ MODULE Proposer ------------------------------
(* Block proposal of Vouch (services/beaconblockproposer/standard: service.go Prepare,          *)
(* propose.go Propose/proposeBlock/signProposalData/unblindProposal).                           *)
(*                                                                                              *)
(* One behaviour = the HISTORY of one long-lived service instance (built once, cfg never         *)
(* changes): a sequence of CALLS on it.  The controller (controller/standard/proposer.go) makes  *)
(* a new duty object for every proposer duty it is told about - again after every refresh of    *)
(* the proposer duties (dependent root change), possibly for a slot it has prepared already and *)
(* possibly with ANOTHER of our validators - and calls, each in a goroutine of its own,          *)
(*     Prepare(d)   at once (account + RANDAO reveal are put into the duty object d), and       *)
(*     Propose(d)   from a scheduler job at the start of d's slot - or never, when the job was   *)
(*                  cancelled because a refresh replaced the duty.                              *)
(* So on one instance: Prepare(d) ... Prepare(d') for the same slot ... Propose(d'); the same    *)
(* duty prepared twice; Prepare of the duties of an epoch running side by side; Prepare of later *)
(* duties while a Propose is running; the Propose of a slot still waiting for its relays when    *)
(* the Propose of the next slot starts.                                                         *)
(*                                                                                              *)
(* The model: duty objects (handles) 1..k, created by NewDuty (= the call of Prepare).  Each    *)
(* handle has a pipeline of its own (the variables `dvars` + `duty`); the flat variables are the *)
(* pipeline of handle `cur`, the call that is running; the pipelines of the others are `parked`. *)
(* `Switch(h)` is the Go scheduler / the environment: another call goes on.  Call and return     *)
(* are separate actions (NewDuty .. PrepRet, ProposeCall .. Ret), so calls overlap; MaxInFlight  *)
(* bounds how many calls run at a time, MaxOpen how many duty objects are alive (MaxOpen = 1:    *)
(* each duty is prepared and proposed before the next one exists).                              *)
(*                                                                                              *)
(* STATE THAT PERSISTS, by the property: what Prepare(d) put into the duty object d (account,    *)
(* RANDAO reveal: `acct`, `randao` of d's pipeline) lasts until Propose(d).  NOTHING else: the   *)
(* design carries nothing from one call to another, NewDuty starts every duty from a clean      *)
(* pipeline whatever happened to the other calls (`past` = what went wrong in the calls that     *)
(* have returned on this instance: prepare / graffiti / nodeclient / auction / fetch / wrongslot *)
(* / sign / unblind / submit / cancelled) and whatever the other handles hold.  Every per-duty   *)
(* rule below is judged on the pipeline of each handle against THAT handle's duty, in every      *)
(* history, and every call returns (no deadlock; liveness property EveryDutyTerminates).         *)
(*                                                                                              *)
(* One action per interface call the code makes (the arguments are what the code passed, the    *)
(* outcome is what the environment answered), plus the environment's own steps:                 *)
(*   NewDuty         the controller makes a duty object and calls Prepare for it                *)
(*   AccountsCall    Prepare: ValidatingAccountsForEpochByIndex                                 *)
(*   RandaoCall      Prepare: RANDAORevealSigner.SignRANDAOReveal                               *)
(*   PrepRet         Prepare returns                                                            *)
(*   ProposeCall     the controller calls Propose (validateDuty decides whether anything follows)*)
(*   Drop            the controller cancels the job of a prepared duty: it is never proposed    *)
(*   GraffitiCall    graffitiProvider.Graffiti                (only if a provider is configured)*)
(*   NodeClientCall  proposalProvider.(NodeClientProvider).NodeClient   (graffiti has {{CLIENT}})*)
(*   AuctionCall     blockAuctioneer.AuctionBlock RETURNS   (only if an auctioneer is configured)*)
(*   AuctionStart    (cfg.strategy # "opaque") the block relay service behind the auctioneer    *)
(*                   interface looks the proposer's account up: AccountByPublicKey              *)
(*   BidCall         (cfg.strategy # "opaque") the builder-bid strategy asks relay r for a bid  *)
(*   ProposalCall    proposalProvider.Proposal                                                  *)
(*   SignCall        beaconBlockSigner.SignBeaconBlockProposal                                  *)
(*   UnblindCall     relay r: UnblindProposal (one goroutine per relay, up to three attempts)   *)
(*   Cancel          the job context ends (the environment; production contexts have no deadline)*)
(*   SubmitCall      proposalSubmitter.SubmitProposal                                           *)
(*   Ret             Propose returns                                                            *)
(*   Switch          another call of the instance goes on (environment)                         *)
(*                                                                                              *)
(* The actions only have *structural* preconditions (the order of the pipeline) and record      *)
(* whatever arguments they are given.  `Next` instantiates them with the arguments the code is  *)
(* supposed to pass; TLC checks that this design satisfies the invariants, which are property   *)
(* C05 sentence by sentence.  The trace specification instantiates the same actions with the    *)
(* arguments the real code passed, so a deviation shows as a false invariant.                   *)
(*                                                                                              *)
(* THE AUCTION AS A COMPONENT.  The property says "failure to obtain ... relay bids degrades to  *)
(* ... a locally built block instead of skipping the proposal", so its boundary is not the       *)
(* proposer's BlockAuctioneer interface but the relays.  main.go puts between the two            *)
(*   services/blockrelay/standard.AuctionBlock   (account lookup, proposer configuration, cache)  *)
(*   strategies/builderbid/{best,deadline}       (one request goroutine per configured relay,     *)
(*                                                soft/hard time-out resp. deadline)              *)
(*   util.FetchBuilderClient                     (one client per relay address)                   *)
(* cfg.strategy names what stands behind the interface: "opaque" (an oracle: AuctionCall is one   *)
(* atomic step with any outcome - the earlier model and the fake-based binding), or the SIBLING    *)
(* implementations "best" / "deadline" of the builder-bid operation behind the real block relay.  *)
(* For those the auction has state of its own (`auction`: acct, asked, bids): AuctionStart, then  *)
(* one BidCall per request a relay receives (the relay bids / has no bid (204) / fails / ACCEPTS   *)
(* THE REQUEST AND STAYS SILENT past the strategy's time-out), then AuctionCall = what comes back  *)
(* to the proposer: an error, results (AllProviders = the configured relays cfg.conf, Providers a  *)
(* subset of those that bid; possibly empty) - or, a breach of the Go contract, NEITHER results    *)
(* NOR an error ("nilnil").  The design never produces nilnil; whatever comes back, every         *)
(* invariant below holds for each value of cfg.strategy, in particular DegradesNotSkips and       *)
(* CompletesDuty: the proposal is requested, and a locally built block is signed and submitted.   *)
(* Auction_Proposer.tla is the control: a strategy that answers nilnil when its time-out passes    *)
(* with a silent relay and no bid, and a caller that dereferences it, must be rejected.            *)
(*                                                                                              *)
(* Abstractions: a proposal is [version, blinded, slot, id]; its roots are Root(id, kind) (the   *)
(* driver decodes the 32-byte roots the code passed with the library's accessors applied to the *)
(* obtained object); a signature is the token the signer fake returned; q is the description of *)
(* what a relay was sent; a submitted container is described by where it comes from.            *)
EXTENDS Integers, FiniteSets, Sequences, TLC

CONSTANTS DutySlots,        \* slots the first duty of a service instance can have
          Validators,       \* validator indices (each has exactly its own account)
          SlotsPerEpoch,
          Relays,
          AllChoices,       \* the sets the auction can report as AllProviders (subsets of Relays)
          Versions,         \* {"phase0", "altair", "bellatrix", "capella", "deneb"}
          Blindable,        \* versions that have a blinded form
          Outcomes,         \* what one UnblindProposal call can do
          MaxCalls,         \* bound on calls per relay (the code tries three times)
          Dslots,           \* a returned proposal is for slot (duty slot + d), d \in Dslots
          NDuties,          \* length of the history: duty objects handed to one service instance
          SlotGaps,         \* the next duty is for slot (slot of the newest duty + g), g \in SlotGaps
                            \* (0: a slot that was prepared already, for the same or another validator)
          MaxOpen,          \* duty objects alive at a time (created, neither proposed nor dropped)
          MaxInFlight,      \* calls (Prepare / Propose) running at a time
          InitCfgs,         \* the service configurations explored (Cfgs: all nine; a bound of the model)
          \* bounds of the model only: the environment of the duties after the first ranges over these
          LaterAllChoices, LaterVersions, LaterOutcomes, LaterDslots

VARIABLES k,          \* number of duty objects (handles) made so far (1..NDuties)
          cur,        \* the handle whose call goes on: the flat variables below are ITS pipeline
          parked,     \* [1..NDuties -> pipeline of the handle | Nil]: the other handles
          past,       \* what went wrong in the calls that have returned on this instance (set of FailureTags)
          duty,       \* [slot, v] of handle cur
          cfg,        \* [graffiti, nodeclient, auctioneer, unblindAll : BOOLEAN, strategy, conf]  (what the
                      \*  service was built with; nodeclient: the proposal provider implements NodeClientProvider;
                      \*  strategy: what stands behind the auctioneer interface - "opaque" | "best" | "deadline";
                      \*  conf: the relays of the execution configuration, for strategy # "opaque")
          pc,
          acct,       \* NoAcct or [epoch, idxs, out]
          randao,     \* NoRandao or [account, slot, out, token]
          graffiti,   \* "none" | "static" (text) | "template" (text with {{CLIENT}}) | "err" (provider failed)
          nodeclient, \* "none" | "ok" | "err": the node client lookup for the template
          auction,    \* [kind |-> "none" | "bidding" | "err" | "results" | "nilnil", all, providers,
                      \*  acct |-> "none" | "ok" | "err"  (the block relay's account lookup),
                      \*  asked |-> [Relays -> Nat]  (requests relay r has received in this auction),
                      \*  bids |-> [Relays -> "none" | "bid" | "nobid" | "err" | "silent"]]
          preq,       \* NoPreq or [slot, zerograffiti, reveal]
          prop,       \* NoProp or [version, blinded, slot, id]
          sreq,       \* NoSreq or [account, slot, v, parent, state, body]
          sig,        \* 0 or the token of the signature obtained
          calls,      \* [Relays -> Nat]
          sent,       \* set of [relay, q]: what each relay has been sent
          fulls,      \* set of [relay, q]: relay returned Full(relay, q)
          cancelled,
          submitted,  \* NoSub or a description of the submitted container
          subout      \* "none" | "ok" | "err"

\* the pipeline of one duty
dvars == <<pc, acct, randao, graffiti, nodeclient, auction, preq, prop, sreq, sig, calls, sent, fulls,
           cancelled, submitted, subout>>
\* the service instance, its history and who is running (duty: a call never changes its duty)
hvars == <<k, cur, parked, past, duty, cfg>>
vars == <<hvars, dvars>>

Epoch(s) == s \div SlotsPerEpoch

\* values for Dslots (a configuration file cannot write a negative number: Dslots <- AllDslots)
AllDslots == {-1, 0, 1}
FwdDslots == {0, 1}
JustDslot == {0}

NoAcct   == [epoch |-> -1, idxs |-> <<>>, out |-> "none"]
NoRandao == [account |-> -1, slot |-> -1, out |-> "none", token |-> 0]
NoAuction == [kind |-> "none", all |-> {}, providers |-> {}, acct |-> "none",
              asked |-> [r \in Relays |-> 0], bids |-> [r \in Relays |-> "none"]]
NoPreq   == [slot |-> -1, zerograffiti |-> FALSE, reveal |-> 0]
NoProp   == [version |-> "none", blinded |-> FALSE, slot |-> -1, id |-> 0]
NoRoot   == [id |-> 0, kind |-> "none"]
NoSreq   == [account |-> -1, slot |-> -1, v |-> -1, parent |-> NoRoot, state |-> NoRoot, body |-> NoRoot]
NoQ      == [version |-> "none", containers |-> <<>>, id |-> 0, sig |-> 0, intact |-> FALSE]
NoSub    == [src |-> "none", version |-> "none", blinded |-> FALSE, containers |-> <<>>, id |-> 0,
             sig |-> 0, relay |-> 0, q |-> NoQ, intact |-> FALSE]

Root(id, kind) == [id |-> id, kind |-> kind]

\* the container a full (resp. blinded) block of version v travels in
FullContainer(v) == v
BlindedContainer(v) == v \o "_blinded"

\* precisely the signed blinded block: the message of p, untouched, in the field of p's version,
\* with signature s
SignedQ(p, s) == [version |-> p.version, containers |-> <<p.version>>, id |-> p.id, sig |-> s, intact |-> TRUE]

\* the obtained full proposal p with signature s in the container of p's version
OwnDesc(p, s) == [src |-> "own", version |-> p.version, blinded |-> FALSE,
                  containers |-> <<FullContainer(p.version)>>, id |-> p.id, sig |-> s, relay |-> 0,
                  q |-> NoQ, intact |-> TRUE]

\* the full block relay r returned for q, untouched
RelayDesc(r, q) == [src |-> "relay", version |-> q.version, blinded |-> FALSE,
                    containers |-> <<FullContainer(q.version)>>, id |-> q.id, sig |-> q.sig, relay |-> r,
                    q |-> q, intact |-> TRUE]

\* relays the code is to unblind with: those with the winning bid, or all of them
Cand == IF auction.providers = {} \/ cfg.unblindAll THEN auction.all ELSE auction.providers

AfterGraffiti == IF cfg.auctioneer THEN "auction" ELSE "proposal"
AfterValidate == IF cfg.graffiti THEN "graffiti" ELSE AfterGraffiti

\* The node client lookup (pc = "nodeclient") may be left out - the name of the beacon node's client may be
\* known already; the property does not say - so the step after it is also possible straight away.
At(step) == pc = step \/ (pc = "nodeclient" /\ AfterGraffiti = step)

ProposePcs == {"invalid", "graffiti", "nodeclient", "auction", "bidding", "proposal", "confirm", "signed", "submitted"}

\* the sibling implementations of the builder-bid operation (strategies/builderbid/*), behind the real block relay
Strategies == {"best", "deadline"}
\* what a relay does with a request for a bid: bids / has none (204) / fails / accepts the request and stays silent
BidOuts == {"bid", "nobid", "err", "silent"}
\* (value for BidOuts in a control configuration: relays that always answer)
AnsweringBidOuts == {"bid", "nobid", "err"}
\* requests a relay receives in one auction: best asks once, deadline asks again until the deadline (bound of the model)
MaxAsk(strategy) == IF strategy = "deadline" THEN 2 ELSE 1
\* bound of the model: what the relays do in the auctions of the duties after the first
LaterBidOuts == {"bid", "silent"}

Cfgs == {c \in [graffiti : BOOLEAN, nodeclient : BOOLEAN, auctioneer : BOOLEAN, unblindAll : BOOLEAN,
                strategy : {"opaque"} \cup Strategies, conf : SUBSET Relays] :
            /\ (c.unblindAll => c.auctioneer) /\ (c.nodeclient => c.graffiti)
            /\ (c.strategy # "opaque" => c.auctioneer) /\ (c.strategy = "opaque" => c.conf = {})}

\* values for InitCfgs (InitCfgs <- AllCfgs / BuilderCfgs / WiredCfgs)
\* the auctioneer as an oracle (all nine service configurations)
AllCfgs == {c \in Cfgs : c.strategy = "opaque"}
\* graffiti provider and auctioneer configured (every step of the pipeline exists)
BuilderCfgs == {c \in AllCfgs : c.graffiti /\ c.auctioneer /\ ~c.unblindAll /\ ~c.nodeclient}
\* the auction as a component: each sibling strategy behind the block relay, every set of configured relays
WiredCfgs == {c \in Cfgs : c.strategy # "opaque" /\ c.graffiti /\ ~c.nodeclient}
\* ... with at least one relay configured and unblinding with the winners (for the configurations with overlap)
WiredOneCfgs == {c \in WiredCfgs : c.conf # {} /\ ~c.unblindAll}

CleanPipeline ==
    /\ pc = "start"
    /\ acct = NoAcct /\ randao = NoRandao /\ graffiti = "none" /\ nodeclient = "none" /\ auction = NoAuction
    /\ preq = NoPreq /\ prop = NoProp /\ sreq = NoSreq /\ sig = 0
    /\ calls = [r \in Relays |-> 0] /\ sent = {} /\ fulls = {}
    /\ cancelled = FALSE /\ submitted = NoSub /\ subout = "none"

\* CleanPipeline' (TLC wants the primed variables spelled out)
ResetPipeline ==
    /\ pc' = "start"
    /\ acct' = NoAcct /\ randao' = NoRandao /\ graffiti' = "none" /\ nodeclient' = "none" /\ auction' = NoAuction
    /\ preq' = NoPreq /\ prop' = NoProp /\ sreq' = NoSreq /\ sig' = 0
    /\ calls' = [r \in Relays |-> 0] /\ sent' = {} /\ fulls' = {}
    /\ cancelled' = FALSE /\ submitted' = NoSub /\ subout' = "none"

\* the pipeline of handle cur as a value (to be parked), and back
Pipe == [duty |-> duty, pc |-> pc, acct |-> acct, randao |-> randao, graffiti |-> graffiti, nodeclient |-> nodeclient,
         auction |-> auction, preq |-> preq, prop |-> prop, sreq |-> sreq, sig |-> sig, calls |-> calls, sent |-> sent,
         fulls |-> fulls, cancelled |-> cancelled, submitted |-> submitted, subout |-> subout]

NoDuty == [slot |-> -1, v |-> -1]

\* a handle that is over keeps nothing but its duty (and that only while it is the newest handle)
OverPipe(d) == [duty |-> d, pc |-> "done", acct |-> NoAcct, randao |-> NoRandao, graffiti |-> "none", nodeclient |-> "none",
                auction |-> NoAuction, preq |-> NoPreq, prop |-> NoProp, sreq |-> NoSreq, sig |-> 0,
                calls |-> [r \in Relays |-> 0], sent |-> {}, fulls |-> {}, cancelled |-> FALSE, submitted |-> NoSub,
                subout |-> "none"]

\* Propose has returned ("done") / the duty was dropped before it was proposed ("dropped")
OverPcs == {"done", "dropped"}

ParkCur == IF pc \in OverPcs THEN OverPipe(IF cur = k THEN duty ELSE NoDuty) ELSE Pipe

Load(p) ==
    /\ duty' = p.duty /\ pc' = p.pc /\ acct' = p.acct /\ randao' = p.randao /\ graffiti' = p.graffiti
    /\ nodeclient' = p.nodeclient /\ auction' = p.auction /\ preq' = p.preq /\ prop' = p.prop /\ sreq' = p.sreq
    /\ sig' = p.sig /\ calls' = p.calls /\ sent' = p.sent /\ fulls' = p.fulls /\ cancelled' = p.cancelled
    /\ submitted' = p.submitted /\ subout' = p.subout

Nil == [pc |-> "nil"]
NoneParked == [h \in 1..NDuties |-> Nil]

Handles == 1..k
PcOf(h) == IF h = cur THEN pc ELSE parked[h].pc
DutyOf(h) == IF h = cur THEN duty ELSE parked[h].duty

\* a call is running on the handle: Prepare ...
PreparePcs == {"start", "randao", "prepfailed", "prepared"}
\* ... Prepare has returned, Propose has not been called: the duty came out with account and reveal / without
IdlePcs == {"ready", "unready"}
InFlight == {h \in Handles : PcOf(h) \in PreparePcs \cup ProposePcs}
Open == {h \in Handles : PcOf(h) \notin OverPcs}

Init ==
    /\ k = 1 /\ cur = 1 /\ parked = NoneParked /\ past = {}
    /\ duty \in [slot : DutySlots, v : Validators]
    /\ cfg \in InitCfgs
    /\ CleanPipeline

-----------------------------------------------------------------------------
(* Actions: structural preconditions only. *)

AccountsCall(epoch, idxs, out) ==
    /\ pc = "start"
    /\ acct' = [epoch |-> epoch, idxs |-> idxs, out |-> out]
    /\ pc' = IF out = "ok" THEN "randao" ELSE "prepfailed"
    /\ UNCHANGED <<hvars, randao, graffiti, nodeclient, auction, preq, prop, sreq, sig, calls, sent, fulls,
                   cancelled, submitted, subout>>

RandaoCall(account, slot, out, token) ==
    /\ pc = "randao"
    /\ randao' = [account |-> account, slot |-> slot, out |-> out, token |-> IF out = "ok" THEN token ELSE 0]
    /\ pc' = IF out = "ok" THEN "prepared" ELSE "prepfailed"
    /\ UNCHANGED <<hvars, acct, graffiti, nodeclient, auction, preq, prop, sreq, sig, calls, sent, fulls,
                   cancelled, submitted, subout>>

\* Prepare returns.  The duty object now holds what the calls of this Prepare obtained: account and reveal
\* ("ready") or not ("unready").  A Prepare that returned without asking anything (not the design; the
\* property does not forbid an instance that remembers what it obtained for this very validator and slot)
\* counts as "ready": what it then ASKS THE SIGNER is judged by OnlyDutySigner like everybody else's.
PrepRet ==
    /\ pc \in PreparePcs
    /\ pc' = IF pc \in {"prepared", "start"} THEN "ready" ELSE "unready"
    /\ past' = past \cup (IF pc = "prepfailed" THEN {"prepare"} ELSE {})
    /\ UNCHANGED <<k, cur, parked, duty, cfg, acct, randao, graffiti, nodeclient, auction, preq, prop, sreq, sig,
                   calls, sent, fulls, cancelled, submitted, subout>>

\* A duty without account or RANDAO reveal is not proposed for (validateDuty).
ProposeCall ==
    /\ pc \in IdlePcs
    /\ Cardinality(InFlight) < MaxInFlight
    /\ pc' = IF pc = "ready" THEN AfterValidate ELSE "invalid"
    /\ UNCHANGED <<hvars, acct, randao, graffiti, nodeclient, auction, preq, prop, sreq, sig, calls, sent, fulls,
                   cancelled, submitted, subout>>

\* The job of a prepared duty is cancelled (a refresh replaced the duty): it is never proposed.
Drop ==
    /\ pc \in IdlePcs
    /\ pc' = "dropped"
    /\ UNCHANGED <<hvars, acct, randao, graffiti, nodeclient, auction, preq, prop, sreq, sig, calls, sent, fulls,
                   cancelled, submitted, subout>>

\* out: "static" (a text), "template" (a text containing {{CLIENT}}), "err" (the provider failed)
GraffitiCall(out) ==
    /\ pc = "graffiti"
    /\ graffiti' = out
    /\ pc' = IF out = "template" /\ cfg.nodeclient THEN "nodeclient" ELSE AfterGraffiti
    /\ UNCHANGED <<hvars, acct, randao, nodeclient, auction, preq, prop, sreq, sig, calls, sent, fulls,
                   cancelled, submitted, subout>>

\* the beacon node is asked for the name of its client, to fill the template
NodeClientCall(out) ==
    /\ pc = "nodeclient"
    /\ nodeclient' = out
    /\ pc' = AfterGraffiti
    /\ UNCHANGED <<hvars, acct, randao, graffiti, auction, preq, prop, sreq, sig, calls, sent, fulls,
                   cancelled, submitted, subout>>

\* the block relay service (behind the auctioneer interface) looks up the account of the proposer's key
AuctionStart(out) ==
    /\ At("auction")
    /\ cfg.strategy # "opaque"
    /\ auction' = [NoAuction EXCEPT !.kind = "bidding", !.acct = out]
    /\ pc' = "bidding"
    /\ UNCHANGED <<hvars, acct, randao, graffiti, nodeclient, preq, prop, sreq, sig, calls, sent, fulls,
                   cancelled, submitted, subout>>

\* relay r receives a request for a bid (the strategy's goroutine for r).  What is remembered per relay is
\* whether it has bid in this auction.
BidCall(r, out) ==
    /\ pc = "bidding"
    /\ auction' = [auction EXCEPT !.asked[r] = @ + 1,
                                  !.bids[r] = IF @ = "bid" THEN "bid" ELSE out]
    /\ UNCHANGED <<hvars, pc, acct, randao, graffiti, nodeclient, preq, prop, sreq, sig, calls, sent, fulls,
                   cancelled, submitted, subout>>

\* AuctionBlock returns to the proposer: out = "err" (an error), "results" (AllProviders = all, Providers =
\* providers), or "nilnil" (neither results nor an error: a breach of the contract, recorded as such)
AuctionCall(out, all, providers) ==
    /\ \/ At("auction") /\ cfg.strategy = "opaque"
       \/ pc = "bidding"
    /\ auction' = [auction EXCEPT !.kind = out, !.all = all, !.providers = providers]
    /\ pc' = "proposal"
    /\ UNCHANGED <<hvars, acct, randao, graffiti, nodeclient, preq, prop, sreq, sig, calls, sent, fulls,
                   cancelled, submitted, subout>>

ProposalCall(slot, zerograffiti, reveal, out, p) ==
    /\ At("proposal")
    /\ preq' = [slot |-> slot, zerograffiti |-> zerograffiti, reveal |-> reveal]
    /\ prop' = IF out = "ok" THEN p ELSE NoProp
    /\ pc' = "confirm"
    /\ UNCHANGED <<hvars, acct, randao, graffiti, nodeclient, auction, sreq, sig, calls, sent, fulls,
                   cancelled, submitted, subout>>

SignCall(account, slot, v, parent, state, body, out, token) ==
    /\ pc = "confirm"
    /\ prop # NoProp
    /\ sreq' = [account |-> account, slot |-> slot, v |-> v, parent |-> parent, state |-> state, body |-> body]
    /\ sig' = IF out = "ok" THEN token ELSE 0
    /\ pc' = "signed"
    /\ UNCHANGED <<hvars, acct, randao, graffiti, nodeclient, auction, preq, prop, calls, sent, fulls,
                   cancelled, submitted, subout>>

\* The relay goroutines outlive the select in unblindProposal: calls may also arrive after the submission.
UnblindCall(r, q, out) ==
    /\ pc \in {"signed", "submitted"}
    /\ sig # 0
    /\ calls[r] < MaxCalls
    /\ calls' = [calls EXCEPT ![r] = @ + 1]
    /\ sent' = sent \cup {[relay |-> r, q |-> q]}
    /\ fulls' = IF out = "full" THEN fulls \cup {[relay |-> r, q |-> q]} ELSE fulls
    /\ UNCHANGED <<hvars, pc, acct, randao, graffiti, nodeclient, auction, preq, prop, sreq, sig,
                   cancelled, submitted, subout>>

Cancel ==
    /\ pc \in ProposePcs
    /\ ~cancelled
    /\ cancelled' = TRUE
    /\ UNCHANGED <<hvars, pc, acct, randao, graffiti, nodeclient, auction, preq, prop, sreq, sig, calls, sent,
                   fulls, submitted, subout>>

SubmitCall(desc, out) ==
    /\ pc = "signed"
    /\ submitted' = desc
    /\ subout' = out
    /\ pc' = "submitted"
    /\ UNCHANGED <<hvars, acct, randao, graffiti, nodeclient, auction, preq, prop, sreq, sig, calls, sent, fulls,
                   cancelled>>

-----------------------------------------------------------------------------
(* The history of a service instance. *)

FailureTags == {"prepare", "graffiti", "nodeclient", "auction", "fetch", "wrongslot", "sign", "unblind",
                "submit", "cancelled"}

\* what went wrong for the duty of handle cur (read when its Propose returns)
Failures ==
    {t \in FailureTags :
        \/ t = "prepare"    /\ (acct.out \in {"err", "empty"} \/ randao.out = "err")
        \/ t = "graffiti"   /\ graffiti = "err"
        \/ t = "nodeclient" /\ nodeclient = "err"
        \/ t = "auction"    /\ auction.kind \in {"err", "nilnil"}
        \/ t = "fetch"      /\ preq # NoPreq /\ prop = NoProp
        \/ t = "wrongslot"  /\ prop # NoProp /\ prop.slot # duty.slot
        \/ t = "sign"       /\ sreq # NoSreq /\ sig = 0
        \/ t = "unblind"    /\ sig # 0 /\ prop.blinded /\ submitted = NoSub
        \/ t = "submit"     /\ subout = "err"
        \/ t = "cancelled"  /\ cancelled}

\* Propose returns.  `past` remembers what went wrong (it bounds nothing and the design never reads it: it
\* makes TLC explore the later calls from every distinct history).
Ret ==
    /\ pc \in ProposePcs
    /\ pc' = "done"
    /\ past' = past \cup Failures
    /\ UNCHANGED <<k, cur, parked, duty, cfg, acct, randao, graffiti, nodeclient, auction, preq, prop, sreq, sig,
                   calls, sent, fulls, cancelled, submitted, subout>>

\* The controller makes a new duty object and calls Prepare for it on the same service instance - whatever
\* the other handles are doing (within MaxOpen / MaxInFlight).  Nothing but the configuration reaches the
\* new call: it starts from a clean pipeline.  The call that was going on is parked.
NewDuty(slot, v) ==
    /\ k < NDuties
    /\ Cardinality(Open) < MaxOpen
    /\ Cardinality(InFlight) < MaxInFlight
    /\ k' = k + 1
    /\ cur' = k + 1
    \* (the duty of a handle that is over is needed for LastSlot only while it is the newest: forgotten now)
    /\ parked' = [h \in 1..NDuties |->
                    IF h = cur THEN (IF pc \in OverPcs THEN OverPipe(NoDuty) ELSE Pipe)
                    ELSE IF parked[h] # Nil /\ parked[h].pc = "done" THEN OverPipe(NoDuty) ELSE parked[h]]
    /\ duty' = [slot |-> slot, v |-> v]
    /\ ResetPipeline
    /\ UNCHANGED <<past, cfg>>

\* Another call of the instance goes on (the Go scheduler; the environment).
Switch(h) ==
    /\ h \in Handles /\ h # cur
    /\ parked[h].pc # "done"
    /\ cur' = h
    /\ parked' = [parked EXCEPT ![cur] = ParkCur, ![h] = Nil]
    /\ Load(parked[h])
    /\ UNCHANGED <<k, past, cfg>>

\* the history is over (keeps TLC's deadlock check meaningful: a state without successor is a call that
\* cannot return or a duty that cannot be started)
Finished ==
    /\ k = NDuties /\ Open = {}
    /\ UNCHANGED vars

-----------------------------------------------------------------------------
(* The design: the arguments the code is supposed to pass, and when it may stop. *)

\* bounds of the model: the first duty of an instance ranges over the full sets, later ones over reduced sets
Bound(first, later) == IF cur = 1 THEN first ELSE later

\* the newest duty object's slot
LastSlot == DutyOf(k).slot

\* Env_BlindedNeedsAuction: a beacon node only hands out a blinded proposal when the auction produced
\* results (a blinded proposal without them is accounted under C16).
Proposals == { p \in [version : Bound(Versions, LaterVersions), blinded : BOOLEAN,
                      slot : {duty.slot + d : d \in Bound(Dslots, LaterDslots)}, id : {1}] :
                 p.blinded => (p.version \in Blindable /\ auction.kind = "results") }

MayReturn ==
    \/ pc = "invalid"
    \/ pc = "confirm" /\ (prop = NoProp \/ prop.slot # duty.slot)        \* no proposal / confirmProposalData
    \/ pc = "signed" /\ sig = 0                                           \* signing failed
    \/ pc = "signed" /\ sig # 0 /\ prop.blinded /\ (cancelled \/ Cand = {}) \* nothing to submit
    \/ pc = "submitted"

\* The design never reads k, cur, past or parked except to bound the environment; a call reads its own
\* duty and what its own pipeline holds.  In three parts, so that a control model (Memo_Proposer.tla) can
\* replace one of them.

\* Prepare: the account of the duty's validator for the duty's epoch, the reveal for the duty's slot
PrepareSteps ==
    \/ \E out \in {"ok", "err", "empty"} : AccountsCall(Epoch(duty.slot), <<duty.v>>, out)
    \/ \E out \in {"ok", "err"} : RandaoCall(duty.v, duty.slot, out, 1)
    \/ pc \in {"prepfailed", "prepared"} /\ PrepRet

\* the block signature is asked of `account` (the design: the duty's validator's)
SignStep(account) ==
    /\ prop.slot = duty.slot
    /\ \E out \in {"ok", "err"} :
         SignCall(account, duty.slot, duty.v, Root(prop.id, "parent"), Root(prop.id, "state"),
                  Root(prop.id, "body"), out, 1)

\* The auction as a component (cfg.strategy # "opaque"): services/blockrelay/standard.AuctionBlock and the
\* builder-bid strategy behind it.  Relays that bid
Bidders == {r \in cfg.conf : auction.bids[r] = "bid"}
\* the account lookup failed: an error; no relays configured: empty results without asking anybody;
\* otherwise every configured relay is asked (best: once; deadline: again until the deadline) and the
\* strategy returns - when all have answered or when its time-out / deadline passes, i.e. at ANY time as far
\* as the model is concerned - results with AllProviders = the configured relays and Providers = relays that
\* bid (which of them, and whether any: timing and bid values, left open).  Never an error, never nilnil.
AuctionReturns ==
    \/ auction.acct = "err" /\ AuctionCall("err", {}, {})
    \/ auction.acct = "ok" /\ \E providers \in SUBSET Bidders : AuctionCall("results", cfg.conf, providers)

AuctionSteps ==
    \/ pc = "auction" /\ \E out \in Bound({"ok", "err"}, {"ok"}) : AuctionStart(out)
    \/ /\ pc = "bidding" /\ auction.acct = "ok"
       /\ \E r \in cfg.conf : \E out \in Bound(BidOuts, LaterBidOuts) :
            /\ auction.asked[r] < MaxAsk(cfg.strategy)
            /\ BidCall(r, out)
    \/ pc = "bidding" /\ AuctionReturns

OtherSteps ==
    \/ ProposeCall
    \/ Drop
    \/ \E out \in {"static", "template", "err"} : GraffitiCall(out)
    \/ \E out \in {"ok", "err"} : NodeClientCall(out)
    \/ pc = "auction" /\ cfg.strategy = "opaque" /\ AuctionCall("err", {}, {})
    \/ /\ pc = "auction" /\ cfg.strategy = "opaque"
       /\ \E all \in Bound(AllChoices, LaterAllChoices) : \E providers \in SUBSET all :
            AuctionCall("results", all, providers)
    \/ AuctionSteps
    \/ /\ pc = "proposal"
       /\ \/ ProposalCall(duty.slot, graffiti \notin {"static", "template"}, randao.token, "err", NoProp)
          \/ \E p \in Proposals :
                ProposalCall(duty.slot, graffiti \notin {"static", "template"}, randao.token, "ok", p)
    \/ /\ pc = "signed" /\ prop.blinded
       /\ \E r \in Cand : \E out \in Bound(Outcomes, LaterOutcomes) : UnblindCall(r, SignedQ(prop, sig), out)
    \/ pc = "signed" /\ sig # 0 /\ prop.blinded /\ Cancel
    \/ /\ sig # 0 /\ ~prop.blinded
       /\ \E out \in {"ok", "err"} : SubmitCall(OwnDesc(prop, sig), out)
    \/ /\ sig # 0 /\ prop.blinded
       /\ \E f \in fulls : \E out \in {"ok", "err"} : SubmitCall(RelayDesc(f.relay, f.q), out)
    \/ MayReturn /\ Ret
    \/ \E g \in SlotGaps : \E v \in Validators : NewDuty(LastSlot + g, v)
    \/ \E h \in Handles : Switch(h)
    \/ Finished

Next == PrepareSteps \/ SignStep(duty.v) \/ OtherSteps

Spec == Init /\ [][Next]_vars

\* every step that can be taken is eventually taken: the environment answers every call, the context of a
\* proposal whose relays do not deliver eventually ends, the controller hands over the next duty.
\* (Checked with MaxOpen = 1: with several open handles weak fairness of Next does not rule out an endless
\*  Switch between two of them; for those configurations the deadlock check stands.)
LiveSpec == Spec /\ WF_vars(Next)

-----------------------------------------------------------------------------
(* Property C05 *)

TypeOK ==
    /\ k \in 1..NDuties
    /\ cur \in Handles
    /\ \A h \in 1..NDuties : (parked[h] = Nil) <=> (h = cur \/ h > k)
    /\ Cardinality(Open) <= MaxOpen /\ Cardinality(InFlight) <= MaxInFlight
    /\ past \subseteq FailureTags
    /\ cfg \in Cfgs
    /\ pc \in PreparePcs \cup IdlePcs \cup ProposePcs \cup OverPcs
    /\ graffiti \in {"none", "static", "template", "err"}
    /\ nodeclient \in {"none", "ok", "err"}
    /\ auction.kind \in {"none", "bidding", "err", "results", "nilnil"}
    /\ auction.acct \in {"none", "ok", "err"}
    /\ \A r \in Relays : auction.bids[r] \in {"none"} \cup BidOuts
    /\ cancelled \in BOOLEAN
    /\ \A r \in Relays : calls[r] \in 0..MaxCalls

\* the duty came out of its Prepare with an account and a RANDAO reveal
Prepared == randao.out = "ok"

\* "asks for a RANDAO reveal and for a block signature only for that duty's validator and slot": judged per
\* duty object - whatever was asked of the signer in the calls for handle cur names the duty of handle cur
\* (not: of some duty this instance has seen).
OnlyDutySigner ==
    /\ randao # NoRandao => (randao.account = duty.v /\ randao.slot = duty.slot)
    /\ sreq # NoSreq => (sreq.account = duty.v /\ sreq.v = duty.v /\ sreq.slot = duty.slot)

\* "signs only a block whose slot is the duty's slot, over that block's own parent, state and body roots"
SignedIsSelected ==
    sreq # NoSreq =>
        /\ prop # NoProp
        /\ prop.slot = duty.slot
        /\ sreq.parent = Root(prop.id, "parent")
        /\ sreq.state = Root(prop.id, "state")
        /\ sreq.body = Root(prop.id, "body")

\* "submits exactly that block with that signature.  When the selected block is blinded, what is
\*  submitted is the full block returned by a relay that was sent precisely the signed blinded block"
SubmittedIntact ==
    submitted # NoSub =>
        /\ sreq # NoSreq /\ sig # 0
        /\ IF ~prop.blinded
           THEN submitted = OwnDesc(prop, sig)
           ELSE \E f \in fulls : /\ f.q = SignedQ(prop, sig)
                                 /\ submitted = RelayDesc(f.relay, f.q)

\* "and nothing is submitted if no relay returns one"
NothingWithoutUnblind ==
    (submitted # NoSub /\ prop.blinded) => \E f \in fulls : f.relay = submitted.relay

\* "failure to obtain graffiti or relay bids degrades to an ungraffitied or locally built block instead
\*  of skipping the proposal": the proposal is still requested (without graffiti), seen when Propose returns.
\*  A failed node client lookup is a failure inside the graffiti acquisition: same rule (what graffiti the
\*  request then carries - the template unaltered, or none - is not judged).
\*  "Failure to obtain relay bids": the auction came back with an error, with results that name no relay with a
\*  bid (nobody bid, bids were refused, relays failed or stayed silent until the strategy gave up) or - contract
\*  breach - with neither results nor an error.  Whatever stands behind the auctioneer interface (cfg.strategy).
NoBidsObtained == auction.kind \in {"err", "nilnil"} \/ (auction.kind = "results" /\ auction.providers = {})

DegradesNotSkips ==
    (pc = "done" /\ (graffiti = "err" \/ nodeclient = "err" \/ NoBidsObtained)) =>
        /\ preq # NoPreq
        /\ graffiti = "err" => preq.zerograffiti

\* "a proposal duty ... signs ... and submits exactly that block": when Propose has returned for a prepared
\*  duty and the job context has not ended, every stage the duty could reach was carried out - the proposal
\*  was requested; a proposal for the duty's slot was put to the signer; a signed full block was handed to
\*  the submitter; a signed blinded block for which a relay revealed the full block led to a submission.
\*  (Nothing is demanded once the context has ended.)
\*  Holding for every duty k of a history, this is the history rule: whatever `past` contains, the next
\*  duty is still fetched, signed and submitted.
CompletesDuty ==
    (pc = "done" /\ Prepared /\ ~cancelled) =>
        /\ preq # NoPreq
        /\ (prop # NoProp /\ prop.slot = duty.slot) => sreq # NoSreq
        /\ (sig # 0 /\ ~prop.blinded) => submitted # NoSub
        /\ (sig # 0 /\ prop.blinded /\ fulls # {}) => submitted # NoSub

\* The rules of one duty.
PerDuty == /\ OnlyDutySigner /\ SignedIsSelected /\ SubmittedIntact /\ NothingWithoutUnblind
           /\ DegradesNotSkips /\ CompletesDuty

\* The history rule, spelled out: the rules of a duty depend neither on what happened in the earlier calls on
\* the same service instance nor on what the other duty objects hold (parked: the same slot prepared for
\* another validator, the same duty prepared before, a call that is still running), and a Prepare starts
\* with nothing left over from them.
HistoryIndependent ==
    /\ past \in SUBSET FailureTags => PerDuty
    /\ pc = "start" => CleanPipeline

\* every duty of the history is dealt with and every call returns (checked under LiveSpec; together with
\* TLC's deadlock check: no reachable state in which a call cannot proceed, whatever the history)
EveryDutyTerminates == <>(k = NDuties /\ Open = {})
=============================================================================
