SPECIFICATION SpecWalk
CONSTANTS
  RunIds = {1}
  SlotsPerEpoch = 2
  Roots = {1}
  Strict01 = TRUE
  Strict04 = FALSE
  MCSlots = {0, 1}
  MCVals = {1, 2}
  MCMaxLen = 2
  MCComms = {0, 1}
  MCAllComms = TRUE
  MCPre = TRUE
  MCLean = TRUE
  MCMaxAlive = 1
CONSTRAINT AliveBound
INVARIANTS NoDoubleSign
CHECK_DEADLOCK FALSE
