SPECIFICATION TraceSpec
CONSTANTS
  KindSet = {"att"}
  ConcSet = {1}
  ItemSet = {1}
  NodeCounts = {1}
  DefaultConc = 16
  MaxCalls = 1
  HistClients = {}
  HistOutcomes = {}
  Design = "asks"
  MaxLat = 2
  CanonOuts = {}
  ConfSets = {}
  OtherSets = {}
  RefKind = "att"
INVARIANTS OfferedInFull SuccessIff ReturnsByTimeout Independence DeliveredToEach ScatterPartition
CONSTRAINT HWM
POSTCONDITION TraceAccepted
CHECK_DEADLOCK FALSE
