SPECIFICATION MCSpec
CONSTANTS
  Alphabet = {"a", "b"}
  Classes <- AB
  MaxNameLen = 2
  FFE = 99
  MCEpochs = {0, 1, 2}
  MCQueryEpochs = {0, 1, 2, 3}
  MCAtomicEpochs = {2}
  MCOverlapKinds = {"validating", "sync", "validating_by_index", "sync_by_index"}
  MCOverlapEpochs = {2}
  MCSeen = 2
  MCCfgs <- MCCfgsSmall
  MCOffers <- MCOffersSmall
INVARIANTS OnlyConfigured ExactlyActive NoStrangers RightIndex ByIndexAgrees
CONSTRAINT MCBound
PROPERTY NeverWiped
