SPECIFICATION Spec
CONSTANTS
  Variants = {"best", "deadline"}
  Relays = {1, 2}
  FetchSet = {}
  Values = {1, 2}
  CfgSet <- MCCfgHist
  TableSet = {"A", "B"}
  BuilderSet = {"std", "half"}
  AnswerSet <- MCAnswersHist
  Headers = {1}
  MaxRounds = 1
  Keys = {1, 2, 3}
  MaxAuctions = 1
  MaxOpen = 1
  Deviation = "MinMemo"
INVARIANTS TypeOK WinnerIsArgmax OnlyEligibleWin ProvidersOfferedWinner NoWinnerIffNone ParticipationSound ArrivedConsidered CacheRight ServedRight HistoryShape
ACTION_CONSTRAINT KeysInOrder
