------------------------- MODULE Trace_AttesterChain -------------------------
(* Trace specification of the wired family of C04: a trace recorded from ONE wired instance     *)
(* (real validators manager, real wallet / dirk account manager, real attester, real signer,    *)
(* real immediate / multinode submitter; the fakes are the beacon node - validators, attestation data,       *)
(* attestation pool - and the wallet store) is a behaviour of AttesterChain.                      *)
(*   Reset    a new instance: manager kind, keys in the store                                    *)
(*   Refresh  accountmanager.Refresh returned (the first one is the start-up refresh): what the  *)
(*            store offered, what the node knew / that it failed; observed afterwards: the       *)
(*            accounts held, the validators manager's table through ValidatorsByPubKey (one key  *)
(*            at a time) and through ValidatorsByIndex                                           *)
(*   Plan     ValidatingAccountsForEpoch(e) returned: its indices (what duties are asked for)    *)
(*   Attest   the slot's job ran: the duty made of the node's answer for the planned indices     *)
(*            (attester.MergeDuties), whether Attest was called, and every attestation the NODE  *)
(*            received, decoded: committee index, bitlist length, set bits, slot, source,        *)
(*            target, root id, and `by` = the validator of the chain under whose public key the  *)
(*            BLS signature verifies (-1: nobody's)                                              *)
(*   Hung / Crash  a call did not return / panicked: no action                                   *)
(* The state of the validators manager is taken from the recorded table; with StrictVM it must   *)
(* be a SoundRefresh (the neighbour is judged where it slips), without it nothing is demanded of  *)
(* it and the judge is the attestation at the node alone (SignedByAssignee).                     *)
EXTENDS AttesterChain, TraceLib

VARIABLE l
tvars == <<vars, l>>

TraceInit == l = 1 /\ Init /\ InitHWM

IsEvent(e) == l <= TraceLen /\ Trace[l].ev = e /\ l' = l + 1
Line == Trace[l]
Range(s) == {s[i] : i \in DOMAIN s}

TraceReset ==
    /\ IsEvent("Reset")
    /\ mgr' = Line.mgr /\ ours' = Range(Line.ours)
    /\ held' = {} /\ byIdx' = Empty /\ byKey' = {} /\ k2i' = Empty
    /\ plan' = [e \in Epochs |-> NoPlan] /\ done' = {} /\ submitted' = {}

TraceRefresh ==
    LET tab == Range(Line.table)
        bi == Range(Line.byidx)
        h == Range(Line.held)
        ans == Range(Line.knows) \cap h IN
    /\ IsEvent("Refresh")
    /\ h \subseteq ours
    /\ held' = h
    \* one index per key, one key per index as the manager reports them
    /\ \A p, q \in tab : p[2] = q[2] => p = q
    /\ \A p, q \in bi : p[1] = q[1] => p = q
    /\ byKey' = {p[2] : p \in tab}
    /\ k2i' = [k \in {p[2] : p \in tab} |-> (CHOOSE p \in tab : p[2] = k)[1]]
    /\ byIdx' = [i \in {p[1] : p \in bi} |-> (CHOOSE p \in bi : p[1] = i)[2]]
    /\ StrictVM => IF mgr = "dirk" /\ h = {}
                   THEN UNCHANGED <<byIdx, byKey, k2i>>
                   ELSE SoundRefresh(ans, ~Line.err)
    /\ UNCHANGED <<mgr, ours, plan, done, submitted>>

TracePlan ==
    /\ IsEvent("Plan")
    /\ \E m \in ByPubKeyMaps(held) : DOMAIN m = Range(Line.idx) /\ Plan(Line.e, m)

AttOf(j) == [slot |-> j.slot, index |-> j.index, size |-> j.size, bits |-> Range(j.bits),
             src |-> j.src, tgt |-> j.tgt, root |-> j.root, by |-> j.by]
AttsOf(line) == {AttOf(line.atts[i]) : i \in DOMAIN line.atts}

TraceAttest ==
    LET s == Line.s
        vals == DutyVals(s, plan[Epoch(s)]) IN
    /\ IsEvent("Attest")
    /\ Line.called = (vals # {})
    /\ Range(Line.duty) = {<<i, CommOf(i, Epoch(s)), PosOf(i, Epoch(s))>> : i \in vals}
    \* (the same attestation arriving twice - a submitter that repeats a batch - is not C04's business: a set)
    /\ IF vals = {} THEN Attest(s, Empty, {})
       ELSE \E f \in ByPubKeyMaps(held) : Attest(s, Restrict(f, vals), AttsOf(Line))

TraceNext == TraceReset \/ TraceRefresh \/ TracePlan \/ TraceAttest

TraceSpec == TraceInit /\ [][TraceNext]_tvars

HWM == UpdateHWM(l)
TraceAccepted == TraceAcceptedUpTo
=============================================================================
