SPECIFICATION Spec
CONSTANTS
  Validators = {1, 2}
  P = 2
  StartSlot = 3
  MaxSlot = 8
  MaxVer = 1
  MaxReorgs = 1
  MaxHeads = 2
  MaxSlow = 0
  MaxLate = 3
  MaxCarry = 0
  MaxJobs = 12
  MinReorgEpoch = 1
  FTs = {FALSE}
  MCSeeds <- SeedsSmall
  Oracles <- MCOracles
  Late = 3
  CancelRace = FALSE
  DeleteByName = FALSE
  Overlap = FALSE
  Failures = FALSE
  Fine = FALSE
  TickFirst = TRUE
  Reduce = TRUE
INVARIANTS NoDoubleSign
CHECK_DEADLOCK FALSE
