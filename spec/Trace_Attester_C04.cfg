SPECIFICATION TraceSpec
CONSTANTS
  RunIds = {1, 2, 3, 4, 5, 6}
  SlotsPerEpoch = 32
  Roots = {1, 2}
  Strict01 = FALSE
  Strict04 = TRUE
INVARIANTS AssignmentExact SignAssignmentExact UnsignedYieldNothing
CONSTRAINT HWM
POSTCONDITION TraceAccepted
CHECK_DEADLOCK FALSE
