SPECIFICATION PSpec
CONSTANTS
  Designs = {"firstraw"}
  Styles = {"best", "deadline"}
  Scripts = "lattice"
INVARIANTS PTypeOK KeepsRunning
CHECK_DEADLOCK FALSE
