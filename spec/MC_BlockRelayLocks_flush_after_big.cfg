SPECIFICATION LSpec
CONSTANTS
  Ops = {1, 2, 3}
  MaxInFlight = 3
  Kinds = {"fetch", "lookup", "auction", "bbid", "register", "vreg"}
  Keys = {1, 2}
  Install = "flush_after"
  BidImpl = "asis"
INVARIANTS TypeOKL NoDeadlock ReturnsClean LockBalanced LockAccounting

CHECK_DEADLOCK FALSE
