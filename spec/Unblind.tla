------------------------------- MODULE Unblind -------------------------------
(* Result hand-over between the goroutines a call starts and the caller (property C20): the `first`  *)
(* strategies (strategies/*/first: one goroutine per beacon node, the first result wins, the rest is *)
(* dropped) and unblindProposal (services/beaconblockproposer/standard/propose.go: one goroutine per *)
(* relay with up to three tries, a semaphore that tells late relays that a block has been obtained,  *)
(* no cancellation).  The result channel has an explicit capacity.                                   *)
(*                                                                                                   *)
(* One action per step of the Go code that touches shared state:                                     *)
(*   Reply(p, r)   the node / relay answers p's request (r: ok, err, err400, nil)                     *)
(*   ChkAcq(p)     unblind: sem.TryAcquire after the reply - fails: another relay has delivered, drop *)
(*   ChkRel(p)     unblind: sem.Release; then retry / give up / go on with the block                  *)
(*   Claim(p)      unblind: final sem.TryAcquire ("a block has been received")                        *)
(*   Send(p)       ch <- result (completes only while the channel has room)                           *)
(*   Recv          the caller's select takes a result and returns it                                  *)
(*   CtxDone       the context's deadline passes (first: the strategy's time-out)                     *)
(*   RetCtx        the caller's select takes ctx.Done() and returns an error                          *)
(*   AllFailed     unblind: every relay goroutine has given up - the caller returns an error          *)
(* Property C20: "the goroutines its strategies and unblinding start do not grow ..." - after the     *)
(* call has returned no goroutine is left blocked in its send for ever (NoBlockedSender), and the     *)
(* caller does not wait for ever for relays that have all given up (NoWaitForEver).                   *)
EXTENDS Integers, FiniteSets, Sequences, TLC

CONSTANTS MaxN,              \* providers per call: 1..MaxN
          Kinds,             \* subset of {"first", "unblind"}
          CapOne,            \* TRUE: channel capacity 1 (the code as found); FALSE: capacity = number of senders
          AllFailedReturns,  \* TRUE: the caller notices that every relay has given up (repaired); FALSE: as found
          Retries            \* tries per relay (3)

VARIABLES kind, n, deadline, plan,
          pc, cur, tries, sem, chan, caller, ctx

vars == <<kind, n, deadline, plan, pc, cur, tries, sem, chan, caller, ctx>>

Procs == 1..n
Cap == IF CapOne THEN 1 ELSE n

\* what a node / relay does over its tries
PlansFirst == {"ok", "err", "nil", "silent"}
PlansUnblind == {"ok", "err400", "err3", "errok", "nil", "never"}

\* reply to the try made with t tries left
Outcome(pl, t) ==
    CASE pl = "ok" -> "ok"
      [] pl = "err" -> "err"
      [] pl = "nil" -> "nil"
      [] pl = "err400" -> "err400"
      [] pl = "err3" -> "err"
      [] pl = "errok" -> IF t = Retries THEN "err" ELSE "ok"
      [] OTHER -> "none"                 \* silent / never: only the end of the context ends the request

Init ==
    /\ kind \in Kinds
    /\ n \in 1..MaxN
    /\ deadline \in (IF kind = "first" THEN {TRUE} ELSE BOOLEAN)
    /\ plan \in [1..n -> IF kind = "first" THEN PlansFirst ELSE PlansUnblind]
    /\ pc = [p \in 1..n |-> "call"]
    /\ cur = [p \in 1..n |-> "none"]
    /\ tries = [p \in 1..n |-> Retries]
    /\ sem = 0 /\ chan = 0 /\ caller = "waiting" /\ ctx = "live"

Reply(p, r) ==
    /\ pc[p] = "call"
    /\ r \in {"ok", "err", "err400", "nil"}
    /\ IF kind = "first"
         THEN /\ pc' = [pc EXCEPT ![p] = IF r = "ok" THEN "send" ELSE "done"]
              /\ UNCHANGED cur
         ELSE /\ pc' = [pc EXCEPT ![p] = "chk"]
              /\ cur' = [cur EXCEPT ![p] = r]
    /\ UNCHANGED <<kind, n, deadline, plan, tries, sem, chan, caller, ctx>>

ChkAcq(p) ==
    /\ pc[p] = "chk"
    /\ IF sem = 0 THEN sem' = 1 /\ pc' = [pc EXCEPT ![p] = "held"]
       ELSE UNCHANGED sem /\ pc' = [pc EXCEPT ![p] = "done"]     \* another relay has already responded
    /\ UNCHANGED <<kind, n, deadline, plan, cur, tries, chan, caller, ctx>>

ChkRel(p) ==
    /\ pc[p] = "held"
    /\ sem' = 0
    /\ CASE cur[p] = "ok" -> pc' = [pc EXCEPT ![p] = "got"] /\ UNCHANGED tries
         [] cur[p] = "err" -> /\ tries' = [tries EXCEPT ![p] = @ - 1]
                              /\ pc' = [pc EXCEPT ![p] = IF tries[p] > 1 THEN "call" ELSE "done"]
         [] OTHER -> pc' = [pc EXCEPT ![p] = "done"] /\ UNCHANGED tries       \* 400, or no block in the answer
    /\ UNCHANGED <<kind, n, deadline, plan, cur, chan, caller, ctx>>

Claim(p) ==
    /\ pc[p] = "got"
    /\ sem' = 1
    /\ pc' = [pc EXCEPT ![p] = "send"]
    /\ UNCHANGED <<kind, n, deadline, plan, cur, tries, chan, caller, ctx>>

Send(p) ==
    /\ pc[p] = "send"
    /\ chan < Cap
    /\ chan' = chan + 1
    /\ pc' = [pc EXCEPT ![p] = "done"]
    /\ UNCHANGED <<kind, n, deadline, plan, cur, tries, sem, caller, ctx>>

Recv ==
    /\ caller = "waiting" /\ chan > 0
    /\ chan' = chan - 1
    /\ caller' = "ok"
    /\ ctx' = IF kind = "first" THEN "done" ELSE ctx        \* first: cancel() stops the other requests
    /\ UNCHANGED <<kind, n, deadline, plan, pc, cur, tries, sem>>

CtxDone ==
    /\ deadline /\ ctx = "live"
    /\ ctx' = "done"
    /\ UNCHANGED <<kind, n, deadline, plan, pc, cur, tries, sem, chan, caller>>

RetCtx ==
    /\ caller = "waiting" /\ ctx = "done"
    /\ caller' = "err"
    /\ UNCHANGED <<kind, n, deadline, plan, pc, cur, tries, sem, chan, ctx>>

AllDone == \A p \in Procs : pc[p] = "done"

AllFailed ==
    /\ AllFailedReturns /\ kind = "unblind"
    /\ caller = "waiting" /\ AllDone /\ chan = 0
    /\ caller' = "err"
    /\ UNCHANGED <<kind, n, deadline, plan, pc, cur, tries, sem, chan, ctx>>

\* a request that nothing answers ends with its context
Abandon(p) ==
    /\ pc[p] = "call" /\ ctx = "done"
    /\ Reply(p, "err")

NextReply(p) ==
    LET r == Outcome(plan[p], tries[p]) IN
    IF r = "none" THEN Abandon(p) ELSE Reply(p, r)

Next ==
    \/ \E p \in Procs : NextReply(p) \/ ChkAcq(p) \/ ChkRel(p) \/ Claim(p) \/ Send(p)
    \/ Recv \/ CtxDone \/ RetCtx \/ AllFailed

Spec == Init /\ [][Next]_vars

-----------------------------------------------------------------------------
TypeOK ==
    /\ chan \in 0..Cap /\ sem \in {0, 1}
    /\ caller \in {"waiting", "ok", "err"} /\ ctx \in {"live", "done"}
    /\ \A p \in Procs : pc[p] \in {"call", "chk", "held", "got", "send", "done"}

\* C20: after the call has returned no goroutine it started is left blocked in its send for ever
\* (the caller was the only receiver)
Blocked(p) == pc[p] = "send" /\ chan = Cap /\ caller # "waiting"
NoBlockedSender == \A p \in Procs : ~Blocked(p)

\* C20: no unbounded wait - when every relay goroutine has given up and nothing was delivered, the
\* caller gets to know (it does not depend on a deadline the context may not have)
NoWaitForEver == (caller = "waiting" /\ AllDone /\ chan = 0) => ENABLED (AllFailed \/ CtxDone \/ RetCtx)

\* a result is returned only if some provider delivered one
OkMeansDelivered == caller = "ok" => \E p \in Procs : pc[p] = "done"
=============================================================================
