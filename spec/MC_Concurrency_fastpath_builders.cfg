SPECIFICATION Spec
CONSTANTS
  Groups = {"builderclients"}
  Pinned = FALSE
  InPlace = FALSE
  Reuse = FALSE
  WideEnv = TRUE
  Share = "period"
  AliasWrite = "builder-client-fast-path"
  MaxPar = 2
INVARIANTS TypeOK Linearizable Disciplined
CONSTRAINT Bounded
CHECK_DEADLOCK FALSE
