--------------------------- MODULE HierConfigWire ---------------------------
(* The CALLER's side of property C19 (main.go, clients.go): which configuration path the code     *)
(* that wires Vouch together hands to util.BeaconNodeAddresses / Timeout / LogLevel /             *)
(* ProcessConcurrency / HierarchicalBool when it constructs a service.                            *)
(*                                                                                                *)
(* HierConfig.tla says what a lookup of a path returns.  The property, however, is about "the     *)
(* value USED for a dotted configuration path": a strategy, a submitter or a beacon node client   *)
(* runs with the values of ITS configuration path - strategies.<strategy>.<implementation>,       *)
(* submitter.<duty>.multinode, eth2client.<address>, ... as docs/configuration.md lays them out - *)
(* and that holds only if the caller asks for that path.  The lookups tolerate any string (an     *)
(* empty component, a parent, the path of a sibling implementation): they silently answer for the *)
(* path they were given.  So the boundary of this specification is the constructed service:       *)
(*                                                                                                *)
(*   Boot(c, d, st)   the process starts: configuration c (per kind, a tree as in HierConfig),     *)
(*                    built-in defaults d, configured styles st (which implementation of a        *)
(*                    service the operator selected; "" = not configured)                          *)
(*   Start(s)         the caller (select* / start* / fetchClient of package main) decides which    *)
(*                    implementation runs, derives the path(s), looks every hierarchical setting   *)
(*                    of that implementation up and constructs the service with the results        *)
(*                                                                                                *)
(* and the property is: every hierarchical setting the RUNNING implementation received is the     *)
(* value at the longest prefix, that has a value, of the path documented for that implementation. *)
(* The caller is an explicit step with a rule (PathRule) for deriving the path; "documented" is   *)
(* the specification, the other rules are the class of slips (control models that TLC must       *)
(* reject, run by checks/C19.py):                                                                  *)
(*   "from-style"   last component taken from the configured style string - right whenever the    *)
(*                  style is spelled out, an empty component when the default implementation runs *)
(*                  (seeded/C19-strategy-path-from-empty-style)                                   *)
(*   "parent"       the path of the level above (implementation component forgotten)              *)
(*   "sibling"      the path of another implementation of the same service (copy and paste)       *)
(*   "neighbour"    the path of another service (copy and paste)                                  *)
EXTENDS Integers, Sequences, FiniteSets, TLC

CONSTANTS PathRule,       \* how the caller derives the path it asks for
          FocusSets,      \* model-checked lattice: sets of services configured and started together
          LatticeDuties,  \* submitter duties that get points of their own in the lattice
          Nodes,          \* beacon node addresses (one component of a path: eth2client.<address>)
          MaxStarts       \* bound on the starts of one process in the model-checked lattice

VARIABLES up,        \* the process is running
          cfg,       \* kind -> configuration tree of that setting (point -> value)
          dflt,      \* kind -> what the setting is when no level has a value
          style,     \* service -> configured style ("" = not configured)
          got,       \* <<service, implementation>> -> what the service constructed in this process received
          last,      \* the service constructed last: <<service, implementation>>, or <<>>
          starts,    \* number of starts so far (bounds the model-checked lattice only)
          focus      \* the focus set the configuration was drawn for (model-checked lattice only)

vars == <<up, cfg, dflt, style, got, last, starts, focus>>

Kinds == {"addresses", "timeout", "log-level", "process-concurrency", "bool"}
EmptyVal == "<empty>"
NoFn == [x \in {} |-> ""]

Prefix(p, n) == SubSeq(p, 1, n)
Parent(p) == Prefix(p, Len(p) - 1)
HasValue(t, q) == q \in DOMAIN t /\ t[q] # EmptyVal
Levels(t, p) == {n \in 0..Len(p) : HasValue(t, Prefix(p, n))}
Level(t, p) == LET ns == Levels(t, p) IN IF ns = {} THEN -1 ELSE CHOOSE n \in ns : \A m \in ns : m <= n
\* C19 (as in HierConfig.tla): the value at the longest prefix of the path that has a value
Resolve(t, p, d) == IF Levels(t, p) = {} THEN d ELSE t[Prefix(p, Level(t, p))]

-----------------------------------------------------------------------------
(* What is wired: services, their implementations, and for every implementation the hierarchical  *)
(* settings it takes with the configuration path documented for each (docs/configuration.md: the   *)
(* sample configuration, "Hierarchical configuration", "Module levels").                          *)
Duties == {"aggregateattestation", "attestation", "beaconcommitteesubscription", "proposal",
           "proposalpreparation", "synccommitteecontribution", "synccommitteemessage",
           "synccommitteesubscription"}

NodeStrategies == {"attestationdata", "aggregateattestation", "beaconblockproposal",
                   "synccommitteecontribution", "beaconblockroot", "signedbeaconblock", "beaconblockheader"}
Strategies == NodeStrategies \cup {"builderbid"}
\* modules with a documented configuration path of their own ("Module levels": <module>.log-level)
SigningModules == {"beaconblockproposer", "attester", "attestationaggregator", "beaconcommitteesubscriber"}
Modules == {"scheduler", "graffiti", "majordomo", "signer", "validatorsmanager", "cache"} \cup SigningModules
\* "attestingnodes": util.BeaconNodeAddressesForAttesting(), the nodes whose events drive the controller - "the events
\* provider for the controller should only use beacon nodes that are used for attestation data" (main.go): the
\* addresses of the attestation data implementation that runs, the top-level ones when that is the simple one
Services == Strategies \cup {"submitter", "eth2client", "multiclient", "attestingnodes"} \cup Modules
StyleKey(s) == IF s = "attestingnodes" THEN "attestationdata" ELSE s

\* the implementations of a service that take hierarchical settings ("simple" / "error": none taken)
Impls(s) ==
    CASE s = "attestationdata" -> {"best", "majority", "first"}
      [] s \in {"aggregateattestation", "beaconblockproposal", "synccommitteecontribution"} -> {"best", "first"}
      [] s = "beaconblockroot" -> {"majority", "first"}
      [] s \in {"signedbeaconblock", "beaconblockheader"} -> {"first"}
      [] s = "builderbid" -> {"best", "deadline"}
      [] s = "submitter" -> {"multinode", "immediate"}
      [] s = "eth2client" -> Nodes
      [] s = "multiclient" -> {"multi"}
      [] s = "attestingnodes" -> {"best", "majority", "first", "simple"}
      [] s = "scheduler" -> {"advanced"}
      [] s = "graffiti" -> {"static", "dynamic"}
      [] s = "cache" -> {"standard"}
      [] s = "majordomo" -> {"standard", "direct", "file", "http"}
      [] OTHER -> {"standard"}

\* the implementation that runs for a configured style, as main.go selects it ("" = not configured)
Impl(s, st) ==
    CASE s \in {"signedbeaconblock", "beaconblockheader"} -> IF st \in {"first", ""} THEN "first" ELSE "simple"
      [] s = "builderbid" -> IF st = "deadline" THEN "deadline" ELSE IF st \in {"best", ""} THEN "best" ELSE "error"
      [] s = "submitter" -> IF st \in {"multinode", "all"} THEN "multinode" ELSE "immediate"
      [] s \in Strategies -> IF st \in Impls(s) THEN st ELSE "simple"
      [] s = "attestingnodes" -> IF st \in {"best", "majority", "first"} THEN st ELSE "simple"
      [] s = "graffiti" -> IF st = "dynamic" THEN "dynamic" ELSE "static"
      [] s = "scheduler" -> "advanced"
      [] OTHER -> "standard"

\* the style strings the lattice tries for a service
StyleChoices(s) ==
    CASE s \in Strategies -> Impls(s) \cup {"", "other"}
      [] s = "submitter" -> {"multinode", "all", "", "immediate"}
      [] s = "graffiti" -> {"", "static", "dynamic"}
      [] s = "scheduler" -> {"", "advanced", "basic"}
      [] OTHER -> {""}
Styled == Strategies \cup {"submitter", "graffiti", "scheduler"}

Use(u, k, p) == [u |-> u, k |-> k, p |-> p]
Std(ks, p) == {Use(k, k, p) : k \in ks}

\* the hierarchical settings implementation i of service s is constructed with, and the documented path of each
Uses(s, i) ==
    CASE s \in NodeStrategies /\ i \in {"best", "majority"} /\ i \in Impls(s) ->
              Std({"addresses", "timeout", "log-level", "process-concurrency"}, <<"strategies", s, i>>)
      [] s \in NodeStrategies /\ i = "first" /\ i \in Impls(s) ->
              Std({"addresses", "timeout", "log-level"}, <<"strategies", s, i>>)
      [] s = "builderbid" /\ i = "best" -> Std({"timeout", "log-level"}, <<"strategies", s, i>>)
      [] s = "builderbid" /\ i = "deadline" -> Std({"log-level"}, <<"strategies", s, i>>)
      [] s = "submitter" /\ i = "multinode" ->
              {Use(d, "addresses", <<"submitter", d, "multinode">>) : d \in Duties}
              \cup Std({"timeout", "log-level", "process-concurrency"}, <<"submitter", "multinode">>)
      [] s = "submitter" /\ i = "immediate" -> Std({"log-level"}, <<"submitter", "immediate">>)
      [] s = "eth2client" ->       \* i is the address of the node
              Std({"timeout", "log-level"}, <<"eth2client", i>>)
              \cup {Use("reduced-memory-usage", "bool", <<"eth2client", i>>)}
      [] s = "multiclient" /\ i = "multi" -> Std({"log-level"}, <<"eth2client", "multi">>)
      [] s = "attestingnodes" /\ i \in {"best", "majority", "first"} -> Std({"addresses"}, <<"strategies", "attestationdata", i>>)
      [] s = "attestingnodes" /\ i = "simple" -> Std({"addresses"}, <<>>)
      [] s = "scheduler" /\ i = "advanced" -> Std({"log-level"}, <<"scheduler", "advanced">>)
      [] s = "graffiti" /\ i \in {"static", "dynamic"} -> Std({"log-level"}, <<"graffiti", i>>)
      [] s = "cache" /\ i = "standard" -> Std({"log-level"}, <<"cache", "standard">>)
      [] s = "majordomo" /\ i = "standard" -> Std({"log-level"}, <<"majordomo">>)
      [] s = "majordomo" /\ i \in {"direct", "file", "http"} -> Std({"log-level"}, <<"majordomo", "confidants", i>>)
      [] s \in {"signer", "validatorsmanager"} /\ i = "standard" -> Std({"log-level"}, <<s>>)
      [] s \in {"attester", "beaconcommitteesubscriber"} /\ i = "standard" -> Std({"log-level", "process-concurrency"}, <<s>>)
      [] s \in {"beaconblockproposer", "attestationaggregator"} /\ i = "standard" -> Std({"log-level"}, <<s>>)
      [] OTHER -> {}

UseNames(s, i) == {x.u : x \in Uses(s, i)}
UseOf(s, i, u) == CHOOSE x \in Uses(s, i) : x.u = u

-----------------------------------------------------------------------------
(* The caller.  It knows the service, the configured style, the implementation it selected and    *)
(* the setting it is about to look up; "documented" is what the property needs.                   *)
OtherImpl(s, i) == IF Impls(s) \ {i} = {} THEN i ELSE CHOOSE j \in Impls(s) \ {i} : TRUE
Neighbour(s) == CASE s = "signedbeaconblock" -> "beaconblockheader"
                  [] s = "beaconblockheader" -> "signedbeaconblock"
                  [] s = "attestationdata" -> "aggregateattestation"
                  [] s = "aggregateattestation" -> "attestationdata"
                  [] OTHER -> s

CallerPath(s, st, i, x) ==
    CASE PathRule = "documented" -> x.p
      [] PathRule = "from-style" -> IF s \in Styled \cup {"attestingnodes"} /\ Len(x.p) > 0 /\ x.p[Len(x.p)] = i THEN Append(Parent(x.p), st) ELSE x.p
      [] PathRule = "parent" -> IF Len(x.p) > 1 THEN Parent(x.p) ELSE x.p
      [] PathRule = "sibling" -> IF Len(x.p) > 0 /\ x.p[Len(x.p)] = i THEN Append(Parent(x.p), OtherImpl(s, i)) ELSE x.p
      [] PathRule = "neighbour" -> [n \in DOMAIN x.p |-> IF x.p[n] = s THEN Neighbour(s) ELSE x.p[n]]

Given(s, st, i) ==
    [u \in UseNames(s, i) |-> LET x == UseOf(s, i, u) IN Resolve(cfg[x.k], CallerPath(s, st, i, x), dflt[x.k])]

Init ==
    /\ up = FALSE
    /\ cfg = [k \in Kinds |-> NoFn]
    /\ dflt = [k \in Kinds |-> "d0"]
    /\ style = [s \in Services |-> ""]
    /\ got = NoFn
    /\ last = <<>>
    /\ starts = 0
    /\ focus = {}

Boot(c, d, st) ==
    /\ ~up
    /\ up' = TRUE
    /\ cfg' = c
    /\ dflt' = d
    /\ style' = st
    /\ got' = NoFn
    /\ last' = <<>>
    /\ starts' = 0

\* implementation i of service s is constructed (the trace names the implementation it observed)
StartAs(s, i) ==
    /\ up
    /\ LET key == <<s, i>>
           g == Given(s, style[StyleKey(s)], i)
       IN  /\ got' = [y \in DOMAIN got \cup {key} |-> IF y = key THEN g ELSE got[y]]
           /\ last' = key
    /\ starts' = starts + 1
    /\ UNCHANGED <<up, cfg, dflt, style, focus>>

Start(s) == \E i \in (IF s \in {"eth2client", "majordomo"} THEN Impls(s) ELSE {Impl(s, style[StyleKey(s)])}) : StartAs(s, i)

-----------------------------------------------------------------------------
(* the model-checked lattice: per focus set, every tree over the points on the documented paths   *)
(* of the focus services' implementations (each point absent or with a value of its own - which   *)
(* level an answer came from is what matters), every style choice, the services started in any    *)
(* order, also repeatedly                                                                          *)
LatticeUses(s, i) == {x \in Uses(s, i) : s # "submitter" \/ x.k # "addresses" \/ x.u \in LatticeDuties}
PathsOf(s) == UNION {{x.p : x \in LatticeUses(s, i)} : i \in Impls(s)}
Pts(F) == UNION {{Prefix(p, n) : n \in 0..Len(p)} : p \in UNION {PathsOf(s) : s \in F}}
RECURSIVE Join(_)
Join(q) == IF Len(q) = 0 THEN "" ELSE IF Len(q) = 1 THEN q[1] ELSE Join(Parent(q)) \o "." \o q[Len(q)]
ValueAt(q) == IF q = <<>> THEN "v@top" ELSE "v@" \o Join(q)
TreesOver(P) == {[q \in D |-> ValueAt(q)] : D \in SUBSET P}
StylesOver(F) == {[s \in Services |-> IF s \in F THEN f[s] ELSE ""] : f \in [F -> UNION {StyleChoices(s) : s \in F}]}
StylesOK(F, st) == \A s \in F : st[s] \in StyleChoices(s)

Next ==
    \/ ~up /\ \E F \in FocusSets : \E t \in TreesOver(Pts(F)), st \in StylesOver(F) :
            StylesOK(F, st) /\ Boot([k \in Kinds |-> t], [k \in Kinds |-> "d0"], st) /\ focus' = F
    \/ starts < MaxStarts /\ \E s \in focus : Start(s)

Spec == Init /\ [][Next]_vars

-----------------------------------------------------------------------------
(* Invariants, stated without Resolve where possible *)
RECURSIVE Walk(_, _, _)
Walk(t, p, d) == IF HasValue(t, p) THEN t[p] ELSE IF p = <<>> THEN d ELSE Walk(t, Parent(p), d)

TypeOK == /\ up \in BOOLEAN
          /\ \A key \in DOMAIN got : key[1] \in Services /\ DOMAIN got[key] = UseNames(key[1], key[2])
          /\ last = <<>> \/ last \in DOMAIN got

\* every constructed service runs with the most specific configured value of its documented path:
\* "check the point, move up one level at a time, first value wins"
MostSpecificUsed ==
    \A key \in DOMAIN got : \A x \in Uses(key[1], key[2]) :
        got[key][x.u] = Walk(cfg[x.k], x.p, dflt[x.k])

\* the same, as "comes from a prefix of the documented path and no longer prefix has a value"
FromLongestPrefixOfDocPath ==
    \A key \in DOMAIN got : \A x \in Uses(key[1], key[2]) :
        LET t == cfg[x.k]
            v == got[key][x.u]
        IN  \/ v = dflt[x.k] /\ \A n \in 0..Len(x.p) : ~HasValue(t, Prefix(x.p, n))
            \/ \E n \in 0..Len(x.p) :
                  /\ HasValue(t, Prefix(x.p, n)) /\ v = t[Prefix(x.p, n)]
                  /\ \A m \in (n + 1)..Len(x.p) : ~HasValue(t, Prefix(x.p, m))

\* a value configured at the documented path itself is what the service gets ("direct match")
DirectMatchUsed ==
    \A key \in DOMAIN got : \A x \in Uses(key[1], key[2]) :
        HasValue(cfg[x.k], x.p) => got[key][x.u] = cfg[x.k][x.p]

\* what another implementation, another service or an unrelated point is configured with never matters
OthersIrrelevantUsed ==
    \A key \in DOMAIN got : \A x \in Uses(key[1], key[2]) :
        LET t == cfg[x.k]
            on == {q \in DOMAIN t : Len(q) <= Len(x.p) /\ q = Prefix(x.p, Len(q))}
        IN  got[key][x.u] = Resolve([q \in on |-> t[q]], x.p, dflt[x.k])

\* (control) the "from-style" caller is right whenever the operator spells the style out
SpelledOutOK ==
    \A key \in DOMAIN got : style[StyleKey(key[1])] = key[2] =>
        \A x \in Uses(key[1], key[2]) : got[key][x.u] = Walk(cfg[x.k], x.p, dflt[x.k])

\* one process, one configuration: a service constructed again receives what it received before
RepeatStartSame == [][up => \A key \in DOMAIN got \cap DOMAIN got' : got'[key] = got[key]]_vars
=============================================================================
