SPECIFICATION HSpec
CONSTANTS
  PathRule = "documented"
  FocusSets = {{"attestationdata", "attestingnodes", "aggregateattestation", "beaconblockproposal", "synccommitteecontribution", "beaconblockroot", "signedbeaconblock", "beaconblockheader", "builderbid", "submitter", "eth2client", "multiclient", "scheduler", "graffiti", "validatorsmanager", "cache", "beaconblockproposer", "attester", "attestationaggregator", "beaconcommitteesubscriber"}}
  LatticeDuties = {"aggregateattestation", "attestation", "beaconcommitteesubscription", "proposal", "proposalpreparation", "synccommitteecontribution", "synccommitteemessage", "synccommitteesubscription"}
  Nodes = {"n1", "n2", "n3", "n4"}
  MaxStarts = 99
  NInit = 400
INVARIANTS HEmit MostSpecificUsed
CHECK_DEADLOCK FALSE
