SPECIFICATION Spec
CONSTANTS
  RunIds = {1}
  SlotsPerEpoch = 2
  Roots = {1, 2}
  Strict01 = TRUE
  Strict04 = TRUE
  MCSlots = {2}
  MCVals = {1, 2, 3, 4}
  MCMaxLen = 4
  MCComms = {0, 1}
  MCAllComms = TRUE
  MCPre = TRUE
  MCLean = FALSE
  MCMaxAlive = 1
CONSTRAINT AliveBound
INVARIANTS TypeOK NoDoubleSign NoDoubleVote SignedDataSound RefusedMeansNoSign AssignmentExact SignAssignmentExact UnsignedYieldNothing
PROPERTY AttestedMonotone
CHECK_DEADLOCK FALSE
