SPECIFICATION SSpec
CONSTANTS
  MaxSlot = 7
  MaxVer = 2
  MaxReorgs = 2
  MaxCrashes = 0
  Gates = {"att", "prop"}
  Interleave = FALSE
  Cfgs <- CfgsGated
  OraclesFor <- SeedOracles
  MaxAccts = 0
  AnswersFor <- AllAnswers
  Deviation = {}
  ScenLen = 24
  Seeds = {1, 2, 3, 4, 5, 6, 7, 8}
  StartSlots = {2, 3}
  MaxHeads = 3
  Stimuli = {"Start", "Crash", "Advance", "EpochTick", "Reorg", "HeadEvent", "Fire", "Hold", "Unhold", "Release"}
  MaxHolds = 99
  Focus = FALSE
  Disjoint = FALSE
  Tight = FALSE
INVARIANTS Emit
CHECK_DEADLOCK FALSE
