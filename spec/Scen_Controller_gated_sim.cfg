SPECIFICATION SSpec
CONSTANTS
  MaxSlot = 7
  MaxVer = 2
  MaxReorgs = 2
  MaxCrashes = 0
  Gated = TRUE
  Cfgs <- CfgsGated
  OraclesFor <- SeedOracles
  ScenLen = 24
  Seeds = {1, 2, 3, 4, 5, 6, 7, 8}
  StartSlots = {2, 3}
  MaxHeads = 3
  Directed = FALSE
INVARIANTS Emit
CHECK_DEADLOCK FALSE
