SPECIFICATION WTraceSpec
CONSTANTS
  RunIds = {1, 2, 3, 4, 5, 6}
  SlotsPerEpoch = 32
  Roots = {1, 2}
  Strict01 = TRUE
  Strict04 = FALSE
  AMKinds = {"dirk", "wallet"}
  AMDeviant = {}
  AMDeviation = "none"
  AllVals = {1, 2, 3, 4}
  FFE = 99
INVARIANTS NoDoubleSign NoDoubleVote SignedDataSound RefusedMeansNoSign SignOnlyClaimed ByIndexSubset
PROPERTY WTraceAttestedMonotone
CONSTRAINT HWM
POSTCONDITION TraceAccepted
CHECK_DEADLOCK FALSE
