SPECIFICATION SSpec
CONSTANTS
  DutySlots = {9}
  Validators = {2}
  SlotsPerEpoch = 4
  Relays = {1, 2, 3}
  NRelays = 3
  AllChoices = {{1, 2, 3}}
  Versions = {"capella", "deneb"}
  Blindable = {"capella", "deneb"}
  Outcomes = {"full"}
  Scripts = {"full", "err", "never", "errfull"}
  GraffitiOuts = {"ok"}
  MaxCalls = 3
INVARIANTS Emit
CHECK_DEADLOCK FALSE
