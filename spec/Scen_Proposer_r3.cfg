SPECIFICATION SSpec
CONSTANTS
  DutySlots = {9}
  Validators = {2}
  SlotsPerEpoch = 4
  Relays = {1, 2, 3}
  NRelays = 3
  AllChoices = {{1, 2, 3}}
  Versions = {"capella", "deneb"}
  Blindable = {"capella", "deneb"}
  Outcomes = {"full"}
  Scripts = {"full", "err", "never", "errfull"}
  GraffitiOuts = {"static"}
  PrepOuts = {"ok", "err", "empty"}
  CfgFilter = "nonodeclient"
  Drops = TRUE
  Dslots <- AllDslots
  MaxCalls = 3
  NDuties = 1
  SlotGaps = {1}
  MaxOpen = 1
  MaxInFlight = 1
  InitCfgs <- AllCfgs
  LaterAllChoices = {{1}}
  LaterVersions = {"deneb"}
  LaterOutcomes = {"full"}
  LaterDslots = {0}
  LaterScripts = {"full"}
  LaterGraffitiOuts = {"static"}
  LaterPrepOuts = {"ok"}
  LaterNodeClientOuts = {"ok"}
  LaterStepOuts = {"ok"}
INVARIANTS Emit
CHECK_DEADLOCK FALSE
