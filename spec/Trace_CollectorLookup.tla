------------------------ MODULE Trace_CollectorLookup ------------------------
(* Trace specification for the WIRED family of C07: a history of calls on one real strategy      *)
(* instance that consults the REAL block-root cache (services/cache/standard) whose header       *)
(* provider is the real beaconblockheader 'first' strategy over scripted header nodes (or the    *)
(* node client itself), as main.go wires them.  Like Trace_Collector.tla (two lines per call,    *)
(* instants classified before / ambiguous / after the deadlines, every call of a history judged  *)
(* by the same rules), with the lookup on the path: the Reset line says for every node WHEN IT   *)
(* ANSWERED and WHICH HEAD ROOT it reported, and for every root of the call what the header      *)
(* nodes did for it (ok0 / ok1 / fail / never) and whether the cache had been told the root      *)
(* beforehand (block event).  When a response is available to the collector - and with which     *)
(* score - is then derived by CollectorLookup.tla (Answer / FetchDone): a lookup takes its own   *)
(* header's time - the phase is the one compatible with the instant `avail` = answer instant     *)
(* (+ the header's scripted latency on a miss; the hard deadline when the context cuts the       *)
(* fetch), an environment-side fact, classified like every other instant.  The collector's       *)
(* tie-break lookups (majority strategies) may delay the return, never past the hard time-out.   *)
EXTENDS CollectorLookup, TraceLib

VARIABLE l
tvars == <<lvars, l>>

IsEvent(e) == l <= TraceLen /\ Trace[l].ev = e /\ l' = l + 1

Eps(T) == IF T \div 4 < 40 THEN 40 ELSE T \div 4
Cls(t, D, T) == IF t < D - Eps(T) THEN "before" ELSE IF t > D + Eps(T) THEN "after" ELSE "amb"
PhaseOK(f, t, T) ==
    CASE f = "early" -> Cls(t, T \div 2, T) # "after"
      [] f = "mid"   -> Cls(t, T \div 2, T) # "before" /\ Cls(t, T, T) # "after"
      [] f = "late"  -> Cls(t, T, T) # "before"

ClearLookup ==
    /\ lk' = [p \in 1..n' |-> "idle"]
    /\ fdue' = [p \in 1..n' |-> "late"]
    /\ holder' = 0
    /\ tb' = "no" /\ pend' = {} /\ tcur' = 0 /\ tdue' = "late"
    /\ over' = FALSE

TraceInit ==
    /\ l = 1
    /\ variant = "Best" /\ n = 1 /\ thr = 0 /\ cap = 1
    /\ beh = [p \in 1..1 |-> [k |-> "silent", v |-> 0, s |-> 0]]
    /\ ph = [p \in 1..1 |-> "late"]
    /\ InitCollector
    /\ nph = ph /\ rt = [p \in 1..1 |-> 1] /\ hdr = [r \in Roots |-> "ok0"] /\ fs = [p \in 1..1 |-> 0]
    /\ cached = {}
    /\ InitLookup
    /\ InitHWM

TraceReset ==
    /\ IsEvent("Reset")
    /\ LET r == Trace[l] IN
        /\ IF r.call = 1
           THEN variant' = r.variant /\ n' = r.n /\ thr' = r.thr /\ cap' = r.cap
           ELSE /\ l > 1 /\ Trace[l - 1].sc = r.sc
                /\ r.variant = variant /\ r.n = n /\ r.thr = thr /\ r.cap = cap
                /\ UNCHANGED Persistent
        /\ r.variant \in {"Best", "Majority", "RootMajority"}
        /\ \A p \in 1..r.n : r.obs[p].k \in {"valid", "invalid", "error", "silent"}
        /\ beh' = [p \in 1..r.n |-> [k |-> r.obs[p].k, v |-> r.obs[p].v, s |-> r.obs[p].s]]
        /\ fs' = [p \in 1..r.n |-> r.obs[p].sf]
        /\ nph' \in [1..r.n -> {"early", "mid", "late"}]
        /\ \A p \in 1..r.n : IF r.obs[p].k = "silent" THEN nph'[p] = "late"
                                                      ELSE PhaseOK(nph'[p], r.obs[p].t, r.T)
        /\ ph' = nph'
        /\ rt' = [p \in 1..r.n |-> r.obs[p].r]
        /\ \A p \in 1..r.n : r.obs[p].r \in Roots
        /\ hdr' = [x \in Roots |-> r.hdr[x]]
        /\ \A x \in Roots : r.hdr[x] \in HdrKinds
        \* the roots of a call are new ones (they carry the call's number): the cache knows those it was told
        /\ cached' = {x \in Roots : r.pre[x]}
    /\ ResetCollector
    /\ ClearLookup

InCall == pc # "done" /\ l > 1 /\ l <= TraceLen /\ Trace[l].ev = "Return" /\ Trace[l - 1].ev = "Reset"

Silent(A) == InCall /\ A /\ l' = l

\* the node has answered and its goroutine looks the head root up: the response is available in a phase compatible
\* with the instant at which the lookup's own duration has passed (avail: when the node answered for a root the cache
\* knew, that plus the header's latency otherwise, the hard deadline when the fetch is cut by the context)
TraceAnswer(p) == Silent(Answer(p)) /\ PhaseOK(ph'[p], Trace[l - 1].obs[p].avail, Trace[l - 1].T)

\* an answer the collector saw cannot have been given after the strategy returned
TraceRespond(p) == Silent(LRespond(p)) /\ Trace[l - 1].obs[p].t <= Trace[l].t

Matches(res, r) ==
    /\ r.noreturn = FALSE
    /\ r.ok = (res.st = "ok")
    /\ r.ok => /\ r.nildata = FALSE
               /\ r.of = r.call
               /\ IF variant = "Best" THEN res.p = r.who ELSE res.v = r.val

TraceReturn ==
    /\ InCall
    /\ LET T == Trace[l - 1].T
           r == Trace[l] IN
        /\ Cls(r.t, T, T) # "after"
        /\ PhaseOK(clock, r.t, T)
        /\ LReturn
        /\ Matches(result', r)
    /\ IsEvent("Return")

TraceNext ==
    \/ TraceReset
    \/ TraceReturn
    \/ \E p \in Provs : TraceRespond(p) \/ TraceAnswer(p) \/ Silent(FetchDone(p))
    \/ \E p \in Provs : Silent(Loop(RecvResp(p))) \/ Silent(Loop(RecvErr(p)))
    \/ Silent(Loop(SelectSoft)) \/ Silent(Loop(SelectHard)) \/ Silent(Loop(ExitLoop1))
    \/ Silent(TbStart) \/ Silent(TbFin) \/ Silent(TbHard) \/ Silent(TbGiveUp) \/ Silent(TbDone)
    \/ \E x \in Roots : Silent(TbHit(x)) \/ Silent(TbFetch(x))
    \/ Silent(LSoftExpire) \/ Silent(LHardExpire)

TraceSpec == TraceInit /\ [][TraceNext]_tvars

HWM == UpdateHWM(l)
TraceAccepted == TraceAcceptedUpTo
=============================================================================
