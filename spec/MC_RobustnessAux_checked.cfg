SPECIFICATION ASpec
CONSTANTS
  Designs = {"checked"}
  Alphabet = {"ok", "empty", "slow", "error", "timeout", "canceled", "notactive", "down"}
INVARIANTS ATypeOK KeepsRunning CallerSeesNoPanic
CHECK_DEADLOCK FALSE
