---- MODULE Scheduler_TTrace_1790529643 ----
EXTENDS Sequences, TLCExt, Scheduler, Toolbox, Naturals, TLC

_expression ==
    LET Scheduler_TEExpression == INSTANCE Scheduler_TEExpression
    IN Scheduler_TEExpression!expression
----

_trace ==
    LET Scheduler_TETrace == INSTANCE Scheduler_TETrace
    IN Scheduler_TETrace!trace
----

_prop ==
    ~<>[](
        took = ("nomore")
        /\
        timerExpired = (TRUE)
        /\
        kres = ([k1 |-> "none"])
        /\
        bLive = (TRUE)
        /\
        active = (TRUE)
        /\
        finalised = (FALSE)
        /\
        runCh = (1)
        /\
        running = (0)
        /\
        cres = ([c1 |-> "none", c2 |-> "ok"])
        /\
        cpc = ([c1 |-> "h", c2 |-> "done"])
        /\
        cancelCh = (0)
        /\
        panicked = (FALSE)
        /\
        lock = ("c1")
        /\
        inTable = (FALSE)
        /\
        closed = (FALSE)
        /\
        bInTable = (TRUE)
        /\
        gpc = ("k1")
        /\
        runs = (1)
        /\
        ctxDone = (TRUE)
        /\
        kpc = ([k1 |-> "p"])
    )
----

_init ==
    /\ cres = _TETrace[1].cres
    /\ active = _TETrace[1].active
    /\ runs = _TETrace[1].runs
    /\ ctxDone = _TETrace[1].ctxDone
    /\ running = _TETrace[1].running
    /\ panicked = _TETrace[1].panicked
    /\ kres = _TETrace[1].kres
    /\ finalised = _TETrace[1].finalised
    /\ lock = _TETrace[1].lock
    /\ bInTable = _TETrace[1].bInTable
    /\ bLive = _TETrace[1].bLive
    /\ runCh = _TETrace[1].runCh
    /\ inTable = _TETrace[1].inTable
    /\ took = _TETrace[1].took
    /\ cpc = _TETrace[1].cpc
    /\ cancelCh = _TETrace[1].cancelCh
    /\ timerExpired = _TETrace[1].timerExpired
    /\ gpc = _TETrace[1].gpc
    /\ kpc = _TETrace[1].kpc
    /\ closed = _TETrace[1].closed
----

_next ==
    /\ \E i,j \in DOMAIN _TETrace:
        /\ \/ /\ j = i + 1
              /\ i = TLCGet("level")
        /\ cres  = _TETrace[i].cres
        /\ cres' = _TETrace[j].cres
        /\ active  = _TETrace[i].active
        /\ active' = _TETrace[j].active
        /\ runs  = _TETrace[i].runs
        /\ runs' = _TETrace[j].runs
        /\ ctxDone  = _TETrace[i].ctxDone
        /\ ctxDone' = _TETrace[j].ctxDone
        /\ running  = _TETrace[i].running
        /\ running' = _TETrace[j].running
        /\ panicked  = _TETrace[i].panicked
        /\ panicked' = _TETrace[j].panicked
        /\ kres  = _TETrace[i].kres
        /\ kres' = _TETrace[j].kres
        /\ finalised  = _TETrace[i].finalised
        /\ finalised' = _TETrace[j].finalised
        /\ lock  = _TETrace[i].lock
        /\ lock' = _TETrace[j].lock
        /\ bInTable  = _TETrace[i].bInTable
        /\ bInTable' = _TETrace[j].bInTable
        /\ bLive  = _TETrace[i].bLive
        /\ bLive' = _TETrace[j].bLive
        /\ runCh  = _TETrace[i].runCh
        /\ runCh' = _TETrace[j].runCh
        /\ inTable  = _TETrace[i].inTable
        /\ inTable' = _TETrace[j].inTable
        /\ took  = _TETrace[i].took
        /\ took' = _TETrace[j].took
        /\ cpc  = _TETrace[i].cpc
        /\ cpc' = _TETrace[j].cpc
        /\ cancelCh  = _TETrace[i].cancelCh
        /\ cancelCh' = _TETrace[j].cancelCh
        /\ timerExpired  = _TETrace[i].timerExpired
        /\ timerExpired' = _TETrace[j].timerExpired
        /\ gpc  = _TETrace[i].gpc
        /\ gpc' = _TETrace[j].gpc
        /\ kpc  = _TETrace[i].kpc
        /\ kpc' = _TETrace[j].kpc
        /\ closed  = _TETrace[i].closed
        /\ closed' = _TETrace[j].closed

\* Uncomment the ASSUME below to write the states of the error trace
\* to the given file in Json format. Note that you can pass any tuple
\* to `JsonSerialize`. For example, a sub-sequence of _TETrace.
    \* ASSUME
    \*     LET J == INSTANCE Json
    \*         IN J!JsonSerialize("Scheduler_TTrace_1790529643.json", _TETrace)

=============================================================================

 Note that you can extract this module `Scheduler_TEExpression`
  to a dedicated file to reuse `expression` (the module in the 
  dedicated `Scheduler_TEExpression.tla` file takes precedence 
  over the module `Scheduler_TEExpression` below).

---- MODULE Scheduler_TEExpression ----
EXTENDS Sequences, TLCExt, Scheduler, Toolbox, Naturals, TLC

expression == 
    [
        \* To hide variables of the `Scheduler` spec from the error trace,
        \* remove the variables below.  The trace will be written in the order
        \* of the fields of this record.
        cres |-> cres
        ,active |-> active
        ,runs |-> runs
        ,ctxDone |-> ctxDone
        ,running |-> running
        ,panicked |-> panicked
        ,kres |-> kres
        ,finalised |-> finalised
        ,lock |-> lock
        ,bInTable |-> bInTable
        ,bLive |-> bLive
        ,runCh |-> runCh
        ,inTable |-> inTable
        ,took |-> took
        ,cpc |-> cpc
        ,cancelCh |-> cancelCh
        ,timerExpired |-> timerExpired
        ,gpc |-> gpc
        ,kpc |-> kpc
        ,closed |-> closed
        
        \* Put additional constant-, state-, and action-level expressions here:
        \* ,_stateNumber |-> _TEPosition
        \* ,_cresUnchanged |-> cres = cres'
        
        \* Format the `cres` variable as Json value.
        \* ,_cresJson |->
        \*     LET J == INSTANCE Json
        \*     IN J!ToJson(cres)
        
        \* Lastly, you may build expressions over arbitrary sets of states by
        \* leveraging the _TETrace operator.  For example, this is how to
        \* count the number of times a spec variable changed up to the current
        \* state in the trace.
        \* ,_cresModCount |->
        \*     LET F[s \in DOMAIN _TETrace] ==
        \*         IF s = 1 THEN 0
        \*         ELSE IF _TETrace[s].cres # _TETrace[s-1].cres
        \*             THEN 1 + F[s-1] ELSE F[s-1]
        \*     IN F[_TEPosition - 1]
    ]

=============================================================================



Parsing and semantic processing can take forever if the trace below is long.
 In this case, it is advised to uncomment the module below to deserialize the
 trace from a generated binary file.

\*
\*---- MODULE Scheduler_TETrace ----
\*EXTENDS IOUtils, Scheduler, TLC
\*
\*trace == IODeserialize("Scheduler_TTrace_1790529643.bin", TRUE)
\*
\*=============================================================================
\*

---- MODULE Scheduler_TETrace ----
EXTENDS Scheduler, TLC

trace == 
    <<
    ([took |-> "none",timerExpired |-> FALSE,kres |-> [k1 |-> "none"],bLive |-> FALSE,active |-> FALSE,finalised |-> FALSE,runCh |-> 0,running |-> 0,cres |-> [c1 |-> "none", c2 |-> "none"],cpc |-> [c1 |-> "idle", c2 |-> "idle"],cancelCh |-> 0,panicked |-> FALSE,lock |-> "free",inTable |-> TRUE,closed |-> FALSE,bInTable |-> FALSE,gpc |-> "select",runs |-> 0,ctxDone |-> FALSE,kpc |-> [k1 |-> "idle"]]),
    ([took |-> "none",timerExpired |-> FALSE,kres |-> [k1 |-> "none"],bLive |-> FALSE,active |-> FALSE,finalised |-> FALSE,runCh |-> 0,running |-> 0,cres |-> [c1 |-> "none", c2 |-> "none"],cpc |-> [c1 |-> "idle", c2 |-> "p"],cancelCh |-> 0,panicked |-> FALSE,lock |-> "free",inTable |-> TRUE,closed |-> FALSE,bInTable |-> FALSE,gpc |-> "select",runs |-> 0,ctxDone |-> FALSE,kpc |-> [k1 |-> "idle"]]),
    ([took |-> "none",timerExpired |-> TRUE,kres |-> [k1 |-> "none"],bLive |-> FALSE,active |-> FALSE,finalised |-> FALSE,runCh |-> 0,running |-> 0,cres |-> [c1 |-> "none", c2 |-> "none"],cpc |-> [c1 |-> "idle", c2 |-> "p"],cancelCh |-> 0,panicked |-> FALSE,lock |-> "free",inTable |-> TRUE,closed |-> FALSE,bInTable |-> FALSE,gpc |-> "select",runs |-> 0,ctxDone |-> FALSE,kpc |-> [k1 |-> "idle"]]),
    ([took |-> "none",timerExpired |-> TRUE,kres |-> [k1 |-> "none"],bLive |-> FALSE,active |-> FALSE,finalised |-> FALSE,runCh |-> 0,running |-> 0,cres |-> [c1 |-> "none", c2 |-> "none"],cpc |-> [c1 |-> "p", c2 |-> "p"],cancelCh |-> 0,panicked |-> FALSE,lock |-> "free",inTable |-> TRUE,closed |-> FALSE,bInTable |-> FALSE,gpc |-> "select",runs |-> 0,ctxDone |-> FALSE,kpc |-> [k1 |-> "idle"]]),
    ([took |-> "none",timerExpired |-> TRUE,kres |-> [k1 |-> "none"],bLive |-> FALSE,active |-> FALSE,finalised |-> FALSE,runCh |-> 0,running |-> 0,cres |-> [c1 |-> "none", c2 |-> "none"],cpc |-> [c1 |-> "p", c2 |-> "p"],cancelCh |-> 0,panicked |-> FALSE,lock |-> "free",inTable |-> TRUE,closed |-> FALSE,bInTable |-> FALSE,gpc |-> "select",runs |-> 0,ctxDone |-> TRUE,kpc |-> [k1 |-> "idle"]]),
    ([took |-> "none",timerExpired |-> TRUE,kres |-> [k1 |-> "none"],bLive |-> FALSE,active |-> FALSE,finalised |-> FALSE,runCh |-> 0,running |-> 0,cres |-> [c1 |-> "none", c2 |-> "none"],cpc |-> [c1 |-> "p", c2 |-> "p"],cancelCh |-> 0,panicked |-> FALSE,lock |-> "free",inTable |-> TRUE,closed |-> FALSE,bInTable |-> FALSE,gpc |-> "t1",runs |-> 0,ctxDone |-> TRUE,kpc |-> [k1 |-> "idle"]]),
    ([took |-> "none",timerExpired |-> TRUE,kres |-> [k1 |-> "none"],bLive |-> FALSE,active |-> FALSE,finalised |-> FALSE,runCh |-> 0,running |-> 0,cres |-> [c1 |-> "none", c2 |-> "none"],cpc |-> [c1 |-> "p", c2 |-> "p"],cancelCh |-> 0,panicked |-> FALSE,lock |-> "free",inTable |-> TRUE,closed |-> FALSE,bInTable |-> FALSE,gpc |-> "t3",runs |-> 0,ctxDone |-> TRUE,kpc |-> [k1 |-> "idle"]]),
    ([took |-> "none",timerExpired |-> TRUE,kres |-> [k1 |-> "none"],bLive |-> FALSE,active |-> FALSE,finalised |-> FALSE,runCh |-> 0,running |-> 0,cres |-> [c1 |-> "none", c2 |-> "none"],cpc |-> [c1 |-> "p", c2 |-> "p"],cancelCh |-> 0,panicked |-> FALSE,lock |-> "free",inTable |-> FALSE,closed |-> FALSE,bInTable |-> FALSE,gpc |-> "t3",runs |-> 0,ctxDone |-> TRUE,kpc |-> [k1 |-> "p"]]),
    ([took |-> "none",timerExpired |-> TRUE,kres |-> [k1 |-> "none"],bLive |-> TRUE,active |-> FALSE,finalised |-> FALSE,runCh |-> 0,running |-> 0,cres |-> [c1 |-> "none", c2 |-> "none"],cpc |-> [c1 |-> "p", c2 |-> "p"],cancelCh |-> 0,panicked |-> FALSE,lock |-> "free",inTable |-> FALSE,closed |-> FALSE,bInTable |-> TRUE,gpc |-> "t3",runs |-> 0,ctxDone |-> TRUE,kpc |-> [k1 |-> "p"]]),
    ([took |-> "none",timerExpired |-> TRUE,kres |-> [k1 |-> "none"],bLive |-> TRUE,active |-> TRUE,finalised |-> FALSE,runCh |-> 0,running |-> 0,cres |-> [c1 |-> "none", c2 |-> "none"],cpc |-> [c1 |-> "p", c2 |-> "h"],cancelCh |-> 0,panicked |-> FALSE,lock |-> "c2",inTable |-> FALSE,closed |-> FALSE,bInTable |-> TRUE,gpc |-> "t3",runs |-> 0,ctxDone |-> TRUE,kpc |-> [k1 |-> "p"]]),
    ([took |-> "none",timerExpired |-> TRUE,kres |-> [k1 |-> "none"],bLive |-> TRUE,active |-> TRUE,finalised |-> FALSE,runCh |-> 0,running |-> 0,cres |-> [c1 |-> "none", c2 |-> "none"],cpc |-> [c1 |-> "p", c2 |-> "h"],cancelCh |-> 0,panicked |-> FALSE,lock |-> "c2",inTable |-> FALSE,closed |-> FALSE,bInTable |-> TRUE,gpc |-> "t4",runs |-> 0,ctxDone |-> TRUE,kpc |-> [k1 |-> "p"]]),
    ([took |-> "none",timerExpired |-> TRUE,kres |-> [k1 |-> "none"],bLive |-> TRUE,active |-> TRUE,finalised |-> FALSE,runCh |-> 0,running |-> 1,cres |-> [c1 |-> "none", c2 |-> "none"],cpc |-> [c1 |-> "p", c2 |-> "h"],cancelCh |-> 0,panicked |-> FALSE,lock |-> "c2",inTable |-> FALSE,closed |-> FALSE,bInTable |-> TRUE,gpc |-> "t5",runs |-> 1,ctxDone |-> TRUE,kpc |-> [k1 |-> "p"]]),
    ([took |-> "none",timerExpired |-> TRUE,kres |-> [k1 |-> "none"],bLive |-> TRUE,active |-> TRUE,finalised |-> FALSE,runCh |-> 1,running |-> 1,cres |-> [c1 |-> "none", c2 |-> "ok"],cpc |-> [c1 |-> "p", c2 |-> "done"],cancelCh |-> 0,panicked |-> FALSE,lock |-> "free",inTable |-> FALSE,closed |-> FALSE,bInTable |-> TRUE,gpc |-> "t5",runs |-> 1,ctxDone |-> TRUE,kpc |-> [k1 |-> "p"]]),
    ([took |-> "none",timerExpired |-> TRUE,kres |-> [k1 |-> "none"],bLive |-> TRUE,active |-> TRUE,finalised |-> FALSE,runCh |-> 1,running |-> 0,cres |-> [c1 |-> "none", c2 |-> "ok"],cpc |-> [c1 |-> "p", c2 |-> "done"],cancelCh |-> 0,panicked |-> FALSE,lock |-> "free",inTable |-> FALSE,closed |-> FALSE,bInTable |-> TRUE,gpc |-> "t6",runs |-> 1,ctxDone |-> TRUE,kpc |-> [k1 |-> "p"]]),
    ([took |-> "none",timerExpired |-> TRUE,kres |-> [k1 |-> "none"],bLive |-> TRUE,active |-> FALSE,finalised |-> FALSE,runCh |-> 1,running |-> 0,cres |-> [c1 |-> "none", c2 |-> "ok"],cpc |-> [c1 |-> "p", c2 |-> "done"],cancelCh |-> 0,panicked |-> FALSE,lock |-> "free",inTable |-> FALSE,closed |-> FALSE,bInTable |-> TRUE,gpc |-> "p0",runs |-> 1,ctxDone |-> TRUE,kpc |-> [k1 |-> "p"]]),
    ([took |-> "none",timerExpired |-> TRUE,kres |-> [k1 |-> "none"],bLive |-> TRUE,active |-> TRUE,finalised |-> FALSE,runCh |-> 1,running |-> 0,cres |-> [c1 |-> "none", c2 |-> "ok"],cpc |-> [c1 |-> "h", c2 |-> "done"],cancelCh |-> 0,panicked |-> FALSE,lock |-> "c1",inTable |-> FALSE,closed |-> FALSE,bInTable |-> TRUE,gpc |-> "p0",runs |-> 1,ctxDone |-> TRUE,kpc |-> [k1 |-> "p"]]),
    ([took |-> "nomore",timerExpired |-> TRUE,kres |-> [k1 |-> "none"],bLive |-> TRUE,active |-> TRUE,finalised |-> FALSE,runCh |-> 1,running |-> 0,cres |-> [c1 |-> "none", c2 |-> "ok"],cpc |-> [c1 |-> "h", c2 |-> "done"],cancelCh |-> 0,panicked |-> FALSE,lock |-> "c1",inTable |-> FALSE,closed |-> FALSE,bInTable |-> TRUE,gpc |-> "k1",runs |-> 1,ctxDone |-> TRUE,kpc |-> [k1 |-> "p"]])
    >>
----


=============================================================================

---- CONFIG Scheduler_TTrace_1790529643 ----
CONSTANTS
    Callers = { "c1" , "c2" }
    Cancellers = { "k1" }
    Periodic = TRUE
    DeleteByName = FALSE
    ClaimIgnoresCancel = FALSE
    PrefixCancellers = { }
    BlockingSend = TRUE
    DropOnClaim = FALSE
    MaxRuns = 3

PROPERTY
    _prop

CHECK_DEADLOCK
    \* CHECK_DEADLOCK off because of PROPERTY or INVARIANT above.
    FALSE

INIT
    _init

NEXT
    _next

CONSTANT
    _TETrace <- _trace

ALIAS
    _expression
=============================================================================
\* Generated on Sun Sep 27 17:20:47 UTC 2026