SPECIFICATION Spec
CONSTANTS
  MaxN = 3
  Kinds = {"unblind"}
  CapOne = TRUE
  AllFailedReturns = TRUE
  Retries = 3
INVARIANTS NoBlockedSender
CHECK_DEADLOCK FALSE
