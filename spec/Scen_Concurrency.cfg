SPECIFICATION SSpec
CONSTANTS
  Groups = {"wallet", "blockrelay", "messenger", "controller", "cache", "validators", "attester"}
  Pinned = FALSE
  MaxPar = 3
INVARIANTS Emit
CHECK_DEADLOCK FALSE
