SPECIFICATION SSpec
CONSTANTS
  Groups = {"wallet", "blockrelay", "messenger", "controller", "cache", "validators", "attester", "registrar", "bids", "restcfg", "exechead", "syncagg", "bestvotes", "bidstrategy"}
  Pinned = FALSE
  InPlace = FALSE
  MaxPar = 3
INVARIANTS Emit
CHECK_DEADLOCK FALSE
