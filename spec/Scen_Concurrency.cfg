SPECIFICATION SSpec
CONSTANTS
  Groups = {"wallet", "blockrelay", "messenger", "controller", "cache", "validators", "attester", "registrar", "bids", "restcfg", "exechead", "syncagg", "bestvotes", "bidstrategy", "dirk", "syncduty", "attinfo", "builderclients"}
  Pinned = FALSE
  InPlace = FALSE
  Reuse = FALSE
  WideEnv = TRUE
  Share = "period"
  AliasWrite = "none"
  MaxPar = 3
INVARIANTS Emit
CHECK_DEADLOCK FALSE
