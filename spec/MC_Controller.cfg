SPECIFICATION Spec
CONSTANTS
  MaxSlot = 5
  MaxVer = 1
  MaxReorgs = 1
  MaxCrashes = 0
  Gated = FALSE
  Cfgs <- MCCfgs
  OraclesFor <- MCOraclesA
INVARIANTS TypeOK JobTimeRight JobCoversExactly NoSlotTwice OnlyStrictlyLaterOnStart SyncWindowRight EpochTickOnce NoFutureDutyUnscheduled NoStaleJob ReorgActedOn
CHECK_DEADLOCK FALSE
