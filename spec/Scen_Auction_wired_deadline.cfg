SPECIFICATION SSpec
CONSTANTS
  Variants = {"deadline"}
  Relays = {1, 2, 3}
  FetchSet <- ScenFetchSet
  Values = {0, 1, 2, 3}
  CfgSet = {}
  TableSet = {"A", "B"}
  BuilderSet = {"std", "plus", "minus", "excl", "half", "boost"}
  AnswerSet <- WiredAnswers
  Headers = {1, 2}
  MaxRounds = 3
  Keys <- ScenKeys
  MaxAuctions = 3
  MaxOpen = 2
  Deviation = "none"
  TickWeight = 1
  DeliverWeight = 3
  StartWeight = 2
  Family = "wired"
INVARIANTS Emit WinnerIsArgmax ProvidersOfferedWinner NoWinnerIffNone CacheRight
CHECK_DEADLOCK FALSE
