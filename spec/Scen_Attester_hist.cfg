SPECIFICATION SSpec
CONSTANTS
  RunIds = {1, 2, 3, 4, 5}
  SlotsPerEpoch = 32
  Roots = {1, 2}
  Strict01 = TRUE
  Strict04 = TRUE
  ScenMode = "hist"
  ScenLen = 22
  ScenVals = {1, 2, 3, 4}
  ScenMaxLen = 3
  ScenSlots = {64, 65, 95, 96, 97, 127, 128, 130, 160}
  ScenComms = {0, 1, 2}
  ScenPrepSlot = 64
INVARIANTS Emit NoDoubleSign SignedDataSound AssignmentExact
CHECK_DEADLOCK FALSE
