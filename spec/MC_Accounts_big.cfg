SPECIFICATION MCSpec
CONSTANTS
  Alphabet = {"a", "b"}
  Classes <- AB
  MaxNameLen = 4
  FFE = 99
  MCEpochs = {0, 1, 2, 3, 4, 5, 6}
  MCQueryEpochs = {0, 1, 2, 3, 4, 5, 6, 7}
INVARIANTS OnlyConfigured ExactlyActive
PROPERTY NeverWiped
