SPECIFICATION MCSpec
CONSTANTS
  Alphabet = {"a", "b"}
  Classes <- AB
  MaxNameLen = 4
  FFE = 99
  MCEpochs = {0, 1, 2, 3, 4, 5, 6}
  MCQueryEpochs = {0, 1, 2, 3, 4, 5, 6, 7}
  MCAtomicEpochs = {0, 1, 2, 3, 4, 5, 6, 7}
  MCOverlapKinds = {}
  MCOverlapEpochs = {}
  MCSeen = 2
INVARIANTS OnlyConfigured ExactlyActive NoStrangers RightIndex ByIndexAgrees
CONSTRAINT MCBound
PROPERTY NeverWiped
