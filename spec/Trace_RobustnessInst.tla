------------------------- MODULE Trace_RobustnessInst -------------------------
(* Trace specification for the history part of C16.  One scenario = one HISTORY on one real, long-lived    *)
(* instance.  Lines recorded by the drivers (overlay/verifdrivers/c16, history mode):                       *)
(*   Reset                                   a new scenario                                                  *)
(*   Instance{ep, of}                        the instance was built (of = the probe shape of its configuration)*)
(*   Fresh{ep, shape, outcome}               the probe input on a SECOND, fresh instance of that configuration *)
(*                                           ended with outcome (the reference for HistoryIndependent)         *)
(*   Call{ep, call, shape}                   written and flushed BEFORE the real code is entered; call = the    *)
(*                                           number of the call on this instance                               *)
(*   Aux{ep, call, req, at, answer, delivered}  the real code made the auxiliary request req at provider `at`   *)
(*                                           on behalf of call `call` and got a value / a fault back             *)
(*   Poll{ep, call, relay, n, answer}        the real code asked scripted relay `relay` for the n-th time on     *)
(*                                           behalf of call `call` (the relay knows the call from the slot asked  *)
(*                                           for) and was given `answer`                                           *)
(*   Use{ep, call, use, outcome}             a consumer of the call ran (execservice)                          *)
(*   Return{ep, call, outcome}               the call came back: ok | error | fallback                         *)
(*   Undeliverable{ep, call}                 the library decoder does not deliver this (gated) input           *)
(*   DecoderPanic{ep, call | fatal}          a client library's decoding layer panicked (see Robustness.tla)    *)
(*   Held{ep, call}                          the driver holds the call at the gate of the instance               *)
(*   Close{ep}                               the history is over: every call has come back                     *)
(*   Crash{ep, text, frame, fatal, calls}    a panic recovered in the calling goroutine or the death of the     *)
(*                                           child process, with the calls in flight                            *)
(*   Hung{ep, call}                          the call did not come back within the watchdog time                *)
(* There is no trace action for Crash and none for Hung: a trace containing one is rejected at that line.    *)
(* A Return of the probe input with an outcome other than Fresh's has no action either (Return's guard).     *)
EXTENDS RobustnessInst, TraceLib

VARIABLES l,
          tshape,     \* call number -> the shape it was started with (the model keeps the KIND of an input only)
          shared      \* calls that had another call in flight next to them (they shared the nodes with it)
tvars == <<ivars, l, tshape, shared>>

TraceInit == l = 1 /\ Init /\ InitHWM /\ tshape = << >> /\ shared = {}

IsEvent(e) == l <= TraceLen /\ Trace[l].ev = e /\ l' = l + 1

TraceReset ==
    /\ IsEvent("Reset")
    /\ inst' = NoInst /\ ncalls' = 0 /\ inflight' = << >> /\ ended' = {} /\ fresh' = "none" /\ alive' = TRUE
    /\ tshape' = << >> /\ shared' = {}

TraceInstance ==
    /\ IsEvent("Instance")
    /\ Trace[l].ep \in EPs /\ Trace[l].of \in Lattice[Trace[l].ep]
    /\ ProbeOf(Trace[l].ep, Trace[l].of) = Trace[l].of          \* a configuration is named by its probe shape
    /\ NewInstance(Trace[l].ep, Trace[l].of)
    /\ UNCHANGED <<tshape, shared>>

TraceFresh ==
    /\ IsEvent("Fresh")
    /\ inst # NoInst /\ Trace[l].ep = inst.ep /\ Trace[l].shape = inst.of
    /\ Probe(Trace[l].outcome)
    /\ UNCHANGED <<tshape, shared>>

TraceCall ==
    /\ IsEvent("Call")
    /\ inst # NoInst /\ Trace[l].ep = inst.ep
    /\ Trace[l].call = ncalls + 1
    /\ Call(Trace[l].shape)
    /\ tshape' = [c \in DOMAIN tshape \cup {Trace[l].call} |-> IF c = Trace[l].call THEN Trace[l].shape ELSE tshape[c]]
    /\ shared' = IF InFlight = {} THEN shared ELSE shared \cup InFlight \cup {Trace[l].call}

\* The fake gave the answer that the input of THIS call chose for that request, and what it delivered is of that
\* answer's class.  A call that shared the nodes with another call in flight may have been answered from that
\* call's script, and a node that one of the two inputs takes down / brings up may be in the other's state.
TraceAux ==
    /\ IsEvent("Aux")
    /\ Trace[l].call \in InFlight
    /\ LET a == [req |-> Trace[l].req, at |-> Trace[l].at, answer |-> Trace[l].answer]
       IN  IF Trace[l].call \in shared
           THEN \E d \in shared : a \in AuxRequests(inst.ep, tshape[d])
           ELSE a \in AuxRequests(inst.ep, tshape[Trace[l].call]) /\ Trace[l].delivered = AuxClass(Trace[l].answer)
    /\ Aux(Trace[l].call, Trace[l].delivered)
    /\ UNCHANGED <<tshape, shared>>

\* the relay gave the answer that the input of THIS call chose for its n-th poll (the relay tells the calls apart
\* by the slot they ask for, so this also holds next to another call in flight)
TracePoll ==
    /\ IsEvent("Poll")
    /\ Trace[l].call \in InFlight
    /\ Trace[l].n >= 1 /\ Trace[l].relay \in Relays
    /\ Trace[l].answer = PollAnswer(inst.ep, tshape[Trace[l].call], Trace[l].relay, IF Trace[l].n > MaxPoll THEN MaxPoll ELSE Trace[l].n)
    /\ Poll(Trace[l].call)
    /\ UNCHANGED <<tshape, shared>>

TraceUse ==
    /\ IsEvent("Use")
    /\ Use(Trace[l].call, Trace[l].use, Trace[l].outcome)
    /\ UNCHANGED <<tshape, shared>>

TraceReturn ==
    /\ IsEvent("Return")
    /\ Return(Trace[l].call, Trace[l].outcome)
    /\ UNCHANGED <<tshape, shared>>

TraceUndeliverable ==
    /\ IsEvent("Undeliverable")
    /\ Undeliverable(Trace[l].call)
    /\ UNCHANGED <<tshape, shared>>

TraceDecoderPanic ==
    /\ IsEvent("DecoderPanic")
    /\ IF Trace[l].fatal THEN DecoderPanicFatal ELSE DecoderPanic(Trace[l].call)
    /\ UNCHANGED <<tshape, shared>>

\* the environment holds the call at the gate (the next call will run next to it)
TraceHeld ==
    /\ IsEvent("Held")
    /\ Trace[l].call \in InFlight
    /\ UNCHANGED <<ivars, tshape, shared>>

\* the end of a history: nothing is in flight any more (a call that never came back is a Hung line before)
TraceClose ==
    /\ IsEvent("Close")
    /\ inst # NoInst /\ InFlight = {}
    /\ UNCHANGED <<ivars, tshape, shared>>

TraceNext == \/ TraceReset \/ TraceInstance \/ TraceFresh \/ TraceCall \/ TraceAux \/ TracePoll \/ TraceUse \/ TraceReturn
             \/ TraceUndeliverable \/ TraceDecoderPanic \/ TraceHeld \/ TraceClose

TraceSpec == TraceInit /\ [][TraceNext]_tvars

HWM == UpdateHWM(l)
TraceAccepted == TraceAcceptedUpTo
=============================================================================
