------------------------- MODULE Trace_RobustnessInst -------------------------
(* Trace specification for the history part of C16.  One scenario = one HISTORY on one real, long-lived    *)
(* instance.  Lines recorded by the drivers (overlay/verifdrivers/c16, history mode):                       *)
(*   Reset                                   a new scenario                                                  *)
(*   Instance{ep, of}                        the instance was built (of = the probe shape of its configuration)*)
(*   Fresh{ep, shape, outcome}               the probe input on a SECOND, fresh instance of that configuration *)
(*                                           ended with outcome (the reference for HistoryIndependent)         *)
(*   Call{ep, call, shape}                   written and flushed BEFORE the real code is entered; call = the    *)
(*                                           number of the call on this instance                               *)
(*   Use{ep, call, use, outcome}             a consumer of the call ran (execservice)                          *)
(*   Return{ep, call, outcome}               the call came back: ok | error | fallback                         *)
(*   Undeliverable{ep, call}                 the library decoder does not deliver this (gated) input           *)
(*   DecoderPanic{ep, call | fatal}          a client library's decoding layer panicked (see Robustness.tla)    *)
(*   Held{ep, call}                          the driver holds the call at the gate of the instance               *)
(*   Close{ep}                               the history is over: every call has come back                     *)
(*   Crash{ep, text, frame, fatal, calls}    a panic recovered in the calling goroutine or the death of the     *)
(*                                           child process, with the calls in flight                            *)
(*   Hung{ep, call}                          the call did not come back within the watchdog time                *)
(* There is no trace action for Crash and none for Hung: a trace containing one is rejected at that line.    *)
(* A Return of the probe input with an outcome other than Fresh's has no action either (Return's guard).     *)
EXTENDS RobustnessInst, TraceLib

VARIABLE l
tvars == <<ivars, l>>

TraceInit == l = 1 /\ Init /\ InitHWM

IsEvent(e) == l <= TraceLen /\ Trace[l].ev = e /\ l' = l + 1

TraceReset ==
    /\ IsEvent("Reset")
    /\ inst' = NoInst /\ ncalls' = 0 /\ inflight' = << >> /\ ended' = {} /\ fresh' = "none" /\ alive' = TRUE

TraceInstance ==
    /\ IsEvent("Instance")
    /\ Trace[l].ep \in EPs /\ Trace[l].of \in Lattice[Trace[l].ep]
    /\ ProbeOf(Trace[l].ep, Trace[l].of) = Trace[l].of          \* a configuration is named by its probe shape
    /\ NewInstance(Trace[l].ep, Trace[l].of)

TraceFresh ==
    /\ IsEvent("Fresh")
    /\ inst # NoInst /\ Trace[l].ep = inst.ep /\ Trace[l].shape = inst.of
    /\ Probe(Trace[l].outcome)

TraceCall ==
    /\ IsEvent("Call")
    /\ inst # NoInst /\ Trace[l].ep = inst.ep
    /\ Trace[l].call = ncalls + 1
    /\ Call(Trace[l].shape)

TraceUse ==
    /\ IsEvent("Use")
    /\ Use(Trace[l].call, Trace[l].use, Trace[l].outcome)

TraceReturn ==
    /\ IsEvent("Return")
    /\ Return(Trace[l].call, Trace[l].outcome)

TraceUndeliverable ==
    /\ IsEvent("Undeliverable")
    /\ Undeliverable(Trace[l].call)

TraceDecoderPanic ==
    /\ IsEvent("DecoderPanic")
    /\ IF Trace[l].fatal THEN DecoderPanicFatal ELSE DecoderPanic(Trace[l].call)

\* the environment holds the call at the gate (the next call will run next to it)
TraceHeld ==
    /\ IsEvent("Held")
    /\ Trace[l].call \in InFlight
    /\ UNCHANGED ivars

\* the end of a history: nothing is in flight any more (a call that never came back is a Hung line before)
TraceClose ==
    /\ IsEvent("Close")
    /\ inst # NoInst /\ InFlight = {}
    /\ UNCHANGED ivars

TraceNext == \/ TraceReset \/ TraceInstance \/ TraceFresh \/ TraceCall \/ TraceUse \/ TraceReturn
             \/ TraceUndeliverable \/ TraceDecoderPanic \/ TraceHeld \/ TraceClose

TraceSpec == TraceInit /\ [][TraceNext]_tvars

HWM == UpdateHWM(l)
TraceAccepted == TraceAcceptedUpTo
=============================================================================
