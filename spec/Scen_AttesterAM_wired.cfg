SPECIFICATION WSpec
CONSTANTS
  RunIds = {1, 2, 3, 4, 5}
  SlotsPerEpoch = 32
  Roots = {1, 2}
  Strict01 = TRUE
  Strict04 = TRUE
  ScenMode = "hist"
  WScenMode = "wired"
  ScenLen = 26
  ScenVals = {1, 2, 3}
  ScenMaxLen = 3
  ScenSlots = {64, 65, 95, 96, 97, 127, 128, 130}
  ScenComms = {0, 1, 2}
  ScenPrepSlot = 64
  AMKinds = {"dirk", "wallet"}
  AMDeviant = {}
  AMDeviation = "none"
  AllVals = {1, 2, 3, 4}
  FFE = 99
INVARIANTS WEmit NoDoubleSign SignedDataSound AssignmentExact SignOnlyClaimed ByIndexExact
CHECK_DEADLOCK FALSE
