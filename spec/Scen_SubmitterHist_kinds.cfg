SPECIFICATION Spec
CONSTANTS
  Mode = "kinds"
  HKinds = {"att", "agg", "proposal", "syncmsg", "contrib", "bcsub", "scsub", "prep"}
  HConcSet = {3}
  HItemSet = {2}
  HClients = {"lighthouse"}
  HNodeCounts = {3}
  HLens = {8}
  HOutcomes = {}
  HConfSets = {}
  HVecOuts = {"reject", "slowrej1", "slowok1", "slowok2", "hang"}
INVARIANTS Emit
CHECK_DEADLOCK FALSE
