SPECIFICATION Spec
CONSTANTS
  Chain = {0, 1, 2, 3, 4}
  OursSets = {{2, 3, 4}, {0, 2, 3}}
  Managers = {"wallet", "dirk"}
  VMDesigns = {"replace", "retain", "carry2of3"}
  SPE = 32
  Epochs = {3}
  StrictVM = TRUE
  AllOffers = FALSE
  Lean = TRUE
INVARIANTS SignedByAssignee
CHECK_DEADLOCK FALSE
