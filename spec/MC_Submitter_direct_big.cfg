SPECIFICATION Spec
CONSTANTS
  KindSet = {"prepdirect", "regnodes"}
  ConcSet = {1}
  ItemSet = {2}
  NodeCounts = {3, 4}
  DefaultConc = 16
  MaxCalls = 1
  HistClients = {}
  HistOutcomes = {}
  Design = "asks"
  MaxLat = 3
  CanonOuts = {"accept", "reject", "inactive", "slowok1", "slowok3", "slowrej2", "late", "hang"}
  ConfSets = {}
  OtherSets = {}
  RefKind = "att"
INVARIANTS TypeOK FlagSound TimeoutSignalHeard OfferedInFull SuccessIff ReturnsByTimeout Independence ClassifiedByNow DeliveredToEach
CHECK_DEADLOCK FALSE
