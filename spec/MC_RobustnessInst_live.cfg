SPECIFICATION FairSpec
CONSTANTS
  EPs = {"builderbid", "mergeduties", "proposer"}
  MaxCalls = 3
  MaxInFlight = 2
INVARIANTS TypeOK KeepsRunning
PROPERTIES EveryCallReturns
CHECK_DEADLOCK FALSE
