SPECIFICATION ASpec
CONSTANTS
  Designs = {"checked", "deref", "goroutine", "kindsplit"}
  Alphabet = {"ok", "empty", "slow"}
INVARIANTS ATypeOK KeepsRunning CallerSeesNoPanic
CHECK_DEADLOCK FALSE
