SPECIFICATION Spec
CONSTANTS
  Groups = {"wallet", "blockrelay", "messenger", "controller", "cache", "validators", "attester", "registrar", "bids", "restcfg", "exechead", "syncagg", "bestvotes", "bidstrategy"}
  Pinned = FALSE
  InPlace = FALSE
  MaxPar = 2
INVARIANTS TypeOK Linearizable Disciplined
CONSTRAINT Bounded
CHECK_DEADLOCK FALSE
