SPECIFICATION TraceSpec
CONSTANTS
  Accts = {"a1", "a2", "a3", "a4"}
  Deviation = "none"
INVARIANTS AtMostOnce OnlyCalled
CONSTRAINT HWM
POSTCONDITION TraceAccepted
CHECK_DEADLOCK FALSE
