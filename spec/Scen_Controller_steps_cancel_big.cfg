SPECIFICATION SSpec
CONSTANTS
  MaxSlot = 5
  MaxVer = 1
  MaxReorgs = 1
  MaxCrashes = 0
  Gates = {"cancel"}
  Interleave = FALSE
  Cfgs <- CfgsSteps
  OraclesFor <- SeedOracles
  MaxAccts = 0
  AnswersFor <- AllAnswers
  Deviation = {}
  ScenLen = 12
  Seeds = {1, 2, 3, 4, 5, 6, 7, 8}
  StartSlots = {4}
  MaxHeads = 1
  Stimuli = {"Start", "Advance", "Reorg", "HeadEvent", "Fire", "Hold", "Release"}
  MaxHolds = 99
  Focus = TRUE
  Disjoint = TRUE
  Tight = FALSE
INVARIANTS EmitInside
CONSTRAINT HistBound
CHECK_DEADLOCK FALSE
