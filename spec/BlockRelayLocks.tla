--------------------------- MODULE BlockRelayLocks ---------------------------
(* Property C12, second half: "every request for proposer settings, every auction and every       *)
(* registration round returns.  No sequence of configuration refreshes interleaved with such       *)
(* requests leaves an internal lock held or blocks later refreshes or requests."                  *)
(*                                                                                                *)
(* The boundary of this specification is the block relay SERVICE as standard.New wires it, not    *)
(* the three anchored files: every entry point through which the scheduler, the REST daemon, the  *)
(* block proposer and the proposal preparer reach the service, and every lock the service owns:    *)
(*                                                                                                *)
(*   locks   ec      executionConfigMu        sync.RWMutex                                         *)
(*           bb      builderBidMu             sync.Mutex   (one immediate auction at a time)       *)
(*           cache   builderBidsCacheMu       sync.RWMutex                                         *)
(*           ctl     controlledValidatorsMu   sync.RWMutex                                         *)
(*           signed  signedValidatorRegistrationsMu, latest  latestValidatorRegistrationsMu        *)
(*           sem     activitySem              semaphore, only ever TryAcquire'd                    *)
(*                                                                                                *)
(*   entry points (kind)                                                                          *)
(*           fetch     scheduler job "Fetch execution configuration"   fetchExecutionConfig       *)
(*           lookup    ProposerConfig  (proposal preparer, UnblindBlock, ...)                      *)
(*           auction   AuctionBlock    (block proposer)                                            *)
(*           bbid      BuilderBid      (REST daemon: a beacon node asks for a header) - the        *)
(*                     SIBLING auction entry point: cached bid, else builderBidMu -> re-check ->   *)
(*                     immediate auction -> account lookup -> ProposerConfig -> strategy -> cacheBid *)
(*           register  scheduler job "Submit validator registrations"                              *)
(*           vreg      ValidatorRegistrations (REST daemon: registrations of a beacon node)        *)
(*                                                                                                *)
(* An entry point is a PROGRAM: the sequence of lock operations and interface calls the code       *)
(* performs, one instruction per lock operation.  Every instruction is one action (DoR, DoRU, DoW, *)
(* DoWacq, DoWU, DoPut, DoT, DoV, DoE, DoD, DoRet); where the code branches (the source's answer,   *)
(* cache hit / miss, relays configured or not, the strategy's answer) the instruction is replaced  *)
(* by its continuation.  Locks behave as Go's do: RLock is refused while a writer holds the lock   *)
(* OR WAITS for it - also for a goroutine that already holds a read lock; Lock waits for every      *)
(* reader and the writer.  Interface calls (E) are answered by the environment at any time          *)
(* (Env_Responds): the configuration source, the accounts, the account's name, the signer, the      *)
(* relays, the builder-bid strategy.                                                              *)
(*                                                                                                *)
(* Sibling implementations and deviations are values of constants; every invariant must hold for   *)
(* every PERMITTED value and TLC must reject every CONTROL value (run by the check):               *)
(*   Install  how a successful refresh installs the configuration                                  *)
(*      "plain"        Lock; store; Unlock                              (the code as written)      *)
(*      "flush_after"  ... and afterwards drops the cached bids under builderBidMu + cache lock    *)
(*                     (permitted: nothing is held while it waits for builderBidMu)                *)
(*      "flush_under"  CONTROL: the same flush INSIDE the configuration write lock: lock order      *)
(*                     ec -> bb against BuilderBid's bb -> ec                                      *)
(*   BidImpl  how BuilderBid goes from the first cache check to the immediate auction              *)
(*      "asis"                                                                                    *)
(*      "queue_holding_cache"  CONTROL: takes builderBidMu before it releases the cache read lock   *)
(*                     (cache -> bb against cacheBid's bb -> cache)                                 *)
(*      "leak_on_recheck"      CONTROL: the re-check under builderBidMu returns a cached bid         *)
(*                     without releasing builderBidMu                                              *)
(* Properties: NoDeadlock (whenever calls are in flight one of them can take a step), ReturnsClean  *)
(* (a call that returned holds nothing), LockBalanced, LockAccounting; liveness NoWedge (every call  *)
(* returns) under weak fairness of every call's steps.                                             *)
EXTENDS Integers, FiniteSets, Sequences, TLC

CONSTANTS Ops,          \* call instances 1..N (each used once; a history is a sequence of calls on ONE service)
          MaxInFlight,  \* calls in flight at the same time
          Kinds,        \* entry points that are called
          Keys,         \* validators = keys of the bid cache (slot and parent hash are a function of the key)
          Install,      \* "plain" | "flush_after" | "flush_under"
          BidImpl       \* "asis" | "queue_holding_cache" | "leak_on_recheck"

ASSUME /\ Install \in {"plain", "flush_after", "flush_under"}
       /\ BidImpl \in {"asis", "queue_holding_cache", "leak_on_recheck"}
       /\ Kinds \subseteq {"fetch", "lookup", "auction", "bbid", "register", "vreg"}

RW == {"ec", "bb", "cache", "ctl", "signed", "latest"}

\* ---- instructions ----
I(op, l, k) == [op |-> op, l |-> l, k |-> k]
R(l)    == I("R", l, 0)       \* RLock
RU(l)   == I("RU", l, 0)      \* RUnlock
W(l)    == I("W", l, 0)       \* Lock is called (from here on new readers are refused)
Wacq(l) == I("Wacq", l, 0)    \* Lock returns
WU(l)   == I("WU", l, 0)      \* Unlock
Put(k)  == I("Put", "cache", k)   \* a bid (or the "no bid" dummy) is stored for key k
T       == I("T", "sem", 0)   \* activitySem.TryAcquire
V       == I("V", "sem", 0)   \* activitySem.Release
E(n, k) == I("E", n, k)       \* interface call answered by the environment
D(n, k) == I("D", n, k)       \* branch of the code
RET     == I("Ret", "", 0)

\* answers of the environment
SourceOuts == {"good", "error", "malformed", "empty"}
BidOuts == {"win", "nobid", "err"}

\* auctionBlock: ProposerConfig (under the configuration read lock; the account's name is asked for there when
\* the caller has an account), then - if relays are configured - the strategy, then cacheBid
Core(k, named) == <<R("ec")>> \o (IF named THEN <<E("name", 0)>> ELSE <<>>) \o <<RU("ec"), D("relays", k)>>

InstallSeq ==
    CASE Install = "plain"       -> <<W("ec"), WU("ec")>>
      [] Install = "flush_after" -> <<W("ec"), WU("ec"), W("bb"), W("cache"), WU("cache"), WU("bb")>>
      [] Install = "flush_under" -> <<W("ec"), W("bb"), W("cache"), WU("cache"), WU("bb"), WU("ec")>>

Program(k, a) ==
    CASE k = "fetch"    -> <<E("accts", 0), R("ec"), RU("ec"), E("source", 0), RET>>
      [] k = "lookup"   -> <<R("ec"), E("name", 0), RU("ec"), RET>>
      [] k = "auction"  -> <<E("acct", 0)>> \o Core(a, TRUE) \o <<RET>>
      [] k = "bbid"     -> <<R("cache"), D("hit1", a), RET>>
      [] k = "register" -> <<T, RET>>
      [] k = "vreg"     -> <<R("ctl"), RU("ctl"), R("ec"), RU("ec"), E("relays", 0), RET>>

RegisterBody ==
    <<R("ec"), RU("ec"), R("ec"), RU("ec"),          \* currentExecutionConfig() twice before the accounts are gone through
      R("ec"), RU("ec"),                              \* ... and once per account (one account)
      R("signed"), RU("signed"), R("latest"), RU("latest"), D("sign", 0),
      W("ctl"), WU("ctl"), E("relays", 0), V>>

VARIABLES st,      \* per call: "idle" | "run" | "done"
          kind, arg,
          rest,    \* per call: the instructions still to be executed
          rd,      \* per call and lock: read locks held
          wr,      \* per call and lock: write lock held
          sem,     \* 0 = free, else the call that holds activitySem
          cache    \* keys a bid was ever stored for

lvars == <<st, kind, arg, rest, rd, wr, sem, cache>>

LInit ==
    /\ st = [o \in Ops |-> "idle"]
    /\ kind = [o \in Ops |-> "none"]
    /\ arg = [o \in Ops |-> 0]
    /\ rest = [o \in Ops |-> <<>>]
    /\ rd = [o \in Ops |-> [l \in RW |-> 0]]
    /\ wr = [o \in Ops |-> [l \in RW |-> FALSE]]
    /\ sem = 0
    /\ cache = {}

InFlight == {o \in Ops : st[o] = "run"}
Quiescent == InFlight = {}

RECURSIVE SumRd(_, _)
SumRd(S, l) == IF S = {} THEN 0 ELSE LET o == CHOOSE x \in S : TRUE IN rd[o][l] + SumRd(S \ {o}, l)
Readers(l) == SumRd(Ops, l)
Writer(l) == \E o \in Ops : wr[o][l]
Next1(o) == rest[o][1]
Waiting(l) == {o \in InFlight : Next1(o) = Wacq(l)}

\* Go: a reader is refused while a writer holds the lock or has announced itself
CanRLock(l) == ~Writer(l) /\ Waiting(l) = {}
CanLock(l) == Readers(l) = 0 /\ ~Writer(l)

AllFree == sem = 0 /\ \A l \in RW : Readers(l) = 0 /\ ~Writer(l)

\* can the call take its next step?
CanStep(o) ==
    /\ st[o] = "run"
    /\ LET i == Next1(o) IN
         CASE i.op = "R" -> CanRLock(i.l)
           [] i.op = "Wacq" -> CanLock(i.l)
           [] OTHER -> TRUE

Advance(o) == rest' = [rest EXCEPT ![o] = Tail(rest[o])]
Replace(o, cont) == rest' = [rest EXCEPT ![o] = cont \o Tail(rest[o])]

Start(o, k, a) ==
    /\ st[o] = "idle"
    /\ \A p \in Ops : p < o => st[p] # "idle"
    /\ Cardinality(InFlight) < MaxInFlight
    /\ k \in Kinds
    /\ k = "fetch" => \A p \in InFlight : kind[p] # "fetch"      \* Env_SingleFetcher
    /\ \/ k \in {"fetch", "register"} /\ a = 0
       \/ k \in {"lookup", "auction", "bbid", "vreg"} /\ a \in Keys
    /\ st' = [st EXCEPT ![o] = "run"]
    /\ kind' = [kind EXCEPT ![o] = k]
    /\ arg' = [arg EXCEPT ![o] = a]
    /\ rest' = [rest EXCEPT ![o] = Program(k, a)]
    /\ UNCHANGED <<rd, wr, sem, cache>>

DoR(o) ==
    /\ st[o] = "run" /\ Next1(o).op = "R" /\ CanRLock(Next1(o).l)
    /\ rd' = [rd EXCEPT ![o][Next1(o).l] = @ + 1]
    /\ Advance(o)
    /\ UNCHANGED <<st, kind, arg, wr, sem, cache>>

DoRU(o) ==
    /\ st[o] = "run" /\ Next1(o).op = "RU"
    /\ rd' = [rd EXCEPT ![o][Next1(o).l] = @ - 1]
    /\ Advance(o)
    /\ UNCHANGED <<st, kind, arg, wr, sem, cache>>

DoW(o) ==
    /\ st[o] = "run" /\ Next1(o).op = "W"
    /\ Replace(o, <<Wacq(Next1(o).l)>>)
    /\ UNCHANGED <<st, kind, arg, rd, wr, sem, cache>>

DoWacq(o) ==
    /\ st[o] = "run" /\ Next1(o).op = "Wacq" /\ CanLock(Next1(o).l)
    /\ wr' = [wr EXCEPT ![o][Next1(o).l] = TRUE]
    /\ Advance(o)
    /\ UNCHANGED <<st, kind, arg, rd, sem, cache>>

DoWU(o) ==
    /\ st[o] = "run" /\ Next1(o).op = "WU"
    /\ wr' = [wr EXCEPT ![o][Next1(o).l] = FALSE]
    /\ Advance(o)
    /\ UNCHANGED <<st, kind, arg, rd, sem, cache>>

DoPut(o) ==
    /\ st[o] = "run" /\ Next1(o).op = "Put"
    /\ cache' = cache \cup {Next1(o).k}
    /\ Advance(o)
    /\ UNCHANGED <<st, kind, arg, rd, wr, sem>>

\* the registration round only runs if no other one does
DoT(o) ==
    /\ st[o] = "run" /\ Next1(o).op = "T"
    /\ IF sem = 0 THEN /\ sem' = o /\ Replace(o, <<E("raccts", 0)>>)
                  ELSE /\ sem' = sem /\ Advance(o)
    /\ UNCHANGED <<st, kind, arg, rd, wr, cache>>

DoV(o) ==
    /\ st[o] = "run" /\ Next1(o).op = "V"
    /\ sem' = 0
    /\ Advance(o)
    /\ UNCHANGED <<st, kind, arg, rd, wr, cache>>

\* interface calls: ans is the environment's answer ("" where the answer does not change what the code locks)
DoE(o, ans) ==
    /\ st[o] = "run" /\ Next1(o).op = "E"
    /\ LET i == Next1(o) IN
         CASE i.l = "source" ->
                 /\ ans \in SourceOuts
                 /\ Replace(o, IF ans = "good" THEN InstallSeq
                               ELSE <<R("ec"), RU("ec"), W("ec"), WU("ec")>>)     \* currentExecutionConfig(), re-install
           [] i.l = "bid" ->
                 /\ ans \in BidOuts
                 /\ Replace(o, IF ans = "err" THEN <<>> ELSE <<W("cache"), Put(i.k), WU("cache")>>)
           [] i.l = "raccts" ->
                 /\ ans \in {"none", "some"}
                 /\ Replace(o, IF ans = "none" THEN <<V>> ELSE RegisterBody)
           [] OTHER -> ans = "" /\ Advance(o)
    /\ UNCHANGED <<st, kind, arg, rd, wr, sem, cache>>

\* branches of the code; c is the branch taken
DoD(o, c) ==
    /\ st[o] = "run" /\ Next1(o).op = "D"
    /\ LET i == Next1(o) IN
         CASE i.l = "hit1" ->
                 \* a hit needs a bid that was stored; the property does not oblige the service to keep bids
                 \/ c = "hit" /\ i.k \in cache /\ Replace(o, <<RU("cache")>>)
                 \/ c = "miss" /\ Replace(o, IF BidImpl = "queue_holding_cache"
                                              THEN <<W("bb"), RU("cache"), R("cache"), D("hit2", i.k), WU("bb")>>
                                              ELSE <<RU("cache"), W("bb"), R("cache"), D("hit2", i.k), WU("bb")>>)
           [] i.l = "hit2" ->
                 \/ /\ c = "hit" /\ i.k \in cache
                    /\ IF BidImpl = "leak_on_recheck"
                       THEN rest' = [rest EXCEPT ![o] = <<RU("cache")>> \o Tail(Tail(rest[o]))]   \* no Unlock
                       ELSE Replace(o, <<RU("cache")>>)
                 \* immediateBuilderBid asks the account manager for the validator's account (under builderBidMu) and
                 \* hands it to the auction: the account's name is asked for under the configuration read lock
                 \/ c = "miss" /\ Replace(o, <<RU("cache"), E("acct", 0)>> \o Core(i.k, TRUE))
           [] i.l = "relays" ->
                 \* the settings cannot be resolved / no relays configured / relays configured
                 \/ c \in {"unresolvable", "none"} /\ Replace(o, <<>>)
                 \/ c = "some" /\ Replace(o, <<E("bid", i.k)>>)
           [] i.l = "sign" ->
                 \* the registration is known / is signed now (a signing failure locks nothing further)
                 \/ c \in {"known", "failed"} /\ Replace(o, <<>>)
                 \/ c = "new" /\ Replace(o, <<E("sign", 0), W("signed"), WU("signed"), W("latest"), WU("latest")>>)
    /\ UNCHANGED <<st, kind, arg, rd, wr, sem, cache>>

Branches == {"hit", "miss", "unresolvable", "none", "some", "known", "failed", "new"}
Answers == SourceOuts \cup BidOuts \cup {"none", "some", ""}

DoRet(o) ==
    /\ st[o] = "run" /\ Next1(o).op = "Ret"
    /\ st' = [st EXCEPT ![o] = "done"]
    /\ Advance(o)
    /\ UNCHANGED <<kind, arg, rd, wr, sem, cache>>

\* the steps of a call that are not visible at an interface of the service
Silent(o) ==
    \/ DoR(o) \/ DoRU(o) \/ DoW(o) \/ DoWacq(o) \/ DoWU(o) \/ DoPut(o) \/ DoT(o) \/ DoV(o)
    \/ \E c \in Branches : DoD(o, c)
    \/ st[o] = "run" /\ Next1(o).l \notin {"source", "bid"} /\ \E ans \in {"none", "some", ""} : DoE(o, ans)

OpStep(o) ==
    \/ DoR(o) \/ DoRU(o) \/ DoW(o) \/ DoWacq(o) \/ DoWU(o) \/ DoPut(o) \/ DoT(o) \/ DoV(o)
    \/ \E c \in Branches : DoD(o, c)
    \/ \E ans \in Answers : DoE(o, ans)
    \/ DoRet(o)

LNext ==
    \/ \E o \in Ops, k \in Kinds, a \in {0} \cup Keys : Start(o, k, a)
    \/ \E o \in Ops : OpStep(o)

\* Env_Responds + the Go scheduler runs every goroutine
LFair == \A o \in Ops : WF_lvars(OpStep(o))
LSpec == LInit /\ [][LNext]_lvars /\ LFair

-----------------------------------------------------------------------------
TypeOKL ==
    /\ \A o \in Ops : st[o] \in {"idle", "run", "done"} /\ kind[o] \in Kinds \cup {"none"}
    /\ \A o \in Ops, l \in RW : rd[o][l] \in 0..2 /\ wr[o][l] \in BOOLEAN
    /\ sem \in {0} \cup Ops /\ cache \subseteq Keys
    /\ \A o \in Ops : st[o] = "run" => Len(rest[o]) > 0

\* C12: whenever calls are in flight, one of them can go on (no set of calls waits for each other)
NoDeadlock == InFlight # {} => \E o \in InFlight : CanStep(o)

\* C12: a call that returned left no lock held
ReturnsClean ==
    \A o \in Ops : st[o] = "done" => /\ \A l \in RW : rd[o][l] = 0 /\ ~wr[o][l]
                                      /\ sem # o

\* C12: no sequence of refreshes and requests leaves a lock held
LockBalanced == Quiescent => AllFree

\* sync.RWMutex / sync.Mutex: one writer, never together with readers; builderBidMu is never read-locked
LockAccounting ==
    /\ \A l \in RW : Cardinality({o \in Ops : wr[o][l]}) <= 1
    /\ \A l \in RW : Writer(l) => Readers(l) = 0
    /\ Readers("bb") = 0
    /\ sem # 0 => kind[sem] = "register"

\* C12: every request, auction, registration round and refresh that was started returns
NoWedge == \A o \in Ops : (st[o] = "run") ~> (st[o] = "done")
=============================================================================
