----------------------------- MODULE ExecConfig -----------------------------
(* Execution configuration of Vouch's block relay (services/blockrelay/executionconfig.go,       *)
(* v2/*.go, v1/*.go; docs/executionconfig.md, docs/execlayer.md).                                 *)
(*                                                                                                *)
(* Property C10: for every execution configuration (version 2 or legacy) and every validator the  *)
(* fee recipient and the set of relays with their fee recipient, gas limit, grace, minimum value  *)
(* and public key are those given by the documented precedence; a configuration survives a        *)
(* marshal/unmarshal round trip with the same meaning.                                            *)
(*                                                                                                *)
(* The abstract configuration document is a record tree with optional fields (a field is either   *)
(* in the DOMAIN of its record or not); values are opaque strings.                                *)
(*   version 2:  [version |-> 2, fr?, gl?, gr?, mv?,                                              *)
(*                relays    |-> << [addr, pk?, fr?, gl?, gr?, mv?] ... >>,                         *)
(*                proposers |-> << [kind |-> "pubkey", key] or [kind |-> "account", m |-> <<ids>>] *)
(*                                 with fr?, gl?, gr?, mv?, reset, relays |-> << [addr, disabled,  *)
(*                                 pk?, fr?, gl?, gr?, mv?] ... >> ... >>]                         *)
(*   legacy:     [version |-> 1, default |-> Obj, proposers |-> << [key] @@ Obj ... >>]           *)
(*               Obj = [fr, gl?, builder? |-> [enabled, gr?, relays |-> <<addr ...>>]]            *)
(* An account entry carries the set m of validators its (implicitly anchored) pattern matches on  *)
(* "wallet/account"; a public-key entry matches by equality.                                      *)
(*                                                                                                *)
(* Actions (one per interface call of the code):                                                  *)
(*   Configure(c, f)  blockrelay.UnmarshalJSON of a document (version dispatch), fallbacks f      *)
(*   Lookup(v)        ExecutionConfigurator.ProposerConfig(account, pubkey, fallbacks)            *)
(*   RoundTrip        json.Marshal of the configurator, blockrelay.UnmarshalJSON of the result    *)
EXTENDS Integers, Sequences, FiniteSets, SequencesExt, TLC

CONSTANTS Pairs,      \* BOOLEAN: lattice with two fields varied at once (thorough) or one (quick)
          Wide        \* BOOLEAN: match sets over two validators (thorough) or one (quick)
\* (the lattice operators below take the two flags as arguments so that TLC builds the lattice only
\* where it is used - model checking and scenario generation - and not for trace validation)

VARIABLES cfg,    \* the active configuration document, or NoConfig
          fb,     \* fallback values of Vouch's own configuration [fr, gl]
          last    \* last reply handed to a caller (observation only)

vars == <<cfg, fb, last>>

-----------------------------------------------------------------------------
(* generic helpers *)
HasF(r, f) == f \in DOMAIN r
Get(r, f, d) == IF f \in DOMAIN r THEN r[f] ELSE d
MinOf(S) == CHOOSE x \in S : \A y \in S : x <= y
EmptyRec == [x \in {} |-> x]
Opt(b, f, v) == IF b THEN f :> v ELSE EmptyRec

\* value of field f at the first (most specific) level of the chain that has it, else d
Pick(chain, f, d) ==
    LET idx == {i \in DOMAIN chain : HasF(chain[i], f)}
    IN  IF idx = {} THEN d ELSE chain[MinOf(idx)][f]

ZeroGrace == "0s"
ZeroValue == "0"
NoKey == "none"
NoConfig == [version |-> 0]
NoReply == [op |-> "none"]
NoEntry == [kind |-> "none"]

-----------------------------------------------------------------------------
(* version 2: docs/executionconfig.md *)

Matches(e, v) ==
    IF e.kind = "pubkey" THEN e.key = v.pubkey
    ELSE v.id \in Range(e.m)

\* "the selection of proposer values stops at the first match"
FirstMatch(c, v) ==
    LET ps == Get(c, "proposers", <<>>)
        idx == {i \in DOMAIN ps : Matches(ps[i], v)}
    IN  IF idx = {} THEN 0 ELSE MinOf(idx)

Entry(c, v) == IF FirstMatch(c, v) = 0 THEN NoEntry ELSE c.proposers[FirstMatch(c, v)]

RelayAt(rs, a) == CHOOSE r \in Range(rs) : r.addr = a
Addrs(rs) == {r.addr : r \in Range(rs)}
DisabledAddrs(rs) == {r.addr : r \in {x \in Range(rs) : Get(x, "disabled", FALSE)}}

\* relays inherited by the matching entry: the base relays, none after reset_relays
Inherited(c, P) == IF Get(P, "reset", FALSE) THEN <<>> ELSE Get(c, "relays", <<>>)

\* levels that can give a value for relay a, most specific first:
\* proposer-relay, proposer, base relay (inherited relays only), top level; then fallback / zero
Levels(c, P, a) ==
    LET prels == Get(P, "relays", <<>>)
        base == Inherited(c, P)
    IN  (IF a \in Addrs(prels) THEN <<RelayAt(prels, a)>> ELSE <<>>)
        \o <<P>>
        \o (IF a \in Addrs(base) THEN <<RelayAt(base, a)>> ELSE <<>>)
        \o <<c>>

Resolve2(c, v, f) ==
    LET P == Entry(c, v)
        prels == Get(P, "relays", <<>>)
        addrs == (Addrs(Inherited(c, P)) \cup Addrs(prels)) \ DisabledAddrs(prels)
        Relay(a) == LET ch == Levels(c, P, a) IN
                    [addr |-> a,
                     fr |-> Pick(ch, "fr", f.fr),
                     gl |-> Pick(ch, "gl", f.gl),
                     gr |-> Pick(ch, "gr", ZeroGrace),
                     mv |-> Pick(ch, "mv", ZeroValue),
                     pk |-> Pick(ch, "pk", NoKey)]
    IN  [fr |-> Pick(<<P, c>>, "fr", f.fr), relays |-> {Relay(a) : a \in addrs}]

-----------------------------------------------------------------------------
(* legacy format: docs/execlayer.md.  The validator's proposer_config entry is used if there is   *)
(* one, else default_config; a gas limit that is absent (or 0) and a builder that is absent are    *)
(* where the prose ("if a value is found in proposer_config it is used; if not, and a value is     *)
(* found in default_config it is used; otherwise the fallback value") and the examples/tests       *)
(* (an entry stands for the whole validator) disagree: the specification allows both readings.     *)

Entry1(c, v) ==
    LET idx == {i \in DOMAIN c.proposers : c.proposers[i].key = v.pubkey}
    IN  IF idx = {} THEN NoEntry ELSE c.proposers[MinOf(idx)]

HasGl(o) == HasF(o, "gl") /\ o.gl # "0"
NoBuilder == [enabled |-> FALSE, relays |-> <<>>]

Resolve1Set(c, v, f) ==
    LET E == Entry1(c, v)
        own == E.kind # "none"
        O == IF own THEN E ELSE c.default
        gls == IF HasGl(O) THEN {O.gl}
               ELSE {f.gl} \cup (IF own /\ HasGl(c.default) THEN {c.default.gl} ELSE {})
        bs == IF HasF(O, "builder") THEN {O.builder}
              ELSE {NoBuilder} \cup (IF own /\ HasF(c.default, "builder") THEN {c.default.builder} ELSE {})
        Relays(b, g) == IF b.enabled
                        THEN {[addr |-> a, fr |-> O.fr, gl |-> g, gr |-> Get(b, "gr", ZeroGrace),
                               mv |-> ZeroValue, pk |-> NoKey] : a \in Range(b.relays)}
                        ELSE {}
    IN  {[fr |-> O.fr, relays |-> Relays(b, g)] : b \in bs, g \in gls}

ResolveSet(c, v, f) == IF c.version = 2 THEN {Resolve2(c, v, f)} ELSE Resolve1Set(c, v, f)

-----------------------------------------------------------------------------
(* the scenario lattice (single source of truth for what is enumerated; values are tokens that    *)
(* the driver replaces by concrete values: T top level, B base relay, P proposer, Q proposer      *)
(* relay, F fallback, ...2 the bystanders)                                                         *)

Fields == {"fr", "gl", "gr", "mv", "pk"}
RelayOnly == {"pk"}                     \* fields that exist at the two relay levels only
LevelNames == {"top", "base", "prop", "prel"}
Tok == [top |-> "T", base |-> "B", prop |-> "P", prel |-> "Q"]
VIds(wide) == IF wide THEN {"V1", "V2"} ELSE {"V1"}
Validators == {[id |-> "V1", pubkey |-> "V1"], [id |-> "V2", pubkey |-> "V2"]}
Kinds == {"pubkey", "account"}
Whos(wide) == {w \in [kind : Kinds, m : SUBSET VIds(wide)] : w.kind = "pubkey" => Cardinality(w.m) <= 1}

Before(f, g) == \* a fixed order on field names, so that each pair is enumerated once
    LET n == [fr |-> 1, gl |-> 2, gr |-> 3, mv |-> 4, pk |-> 5] IN n[f] < n[g]

OkPresence(f, p, inBase, prel) ==
    /\ ("base" \in p => inBase)
    /\ ("prel" \in p => prel # "none")
    /\ (f \in RelayOnly => p \cap {"top", "prop"} = {})

Structs(wide) == [inBase : BOOLEAN, prel : {"none", "plain", "dis"}, reset : BOOLEAN, w1 : Whos(wide), w2 : Whos(wide)]
Pres(f, st) == {p \in SUBSET LevelNames : OkPresence(f, p, st.inBase, st.prel)}
FieldPairs == {fg \in Fields \X Fields : Before(fg[1], fg[2])}

Who(w, nobody) ==
    IF w.kind = "pubkey"
    THEN [kind |-> "pubkey", key |-> IF w.m = {} THEN nobody ELSE CHOOSE x \in w.m : TRUE]
    ELSE [kind |-> "account", m |-> SetToSeq(w.m)]

\* the value of the varied field(s) at one level
At(s, lvl) == Opt(lvl \in s.pf, s.f, Tok[lvl]) @@ Opt(lvl \in s.pg, s.g, Tok[lvl])
\* the bystanders always have a value of their own
Side(s, lvl, t) == Opt(~(s.f \in RelayOnly /\ lvl = "prop"), s.f, t)
                   @@ Opt(s.g # "none" /\ ~(s.g \in RelayOnly /\ lvl = "prop"), s.g, t)

Build2(s) ==
    [version |-> 2] @@ At(s, "top") @@
    [relays |-> (IF s.inBase THEN <<[addr |-> "R1"] @@ At(s, "base")>> ELSE <<>>)
                \o <<[addr |-> "R2"] @@ Side(s, "base", "B2")>>,
     proposers |-> <<
        Who(s.w1, "K1") @@ At(s, "prop") @@
        [reset |-> s.reset,
         relays |-> IF s.prel = "none" THEN <<>>
                    ELSE <<[addr |-> "R1", disabled |-> s.prel = "dis"] @@ At(s, "prel")>>],
        Who(s.w2, "K2") @@ Side(s, "prop", "P2") @@
        [reset |-> FALSE,
         relays |-> <<[addr |-> "R1", disabled |-> FALSE] @@ Side(s, "prel", "Q2"),
                      [addr |-> "R3", disabled |-> FALSE]>>] >>]

Obj1Shapes == [gl : {"none", "val", "zero"}, b : {"none", "off", "offrel", "on1", "on2g"}]
Params1 == [d : Obj1Shapes, p : {[gl |-> "none", b |-> "absent"]} \cup Obj1Shapes, other : BOOLEAN]

Obj1(o, t) ==
    [fr |-> t.fr]
    @@ Opt(o.gl # "none", "gl", IF o.gl = "zero" THEN "0" ELSE t.gl)
    @@ Opt(o.b # "none", "builder",
           CASE o.b = "off" -> [enabled |-> FALSE, relays |-> <<>>]
             [] o.b = "offrel" -> [enabled |-> FALSE, relays |-> <<"R1">>]
             [] o.b = "on1" -> [enabled |-> TRUE, relays |-> <<t.r>>]
             [] o.b = "on2g" -> [enabled |-> TRUE, gr |-> t.gr, relays |-> <<t.r, "R2">>]
             [] OTHER -> NoBuilder)

Build1(s) ==
    [version |-> 1,
     default |-> Obj1(s.d, [fr |-> "T", gl |-> "T", gr |-> "T", r |-> "R1"]),
     proposers |-> (IF s.p.b = "absent" THEN <<>>
                    ELSE <<[kind |-> "pubkey", key |-> "V1"] @@ Obj1(s.p, [fr |-> "P", gl |-> "P", gr |-> "P", r |-> "R3"])>>)
                   \o (IF s.other
                       THEN <<[kind |-> "pubkey", key |-> "K2"] @@ Obj1([gl |-> "val", b |-> "on1"], [fr |-> "P2", gl |-> "P2", gr |-> "P2", r |-> "R2"])>>
                       ELSE <<>>)]

Fallback == [fr |-> "F", gl |-> "F"]

\* Act(c) for some document c of the lattice.  (Written with nested quantifiers rather than as a set
\* of documents so that TLC enumerates the lattice without first building and normalising that set.)
ForLattice(pairs, wide, Act(_)) ==
    \/ \E s \in Params1 : Act(Build1(s))
    \/ /\ pairs
       /\ \E fg \in FieldPairs, st \in Structs(wide) :
             \E pf \in Pres(fg[1], st), pg \in Pres(fg[2], st) :
                Act(Build2([f |-> fg[1], g |-> fg[2], pf |-> pf, pg |-> pg] @@ st))
    \/ /\ ~pairs
       /\ \E f \in Fields, st \in Structs(wide) :
             \E pf \in Pres(f, st) :
                Act(Build2([f |-> f, g |-> "none", pf |-> pf, pg |-> {}] @@ st))

-----------------------------------------------------------------------------
Init ==
    /\ cfg = NoConfig
    /\ fb = Fallback
    /\ last = NoReply

Configure(c, f) ==
    /\ cfg = NoConfig
    /\ cfg' = c
    /\ fb' = f
    /\ last' = NoReply

ConfigureFrom(c) == Configure(c, Fallback)

Lookup(v) ==
    /\ cfg # NoConfig
    /\ \E r \in ResolveSet(cfg, v, fb) : last' = [op |-> "lookup", v |-> v, res |-> r]
    /\ UNCHANGED <<cfg, fb>>

\* the abstract document is the meaning of the configuration: a round trip must not change it
RoundTrip ==
    /\ cfg # NoConfig
    /\ last' = NoReply
    /\ UNCHANGED <<cfg, fb>>

Next ==
    \/ cfg = NoConfig /\ ForLattice(Pairs, Wide, ConfigureFrom)
    \/ \E v \in Validators : Lookup(v)
    \/ RoundTrip

Spec == Init /\ [][Next]_vars

-----------------------------------------------------------------------------
(* Invariants: independent statements of the sentences of the property / the documentation,       *)
(* checked against the resolution operators on the whole lattice and on every recorded trace.     *)

IsLookup == last.op = "lookup"
V2 == IsLookup /\ cfg.version = 2
V1 == IsLookup /\ cfg.version = 1
TheEntry == Entry(cfg, last.v)
ResAddrs == {r.addr : r \in last.res.relays}
ResRelay(a) == CHOOSE r \in last.res.relays : r.addr = a
RelayFields == {"fr", "gl", "gr", "mv", "pk"}
ZeroOf(f) == CASE f = "fr" -> fb.fr [] f = "gl" -> fb.gl [] f = "gr" -> ZeroGrace
               [] f = "mv" -> ZeroValue [] OTHER -> NoKey

TypeOK ==
    /\ cfg.version \in {0, 1, 2}
    /\ IsLookup => /\ \A r \in last.res.relays : DOMAIN r = {"addr"} \cup RelayFields
                   /\ \A r1, r2 \in last.res.relays : r1.addr = r2.addr => r1 = r2

\* "the first matching proposer entry ... over ... top-level defaults over the fallback values"
FeeRecipientRight ==
    V2 => last.res.fr = IF HasF(TheEntry, "fr") THEN TheEntry.fr
                        ELSE IF HasF(cfg, "fr") THEN cfg.fr ELSE fb.fr

\* "with disabled relays removed"
DisabledRemoved ==
    V2 => ResAddrs \cap DisabledAddrs(Get(TheEntry, "relays", <<>>)) = {}

\* "reset_relays discarding inherited ones"
ResetDiscards ==
    (V2 /\ Get(TheEntry, "reset", FALSE)) => ResAddrs \subseteq Addrs(Get(TheEntry, "relays", <<>>))

\* inherited relays stay unless disabled; "new relays added"; nothing else appears
RelaySetRight ==
    V2 => LET prels == Get(TheEntry, "relays", <<>>)
              dis == DisabledAddrs(prels)
          IN  /\ (~Get(TheEntry, "reset", FALSE) => Addrs(Get(cfg, "relays", <<>>)) \ dis \subseteq ResAddrs)
              /\ Addrs(prels) \ dis \subseteq ResAddrs
              /\ ResAddrs \subseteq Addrs(Get(cfg, "relays", <<>>)) \cup Addrs(prels)

\* precedence is monotone: a value present at a level is used unless a more specific level has one;
\* without any value the fallback (fee recipient, gas limit) or zero (grace, minimum value, key)
MostSpecificWins ==
    V2 => \A a \in ResAddrs : \A f \in RelayFields :
            LET ch == Levels(cfg, TheEntry, a)
                r == ResRelay(a)
            IN  /\ \A i \in DOMAIN ch :
                     (HasF(ch[i], f) /\ \A j \in 1..(i - 1) : ~HasF(ch[j], f)) => r[f] = ch[i][f]
                /\ (\A i \in DOMAIN ch : ~HasF(ch[i], f)) => r[f] = ZeroOf(f)

\* "once the first matching proposer entry is used no further processing takes place":
\* the answer only depends on the first matching entry
OnlyFirstMatch ==
    V2 => LET i == FirstMatch(cfg, last.v)
              only == [cfg EXCEPT !.proposers = IF i = 0 THEN <<>> ELSE <<cfg.proposers[i]>>]
          IN  last.res = Resolve2(only, last.v, fb)

\* a validator no entry matches gets the defaults only
NoMatchDefaults ==
    (V2 /\ FirstMatch(cfg, last.v) = 0) =>
        /\ ResAddrs = Addrs(Get(cfg, "relays", <<>>))
        /\ last.res.fr = Get(cfg, "fr", fb.fr)

\* legacy: the validator's own entry, else the default; relays only from an enabled builder
LegacyRight ==
    V1 => LET E == Entry1(cfg, last.v)
              O == IF E.kind # "none" THEN E ELSE cfg.default
          IN  /\ last.res.fr = O.fr
              /\ \A r \in last.res.relays :
                    /\ r.fr = O.fr /\ r.mv = ZeroValue /\ r.pk = NoKey
                    /\ (HasGl(O) => r.gl = O.gl)
                    /\ (~HasGl(O) => r.gl \in {fb.gl} \cup (IF HasGl(cfg.default) THEN {cfg.default.gl} ELSE {}))
              /\ (HasF(O, "builder") /\ ~O.builder.enabled) => last.res.relays = {}
              /\ (HasF(O, "builder") /\ O.builder.enabled) => ResAddrs = Range(O.builder.relays)
=============================================================================
