SPECIFICATION Spec
CONSTANTS
  DutySlots = {9}
  Validators = {2}
  SlotsPerEpoch = 4
  Relays = {1, 2, 3}
  AllChoices = {{}, {1}, {2}, {3}, {1, 2}, {1, 3}, {2, 3}, {1, 2, 3}}
  Versions = {"phase0", "altair", "bellatrix", "capella", "deneb"}
  Blindable = {"bellatrix", "capella", "deneb"}
  Outcomes = {"full", "err", "bad400", "nilresp", "never"}
  Dslots <- AllDslots
  MaxCalls = 2
  NDuties = 2
  SlotGaps = {1}
  MaxOpen = 1
  MaxInFlight = 1
  InitCfgs <- AllCfgs
  LaterAllChoices = {{}, {1}}
  LaterVersions = {"altair", "deneb"}
  LaterOutcomes = {"full", "err", "never"}
  LaterDslots = {0, 1}
INVARIANTS TypeOK OnlyDutySigner SignedIsSelected SubmittedIntact NothingWithoutUnblind DegradesNotSkips CompletesDuty HistoryIndependent
CHECK_DEADLOCK TRUE
