SPECIFICATION SpecAtomic
CONSTANTS
  SlotsPerEpoch = 32
  Slots = {0, 31, 32, 33, 100, 1000000007}
  GivenEpochs = {0, 3, 31250000}
  MaxBatch = 5
  NReq = 1
  ForkEpochs = {1}
  LawBatch = 6
  HistOps = {}
  HistKinds = {}
  HistFails = {}
INVARIANTS TypeOK DomainRight Memoryless HandedOwn SigCorrect NoSignatureWithoutDomain ErrorHasNoSignatures RefusedForCause
PROPERTIES ReplyStable
CHECK_DEADLOCK FALSE
