SPECIFICATION PSpec
CONSTANTS
  Designs = {"checked", "firstraw", "noguard"}
  Styles = {"best"}
  Scripts = "lattice"
INVARIANTS PTypeOK KeepsRunning CallerSeesNoPanic
CHECK_DEADLOCK FALSE
