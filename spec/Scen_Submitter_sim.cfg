SPECIFICATION SSpec
CONSTANTS
  Mode = "sim"
  Subs = {"multinode"}
  KindSet = {"att", "agg", "proposal", "syncmsg", "contrib", "bcsub", "scsub", "prep"}
  ConcSet = {1, 2, 3, 4, 8}
  ItemSet = {1, 2, 3, 5, 8, 13}
  NodeCounts = {3}
  SimCounts = {1, 2, 3, 4}
  DefaultConc = 16
  MaxCalls = 1
  HistClients = {}
  HistOutcomes = {}
  Design = "asks"
  MaxLat = 2
  CanonOuts = {}
  ConfSets = {}
  OtherSets = {}
  RefKind = "att"
  BaseOutcomes = {"accept", "reject", "treject", "malformed", "slowok", "late", "hang"}
INVARIANTS Emit
CHECK_DEADLOCK FALSE
