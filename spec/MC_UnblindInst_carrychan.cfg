SPECIFICATION ISpec
CONSTANTS
  MaxN = 2
  Kinds = {"first", "unblind"}
  CapOne = FALSE
  AllFailedReturns = TRUE
  Retries = 2
  MaxCalls = 2
  Carry = "chan"
INVARIANTS NoBlockedSender
CHECK_DEADLOCK FALSE
