SPECIFICATION Spec
CONSTANTS
  Validators = {1, 2}
  SlotSpace = {3}
  Nows = {2, 3}
  Committees = {0, 1}
  Sizes = {8, 16}
  Targets = {2}
  HVals = {4}
  HMod = 8
  MaxDuties = 2
  MaxSubs = 1
  SPE = 2
  Ep = 1
  MaxRefresh = 1
  MaxChanges = 1
  MaxHeld = 1
  SignerMayFail = FALSE
INVARIANTS TypeOK AllFutureSubscribed AggregatorRuleExact SubscriptionHistoryIndependent InfoPrefersAggregator InfoInForceComplete EveryAggregatorCommitteeScheduled NoAggregationForPastSlot
CHECK_DEADLOCK FALSE
