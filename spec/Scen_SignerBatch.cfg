SPECIFICATION SSpec
CONSTANTS
  Accts = {"a1", "a2", "a3", "a4"}
  Deviation = "none"
  ScenLen = 14
INVARIANTS Emit
CHECK_DEADLOCK FALSE
