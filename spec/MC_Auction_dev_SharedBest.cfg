SPECIFICATION Spec
CONSTANTS
  Variants = {"deadline"}
  Relays = {1, 2}
  FetchSet = {}
  Values = {1, 2}
  CfgSet <- MCCfgOverlap
  TableSet = {"A"}
  BuilderSet = {"std"}
  AnswerSet <- MCAnswersOverlap
  Headers = {1}
  MaxRounds = 1
  Keys = {1, 2}
  MaxAuctions = 2
  MaxOpen = 2
  Deviation = "SharedBest"
INVARIANTS TypeOK WinnerIsArgmax OnlyEligibleWin ProvidersOfferedWinner NoWinnerIffNone ParticipationSound ArrivedConsidered CacheRight ServedRight HistoryShape
ACTION_CONSTRAINT KeysInOrder
