SPECIFICATION Spec
CONSTANTS
  Roots = {1, 2}
  Slots = {0, 2, 3, 5}
  Nows = {0, 3, 5, 7}
  SlotsPerEpoch = 2
  NoRoot = 0
  HasPayload = {1}
  Deviation = "none"
  UseNodes = 3
  Retention = 1
INVARIANTS ExecHeadSound TypeOK MapSound LookupRight ErrorNotSlot
PROPERTY CleanOnlyOld
