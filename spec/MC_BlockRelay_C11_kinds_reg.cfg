SPECIFICATION SpecC11Kinds
CONSTANTS
  Validators = {1}
  Externals = {3}
  Relays = {1, 2}
  Nodes = {1, 2}
  DocIds = {2}
  FailKinds = {"error"}
  Ops = {}
  MaxInFlight = 0
  AuctionImpl = "intended"
  Resolution = "locked"
  MaxRounds = 2

INVARIANTS TypeOKC11 RegistrationExact SignedOverContent ReuseOnlyIfUnchanged FailureIsolated PreparationExact PreparationIsolated ControlledDropped ForwardedUnchanged ForwardedAll F2ControlledDropped F2ForwardedUnchanged F2ForwardedAll KeepsLastGood CallsProgress
CONSTRAINT RoundBound
CONSTRAINT NoLane2
CONSTRAINT NoPrep
CHECK_DEADLOCK FALSE
