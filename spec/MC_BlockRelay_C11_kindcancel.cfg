SPECIFICATION SpecC11KindCancel
CONSTANTS
  Validators = {1}
  Externals = {3}
  Relays = {1, 2}
  Nodes = {1, 2}
  DocIds = {2}
  FailKinds = {"error"}
  Ops = {}
  MaxInFlight = 0
  AuctionImpl = "intended"
  Resolution = "locked"
  MaxRounds = 2

INVARIANTS TypeOKC11 FailureIsolated PreparationIsolated ForwardedAll
CONSTRAINT RoundBound
CONSTRAINT NoLane2

CHECK_DEADLOCK FALSE
