-------------------------- MODULE Trace_SyncCommittee --------------------------
(* Trace specification for C15: a trace recorded from the real controller                       *)
(* (scheduleSyncCommitteeMessages and the jobs it sets up), the real sync committee messenger   *)
(* and the real sync committee aggregator is a behaviour of SyncCommittee.                      *)
(*   Schedule      prep = slots of the prepare jobs in the scheduler after the call             *)
(*   FirePrepare   hs = scalars of the selection signatures the signer returned (computed by    *)
(*                 the driver from the signatures; z = it was the zero signature), selerr = the *)
(*                 signer answered the batch with an error, ownslot = every request was for     *)
(*                 this slot, sel = the duty's aggregator subcommittees after Prepare, msgjob   *)
(*                 = a message job for the slot exists                                          *)
(*   FireMessage   root = head root the node returned, zv = members the signer answered with    *)
(*                 the zero signature, rooterr = error for the batch, msgs = submitted messages *)
(*                 with what their signature is over, aggjob = an aggregation job for the slot  *)
(*                 exists                                                                       *)
(*   FireAggregate zp = pairs the signer answered with the zero signature, cperr = error for    *)
(*                 the batch, contribs = submitted contributions with the root of the           *)
(*                 contribution that was requested from the node, z = zero signature, own = the *)
(*                 signature is the one the signer returned for this very message               *)
(*   Crash / Hung  a job panicked / did not return: no action of the specification              *)
EXTENDS SyncCommittee, TraceLib

VARIABLE l
tvars == <<vars, l>>

EmptyMember == [v \in {} |-> 0]

TraceInit ==
    /\ l = 1
    /\ now = 0 /\ fork = 0 /\ shape = <<1, 1>> /\ target = 1 /\ head = 0
    /\ member = EmptyMember
    /\ started = FALSE
    /\ sched = {}
    /\ prepJobs = {} /\ msgJobs = {} /\ aggJobs = {} /\ prepared = {}
    /\ hsig = {} /\ sel = {} /\ roots = {} /\ msgs = {} /\ contribs = {}
    /\ faults = {} /\ berr = {}
    /\ InitHWM

IsEvent(e) == l <= TraceLen /\ Trace[l].ev = e /\ l' = l + 1

TraceReset ==
    /\ IsEvent("Reset")
    /\ LET t == Trace[l] IN
         /\ now' = t.now /\ fork' = t.fork /\ shape' = <<t.size, t.subnets>> /\ target' = t.target /\ head' = t.head
    /\ member' = EmptyMember
    /\ started' = FALSE
    /\ sched' = {}
    /\ prepJobs' = {} /\ msgJobs' = {} /\ aggJobs' = {} /\ prepared' = {}
    /\ hsig' = {} /\ sel' = {} /\ roots' = {} /\ msgs' = {} /\ contribs' = {}
    /\ faults' = {} /\ berr' = {}

TraceMember ==
    /\ IsEvent("Member")
    /\ LET t == Trace[l] IN AddMember(t.v, [idx |-> SeqToSet(t.idx), acct |-> t.acct])

TraceAdvance ==
    /\ IsEvent("Advance")
    /\ now' = Trace[l].now
    /\ UNCHANGED <<fork, shape, target, head, member, started, sched, prepJobs, msgJobs, aggJobs,
                   prepared, hsig, sel, roots, msgs, contribs, faults, berr>>

TraceHead ==
    /\ IsEvent("Head")
    /\ head' = Trace[l].root
    /\ UNCHANGED <<now, fork, shape, target, member, started, sched, prepJobs, msgJobs, aggJobs,
                   prepared, hsig, sel, roots, msgs, contribs, faults, berr>>

\* the prepare jobs found in the scheduler are those of the specification, each due before its slot
TraceSchedule ==
    /\ IsEvent("Schedule")
    /\ Schedule(Trace[l].epoch, Trace[l].nc, SeqToSet(Trace[l].prep))
    /\ Trace[l].early

\* the function H of FirePrepare, rebuilt from the logged signature scalars (ZeroSig for a zero signature)
LoggedH(hs) == [r \in {<<x.v, x.sub>> : x \in hs} |->
                    LET x == CHOOSE x \in hs : x.v = r[1] /\ x.sub = r[2] IN IF x.z THEN ZeroSig ELSE x.h]

TraceFirePrepare ==
    /\ IsEvent("FirePrepare")
    /\ LET t == Trace[l]
           hs == SeqToSet(t.hs)
           H == LoggedH(hs)
           chosen == {<<x.v, x.sub>> : x \in SeqToSet(t.sel)} IN
         /\ t.fired
         /\ t.ownslot
         /\ \A x, y \in hs : (x.v = y.v /\ x.sub = y.sub) => x = y
         /\ t.selerr => hs = {}
         /\ FirePrepare(t.slot, H, t.selerr, {r \in DOMAIN H : H[r] = ZeroSig} \cap chosen, t.msgjob)
         /\ OfSlot(sel', t.slot) = {[slot |-> t.slot, v |-> p[1], sub |-> p[2]] : p \in chosen}
         /\ t.msgjob => t.inslot

TraceFireMessage ==
    /\ IsEvent("FireMessage")
    /\ LET t == Trace[l] IN
         /\ t.fired
         /\ t.root = head
         /\ FireMessage(t.slot, SeqToSet(t.zv), t.rooterr, t.aggjob)
         /\ msgs' = msgs \cup {[slot |-> m.slot, v |-> m.v, root |-> m.root, sigv |-> m.sigv,
                                sigroot |-> m.sigroot, sigepoch |-> m.sigepoch] : m \in SeqToSet(t.msgs)}

\* a contribution counts when it carries a signature, and the one the signer gave for this very message
TraceFireAggregate ==
    /\ IsEvent("FireAggregate")
    /\ LET t == Trace[l] IN
         /\ t.fired
         /\ FireAggregate(t.slot, {<<p.v, p.sub>> : p \in SeqToSet(t.zp)}, t.cperr,
                          {[slot |-> c.slot, v |-> c.v, sub |-> c.sub, root |-> c.root] :
                               c \in {d \in SeqToSet(t.contribs) : ~d.z /\ d.own}})
         \* a submitted contribution that is neither zero-signed nor carries its own signature is nobody's
         /\ \A d \in SeqToSet(t.contribs) : d.z \/ d.own

\* a Fire* stimulus for a job that neither the scheduler nor the specification has: nothing happens
\* (the scenario expected a job that the implementation was free not to set up)
TraceNoJob ==
    /\ l <= TraceLen /\ l' = l + 1
    /\ Trace[l].ev \in {"FirePrepare", "FireMessage", "FireAggregate"}
    /\ ~Trace[l].fired
    /\ Trace[l].ev = "FirePrepare" => Trace[l].slot \notin prepJobs
    /\ Trace[l].ev = "FireMessage" => Trace[l].slot \notin msgJobs
    /\ Trace[l].ev = "FireAggregate" => Trace[l].slot \notin aggJobs
    /\ UNCHANGED vars

TraceNext == TraceNoJob \/ TraceReset \/ TraceMember \/ TraceAdvance \/ TraceHead \/ TraceSchedule \/ TraceFirePrepare
             \/ TraceFireMessage \/ TraceFireAggregate

TraceSpec == TraceInit /\ [][TraceNext]_tvars

TraceTypeOK == /\ shape[1] % shape[2] = 0
               /\ HMod % Modulus = 0
               /\ \A x \in hsig : x.h \in (0 .. (HMod - 1)) \cup {ZeroSig}

HWM == UpdateHWM(l)
TraceAccepted == TraceAcceptedUpTo
=============================================================================
