SPECIFICATION Spec
CONSTANTS
  Validators = {1, 2}
  P = 2
  StartSlot = 3
  MaxSlot = 6
  MaxVer = 1
  MaxReorgs = 1
  MaxHeads = 2
  MaxSlow = 1
  MaxLate = 1
  MaxCarry = 2
  MaxJobs = 8
  MinReorgEpoch = 1
  FTs = {TRUE, FALSE}
  MCSeeds <- SeedsSmall
  Oracles <- MCOracles
  Late = 2
  CancelRace = TRUE
  DeleteByName = FALSE
  Overlap = FALSE
  Failures = FALSE
  Fine = FALSE
  TickFirst = TRUE
  Reduce = TRUE
INVARIANTS CancelledNeverRuns
CHECK_DEADLOCK FALSE
