------------------------------ MODULE Accounts ------------------------------
(* Account managers of Vouch (services/accountmanager/{dirk,wallet}/service.go,                   *)
(* services/accountmanager/utils/utils.go) with the validators manager they consult               *)
(* (services/validatorsmanager/standard).                                                         *)
(*                                                                                                *)
(* Property C13:                                                                                  *)
(*  (a) an account offered by a wallet or remote signer is used only if its wallet/account name   *)
(*      FULLY matches one of the configured account specifiers;                                   *)
(*  (b) the accounts reported as validating for an epoch are exactly the known accounts whose     *)
(*      validator is active and not slashed in that epoch (activation epoch reached, exit epoch   *)
(*      not reached), keyed by the correct validator index; sync-committee eligibility            *)
(*      additionally keeps exited and slashed validators until withdrawal is done;                *)
(*  (c) a refresh of the remote signer's accounts or of the validator set that returns nothing    *)
(*      never wipes what is already known.                                                        *)
(*                                                                                                *)
(* The account manager and the validators manager are LONG-LIVED INSTANCES; a behaviour is a      *)
(* history of calls on them (see "The managers" below).  Actions: Configure (New: a new pair of   *)
(* instances), RefreshAccountsTo / RefreshValidators (the two parts of the periodic refresh job,  *)
(* with independent outcomes; RefreshTo = both as one step), Query (ValidatingAccountsForEpoch,   *)
(* SyncCommitteeAccountsForEpoch and their ByIndex forms, with nothing in between), QueryCall /   *)
(* QueryReturn (the same with other calls in between).  spec/AccountsCtl.tla: control designs     *)
(* that are right on fresh instances and must be rejected over histories.                         *)
EXTENDS Integers, Sequences, FiniteSets, TLC

CONSTANTS Alphabet,     \* characters of account names, as one-character strings
          Classes,      \* character classes of the pattern grammar, as sequences of characters
          MaxNameLen,   \* account names are the non-empty sequences over Alphabet up to this length
          FFE           \* the far future epoch (larger than every other epoch of the model)

-----------------------------------------------------------------------------
(* (a) Specifiers.                                                                                *)
(* A pattern is an abstract syntax tree; its meaning is the set of character sequences it matches *)
(* IN FULL.  Concrete syntax (Render) is the regular-expression text an operator writes in the    *)
(* configuration; a pattern at the top of the account part is written WITHOUT parentheses, as an  *)
(* operator would write it ("Validators/a|b").                                                    *)
Lit(c)    == [t |-> "lit", c |-> c]
AnyChar   == [t |-> "any"]
Cls(cs)   == [t |-> "cls", s |-> cs]          \* cs: sequence of characters, e.g. <<"a","b">> = [ab]
Star(p)   == [t |-> "star", p |-> p]
Cat(p, q) == [t |-> "cat", l |-> p, r |-> q]
Alt(p, q) == [t |-> "alt", l |-> p, r |-> q]
Eps       == [t |-> "eps"]                    \* matches the empty sequence only (used by Deriv)
Nil       == [t |-> "nil"]                    \* matches nothing (used by Deriv)

SeqRange(s) == {s[j] : j \in 1..Len(s)}

RECURSIVE Matches(_, _)
Matches(p, s) ==
    CASE p.t = "lit"  -> s = <<p.c>>
      [] p.t = "any"  -> Len(s) = 1
      [] p.t = "cls"  -> Len(s) = 1 /\ s[1] \in SeqRange(p.s)
      [] p.t = "eps"  -> s = <<>>
      [] p.t = "nil"  -> FALSE
      [] p.t = "alt"  -> Matches(p.l, s) \/ Matches(p.r, s)
      [] p.t = "cat"  -> \E k \in 0..Len(s) : Matches(p.l, SubSeq(s, 1, k)) /\ Matches(p.r, SubSeq(s, k + 1, Len(s)))
      [] p.t = "star" -> \/ s = <<>>
                         \/ \E k \in 1..Len(s) : Matches(p.p, SubSeq(s, 1, k)) /\ Matches(p, SubSeq(s, k + 1, Len(s)))

\* a second, independent definition of the same meaning (Brzozowski derivatives); MC_Accounts checks
\* that the two agree on every pattern and name of the model
RECURSIVE Nullable(_)
Nullable(p) ==
    CASE p.t \in {"lit", "any", "cls", "nil"} -> FALSE
      [] p.t \in {"eps", "star"} -> TRUE
      [] p.t = "alt" -> Nullable(p.l) \/ Nullable(p.r)
      [] p.t = "cat" -> Nullable(p.l) /\ Nullable(p.r)

RECURSIVE Deriv(_, _)
Deriv(p, c) ==
    CASE p.t = "lit"  -> IF p.c = c THEN Eps ELSE Nil
      [] p.t = "any"  -> Eps
      [] p.t = "cls"  -> IF c \in SeqRange(p.s) THEN Eps ELSE Nil
      [] p.t \in {"eps", "nil"} -> Nil
      [] p.t = "alt"  -> Alt(Deriv(p.l, c), Deriv(p.r, c))
      [] p.t = "cat"  -> IF Nullable(p.l) THEN Alt(Cat(Deriv(p.l, c), p.r), Deriv(p.r, c))
                                          ELSE Cat(Deriv(p.l, c), p.r)
      [] p.t = "star" -> Cat(Deriv(p.p, c), p)

RECURSIVE MatchesD(_, _)
MatchesD(p, s) == IF s = <<>> THEN Nullable(p) ELSE MatchesD(Deriv(p, Head(s)), Tail(s))

\* concrete syntax
RECURSIVE Concat(_)
Concat(s) == IF s = <<>> THEN "" ELSE s[1] \o Concat(Tail(s))

Prec(p) == CASE p.t = "alt" -> 0 [] p.t = "cat" -> 1 [] OTHER -> 2

RECURSIVE Render(_, _)
Render(p, lvl) ==
    LET body == CASE p.t = "lit"  -> p.c
                  [] p.t = "any"  -> "."
                  [] p.t = "cls"  -> "[" \o Concat(p.s) \o "]"
                  [] p.t = "star" -> Render(p.p, 2) \o "*"
                  [] p.t = "cat"  -> Render(p.l, 1) \o Render(p.r, 1)
                  [] p.t = "alt"  -> Render(p.l, 0) \o "|" \o Render(p.r, 0)
    IN IF Prec(p) < lvl THEN "(" \o body \o ")" ELSE body

\* (a cfg file cannot write a set of sequences: the cfgs say  Classes <- AB)
AB == {<<"a", "b">>}

\* the pattern grammar the model quantifies over (depth 2 over the atoms, plus the depth-3 shapes in
\* which an alternation sits inside or beside a concatenation or under a star)
LitAtoms == {Lit(c) : c \in Alphabet}
Atoms == LitAtoms \cup {AnyChar} \cup {Cls(cs) : cs \in Classes}
Pat1 == Atoms \cup {Star(x) : x \in Atoms}
Pat2 == Pat1 \cup {Cat(x, y) : x, y \in Pat1} \cup {Alt(x, y) : x, y \in Pat1}
Pat3 == {Cat(x, Alt(y, z)) : x, y, z \in LitAtoms} \cup {Cat(Alt(y, z), x) : x, y, z \in LitAtoms}
        \cup {Star(Alt(y, z)) : y, z \in LitAtoms} \cup {Star(Cat(y, z)) : y, z \in LitAtoms}
        \cup {Alt(x, Cat(y, z)) : x, y, z \in LitAtoms} \cup {Alt(Cat(y, z), x) : x, y, z \in LitAtoms}
Patterns == Pat2 \cup Pat3

NameSeqs == UNION {[1..m -> Alphabet] : m \in 1..MaxNameLen}

\* A specifier: wallet name, then nothing ("wallet"), a bare slash ("empty") or a pattern ("pat");
\* the account part may carry an explicit ^ and / or $ (they do not change the meaning: the match is
\* always in full).
\*   [w |-> "W", form |-> "pat", p |-> pattern, pre |-> BOOLEAN, post |-> BOOLEAN]
SpecText(sp) ==
    CASE sp.form = "wallet" -> sp.w
      [] sp.form = "empty"  -> sp.w \o "/"
      [] sp.form = "pat"    -> sp.w \o "/" \o (IF sp.pre THEN "^" ELSE "") \o Render(sp.p, 0) \o (IF sp.post THEN "$" ELSE "")

\* names: <<wallet, account>> with account a sequence of characters
NameText(n) == n[1] \o "/" \o Concat(n[2])

\* Env_WalletByName: both managers open the wallet named by the text before the slash, so the
\* wallet part of a specifier is a wallet name
Admits(sp, n) ==
    /\ sp.w = n[1]
    /\ sp.form \in {"wallet", "empty"} \/ Matches(sp.p, n[2])

AdmittedBy(cfgSeq, n) == \E k \in 1..Len(cfgSeq) : Admits(cfgSeq[k], n)

\* does the text of the account part put an alternation at the top (outside any parentheses)?
TopAlt(sp) == sp.form = "pat" /\ sp.p.t = "alt"

-----------------------------------------------------------------------------
(* (b) Validator lifecycle (beacon-API validator status).                                         *)
\* record: [index, elig, act, exit, wd, slashed, bal0]
\*   elig / act / exit / wd : activation-eligibility, activation, exit, withdrawable epoch (FFE = not set)
\*   bal0 : effective balance is zero
StateAt(r, e) ==
    IF r.act > e THEN (IF r.elig = FFE THEN "pending_initialized" ELSE "pending_queued")
    ELSE IF r.exit > e THEN (IF r.exit = FFE THEN "active_ongoing"
                             ELSE IF r.slashed THEN "active_slashed" ELSE "active_exiting")
    ELSE IF r.wd > e THEN (IF r.slashed THEN "exited_slashed" ELSE "exited_unslashed")
    ELSE IF r.bal0 THEN "withdrawal_done" ELSE "withdrawal_possible"

ValidatingStates == {"active_ongoing", "active_exiting"}
SyncStates == ValidatingStates \cup {"active_slashed", "exited_unslashed", "exited_slashed", "withdrawal_possible"}

\* the sentences of the property, without the state machine
ValidatingByWindow(r, e) == r.act <= e /\ e < r.exit /\ ~r.slashed
SyncByWindow(r, e) == r.act <= e /\ ~(r.wd <= e /\ r.bal0)

\* Env_WellFormedValidator: what the beacon chain can produce - epochs ordered, a slashed validator
\* has an exit epoch (slash_validator initiates the exit), withdrawable only after exit is set
WellFormed(r) ==
    /\ r.elig <= r.act /\ r.act <= r.exit /\ r.exit <= r.wd
    /\ r.slashed => r.exit # FFE
    /\ (r.exit = FFE) = (r.wd = FFE)
    /\ r.elig = FFE => r.act = FFE
    /\ r.act = FFE => r.exit = FFE

-----------------------------------------------------------------------------
(* The managers: TWO LONG-LIVED INSTANCES and the HISTORY of calls on them.                       *)
(*                                                                                                *)
(* The account manager (services/accountmanager/{wallet,dirk}) and the validators manager it is   *)
(* given (services/validatorsmanager/standard) are created once (Configure) and then live for the *)
(* whole run of Vouch.  A behaviour is a history of calls on that one pair of instances:          *)
(*   - Refresh, a periodic scheduler job ("Refresh accounts"), in two parts with their own,       *)
(*     independent outcomes: the accounts part (what the wallets / the remote signer offer now:   *)
(*     anything, including LESS than before) and the validators part (the beacon node answers,    *)
(*     fails, or answers with nothing);                                                           *)
(*   - the four queries, called by the duty jobs (attester, proposer, sync committee ...) that the *)
(*     scheduler runs NEXT TO the refresh job: a query may run between the two parts of a refresh *)
(*     and a refresh may run in full while a query is under way (QueryCall / QueryReturn).        *)
(*                                                                                                *)
(* Persistent is the state the property itself makes persistent; the reply to every query of the  *)
(* history is a function of the query's own arguments and of Persistent during the call - nothing *)
(* else that earlier calls left behind may show (ExactlyActive is stated for EVERY query).        *)
(* vals is the validators manager's table: it is NOT restricted to the known accounts - a table   *)
(* kept through a failed / empty refresh still holds the validators of accounts that are no       *)
(* longer known, and a request without keys is answered with every validator of the chain.        *)
VARIABLES mgr,     \* "wallet" | "dirk"
          cfg,     \* sequence of specifiers
          known,   \* account manager instance: the accounts it holds, set of names <<wallet, account>>
          vals,    \* validators manager instance: its table, function from a set of names to records
          ref,     \* the refresh job: idle, or between its accounts part and its validators part
          open,    \* a query under way (called, not yet returned) with what it may have seen
          last     \* last reply (observation only)

vars == <<mgr, cfg, known, vals, ref, open, last>>
Persistent == <<mgr, cfg, known, vals>>

NoVals == [n \in {} |-> 0]
NoReply == [op |-> "none"]
Idle == [st |-> "idle"]
Mid == [st |-> "mid"]
NoOpen == [st |-> "none"]

Init ==
    /\ mgr = "wallet"
    /\ cfg = <<>>
    /\ known = {}
    /\ vals = NoVals
    /\ ref = Idle
    /\ open = NoOpen
    /\ last = NoReply

\* a new pair of instances
Configure(m, c) ==
    /\ mgr' = m
    /\ cfg' = c
    /\ known' = {}
    /\ vals' = NoVals
    /\ ref' = Idle
    /\ open' = NoOpen
    /\ last' = NoReply

\* what a refresh of the accounts may leave behind, given what the wallets offer now.
\* (a) only offered accounts that a specifier admits are taken - the property does not oblige the manager
\*     to take every one of them;
\* (c) for the remote signer, fetching nothing keeps the old set.
AccountsAfter(m, c, old, offer) ==
    LET admitted == {n \in offer : AdmittedBy(c, n)}
    IN {k \in SUBSET admitted : m = "dirk" /\ old # {} => k # {}}
       \cup (IF m = "dirk" /\ old # {} THEN {old} ELSE {})

\* the validators refresh: the beacon node is asked for the known accounts' keys; out = [mode, recs]
\*   mode "err": the request fails; "ok": the node answers with recs restricted to the keys asked for
\*   (no keys = no filter, as the beacon API defines it)
Returned(k, out) == IF out.mode = "err" THEN {}
                    ELSE IF k = {} THEN DOMAIN out.recs ELSE k \cap DOMAIN out.recs

ValsAfter(m, old, k, out) ==
    IF m = "dirk" /\ k = {} THEN old                   \* dirk does not ask without accounts
    ELSE IF Returned(k, out) = {} THEN old             \* (c) nothing received: keep
    ELSE [n \in Returned(k, out) |-> out.recs[n]]

\* a query under way sees whatever the instances hold at some moment of the call
Saw(o, k, v) == IF o.st = "open" THEN [o EXCEPT !.ks = @ \cup {k}, !.vs = @ \cup {v}] ELSE o

\* Refresh, accounts part (refreshAccounts)
RefreshAccountsTo(offer, k) ==
    /\ ref = Idle
    /\ k \in AccountsAfter(mgr, cfg, known, offer)
    /\ known' = k
    /\ ref' = Mid
    /\ open' = Saw(open, k, vals)
    /\ last' = NoReply
    /\ UNCHANGED <<mgr, cfg, vals>>

\* Refresh, validators part (refreshValidators -> RefreshValidatorsFromBeaconNode)
RefreshValidators(out) ==
    /\ ref = Mid
    /\ vals' = ValsAfter(mgr, vals, known, out)
    /\ ref' = Idle
    /\ open' = Saw(open, known, vals')
    /\ last' = NoReply
    /\ UNCHANGED <<mgr, cfg, known>>

\* the whole refresh with nothing in between (the two parts as one step)
RefreshTo(offer, out, k) ==
    /\ ref = Idle
    /\ k \in AccountsAfter(mgr, cfg, known, offer)
    /\ known' = k
    /\ vals' = ValsAfter(mgr, vals, k, out)
    /\ open' = Saw(Saw(open, k, vals), k, vals')
    /\ last' = NoReply
    /\ UNCHANGED <<mgr, cfg, ref>>

Refresh(offer, out) == \E k \in AccountsAfter(mgr, cfg, known, offer) : RefreshTo(offer, out, k)

\* replies: set of <<validator index, name>>.  k: accounts held, v: the validators manager's table.
\* Only validators of HELD accounts count (Holders), whatever else the table holds; idxs (by-index forms)
\* may name anything: validators of others, of accounts no longer held, of nobody.
Holders(k, v) == k \cap DOMAIN v
ByIndexKinds == {"validating_by_index", "sync_by_index"}
ValidatingKinds == {"validating", "validating_by_index"}
Kinds == {"validating", "sync"} \cup ByIndexKinds
PlainOf(kind) == IF kind \in ValidatingKinds THEN "validating" ELSE "sync"

ReplyFor(kind, e, idxs, k, v) ==
    LET states == IF kind \in ValidatingKinds THEN ValidatingStates ELSE SyncStates
        byIdx  == kind \in ByIndexKinds
    IN {<<v[n].index, n>> : n \in {m \in Holders(k, v) :
                                      /\ StateAt(v[m], e) \in states
                                      /\ byIdx => v[m].index \in idxs}}

QueryRec(kind, e, idxs, reply, ks, vs) ==
    [op |-> "query", kind |-> kind, epoch |-> e, idxs |-> idxs, reply |-> reply, ks |-> ks, vs |-> vs]

\* a query with nothing in between call and return; possible at any point of the history, also
\* between the two parts of a refresh and while another query is under way
Query(kind, e, idxs) ==
    /\ last' = QueryRec(kind, e, idxs, ReplyFor(kind, e, idxs, known, vals), {known}, {vals})
    /\ UNCHANGED <<mgr, cfg, known, vals, ref, open>>

\* a query that other calls overlap: call ...
QueryCall(kind, e, idxs) ==
    /\ open = NoOpen
    /\ open' = [st |-> "open", kind |-> kind, epoch |-> e, idxs |-> idxs, ks |-> {known}, vs |-> {vals}]
    /\ UNCHANGED <<mgr, cfg, known, vals, ref, last>>

\* ... and return: the reply is exact for accounts and a table the instances held during the call
Permitted(o) == {ReplyFor(o.kind, o.epoch, o.idxs, k, v) : k \in o.ks, v \in o.vs}

QueryReturnWith(reply) ==
    /\ open.st = "open"
    /\ reply \in Permitted(open)
    /\ last' = QueryRec(open.kind, open.epoch, open.idxs, reply, open.ks, open.vs)
    /\ open' = NoOpen
    /\ UNCHANGED <<mgr, cfg, known, vals, ref>>

QueryReturn == open.st = "open" /\ \E reply \in Permitted(open) : QueryReturnWith(reply)

-----------------------------------------------------------------------------
(* Invariants.  All of them speak about the reply to the query at hand, whatever came before it   *)
(* in the history of the two instances.                                                           *)
\* (a) only configured accounts are ever held
OnlyConfigured == \A n \in known : AdmittedBy(cfg, n)

\* (b) a reply is exactly the known accounts whose validator is in the window, under its own index
\* (stated with the property's windows, while the actions use the beacon-API state machine)
WindowReply(kind, e, idxs, k, v) ==
    LET want(r) == IF kind \in ValidatingKinds THEN ValidatingByWindow(r, e) ELSE SyncByWindow(r, e)
    IN {<<v[n].index, n>> : n \in {m \in k \cap DOMAIN v :
                                       /\ want(v[m])
                                       /\ kind \in ByIndexKinds => v[m].index \in idxs}}

ExactlyActive ==
    last.op = "query" =>
        \E k \in last.ks, v \in last.vs : last.reply = WindowReply(last.kind, last.epoch, last.idxs, k, v)

\* (b) every entry of a reply is an account the manager held during the call - never a missing account
\* (a nil entry), never somebody else's validator - ...
NoStrangers == last.op = "query" => \A p \in last.reply : p[2] \in UNION last.ks

\* ... under the index the validators manager has for it, and a by-index reply only names what was asked
RightIndex ==
    last.op = "query" =>
        \A p \in last.reply : /\ \E v \in last.vs : p[2] \in DOMAIN v /\ v[p[2]].index = p[1]
                              /\ last.kind \in ByIndexKinds => p[1] \in last.idxs

\* (b) the by-index forms agree with the plain ones restricted to the indices asked for - as a law of
\* the reply function (MC_Accounts checks it in every reachable state for every index set of the model)
ByIndexAgreesFor(kind, e, idxs, k, v) ==
    ReplyFor(kind, e, idxs, k, v) = {p \in ReplyFor(PlainOf(kind), e, {}, k, v) : p[1] \in idxs}

\* (c) as an action property: a refresh that fetches nothing wipes nothing.  "Fetches nothing" is judged
\* on what the step leaves: the remote signer's accounts never go from something to nothing, the
\* validator table never goes from something to nothing.
\* (Configure starts a new pair of instances and is exempted where it occurs.)
NeverWipedStep ==
    /\ (mgr = "dirk" /\ known # {}) => known' # {}
    /\ (DOMAIN vals # {}) => DOMAIN vals' # {}
NeverWiped == [][NeverWipedStep]_vars
=============================================================================
