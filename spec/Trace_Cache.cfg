SPECIFICATION TraceSpec
CONSTANTS
  Roots = {1, 2, 3, 4}
  Slots = {0}
  Nows = {0}
  SlotsPerEpoch = 32
  NoRoot = 0
  HasPayload = {1, 2, 3}
  Deviation = "none"
  UseNodes = 0
  Retention = 64
INVARIANTS ExecHeadSound MapSound LookupRight ErrorNotSlot
PROPERTY TraceCleanOnlyOld
CONSTRAINT HWM
POSTCONDITION TraceAccepted
CHECK_DEADLOCK FALSE
