SPECIFICATION TraceSpec
CONSTANTS
  Groups = {"wallet", "blockrelay", "messenger", "controller", "cache", "validators", "attester", "registrar", "bids", "restcfg", "exechead", "syncagg", "bestvotes", "bidstrategy", "dirk", "syncduty", "attinfo", "builderclients"}
  Pinned = FALSE
  InPlace = FALSE
  Reuse = FALSE
  WideEnv = TRUE
  Share = "period"
  AliasWrite = "none"
  MaxPar = 3
INVARIANTS TypeOK Linearizable SharedImmutable
CONSTRAINT HWM
POSTCONDITION TraceAccepted
CHECK_DEADLOCK FALSE
