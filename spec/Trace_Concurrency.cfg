SPECIFICATION TraceSpec
CONSTANTS
  Groups = {"wallet", "blockrelay", "messenger", "controller", "cache", "validators", "attester"}
  Pinned = FALSE
  MaxPar = 3
INVARIANTS TypeOK Linearizable
CONSTRAINT HWM
POSTCONDITION TraceAccepted
CHECK_DEADLOCK FALSE
