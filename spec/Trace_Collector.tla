--------------------------- MODULE Trace_Collector ---------------------------
(* Trace specification for C07.  A scenario is a HISTORY of calls on one real strategy instance *)
(* (a single call on a fresh instance is the history of length one).  The Reset line of call 1  *)
(* is the construction of the instance; the Reset line of a further call must carry the same    *)
(* construction parameters (Persistent) - and nothing else links the calls: each is judged by   *)
(* Collector.tla from FreshCall with its own nodes' behaviour, whatever the instance has been   *)
(* through before and whatever other call was in flight beside it (calls that overlapped in     *)
(* real time are written one after the other: CollectorInst.tla - no step of one call reads or  *)
(* writes the other).  The object a call returns must be one a node gave in THIS call (`of`).   *)
(* One strategy call on the real code = two lines:                                              *)
(*   Reset   the configuration (variant, n, threshold, channel capacity, time-out T) and, for   *)
(*           every node, what its fake actually returned (kind, value, real score) and the      *)
(*           instant (ms after the call started) at which it returned;                          *)
(*   Return  what the strategy returned (ok/error, whose object or which value, missing data)   *)
(*           and the instant of the return.                                                     *)
(* Between the two lines the steps of Collector.tla are silent.  Every instant is classified    *)
(* relative to the soft (T/2) and hard (T) deadline as before / ambiguous (within Eps = 25 % of *)
(* T, at least 40 ms) / after; TLC chooses the phase of every ambiguous instant, the order of   *)
(* the nodes' answers and every `select`.  The call is accepted iff SOME such resolution makes  *)
(* Collector.tla return exactly what was observed, at a phase compatible with the observed      *)
(* return instant, which must not be later than T + Eps.                                        *)
EXTENDS Collector, TraceLib

VARIABLE l
tvars == <<vars, l>>

IsEvent(e) == l <= TraceLen /\ Trace[l].ev = e /\ l' = l + 1

Eps(T) == IF T \div 4 < 40 THEN 40 ELSE T \div 4

\* classification of an instant relative to a deadline D
Cls(t, D, T) == IF t < D - Eps(T) THEN "before" ELSE IF t > D + Eps(T) THEN "after" ELSE "amb"

\* phases an event observed at instant t may belong to
PhaseOK(f, t, T) ==
    CASE f = "early" -> Cls(t, T \div 2, T) # "after"
      [] f = "mid"   -> Cls(t, T \div 2, T) # "before" /\ Cls(t, T, T) # "after"
      [] f = "late"  -> Cls(t, T, T) # "before"

TraceInit ==
    /\ l = 1
    /\ variant = "First" /\ n = 1 /\ thr = 0 /\ cap = 1
    /\ beh = [p \in 1..1 |-> [k |-> "silent", v |-> 0, s |-> 0]]
    /\ ph = [p \in 1..1 |-> "late"]
    /\ InitCollector
    /\ InitHWM

\* a new strategy call: the nodes behave as their fakes were observed to
TraceReset ==
    /\ IsEvent("Reset")
    /\ LET r == Trace[l] IN
        /\ IF r.call = 1
           THEN \* a new instance
                variant' = r.variant /\ n' = r.n /\ thr' = r.thr /\ cap' = r.cap
           ELSE \* a further call on the same instance (Collector!NextCall, CollectorInst!StartOverlap)
                /\ l > 1 /\ Trace[l - 1].sc = r.sc
                /\ r.variant = variant /\ r.n = n /\ r.thr = thr /\ r.cap = cap
                /\ UNCHANGED Persistent
        \* every node is asked and answers, fails or stays silent: nothing else is a node's behaviour
        /\ \A p \in 1..r.n : r.obs[p].k \in {"valid", "invalid", "error", "silent"}
        /\ beh' = [p \in 1..r.n |-> [k |-> r.obs[p].k, v |-> r.obs[p].v, s |-> r.obs[p].s]]
        /\ ph' \in [1..r.n -> {"early", "mid", "late"}]
        /\ \A p \in 1..r.n : IF r.obs[p].k = "silent" THEN ph'[p] = "late"
                                                      ELSE PhaseOK(ph'[p], r.obs[p].t, r.T)
    /\ ResetCollector

\* while the call is in progress l points at its Return line and l - 1 at its Reset line
InCall == pc # "done" /\ l > 1 /\ l <= TraceLen /\ Trace[l].ev = "Return" /\ Trace[l - 1].ev = "Reset"

Silent(A) == InCall /\ A /\ l' = l

\* an answer the collector saw cannot have been given after the strategy returned
TraceRespond(p) == Silent(Respond(p)) /\ Trace[l - 1].obs[p].t <= Trace[l].t

Matches(res, r) ==
    /\ r.noreturn = FALSE
    /\ r.ok = (res.st = "ok")
    /\ r.ok => /\ r.nildata = FALSE
               /\ r.of = r.call                      \* an answer given in this call, not one the instance kept
               /\ IF variant \in {"Best", "First"} THEN res.p = r.who ELSE res.v = r.val

TraceReturn ==
    /\ InCall
    /\ LET T == Trace[l - 1].T
           r == Trace[l] IN
        /\ Cls(r.t, T, T) # "after"                     \* returned by T + Eps
        /\ PhaseOK(clock, r.t, T)
        /\ Return
        /\ Matches(result', r)
    /\ IsEvent("Return")

TraceNext ==
    \/ TraceReset
    \/ TraceReturn
    \/ \E p \in Provs : TraceRespond(p) \/ Silent(RecvResp(p)) \/ Silent(RecvErr(p))
    \/ Silent(SelectSoft) \/ Silent(SelectHard) \/ Silent(ExitLoop1)
    \/ Silent(SoftExpire) \/ Silent(HardExpire)

TraceSpec == TraceInit /\ [][TraceNext]_tvars

HWM == UpdateHWM(l)
TraceAccepted == TraceAcceptedUpTo
=============================================================================
