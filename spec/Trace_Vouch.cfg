SPECIFICATION TraceSpec
CONSTANTS
  Validators = {1, 2}
  P = 2
  StartSlot = 0
  MaxSlot = 40
  MaxVer = 8
  MaxReorgs = 100
  MaxHeads = 1000
  MaxSlow = 1000
  MaxLate = 1000
  MaxCarry = 1000
  MaxJobs = 28
  MinReorgEpoch = 0
  FTs = {TRUE, FALSE}
  Oracles = {}
  Late = 1000
  CancelRace = TRUE
  DeleteByName = FALSE
  Overlap = TRUE
  Failures = TRUE
  Fine = TRUE
  TickFirst = FALSE
  Reduce = FALSE
INVARIANTS TypeOK NoDoubleSignEnv SlotOnce CancelledNeverRuns TableExact PendingExact
CONSTRAINT HWM
POSTCONDITION TraceAccepted
CHECK_DEADLOCK FALSE
