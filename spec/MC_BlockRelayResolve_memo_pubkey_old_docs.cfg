SPECIFICATION Spec
CONSTANTS
  Vals = {1, 2}
  Relays = {1, 2}
  Nodes = {1, 2}
  DocIds = {4}
  Kinds = {"round", "prep", "fwd", "unblind", "auction", "bid"}
  Routes = {"epoch", "import"}
  Memo = "pubkey"
INVARIANTS TypeOK RegistrationsFollowConfig PreparationsFollowConfig ForwardedFollowConfig MemoOfForce
CHECK_DEADLOCK FALSE
