---------------------------- MODULE Scen_Bounded ----------------------------
(* Scenario generator of property C20: behaviours of Bounded (the environment's choices: duty        *)
(* patterns incl. epochs without duties, head events, their absence for whole epochs, reorgs that    *)
(* refresh - and so may withdraw - scheduled duties, node outages, aggregation or not) with a       *)
(* history variable.  A behaviour is printed when the clock has reached MaxSlot and the last slot's *)
(* jobs have run.  TLC runs it in simulation mode (seeded); the Go drivers replay the steps on the  *)
(* real services.                                                                                   *)
EXTENDS Bounded, Json

VARIABLES hist, fin
svars == <<vars, hist, fin>>

H(e) == hist' = Append(hist, e) /\ UNCHANGED fin

SInit ==
    /\ Init
    /\ fin = FALSE
    /\ hist = <<[ev |-> "Reset", p |-> P, ep |-> EP, verify |-> verify, agg |-> aggmode, now |-> now, fam |-> env.fam]>>

E0 == Epoch(now)

SNext ==
    /\ ~fin
    /\ \/ \E d0, d1 \in AllDuties : NStart(d0, d1) /\ H([ev |-> "Start", d0 |-> d0, d1 |-> d1])
       \/ NTick /\ H([ev |-> "Tick"])
       \/ \E d \in AllDuties : NPrepare(d) /\ H([ev |-> "Prepare", e |-> E0 + 1, d |-> d])
       \/ \E F \in SUBSET {E0, E0 + 1} : \E d0, d1 \in AllDuties :
            /\ NHead(F, d0, d1)
            /\ H([ev |-> "Head",
                  r |-> (IF E0 \in F THEN <<E0>> ELSE <<>>) \o (IF (E0 + 1) \in F THEN <<E0 + 1>> ELSE <<>>),
                  dm |-> (IF E0 \in F THEN <<d0>> ELSE <<>>) \o (IF (E0 + 1) \in F THEN <<d1>> ELSE <<>>)])
       \/ \E ok \in BOOLEAN : NAttStart(ok) /\ H([ev |-> "Att", s |-> now, ok |-> ok])
       \/ NAttEnd /\ UNCHANGED <<hist, fin>>
       \/ \E ok \in BOOLEAN : NSyncMsg(ok) /\ H([ev |-> "SyncMsg", s |-> now, ok |-> ok])
       \/ NSyncAgg /\ H([ev |-> "SyncAgg", s |-> now])
       \/ NAdvance /\ H([ev |-> "Advance"])
       \/ NAuction /\ H([ev |-> "Auction", s |-> now])
       \/ /\ now = MaxSlot /\ (env.fam # "bids" => up /\ SlotDone)
          /\ fin' = TRUE
          /\ UNCHANGED <<vars, hist>>

SSpec == SInit /\ [][SNext]_svars

Emit == fin => PrintT(ToJson(hist))
=============================================================================
