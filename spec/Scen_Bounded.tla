---------------------------- MODULE Scen_Bounded ----------------------------
(* Scenario generator of property C20: behaviours of Bounded (the environment's choices: duty        *)
(* patterns incl. epochs without duties, head events, their absence for whole epochs, reorgs that    *)
(* refresh - and so may withdraw - scheduled duties, also while an attestation job is running and   *)
(* with the node's answer arriving late, node outages, aggregation or not; sync committee message  *)
(* jobs, auctions, subscriptions and attestation jobs whose answer the node keeps back for k slots  *)
(* - up to several epochs - while the calls of later slots run, so that calls complete out of slot  *)
(* order on the one set of service instances) with a                                                *)
(* history variable.  A behaviour is printed when the clock has reached MaxSlot and the last slot's *)
(* jobs have run.  TLC runs it in simulation mode (seeded); the Go drivers replay the steps on the  *)
(* real services.                                                                                   *)
EXTENDS Bounded, Json

CONSTANT Focus     \* TRUE: the generator only keeps behaviours in which the attester duties of the current
                   \* epoch are refreshed WHILE an attestation job of that epoch is running (the in-flight batch)
CONSTANT FocusPasses   \* TRUE: every scheduling pass that may be kept back is (start-up, Prepare, refreshes), so
                       \* that the passes for one epoch overlap wherever MaxPasses / MaxHeads allow (the passes batch)

VARIABLES hist, fin
svars == <<vars, hist, fin>>

H(e) == hist' = Append(hist, e) /\ UNCHANGED fin

SInit ==
    /\ Init
    /\ fin = FALSE
    /\ hist = <<[ev |-> "Reset", p |-> P, ep |-> EP, g |-> G, verify |-> verify, agg |-> aggmode, now |-> now, fam |-> env.fam]>>

E0 == Epoch(now)

SNext ==
    /\ ~fin
    /\ \/ \E d0, d1 \in AllDuties : \E split \in BOOLEAN :
            /\ NStart(d0, d1, split)
            /\ (FocusPasses /\ "start" \in HoldKinds) => split
            /\ H([ev |-> "Start", d0 |-> d0, d1 |-> d1, split |-> split])
       \/ NTick /\ H([ev |-> "Tick"])
       \/ \E d \in AllDuties : \E k \in SubLates : \E w \in BOOLEAN :
            /\ NPrepare(d, k, w)
            /\ (FocusPasses /\ "prepare" \in HoldKinds) => w
            /\ H([ev |-> "Prepare", e |-> E0 + 1, d |-> d, k |-> k, split |-> w])
       \/ \E r \in env.subdue : NSubEnd(r) /\ H([ev |-> "SubEnd", e |-> r.s])
       \/ \E F \in SUBSET {E0, E0 + 1} : \E d0, d1 \in AllDuties : \E split \in BOOLEAN :
            /\ NHead(F, d0, d1, split)
            /\ (Focus /\ E0 \in F) => (\E s \in running : Epoch(s) = E0)
            /\ Focus => now \notin attjobs          \* the slot's head event comes after its job has started
            /\ (FocusPasses /\ F # {}) => split      \* every refresh's pass is kept back: passes overlap
            \* (the code compares the roots of a head event with those of the one before: no refresh on the first)
            /\ (FocusPasses /\ F # {}) => \E i \in DOMAIN hist : hist[i].ev = "Head"
            /\ H([ev |-> "Head", split |-> split,
                  r |-> (IF E0 \in F THEN <<E0>> ELSE <<>>) \o (IF (E0 + 1) \in F THEN <<E0 + 1>> ELSE <<>>),
                  dm |-> (IF E0 \in F THEN <<d0>> ELSE <<>>) \o (IF (E0 + 1) \in F THEN <<d1>> ELSE <<>>)])
       \/ \E r \in env.refr : NPassEnd(r) /\ H([ev |-> "Resched", e |-> r.e, n |-> r.n])
       \/ \E ok \in BOOLEAN : \E k \in AttLates : NAttStart(ok, k) /\ H([ev |-> "AttStart", s |-> now, ok |-> ok, k |-> k])
       \/ \E s \in running : NAttEnd(s) /\ H([ev |-> "AttEnd", s |-> s])
       \/ NProbe /\ hist[Len(hist)].ev # "Probe" /\ (running \ AttHeld) # {} /\ H([ev |-> "Probe"])
       \/ \E k \in MsgLates : NMsgStart(k) /\ H([ev |-> "MsgStart", s |-> now, k |-> k])
       \/ \E r \in env.msgdue : \E ok \in BOOLEAN : NMsgEnd(r, ok) /\ H([ev |-> "MsgEnd", s |-> r.s, ok |-> ok])
       \/ \E s \in env.aggdue : NSyncAgg(s) /\ H([ev |-> "SyncAgg", s |-> s])
       \/ NAdvance /\ H([ev |-> "Advance"])
       \/ \E k \in AucLates : NAucStart(k) /\ H([ev |-> "AucStart", s |-> now, k |-> k])
       \/ \E r \in env.aucdue : NAucEnd(r) /\ H([ev |-> "AucEnd", s |-> r.s])
       \/ /\ now = MaxSlot /\ (env.fam # "bids" => up /\ SlotDone) /\ AtRest
          /\ fin' = TRUE
          /\ UNCHANGED <<vars, hist>>

SSpec == SInit /\ [][SNext]_svars

Emit == fin => PrintT(ToJson(hist))
=============================================================================
