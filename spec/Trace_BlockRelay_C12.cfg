SPECIFICATION TraceSpec
CONSTANTS
  Validators = {1, 2}
  Externals = {3}
  Relays = {1, 2}
  Nodes = {1, 2}
  DocIds = {1, 2, 3, 4, 5, 6}
  FailKinds = {"error", "malformed", "empty"}
  Ops = {1, 2, 3, 4, 5, 6, 7, 8}
  MaxInFlight = 8
  AuctionImpl = "intended"
  Resolution = "locked"
  MaxRounds = 0
INVARIANTS TypeOKC12 KeepsLastGood FallbackWhenNone AnswersRight AnswersInForce LockBalanced LockAccounting
CONSTRAINT HWM
POSTCONDITION TraceAccepted
CHECK_DEADLOCK FALSE
