SPECIFICATION Spec
CONSTANTS
  MaxN = 3
  Kinds = {"first"}
  CapOne = TRUE
  AllFailedReturns = TRUE
  Retries = 3
INVARIANTS NoBlockedSender
CHECK_DEADLOCK FALSE
