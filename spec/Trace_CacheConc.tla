--------------------------- MODULE Trace_CacheConc ---------------------------
(* Concurrent histories of the block-root cache (C18 under the overlaps production creates:      *)
(* the periodic cleaner next to block events and lookups).  The cache's operations are atomic    *)
(* in Cache.tla; a concurrent history of the real service is accepted iff it is linearizable:    *)
(* every operation takes effect (silent step Lin) at one instant between its Call line and its   *)
(* Ret line, and its reply is the one Cache.tla gives at that instant.  After the overlap the     *)
(* driver probes every root sequentially (Lookup lines as in Trace_Cache): an entry that a       *)
(* block event announced and that is inside the retention window must still be there.            *)
EXTENDS Cache, TraceLib

VARIABLES l, pend, res
tvars == <<vars, l, pend, res>>

TraceInit ==
    /\ l = 1 /\ chain = [r \in Roots |-> 0] /\ map = Empty /\ now = 0 /\ last = NoReply
    /\ parent = [r \in Roots |-> NoRoot] /\ ehead = NoRoot /\ heads = {}
    /\ pend = {} /\ res = <<>>
    /\ InitHWM

Line == Trace[l]
IsEvent(e) == l <= TraceLen /\ Line.ev = e /\ l' = l + 1

LoggedMap(line) == LET ps == SeqToSet(line.map) IN [r \in {p[1] : p \in ps} |-> (CHOOSE p \in ps : p[1] = r)[2]]

TraceReset ==
    /\ IsEvent("Reset")
    /\ chain' = [r \in Roots |-> Line.chain[r]]
    /\ map' = Empty /\ now' = Line.now /\ last' = NoReply
    /\ parent' = [r \in Roots |-> IF "parent" \in DOMAIN Line THEN Line.parent[r] ELSE NoRoot] /\ ehead' = NoRoot /\ heads' = {}
    /\ pend' = {} /\ res' = <<>>

\* the driver is about to call the operation
TCall ==
    /\ IsEvent("Call")
    /\ pend' = pend \cup {[id |-> Line.id, op |-> Line.op, root |-> Line.root]}
    /\ UNCHANGED <<vars, res>>

\* the operation takes effect
Lin ==
    /\ l <= TraceLen
    /\ \E o \in pend :
         /\ \/ o.op = "event" /\ BlockEvent(o.root)
            \/ o.op = "headreq" /\ UNCHANGED vars     \* a request to the header provider that does not touch the cache
            \/ o.op = "ctlevent" /\ CtlBlockEvent(o.root)
            \/ o.op = "head" /\ HeadEvent(o.root, TRUE)
            \/ o.op = "clean" /\ Clean
            \/ o.op = "lookup" /\ (LookupHit(o.root) \/ LookupMissOk(o.root) \/ LookupMissErr(o.root))
         /\ pend' = pend \ {o}
         /\ res' = [i \in (DOMAIN res) \cup {o.id} |-> IF i = o.id THEN last' ELSE res[i]]
    /\ UNCHANGED l

\* the call returned: it has taken effect and (for lookups) replied what the cache replies
TRet ==
    /\ IsEvent("Ret")
    /\ Line.id \in DOMAIN res
    /\ \A o \in pend : o.id # Line.id
    /\ (Line.op = "lookup") => (res[Line.id].ok = Line.ok /\ res[Line.id].slot = Line.slot)
    /\ UNCHANGED <<vars, pend, res>>

\* sequential probe after the overlap (nothing pending)
TLookup ==
    /\ IsEvent("Lookup") /\ pend = {}
    /\ LET r == Line.root IN
         \/ Line.fetch = "none" /\ LookupHit(r)
         \/ Line.fetch = "ok" /\ LookupMissOk(r)
         \/ Line.fetch = "err" /\ LookupMissErr(r)
    /\ last'.ok = Line.ok /\ last'.slot = Line.slot
    /\ map' = LoggedMap(Line)
    /\ UNCHANGED <<pend, res>>

TAdvance ==
    /\ IsEvent("Advance") /\ pend = {}
    /\ now' = Line.now /\ last' = NoReply
    /\ UNCHANGED <<chain, parent, map, ehead, heads, pend, res>>

TraceNext == TraceReset \/ TCall \/ Lin \/ TRet \/ TLookup \/ TAdvance
TraceSpec == TraceInit /\ [][TraceNext]_tvars

HWM == UpdateHWM(l)
TraceAccepted == TraceAcceptedUpTo
=============================================================================
