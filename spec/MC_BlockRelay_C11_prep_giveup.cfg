SPECIFICATION SpecC11PrepGiveUp
CONSTANTS
  Validators = {1, 2}
  Externals = {3}
  Relays = {1, 2}
  Nodes = {1, 2, 3}
  DocIds = {2, 3}
  FailKinds = {"error"}
  Ops = {}
  MaxInFlight = 0
  AuctionImpl = "intended"
  Resolution = "locked"
  MaxRounds = 2

INVARIANTS TypeOKC11 PreparationIsolated
CONSTRAINT RoundBound
CONSTRAINT NoLane2
CHECK_DEADLOCK FALSE
