SPECIFICATION LSpec
CONSTANTS
  Ops = {1, 2}
  MaxInFlight = 2
  Kinds = {"fetch", "lookup", "auction", "bbid", "register", "vreg"}
  Keys = {1}
  Install = "flush_after"
  BidImpl = "asis"
INVARIANTS TypeOKL NoDeadlock ReturnsClean LockBalanced LockAccounting
PROPERTY NoWedge
CHECK_DEADLOCK FALSE
