SPECIFICATION Spec
CONSTANTS
  Vals = {1, 2}
  Relays = {1, 2}
  Nodes = {1, 2}
  DocIds = {1, 2, 3, 5}
  Kinds = {"round", "prep", "fwd"}
  Routes = {"epoch", "import"}
  Memo = "pubkey"
INVARIANTS TypeOK RegistrationsFollowConfig PreparationsFollowConfig ForwardedFollowConfig MemoOfForce
CHECK_DEADLOCK FALSE
