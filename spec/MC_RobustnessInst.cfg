SPECIFICATION Spec
CONSTANTS
  EPs = {"execservice", "builderbid", "proposer", "mergeduties", "proposalbest", "cacheevents"}
  MaxCalls = 3
  MaxInFlight = 2
INVARIANTS TypeOK KeepsRunning EndsProperly HistoryIndependent AuxFaultsSurvived BoundedOverlap Total
CHECK_DEADLOCK FALSE
