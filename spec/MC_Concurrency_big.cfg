SPECIFICATION Spec
CONSTANTS
  Groups = {"wallet", "blockrelay", "messenger", "controller", "cache", "validators", "attester", "registrar", "bids", "restcfg", "exechead", "syncagg", "bestvotes", "bidstrategy", "dirk"}
  Pinned = FALSE
  InPlace = FALSE
  Reuse = FALSE
  WideEnv = TRUE
  Share = "period"
  AliasWrite = "none"
  MaxPar = 3
INVARIANTS TypeOK Linearizable Disciplined
CONSTRAINT Bounded
CHECK_DEADLOCK FALSE
