SPECIFICATION Spec
CONSTANTS
  Groups = {"wallet", "blockrelay", "messenger", "controller", "cache", "validators", "attester"}
  Pinned = FALSE
  MaxPar = 3
INVARIANTS TypeOK Linearizable Disciplined
CONSTRAINT Bounded
CHECK_DEADLOCK FALSE
