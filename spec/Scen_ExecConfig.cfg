SPECIFICATION SSpec
CONSTANTS
  Pairs = FALSE
  Wide = FALSE
INVARIANTS Emit
CHECK_DEADLOCK FALSE
