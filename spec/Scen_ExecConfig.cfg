SPECIFICATION SSpec
CONSTANTS
  Pairs = FALSE
  SampleOneIn = 1
  Wide = FALSE
INVARIANTS Emit
CHECK_DEADLOCK FALSE
