------------------------- MODULE Scen_BlockRelay_C11 -------------------------
(* Scenario generator for C11.  A scenario is a sequence of inputs to the block relay and the     *)
(* proposal preparer: configuration fetches (ConfigFetch of BlockRelay decides what is active),   *)
(* registration rounds with the accounts and the failing signing requests / relays / nodes,       *)
(* preparation rounds with the nodes' replies, and registrations arriving over REST - each with   *)
(* a latency script (lat) that decides how the calls of a fan-out overlap: "none" = every relay   *)
(* and node answers at once; "slow" = the failing ones answer at once, the healthy ones only      *)
(* afterwards (the schedule RelayStart(a) RelayStart(b) RelayFinish(a,"err") ... RelayFinish(b)   *)
(* of BlockRelay); "batched" = as slow, and a relay receives its payload one registration at a    *)
(* time (RelayDeliver per registration).  What the                                                *)
(* code does inside a round (order of signing requests and of the parallel submissions) is the    *)
(* code's own nondeterminism: it is recorded in the trace and judged by Trace_BlockRelay_C11.     *)
(* nk is the kind of the next step, chosen one step ahead so that TLC's uniform choice among      *)
(* successor states is uniform over the kinds and not over their (many) parameters.               *)
EXTENDS BlockRelay, Json

CONSTANTS ScenLen,      \* steps per scenario
          MaxSignFail,  \* failing signing requests per round
          Matrix,       \* TRUE: the scenarios are "fetch a document ; one round with every failure combination"
          History       \* TRUE: the scenarios are "(fetch a document ; round of all accounts) x ScenLen/2", every sequence

VARIABLES hist, nk
svars == <<vars, hist, nk>>

DocJson(k) == LET d == Catalogue(k) IN
    [id |-> k, bad |-> d.bad,
     vals |-> {[v |-> v, fee |-> d.vfee[v], rel |-> d.rel[v]] : v \in {1, 2, 3} \ d.bad}]

\* weights of the kinds: 3 fetches : 4 registration rounds : 1 preparation round : 1 forwarding
KindOf(n) == CASE n <= 3 -> "Fetch" [] n <= 7 -> "Round" [] n = 8 -> "Prep" [] OTHER -> "Fwd"

SInit ==
    /\ Init
    /\ hist = <<[ev |-> "Reset", docs |-> {DocJson(k) : k \in DocIds}]>>
    /\ nk = 1

H(e) == hist' = Append(hist, e)

\* <<v, fee, gas>> the active configuration wants signed for these accounts
WantedPairs(accts) ==
    UNION {{<<v, t[2], t[3]>> : t \in Resolve(active, v).rel} : v \in {a \in accts : Resolve(active, a).ok}}

AcctSets == (SUBSET Validators) \ {{}}
Lats == {"none", "slow", "batched"}

FetchStep ==
    \E out \in Outcomes :
        /\ ConfigFetch(out)
        /\ H([ev |-> "Fetch", out |-> out.t, doc |-> out.doc])

RoundStep ==
    \E accts \in IF Matrix THEN {Validators} ELSE AcctSets :
      \E sf \in {S \in SUBSET WantedPairs(accts) : Cardinality(S) <= MaxSignFail},
         rf \in SUBSET Relays, nf \in SUBSET Nodes, lat \in Lats :
        /\ H([ev |-> "Round", accts |-> accts, signfail |-> sf, relayfail |-> rf, nodefail |-> nf, lat |-> lat])
        /\ UNCHANGED vars

PrepStep ==
    \E accts \in AcctSets, po \in [Nodes -> {"ok", "err", "notactive"}], lat \in {"none", "slow"} :
        /\ H([ev |-> "Prep", accts |-> accts, nodeout |-> {<<n, po[n]>> : n \in Nodes}, lat |-> lat])
        /\ UNCHANGED vars

FwdStep ==
    \E regs \in {S \in SUBSET FwdCandidates : Cardinality(S) \in 1..3}, rf \in SUBSET Relays, lat \in Lats :
        /\ H([ev |-> "Fwd", regs |-> {<<x.v, x.fee, x.gas>> : x \in regs}, relayfail |-> rf, lat |-> lat])
        /\ UNCHANGED vars

\* TLC's simulator evaluates the invariants on every candidate successor: the closing step has a single
\* successor, so that exactly the behaviours that were walked are printed
EndStep == Len(hist) = ScenLen + 1 /\ H([ev |-> "End"]) /\ nk' = nk /\ UNCHANGED vars

SNext ==
  \/ EndStep
  \/
    /\ Len(hist) <= ScenLen
    /\ IF History
       THEN /\ \/ Len(hist) % 2 = 1 /\ (\E k \in DocIds : ConfigFetch([t |-> "good", doc |-> k])
                                                         /\ H([ev |-> "Fetch", out |-> "good", doc |-> k]))
               \/ Len(hist) % 2 = 0 /\ H([ev |-> "Round", accts |-> Validators, signfail |-> {}, relayfail |-> {}, nodefail |-> {}, lat |-> "none"])
                                      /\ UNCHANGED vars
            /\ nk' = nk
       ELSE IF Matrix
       THEN /\ \/ Len(hist) = 1 /\ (\E k \in DocIds : ConfigFetch([t |-> "good", doc |-> k])
                                                     /\ H([ev |-> "Fetch", out |-> "good", doc |-> k]))
               \/ Len(hist) = 2 /\ RoundStep
            /\ nk' = nk
       ELSE /\ \/ KindOf(nk) = "Fetch" /\ FetchStep
               \/ KindOf(nk) = "Round" /\ RoundStep
               \/ KindOf(nk) = "Prep" /\ PrepStep
               \/ KindOf(nk) = "Fwd" /\ FwdStep
            /\ nk' \in 1..9

SSpec == SInit /\ [][SNext]_svars

Emit == (Len(hist) = ScenLen + 2) => PrintT(ToJson(SubSeq(hist, 1, ScenLen + 1)))
=============================================================================
