------------------------- MODULE Scen_BlockRelay_C11 -------------------------
(* Scenario generator for C11.  A scenario is a sequence of inputs to the block relay and the     *)
(* proposal preparer: configuration fetches (ConfigFetch of BlockRelay decides what is active),   *)
(* registration rounds with the accounts and the failing signing requests / relays / nodes,       *)
(* preparation rounds with the nodes' replies, and registrations arriving over REST - each with   *)
(* a latency script (lat) that decides how the calls of a fan-out overlap: "none" = every relay   *)
(* and node answers at once; "slow" = the failing ones answer at once, the healthy ones only      *)
(* afterwards (the schedule RelayStart(a) RelayStart(b) RelayFinish(a,"err") ... RelayFinish(b)   *)
(* of BlockRelay); "batched" = as slow, and a relay receives its payload one registration at a    *)
(* time (RelayDeliver per registration).  What the                                                *)
(* code does inside a round (order of signing requests and of the parallel submissions) is the    *)
(* code's own nondeterminism: it is recorded in the trace and judged by Trace_BlockRelay_C11.     *)
(* nk is the kind of the next step, chosen one step ahead so that TLC's uniform choice among      *)
(* successor states is uniform over the kinds and not over their (many) parameters.               *)
(*                                                                                                *)
(* Histories on ONE instance.  Every scenario is run on one service instance, step after step, so  *)
(* whatever a step leaves behind on the instance meets the following steps.  Two scripted families  *)
(* make that systematic:                                                                           *)
(*   Script = "after"   Fetch(k) ; Round(every combination of failing signing request / relays /    *)
(*                      nodes, every latency script) ; Round(no failure) ; Fwd ; Round(no failure):  *)
(*                      the rounds AFTER a round with failures must complete and deliver like any    *)
(*                      other (FailureIsolated / RegistrationExact / ForwardedAll; RoundReturns)     *)
(*   Script = "window"  the overlap: Fetch(k) ; Round(lat = "held": the healthy relays keep the       *)
(*                      round's calls in flight) ; inside that window a REST forwarding call         *)
(*                      (Fwd2 = the second lane F2.. of BlockRelay) and a fetch of another document,   *)
(*                      in either order, run to completion ; Release ; Round.  If the nested call     *)
(*                      cannot finish while the round is held (a design that lets only one            *)
(*                      submission per relay run at a time) the driver lets the round go first.       *)
(* In the simulated histories a round with lat = "held" opens such a window for the next one or two    *)
(* steps (win).                                                                                     *)
EXTENDS BlockRelay, Json

CONSTANTS ScenLen,      \* steps per scenario
          MaxSignFail,  \* failing signing requests per round
          Matrix,       \* TRUE: the scenarios are "fetch a document ; one round with every failure combination"
          History,      \* TRUE: the scenarios are "(fetch a document ; round of all accounts) x ScenLen/2", every sequence
          Script        \* "none" | "after" | "window" (see above)

VARIABLES hist, nk,
          win           \* 0: no window; n > 0: inside the window of a held round, n nested steps to go; -1: Release is due
svars == <<vars, hist, nk, win>>

DocJson(k) == LET d == Catalogue(k) IN
    [id |-> k, bad |-> d.bad,
     vals |-> {[v |-> v, fee |-> d.vfee[v], rel |-> d.rel[v]] : v \in {1, 2, 3} \ d.bad}]

\* weights of the kinds: 3 fetches : 4 registration rounds : 1 preparation round : 1 forwarding
KindOf(n) == CASE n <= 3 -> "Fetch" [] n <= 7 -> "Round" [] n = 8 -> "Prep" [] OTHER -> "Fwd"

SInit ==
    /\ Init
    /\ hist = <<[ev |-> "Reset", docs |-> {DocJson(k) : k \in DocIds}]>>
    /\ nk = 1
    /\ win = 0

H(e) == hist' = Append(hist, e)

\* <<v, fee, gas>> the active configuration wants signed for these accounts
WantedPairs(accts) ==
    UNION {{<<v, t[2], t[3]>> : t \in Resolve(active, v).rel} : v \in {a \in accts : Resolve(active, a).ok}}

AcctSets == (SUBSET Validators) \ {{}}
Lats == {"none", "slow", "batched"}

FetchStep ==
    \E out \in Outcomes :
        /\ ConfigFetch(out) /\ UNCHANGED devVars
        /\ H([ev |-> "Fetch", out |-> out.t, doc |-> out.doc])

RoundStep ==
    \E accts \in IF Matrix THEN {Validators} ELSE AcctSets :
      \E sf \in {S \in SUBSET WantedPairs(accts) : Cardinality(S) <= MaxSignFail},
         rf \in SUBSET Relays, nf \in SUBSET Nodes, lat \in Lats \cup (IF Matrix THEN {} ELSE {"held"}) :
        /\ H([ev |-> "Round", accts |-> accts, signfail |-> sf, relayfail |-> rf, nodefail |-> nf, lat |-> lat])
        /\ win' = IF lat = "held" THEN 1 + (Cardinality(rf) % 2) ELSE 0
        /\ UNCHANGED vars

\* a REST forwarding call inside the window of a held round (the second lane of BlockRelay)
Fwd2Step ==
    \E regs \in {S \in SUBSET FwdCandidates : Cardinality(S) \in 1..2}, rf \in SUBSET Relays :
        /\ H([ev |-> "Fwd2", regs |-> {<<x.v, x.fee, x.gas>> : x \in regs}, relayfail |-> rf, lat |-> "none"])
        /\ UNCHANGED vars

ReleaseStep == H([ev |-> "Release"]) /\ UNCHANGED vars

PrepStep ==
    \E accts \in AcctSets, po \in [Nodes -> {"ok", "err", "notactive"}], lat \in {"none", "slow"} :
        /\ H([ev |-> "Prep", accts |-> accts, nodeout |-> {<<n, po[n]>> : n \in Nodes}, lat |-> lat])
        /\ UNCHANGED vars

FwdStep ==
    \E regs \in {S \in SUBSET FwdCandidates : Cardinality(S) \in 1..3}, rf \in SUBSET Relays, lat \in Lats :
        /\ H([ev |-> "Fwd", regs |-> {<<x.v, x.fee, x.gas>> : x \in regs}, relayfail |-> rf, lat |-> lat])
        /\ UNCHANGED vars

\* TLC's simulator evaluates the invariants on every candidate successor: the closing step has a single
\* successor, so that exactly the behaviours that were walked are printed
Ended == Len(hist) > 1 /\ hist[Len(hist)].ev = "End"
EndStep == Len(hist) >= ScenLen + 1 /\ win = 0 /\ ~Ended /\ H([ev |-> "End"]) /\ nk' = nk /\ UNCHANGED <<vars, win>>

\* ---- the scripted families (a whole history in one step; nothing of BlockRelay's state is needed) ----
WantedOf(d, accts) ==
    UNION {{<<v, t[2], t[3]>> : t \in Resolve(d, v).rel} : v \in {a \in accts : Resolve(d, a).ok}}
Rnd(sf, rf, nf, lat) == [ev |-> "Round", accts |-> Validators, signfail |-> sf, relayfail |-> rf, nodefail |-> nf, lat |-> lat]
Fet(k) == [ev |-> "Fetch", out |-> "good", doc |-> k]
\* one registration of a validator Vouch holds (dropped once a round has run) and one of an external validator
ScriptRegs == {<<1, 2, 2>>, <<3, 1, 1>>}

AfterHist(k, sf, rf, nf, lat) ==
    <<Fet(k), Rnd(sf, rf, nf, lat), Rnd({}, {}, {}, "none"),
      [ev |-> "Fwd", regs |-> ScriptRegs, relayfail |-> {}, lat |-> "none"], Rnd({}, {}, {}, "slow")>>

WindowHist(k, k2, rf, rf2, fwdFirst) ==
    LET f2 == [ev |-> "Fwd2", regs |-> ScriptRegs, relayfail |-> rf2, lat |-> "none"] IN
    <<Fet(k), Rnd({}, rf, {}, "held")>>
    \o (IF fwdFirst THEN <<f2, Fet(k2)>> ELSE <<Fet(k2), f2>>)
    \o <<[ev |-> "Release"], Rnd({}, {}, {}, "none")>>

ScriptStep ==
    /\ Len(hist) = 1
    /\ \/ /\ Script = "after"
          /\ \E k \in DocIds, rf \in SUBSET Relays, nf \in SUBSET Nodes, lat \in Lats :
               \E sf \in {S \in SUBSET WantedOf(k, Validators) : Cardinality(S) <= MaxSignFail} :
                  hist' = hist \o AfterHist(k, sf, rf, nf, lat)
       \/ /\ Script = "window"
          /\ \E k \in DocIds, k2 \in DocIds, rf \in SUBSET Relays, rf2 \in {{}, {2}}, fwdFirst \in BOOLEAN :
                  hist' = hist \o WindowHist(k, k2, rf, rf2, fwdFirst)
    /\ UNCHANGED <<vars, nk, win>>

SNext ==
  \/ EndStep
  \/ Script # "none" /\ ScriptStep
  \/
    /\ Script = "none"
    /\ Len(hist) <= ScenLen \/ win # 0
    /\ ~Ended
    /\ IF History
       THEN /\ \/ Len(hist) % 2 = 1 /\ (\E k \in DocIds : ConfigFetch([t |-> "good", doc |-> k]) /\ UNCHANGED devVars
                                                         /\ H([ev |-> "Fetch", out |-> "good", doc |-> k]))
               \/ Len(hist) % 2 = 0 /\ H([ev |-> "Round", accts |-> Validators, signfail |-> {}, relayfail |-> {}, nodefail |-> {}, lat |-> "none"])
                                      /\ UNCHANGED vars
            /\ nk' = nk /\ win' = 0
       ELSE IF Matrix
       THEN /\ \/ Len(hist) = 1 /\ (\E k \in DocIds : ConfigFetch([t |-> "good", doc |-> k]) /\ UNCHANGED devVars
                                                     /\ H([ev |-> "Fetch", out |-> "good", doc |-> k])) /\ win' = 0
               \/ Len(hist) = 2 /\ RoundStep
            /\ nk' = nk
       ELSE /\ \/ win = 0 /\ KindOf(nk) = "Fetch" /\ FetchStep /\ win' = 0
               \/ win = 0 /\ KindOf(nk) = "Round" /\ RoundStep
               \/ win = 0 /\ KindOf(nk) = "Prep" /\ PrepStep /\ win' = 0
               \/ win = 0 /\ KindOf(nk) = "Fwd" /\ FwdStep /\ win' = 0
               \* inside the window of a held round: a fetch or a REST forwarding call, then the release
               \/ win > 0 /\ (FetchStep \/ Fwd2Step) /\ win' = IF win = 1 THEN -1 ELSE win - 1
               \/ win = -1 /\ ReleaseStep /\ win' = 0
            /\ nk' \in 1..9

SSpec == SInit /\ [][SNext]_svars

Emit == Ended => PrintT(ToJson(SubSeq(hist, 1, Len(hist) - 1)))
=============================================================================
