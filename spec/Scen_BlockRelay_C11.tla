------------------------- MODULE Scen_BlockRelay_C11 -------------------------
(* Scenario generator for C11.  A scenario is a sequence of inputs to the block relay and the     *)
(* proposal preparer: configuration fetches (ConfigFetch of BlockRelay decides what is active),   *)
(* registration rounds with the accounts and the failing signing requests / relays / nodes,       *)
(* preparation rounds with the nodes' replies, and registrations arriving over REST - each with   *)
(* a latency script (lat) that decides how the calls of a fan-out overlap: "none" = every relay   *)
(* and node answers at once; "slow" = the failing ones answer at once, the healthy ones only      *)
(* afterwards (the schedule RelayStart(a) RelayStart(b) RelayFinish(a,"err") ... RelayFinish(b)   *)
(* of BlockRelay); "batched" = as slow, and a relay receives its payload one registration at a    *)
(* time (RelayDeliver per registration).  What the                                                *)
(* code does inside a round (order of signing requests and of the parallel submissions) is the    *)
(* code's own nondeterminism: it is recorded in the trace and judged by Trace_BlockRelay_C11.     *)
(* nk is the kind of the next step, chosen one step ahead so that TLC's uniform choice among      *)
(* successor states is uniform over the kinds and not over their (many) parameters.               *)
(*                                                                                                *)
(* Histories on ONE instance.  Every scenario is run on one service instance, step after step, so  *)
(* whatever a step leaves behind on the instance meets the following steps.  Two scripted families  *)
(* make that systematic:                                                                           *)
(*   Script = "after"   Fetch(k) ; Round(every combination of failing signing request / relays /    *)
(*                      nodes, every latency script) ; Round(no failure) ; Fwd ; Round(no failure):  *)
(*                      the rounds AFTER a round with failures must complete and deliver like any    *)
(*                      other (FailureIsolated / RegistrationExact / ForwardedAll; RoundReturns)     *)
(*   Script = "window"  the overlap: Fetch(k) ; Round(lat = "held": the healthy relays keep the       *)
(*                      round's calls in flight) ; inside that window a REST forwarding call         *)
(*                      (Fwd2 = the second lane F2.. of BlockRelay) and a fetch of another document,   *)
(*                      in either order, run to completion ; Release ; Round.  If the nested call     *)
(*                      cannot finish while the round is held (a design that lets only one            *)
(*                      submission per relay run at a time) the driver lets the round go first.       *)
(* In the simulated histories a round with lat = "held" opens such a window for the next one or two    *)
(* steps (win).                                                                                     *)
(*                                                                                                *)
(* THE KIND AND THE POSITION OF A FAILURE.  A failing relay / beacon node / signing request /        *)
(* configuration source fails with a KIND of error (ErrKindsAll of BlockRelay: ordinary, the        *)
(* client's own time-out = wraps context.DeadlineExceeded while the caller's context is live, wraps  *)
(* context.Canceled, ErrNotActive), and which of the configured nodes (first / middle / last of      *)
(* three) or relays fails is part of the scenario: relayout / nodeout = {<<id, kind>>} of the        *)
(* failing ones (Prep: of every node, "ok" included).  In the simulated histories and the matrix /    *)
(* after / window families the kinds come from a palette (Pal: one kind per id, uniform and mixed);    *)
(* three scripted families enumerate the assignments themselves, each followed by a healthy call of    *)
(* the same sort on the same instance:                                                               *)
(*   Script = "prepkinds"  Fetch(k) ; Prep(every [Nodes -> ok | kind]) ; Prep(all ok)                   *)
(*   Script = "regkinds"   Fetch(k) ; Round(every [Relays -> ok | kind] with healthy nodes, every       *)
(*                         [Nodes -> ok | kind] with healthy relays, one failing relay x one failing     *)
(*                         node) ; Round()                                                            *)
(*   Script = "fwdkinds"   Fetch(k) ; Fwd(every [Relays -> ok | kind]) ; Fwd(all ok)                     *)
EXTENDS BlockRelay, Json

CONSTANTS ScenLen,      \* steps per scenario
          MaxSignFail,  \* failing signing requests per round
          Matrix,       \* TRUE: the scenarios are "fetch a document ; one round with every failure combination"
          History,      \* TRUE: the scenarios are "(fetch a document ; round of all accounts) x ScenLen/2", every sequence
          Script        \* "none" | "after" | "window" | "prepkinds" | "regkinds" | "fwdkinds" (see above)

VARIABLES hist, nk,
          win,          \* 0: no window; n > 0: inside the window of a held round, n nested steps to go; -1: Release is due
          pal,          \* palette of failure kinds of the next step (simulated histories)
          turn          \* simulated histories: "pick" (the kind of the next step and its palette are chosen) | "act"
svars == <<vars, hist, nk, win, pal, turn>>

\* palettes: which kind of failure relay / node i (and a signing request: index 3) shows when it is scripted to fail
NPal == 7
Pal(p) ==
  CASE p = 1 -> <<"err", "err", "err">>
    [] p = 2 -> <<"deadline", "deadline", "deadline">>
    [] p = 3 -> <<"canceled", "canceled", "canceled">>
    [] p = 4 -> <<"notactive", "notactive", "notactive">>
    [] p = 5 -> <<"deadline", "err", "canceled">>
    [] p = 6 -> <<"err", "deadline", "notactive">>
    [] p = 7 -> <<"canceled", "notactive", "deadline">>
OutOf(S, p) == {<<i, Pal(p)[i]>> : i \in S}
SignKind(p) == Pal(p)[3]
Outs == {"ok"} \cup ErrKindsAll
NonOk(f) == {<<i, f[i]>> : i \in {j \in DOMAIN f : f[j] # "ok"}}

DocJson(k) == LET d == Catalogue(k) IN
    [id |-> k, bad |-> d.bad,
     vals |-> {[v |-> v, fee |-> d.vfee[v], rel |-> d.rel[v]] : v \in {1, 2, 3} \ d.bad}]

\* weights of the kinds: 3 fetches : 4 registration rounds : 1 preparation round : 1 forwarding
KindOf(n) == CASE n <= 3 -> "Fetch" [] n <= 7 -> "Round" [] n = 8 -> "Prep" [] OTHER -> "Fwd"

SInit ==
    /\ Init
    /\ hist = <<[ev |-> "Reset", docs |-> {DocJson(k) : k \in DocIds}]>>
    /\ nk = 1
    /\ win = 0
    /\ pal = 1
    /\ turn = "act"

H(e) == hist' = Append(hist, e)

\* <<v, fee, gas>> the active configuration wants signed for these accounts
WantedPairs(accts) ==
    UNION {{<<v, t[2], t[3]>> : t \in Resolve(active, v).rel} : v \in {a \in accts : Resolve(active, a).ok}}

AcctSets == (SUBSET Validators) \ {{}}
Lats == {"none", "slow", "batched"}

FetchStep ==
    \E out \in Outcomes :
        /\ ConfigFetch(out) /\ UNCHANGED devVars
        /\ H([ev |-> "Fetch", out |-> out.t, doc |-> out.doc])

\* a round step: the failing signing requests, relays and nodes, each with the kind of its failure
RoundEv(accts, sf, sk, ro, no, lat) ==
    [ev |-> "Round", accts |-> accts, signfail |-> sf, signkind |-> sk, relayout |-> ro, nodeout |-> no, lat |-> lat]

\* P: the palettes to choose from (the matrix enumerates them; a simulated history has picked one)
RoundStep(P) ==
    \E accts \in IF Matrix THEN {Validators} ELSE AcctSets :
      \E sf \in {S \in SUBSET WantedPairs(accts) : Cardinality(S) <= MaxSignFail},
         rf \in SUBSET Relays, nf \in SUBSET Nodes, lat \in Lats \cup (IF Matrix THEN {} ELSE {"held"}) :
       \E p \in (IF sf = {} /\ rf = {} /\ nf = {} THEN {1} ELSE P) :
        /\ H(RoundEv(accts, sf, SignKind(p), OutOf(rf, p), OutOf(nf, p), lat))
        /\ win' = IF lat = "held" THEN 1 + (Cardinality(rf) % 2) ELSE 0
        /\ UNCHANGED vars

\* a REST forwarding call inside the window of a held round (the second lane of BlockRelay)
Fwd2Step ==
    \E regs \in {S \in SUBSET FwdCandidates : Cardinality(S) \in 1..2}, rf \in SUBSET Relays :
        /\ H([ev |-> "Fwd2", regs |-> {<<x.v, x.fee, x.gas>> : x \in regs}, relayout |-> OutOf(rf, pal), lat |-> "none"])
        /\ UNCHANGED vars

ReleaseStep == H([ev |-> "Release"]) /\ UNCHANGED vars

PrepStep ==
    \E accts \in AcctSets, po \in [Nodes -> Outs], lat \in {"none", "slow"} :
        /\ H([ev |-> "Prep", accts |-> accts, nodeout |-> {<<n, po[n]>> : n \in Nodes}, lat |-> lat])
        /\ UNCHANGED vars

FwdStep ==
    \E regs \in {S \in SUBSET FwdCandidates : Cardinality(S) \in 1..3}, rf \in SUBSET Relays, lat \in Lats :
        /\ H([ev |-> "Fwd", regs |-> {<<x.v, x.fee, x.gas>> : x \in regs}, relayout |-> OutOf(rf, pal), lat |-> lat])
        /\ UNCHANGED vars

\* TLC's simulator evaluates the invariants on every candidate successor: the closing step has a single
\* successor, so that exactly the behaviours that were walked are printed
Ended == Len(hist) > 1 /\ hist[Len(hist)].ev = "End"
EndStep == Len(hist) >= ScenLen + 1 /\ win = 0 /\ ~Ended /\ H([ev |-> "End"]) /\ nk' = nk /\ UNCHANGED <<vars, win, pal, turn>>

\* ---- the scripted families (a whole history in one step; nothing of BlockRelay's state is needed) ----
WantedOf(d, accts) ==
    UNION {{<<v, t[2], t[3]>> : t \in Resolve(d, v).rel} : v \in {a \in accts : Resolve(d, a).ok}}
Rnd(sf, rf, nf, lat) == RoundEv(Validators, sf, "err", OutOf(rf, 1), OutOf(nf, 1), lat)
\* the same with the failure kinds of palette p
RndP(sf, rf, nf, lat, p) == RoundEv(Validators, sf, SignKind(p), OutOf(rf, p), OutOf(nf, p), lat)
Fet(k) == [ev |-> "Fetch", out |-> "good", doc |-> k]
\* one registration of a validator Vouch holds (dropped once a round has run) and one of an external validator
ScriptRegs == {<<1, 2, 2>>, <<3, 1, 1>>}

FwdEv(ev, ro, lat) == [ev |-> ev, regs |-> ScriptRegs, relayout |-> ro, lat |-> lat]

AfterHist(k, sf, rf, nf, lat, p) ==
    <<Fet(k), RndP(sf, rf, nf, lat, p), Rnd({}, {}, {}, "none"), FwdEv("Fwd", {}, "none"), Rnd({}, {}, {}, "slow")>>

WindowHist(k, k2, rf, rf2, fwdFirst, p) ==
    LET f2 == FwdEv("Fwd2", OutOf(rf2, p), "none") IN
    <<Fet(k), RndP({}, rf, {}, "held", p)>>
    \o (IF fwdFirst THEN <<f2, Fet(k2)>> ELSE <<Fet(k2), f2>>)
    \o <<[ev |-> "Release"], Rnd({}, {}, {}, "none")>>

\* ---- the kind and the position of a failure, enumerated ----
AllOk(S) == [i \in S |-> "ok"]
PrepEv(f, lat) == [ev |-> "Prep", accts |-> Validators, nodeout |-> {<<n, f[n]>> : n \in Nodes}, lat |-> lat]
PrepKindsHist(k, f, lat) == <<Fet(k), PrepEv(f, lat), PrepEv(AllOk(Nodes), "none")>>

RoundO(fr, fn, lat) == RoundEv(Validators, {}, "err", NonOk(fr), NonOk(fn), lat)
RegKindsHist(k, fr, fn, lat) == <<Fet(k), RoundO(fr, fn, lat), Rnd({}, {}, {}, "none")>>
\* every assignment for the relays with healthy nodes, every one for the nodes with healthy relays, and one failing
\* relay together with one failing node
RegKindPairs ==
    {x \in [Relays -> Outs] \X [Nodes -> Outs] :
        \/ x[1] = AllOk(Relays) \/ x[2] = AllOk(Nodes)
        \/ Cardinality(NonOk(x[1])) = 1 /\ Cardinality(NonOk(x[2])) = 1}

FwdKindsHist(k, fr, lat) == <<Fet(k), FwdEv("Fwd", NonOk(fr), lat), FwdEv("Fwd", {}, "none")>>

\* the palettes of the after / window families: uniform kinds and one mixed
ScriptPals(failing) == IF failing THEN {1, 2, 3, 4, 5} ELSE {1}

ScriptStep ==
    /\ Len(hist) = 1
    /\ \/ /\ Script = "after"
          /\ \E k \in DocIds, rf \in SUBSET Relays, nf \in SUBSET Nodes, lat \in Lats :
               \E sf \in {S \in SUBSET WantedOf(k, Validators) : Cardinality(S) <= MaxSignFail} :
                 \E p \in ScriptPals(sf # {} \/ rf # {} \/ nf # {}) :
                  hist' = hist \o AfterHist(k, sf, rf, nf, lat, p)
       \/ /\ Script = "window"
          /\ \E k \in DocIds, k2 \in DocIds, rf \in SUBSET Relays, rf2 \in {{}, {2}}, fwdFirst \in BOOLEAN :
               \E p \in ScriptPals(rf # {} \/ rf2 # {}) :
                  hist' = hist \o WindowHist(k, k2, rf, rf2, fwdFirst, p)
       \/ /\ Script = "prepkinds"
          /\ \E k \in DocIds \cap {2, 3}, f \in [Nodes -> Outs], lat \in {"none", "slow"} :
                  hist' = hist \o PrepKindsHist(k, f, lat)
       \/ /\ Script = "regkinds"
          /\ \E k \in DocIds \cap {1, 2}, x \in RegKindPairs :
                  hist' = hist \o RegKindsHist(k, x[1], x[2], "slow")
       \/ /\ Script = "fwdkinds"
          /\ \E k \in DocIds \cap {1, 2}, fr \in [Relays -> Outs], lat \in {"slow", "batched"} :
                  hist' = hist \o FwdKindsHist(k, fr, lat)
    /\ UNCHANGED <<vars, nk, win, pal, turn>>

SNext ==
  \/ EndStep
  \/ Script # "none" /\ ScriptStep
  \/
    /\ Script = "none"
    /\ Len(hist) <= ScenLen \/ win # 0
    /\ ~Ended
    /\ IF History
       THEN /\ \/ Len(hist) % 2 = 1 /\ (\E k \in DocIds : ConfigFetch([t |-> "good", doc |-> k]) /\ UNCHANGED devVars
                                                         /\ H([ev |-> "Fetch", out |-> "good", doc |-> k]))
               \/ Len(hist) % 2 = 0 /\ H(Rnd({}, {}, {}, "none")) /\ UNCHANGED vars
            /\ nk' = nk /\ win' = 0 /\ UNCHANGED <<pal, turn>>
       ELSE IF Matrix
       THEN /\ \/ Len(hist) = 1 /\ (\E k \in DocIds : ConfigFetch([t |-> "good", doc |-> k]) /\ UNCHANGED devVars
                                                     /\ H([ev |-> "Fetch", out |-> "good", doc |-> k])) /\ win' = 0
               \/ Len(hist) = 2 /\ RoundStep(1..NPal)
            /\ nk' = nk /\ UNCHANGED <<pal, turn>>
       \* simulated histories: the kind of the next step and its palette are picked in a step of their own (TLC's
       \* simulator chooses uniformly among the successor states: uniform over kinds x palettes, then over the parameters)
       ELSE IF turn = "pick"
       THEN /\ nk' \in 1..9 /\ pal' \in 1..NPal /\ turn' = "act"
            /\ UNCHANGED <<vars, hist, win>>
       ELSE /\ \/ win = 0 /\ KindOf(nk) = "Fetch" /\ FetchStep /\ win' = 0
               \/ win = 0 /\ KindOf(nk) = "Round" /\ RoundStep({pal})
               \/ win = 0 /\ KindOf(nk) = "Prep" /\ PrepStep /\ win' = 0
               \/ win = 0 /\ KindOf(nk) = "Fwd" /\ FwdStep /\ win' = 0
               \* inside the window of a held round: a fetch or a REST forwarding call, then the release
               \/ win > 0 /\ (FetchStep \/ Fwd2Step) /\ win' = IF win = 1 THEN -1 ELSE win - 1
               \/ win = -1 /\ ReleaseStep /\ win' = 0
            /\ turn' = "pick" /\ UNCHANGED <<nk, pal>>

SSpec == SInit /\ [][SNext]_svars

Emit == Ended => PrintT(ToJson(SubSeq(hist, 1, Len(hist) - 1)))
=============================================================================
