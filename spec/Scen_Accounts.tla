---------------------------- MODULE Scen_Accounts ----------------------------
(* Scenario generator for C13.  Three families (constant Mode), all written out as input          *)
(* histories Reset / Refresh / Query that the Go drivers execute on the real managers:            *)
(*  "match": exhaustive - every pattern of the grammar as the account part of a specifier for     *)
(*           wallet W (with and without explicit ^ and $), next to a specifier for wallet V, plus  *)
(*           the wallet-only and bare-slash forms; all accounts offered, all validators active;   *)
(*  "life" : simulation - validator records drawn from ALL well-formed lifecycles over the epochs *)
(*           0..4 and FFE for four accounts, queried with every call at every epoch 0..5;         *)
(*  "hist" : simulation - refresh histories: what the signer offers (nothing / everything / two   *)
(*           different parts) x what the beacon node answers (error / nothing / two tables),       *)
(*           with queries in between.                                                             *)
EXTENDS Accounts, Json

CONSTANTS Mode, ScenLen, Mgrs

VARIABLE hist
svars == <<vars, hist>>

\* ---- the universe of names
WAccounts == NameSeqs
VAccounts == {<<"a">>, <<"b">>, <<"a", "b">>, <<"b", "b">>}
AllNames == {<<"W", a>> : a \in WAccounts} \cup {<<"V", a>> : a \in VAccounts}

RECURSIVE Code(_)
Code(s) == IF s = <<>> THEN 0 ELSE 3 * Code(SubSeq(s, 1, Len(s) - 1)) + (IF s[Len(s)] = "a" THEN 1 ELSE 2)
IndexOf(n) == (IF n[1] = "W" THEN 100 ELSE 200) + Code(n[2])

Active(n) == [index |-> IndexOf(n), elig |-> 0, act |-> 0, exit |-> FFE, wd |-> FFE, slashed |-> FALSE, bal0 |-> FALSE]

\* ---- JSON forms
RecsJson(recs) == {[n |-> n] @@ recs[n] : n \in DOMAIN recs}
ResetJson(m, c) == [ev |-> "Reset", mgr |-> m, cfg |-> c, paths |-> [k \in 1..Len(c) |-> SpecText(c[k])],
                    wallets |-> [W |-> WAccounts, V |-> VAccounts]]
RefreshJson(offer, out) == [ev |-> "Refresh", offer |-> offer, mode |-> out.mode, recs |-> RecsJson(out.recs)]
QueryJson(kind, e, idxs) == [ev |-> "Query", kind |-> kind, epoch |-> e, idxs |-> idxs]

Kinds == {"validating", "sync", "validating_by_index", "sync_by_index"}

\* ---- family "match"
PatSpec(w, p, a, b) == [w |-> w, form |-> "pat", p |-> p, pre |-> a, post |-> b]
WalletSpec(w) == [w |-> w, form |-> "wallet"]
EmptySpec(w) == [w |-> w, form |-> "empty"]

MatchCfgs ==
    {<<PatSpec("W", p, a, b), PatSpec("V", Lit("a"), FALSE, FALSE)>> : p \in Patterns, a \in BOOLEAN, b \in BOOLEAN}
    \cup {<<WalletSpec("W")>>, <<EmptySpec("W")>>, <<WalletSpec("W"), EmptySpec("V")>>,
          <<WalletSpec("V"), PatSpec("W", Lit("a"), FALSE, FALSE)>>,
          <<PatSpec("W", Cat(Lit("a"), Star(AnyChar)), FALSE, FALSE), PatSpec("W", Cat(Star(AnyChar), Lit("b")), FALSE, TRUE)>>}

AllActive == [mode |-> "ok", recs |-> [n \in AllNames |-> Active(n)]]

MatchNext ==
    /\ hist = <<>>
    /\ \E m \in Mgrs, c \in MatchCfgs :
          hist' = <<ResetJson(m, c), RefreshJson(AllNames, AllActive), QueryJson("validating", 1, {})>>

\* ---- family "life"
LifeEpochs == 0..4 \cup {FFE}
Lifecycles == {r \in [elig : LifeEpochs, act : LifeEpochs, exit : LifeEpochs, wd : LifeEpochs,
                      slashed : BOOLEAN, bal0 : BOOLEAN] : WellFormed(r)}
LifeNames == <<<<"W", <<"a">>>>, <<"W", <<"b">>>>, <<"W", <<"a", "b">>>>, <<"W", <<"b", "a">>>>>>
LifeIdxs == {IndexOf(LifeNames[1]), IndexOf(LifeNames[3]), 999}

\* hist = <<Reset, rec1, .., rec4>> while the records are drawn; then it is replaced by the scenario
LifeQueries ==
    LET es == [i \in 1..6 |-> i - 1]
        ks == <<"validating", "sync", "validating_by_index", "sync_by_index">>
    IN [j \in 1..24 |-> QueryJson(ks[((j - 1) \div 6) + 1], es[((j - 1) % 6) + 1],
                                  IF ((j - 1) \div 6) + 1 >= 3 THEN LifeIdxs ELSE {})]

LifeNext ==
    \/ /\ hist = <<>>
       /\ \E m \in Mgrs : hist' = <<ResetJson(m, <<WalletSpec("W")>>)>>
    \/ /\ Len(hist) \in 1..4 /\ hist[1].ev = "Reset" /\ (Len(hist) = 1 \/ hist[Len(hist)].ev = "rec")
       /\ \E r \in Lifecycles, present \in {TRUE, TRUE, TRUE, FALSE} :
             hist' = Append(hist, [ev |-> "rec", present |-> present, r |-> r])
    \/ /\ Len(hist) = 5 /\ hist[5].ev = "rec"
       /\ LET chosen == {k \in 1..4 : hist[k + 1].present}
              recs == [n \in {LifeNames[k] : k \in chosen} |->
                          LET k == CHOOSE j \in chosen : LifeNames[j] = n
                          IN [index |-> IndexOf(n)] @@ hist[k + 1].r]
          IN hist' = <<hist[1], RefreshJson(AllNames, [mode |-> "ok", recs |-> recs])>> \o LifeQueries

\* ---- family "hist"
HistCfg == <<PatSpec("W", Cat(Lit("a"), Star(AnyChar)), FALSE, FALSE), WalletSpec("V")>>
S1 == {<<"W", <<"a">>>>, <<"W", <<"a", "b">>>>, <<"W", <<"b">>>>, <<"V", <<"a">>>>}
S2 == {<<"W", <<"a", "a">>>>, <<"W", <<"b", "b">>>>, <<"V", <<"b">>>>}
HistOffers == {{}, AllNames, S1, S2}
HRec(n, act, exit, wd, sl) == [index |-> IndexOf(n), elig |-> 0, act |-> act, exit |-> exit, wd |-> wd, slashed |-> sl, bal0 |-> FALSE]
T1 == [n \in AllNames |-> IF Code(n[2]) % 2 = 1 THEN HRec(n, 1, FFE, FFE, FALSE) ELSE HRec(n, 0, 3, 4, FALSE)]
T2 == [n \in S1 \cup S2 |-> IF Code(n[2]) % 2 = 1 THEN HRec(n, 2, 4, 5, TRUE) ELSE HRec(n, 0, FFE, FFE, FALSE)]
HistOuts == {[mode |-> "err", recs |-> NoVals], [mode |-> "ok", recs |-> NoVals],
             [mode |-> "ok", recs |-> T1], [mode |-> "ok", recs |-> T2]}

HistNext ==
    \/ /\ hist = <<>>
       /\ \E m \in Mgrs : hist' = <<ResetJson(m, HistCfg)>>
    \/ /\ hist # <<>> /\ Len(hist) <= ScenLen
       /\ \/ \E offer \in HistOffers, out \in HistOuts :
                \* the wallet manager reads local stores (always everything); its constructor needs the node
                /\ hist[1].mgr = "wallet" => (offer = AllNames /\ (Len(hist) = 1 => out.mode = "ok"))
                /\ hist' = Append(hist, RefreshJson(offer, out))
          \/ /\ Len(hist) > 1
             /\ \E kind \in {"validating", "sync"}, e \in {1, 3} :
                   hist' = Append(hist, QueryJson(kind, e, {}))

SInit == Init /\ hist = <<>>

SNext ==
    /\ UNCHANGED vars
    /\ CASE Mode = "match" -> MatchNext
         [] Mode = "life"  -> LifeNext
         [] Mode = "hist"  -> HistNext

SSpec == SInit /\ [][SNext]_svars

Done == CASE Mode = "match" -> hist # <<>>
          [] Mode = "life"  -> Len(hist) > 5
          [] Mode = "hist"  -> Len(hist) = ScenLen + 1

Emit == Done => PrintT(ToJson(hist))
=============================================================================
