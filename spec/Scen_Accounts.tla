---------------------------- MODULE Scen_Accounts ----------------------------
(* Scenario generator for C13.  Three families (constant Mode), all written out as input          *)
(* histories Reset / Refresh / Query that the Go drivers execute on the real managers:            *)
(*  "match": exhaustive - every pattern of the grammar as the account part of a specifier for     *)
(*           wallet W (with and without explicit ^ and $), next to a specifier for wallet V, plus  *)
(*           the wallet-only and bare-slash forms; all accounts offered, all validators active;   *)
(*  "life" : simulation - validator records drawn from ALL well-formed lifecycles over the epochs *)
(*           0..4 and FFE for four accounts, queried with every call at every epoch 0..5;         *)
(*  "hist" : simulation - histories of calls on ONE pair of instances: what the signer / the store *)
(*           offers per refresh (nothing / everything / parts / everything but one account) x what *)
(*           the beacon node answers (error / nothing / two tables), all four queries (by-index    *)
(*           with index sets naming validators that are ours, not ours, no longer ours, nobody's)  *)
(*           at any point - also BETWEEN the two parts of a refresh (RefreshBegin .. RefreshEnd:   *)
(*           the refresh job is held at the beacon node) and with a refresh running while a query  *)
(*           is under way (QueryBegin .. QueryEnd: the query is held at the validators manager);   *)
(*  "vanish": exhaustive - the directed core of the class: two accounts known and their           *)
(*           validators in the table; a refresh that offers less, with every outcome of the       *)
(*           validators part, taken as a whole, held between its parts, or running while a query   *)
(*           is under way; all four queries naming every index.                                   *)
EXTENDS Accounts, Json

CONSTANTS Mode, ScenLen, Mgrs

VARIABLE hist
svars == <<vars, hist>>

\* ---- the universe of names
WAccounts == NameSeqs
VAccounts == {<<"a">>, <<"b">>, <<"a", "b">>, <<"b", "b">>}
AllNames == {<<"W", a>> : a \in WAccounts} \cup {<<"V", a>> : a \in VAccounts}

RECURSIVE Code(_)
Code(s) == IF s = <<>> THEN 0 ELSE 3 * Code(SubSeq(s, 1, Len(s) - 1)) + (IF s[Len(s)] = "a" THEN 1 ELSE 2)
IndexOf(n) == (IF n[1] = "W" THEN 100 ELSE 200) + Code(n[2])

Active(n) == [index |-> IndexOf(n), elig |-> 0, act |-> 0, exit |-> FFE, wd |-> FFE, slashed |-> FALSE, bal0 |-> FALSE]

\* ---- JSON forms
RecsJson(recs) == {[n |-> n] @@ recs[n] : n \in DOMAIN recs}
ResetJson(m, c) == [ev |-> "Reset", mgr |-> m, cfg |-> c, paths |-> [k \in 1..Len(c) |-> SpecText(c[k])],
                    wallets |-> [W |-> WAccounts, V |-> VAccounts]]
RefreshJson(offer, out) == [ev |-> "Refresh", offer |-> offer, mode |-> out.mode, recs |-> RecsJson(out.recs)]
QueryJson(kind, e, idxs) == [ev |-> "Query", kind |-> kind, epoch |-> e, idxs |-> idxs]

\* ---- family "match"
PatSpec(w, p, a, b) == [w |-> w, form |-> "pat", p |-> p, pre |-> a, post |-> b]
WalletSpec(w) == [w |-> w, form |-> "wallet"]
EmptySpec(w) == [w |-> w, form |-> "empty"]

MatchCfgs ==
    {<<PatSpec("W", p, a, b), PatSpec("V", Lit("a"), FALSE, FALSE)>> : p \in Patterns, a \in BOOLEAN, b \in BOOLEAN}
    \cup {<<WalletSpec("W")>>, <<EmptySpec("W")>>, <<WalletSpec("W"), EmptySpec("V")>>,
          <<WalletSpec("V"), PatSpec("W", Lit("a"), FALSE, FALSE)>>,
          <<PatSpec("W", Cat(Lit("a"), Star(AnyChar)), FALSE, FALSE), PatSpec("W", Cat(Star(AnyChar), Lit("b")), FALSE, TRUE)>>}

AllActive == [mode |-> "ok", recs |-> [n \in AllNames |-> Active(n)]]

MatchNext ==
    /\ hist = <<>>
    /\ \E m \in Mgrs, c \in MatchCfgs :
          hist' = <<ResetJson(m, c), RefreshJson(AllNames, AllActive), QueryJson("validating", 1, {})>>

\* ---- family "life"
LifeEpochs == 0..4 \cup {FFE}
Lifecycles == {r \in [elig : LifeEpochs, act : LifeEpochs, exit : LifeEpochs, wd : LifeEpochs,
                      slashed : BOOLEAN, bal0 : BOOLEAN] : WellFormed(r)}
LifeNames == <<<<"W", <<"a">>>>, <<"W", <<"b">>>>, <<"W", <<"a", "b">>>>, <<"W", <<"b", "a">>>>>>
LifeIdxs == {IndexOf(LifeNames[1]), IndexOf(LifeNames[3]), 999}

\* hist = <<Reset, rec1, .., rec4>> while the records are drawn; then it is replaced by the scenario
LifeQueries ==
    LET es == [i \in 1..6 |-> i - 1]
        ks == <<"validating", "sync", "validating_by_index", "sync_by_index">>
    IN [j \in 1..24 |-> QueryJson(ks[((j - 1) \div 6) + 1], es[((j - 1) % 6) + 1],
                                  IF ((j - 1) \div 6) + 1 >= 3 THEN LifeIdxs ELSE {})]

LifeNext ==
    \/ /\ hist = <<>>
       /\ \E m \in Mgrs : hist' = <<ResetJson(m, <<WalletSpec("W")>>)>>
    \/ /\ Len(hist) \in 1..4 /\ hist[1].ev = "Reset" /\ (Len(hist) = 1 \/ hist[Len(hist)].ev = "rec")
       /\ \E r \in Lifecycles, present \in {TRUE, TRUE, TRUE, FALSE} :
             hist' = Append(hist, [ev |-> "rec", present |-> present, r |-> r])
    \/ /\ Len(hist) = 5 /\ hist[5].ev = "rec"
       /\ LET chosen == {k \in 1..4 : hist[k + 1].present}
              recs == [n \in {LifeNames[k] : k \in chosen} |->
                          LET k == CHOOSE j \in chosen : LifeNames[j] = n
                          IN [index |-> IndexOf(n)] @@ hist[k + 1].r]
          IN hist' = <<hist[1], RefreshJson(AllNames, [mode |-> "ok", recs |-> recs])>> \o LifeQueries

\* ---- family "hist"
HistCfg == <<PatSpec("W", Cat(Lit("a"), Star(AnyChar)), FALSE, FALSE), WalletSpec("V")>>
Wn(a) == <<"W", a>>
Vn(a) == <<"V", a>>
S1 == {Wn(<<"a">>), Wn(<<"a", "b">>), Wn(<<"b">>), Vn(<<"a">>)}
S2 == {Wn(<<"a", "a">>), Wn(<<"b", "b">>), Vn(<<"b">>)}
HistOffers == {{}, AllNames, S1, S2, AllNames \ {Wn(<<"a">>)}, AllNames \ {Vn(<<"b">>)}, S1 \ {Wn(<<"a", "b">>)}}
HRec(n, act, exit, wd, sl) == [index |-> IndexOf(n), elig |-> 0, act |-> act, exit |-> exit, wd |-> wd, slashed |-> sl, bal0 |-> FALSE]
T1 == [n \in AllNames |-> IF Code(n[2]) % 2 = 1 THEN HRec(n, 1, FFE, FFE, FALSE) ELSE HRec(n, 0, 3, 4, FALSE)]
T2 == [n \in S1 \cup S2 |-> IF Code(n[2]) % 2 = 1 THEN HRec(n, 2, 4, 5, TRUE) ELSE HRec(n, 0, FFE, FFE, FALSE)]
OutErr == [mode |-> "err", recs |-> NoVals]
OutEmpty == [mode |-> "ok", recs |-> NoVals]
HistOuts == {OutErr, OutEmpty, [mode |-> "ok", recs |-> T1], [mode |-> "ok", recs |-> T2]}

\* index sets of the by-index queries: everybody's index and nobody's (999); a few of ours, one that the
\* specifiers refuse (W/b) and nobody's; a few of ours; none
AllIdx == {IndexOf(n) : n \in AllNames} \cup {999}
HistIdxs == {AllIdx, {IndexOf(Wn(<<"a">>)), IndexOf(Wn(<<"b">>)), 999},
             {IndexOf(Vn(<<"b">>)), IndexOf(Wn(<<"a", "a">>)), IndexOf(Wn(<<"a", "b">>))}, {}}

\* all four queries for one epoch and index set, each by-index form right after its plain form
QueryAll(e, idxs) == <<QueryJson("validating", e, {}), QueryJson("validating_by_index", e, idxs),
                       QueryJson("sync", e, {}), QueryJson("sync_by_index", e, idxs)>>

Count(h, ev) == Cardinality({i \in 1..Len(h) : h[i].ev = ev})
RefreshHeld(h) == Count(h, "RefreshBegin") > Count(h, "RefreshEnd")
QueryHeld(h) == Count(h, "QueryBegin") > Count(h, "QueryEnd")
Refreshed(h) == Count(h, "Refresh") + Count(h, "RefreshBegin") > 0

HistStep(h) ==
    \/ \E offer \in HistOffers, out \in HistOuts, held \in BOOLEAN :
          /\ ~RefreshHeld(h)
          \* the wallet manager's constructor performs the first refresh and needs the node; a query needs
          \* the constructed service: the first refresh is taken as a whole
          /\ ~Refreshed(h) => (~held /\ (h[1].mgr = "wallet" => out.mode = "ok"))
          /\ hist' = Append(h, [RefreshJson(offer, out) EXCEPT !.ev = IF held THEN "RefreshBegin" ELSE "Refresh"])
    \/ /\ RefreshHeld(h)
       /\ hist' = Append(h, [ev |-> "RefreshEnd"])
    \/ /\ Refreshed(h)
       /\ \E e \in {1, 3}, idxs \in HistIdxs : hist' = h \o QueryAll(e, idxs)
    \/ /\ Refreshed(h) /\ ~QueryHeld(h)
       /\ \E kind \in Kinds, e \in {1, 3}, idxs \in HistIdxs, hold \in {"before", "after"} :
             /\ kind \in ByIndexKinds \/ idxs = {}
             /\ hist' = Append(h, [QueryJson(kind, e, idxs) EXCEPT !.ev = "QueryBegin"] @@ [hold |-> hold])
    \/ /\ QueryHeld(h)
       /\ hist' = Append(h, [ev |-> "QueryEnd"])

HistNext ==
    \/ /\ hist = <<>>
       /\ \E m \in Mgrs : hist' = <<ResetJson(m, HistCfg)>>
    \/ /\ hist # <<>> /\ Len(hist) <= ScenLen
       /\ HistStep(hist)
    \* the history is over: what is still held is let go
    \/ /\ Len(hist) > ScenLen /\ RefreshHeld(hist)
       /\ hist' = Append(hist, [ev |-> "RefreshEnd"])
    \/ /\ Len(hist) > ScenLen /\ ~RefreshHeld(hist) /\ QueryHeld(hist)
       /\ hist' = Append(hist, [ev |-> "QueryEnd"])

\* ---- family "vanish" (exhaustive)
VOffers == {AllNames, S1}
VShrunk == {AllNames \ {Wn(<<"a">>)}, AllNames \ {Vn(<<"b">>)}, S1 \ {Wn(<<"a", "b">>)}, S2, {}}
VTabs == {[mode |-> "ok", recs |-> T1], [mode |-> "ok", recs |-> T2]}

VRef(ev, offer, out) == [RefreshJson(offer, out) EXCEPT !.ev = ev]
VBegin(kind, e, hold) ==
    [QueryJson(kind, e, IF kind \in ByIndexKinds THEN AllIdx ELSE {}) EXCEPT !.ev = "QueryBegin"] @@ [hold |-> hold]

\* taken as a whole: the table kept through an error / an empty answer still has the validator
VWhole(o1, o2, t1, e) ==
    {<<VRef("Refresh", o1, t1), VRef("Refresh", o2, out)>> \o QueryAll(e, AllIdx) : out \in {OutErr, OutEmpty}}
\* held between its parts: the accounts are gone, the table is still the old one
VHeld(o1, o2, t1, e) ==
    {<<VRef("Refresh", o1, t1), VRef("RefreshBegin", o2, out)>> \o QueryAll(e, AllIdx)
        \o <<[ev |-> "RefreshEnd"]>> \o QueryAll(e, AllIdx) : out \in {OutErr} \cup (VTabs \ {t1})}
\* running while a query is under way
VOver(o1, o2, t1, e) ==
    {<<VRef("Refresh", o1, t1), VBegin(kind, e, hold), VRef("Refresh", o2, out), [ev |-> "QueryEnd"]>> \o QueryAll(e, AllIdx)
        : kind \in {"validating", "sync_by_index"}, hold \in {"before", "after"}, out \in {OutErr} \cup (VTabs \ {t1})}

VanishBodies ==
    UNION {VWhole(o1, o2, t1, e) \cup VHeld(o1, o2, t1, e) \cup VOver(o1, o2, t1, e)
              : o1 \in VOffers, o2 \in VShrunk, t1 \in VTabs, e \in {1, 3}}

SInit == Init /\ hist = <<>>

VanishNext ==
    /\ hist = <<>>
    /\ \E m \in Mgrs, b \in VanishBodies : hist' = <<ResetJson(m, HistCfg)>> \o b

SNext ==
    /\ UNCHANGED vars
    /\ CASE Mode = "match"  -> MatchNext
         [] Mode = "life"   -> LifeNext
         [] Mode = "hist"   -> HistNext
         [] Mode = "vanish" -> VanishNext

SSpec == SInit /\ [][SNext]_svars

Done == CASE Mode = "match"  -> hist # <<>>
          [] Mode = "life"   -> Len(hist) > 5
          [] Mode = "hist"   -> Len(hist) > ScenLen /\ ~RefreshHeld(hist) /\ ~QueryHeld(hist)
          [] Mode = "vanish" -> hist # <<>>

Emit == Done => PrintT(ToJson(hist))
=============================================================================
