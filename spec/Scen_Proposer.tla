--------------------------- MODULE Scen_Proposer ---------------------------
(* Scenario generator for C05.  A scenario is the environment's side of the HISTORY of one       *)
(* service instance: how the service is built (graffiti provider, proposal provider with or     *)
(* without NodeClient, auctioneer, unblind-from-all), the duty objects it is handed (`duties`,   *)
(* in the order in which they are made: slot, validator and what each collaborator answers in    *)
(* the calls for that duty object) and the SCHEDULE of the calls (`sched`): which duty object is *)
(* prepared / proposed / dropped when, and - for calls that overlap - which call passes its next *)
(* interface call when.  TLC walks Proposer.tla's design (`Next`, including NewDuty and Switch   *)
(* within MaxOpen / MaxInFlight) and collects the environment's choices in `sc`; the concurrent  *)
(* part inside one Propose (the relay goroutines) is represented by one script per candidate     *)
(* relay - the order in which those goroutines run is not the driver's to choose.  Every         *)
(* terminal path is printed once (exhaustive mode), or the paths of a seeded random walk         *)
(* (simulation mode, for the overlapping families).  The first duty object ranges over the full  *)
(* sets, the later ones over the Later... sets (bounds).                                         *)
(* The schedule: prepare h / propose h (the call starts and goes up to its first interface call), *)
(* step h (the call passes that interface call and goes up to the next one, or returns), release *)
(* h (the relays that hold the call answer), drop h.  A call that is about to return is not      *)
(* switched away from (the driver cannot hold a call between its last interface call and its     *)
(* return).                                                                                      *)
(* The scripts of a relay:                                                                      *)
(*   full     returns the full block for what it was sent                                      *)
(*   err      fails every attempt (the code tries three times, 250 ms apart)                    *)
(*   bad400   fails with "POST failed with status 400" (the code does not retry)                *)
(*   nilresp  returns no response and no error                                                  *)
(*   never    does not return until the context ends                                            *)
(*   errfull  fails the first attempt, returns the full block on the second                     *)
(*   heldfull returns the full block when the schedule says release (the call is held meanwhile) *)
(* Graffiti: static (a text) / template (a text with {{CLIENT}}; the code then asks the          *)
(* proposal provider for the node client: ok / err) / err (the provider fails).                 *)
EXTENDS Proposer, Json

CONSTANTS Scripts,          \* relay scripts to enumerate (first duty)
          GraffitiOuts,     \* outcomes of the graffiti lookup to enumerate (first duty)
          NRelays,          \* Relays = 1..NRelays
          PrepOuts,         \* outcomes of the accounts lookup (first duty)
          Drops,            \* TRUE: a prepared duty may be dropped instead of proposed (where duty objects live side by side)
          CfgFilter,        \* "nonodeclient": proposal providers without NodeClient (no template graffiti in the run);
                            \* "graffiti": only services with a graffiti provider and without unblind-from-all
                            \* "wired": (with InitCfgs <- WiredCfgs) at least one relay configured
          LaterScripts, LaterGraffitiOuts, LaterPrepOuts, LaterNodeClientOuts, LaterStepOuts

VARIABLE sc
svars == <<vars, sc>>

Flags(S) == [r \in 1..NRelays |-> r \in S]

Base(d) == [slot |-> d.slot, v |-> d.v,
            accounts |-> "na", randao |-> "na", graffiti |-> "na", nodeclient |-> "na",
            auction |-> [kind |-> "none", all |-> Flags({}), providers |-> Flags({})],
            \* the auction as a component (cfg.strategy # "opaque"): what the block relay's account lookup
            \* answers and what each configured relay does with a request for a bid
            aacct |-> "na", bids |-> [r \in 1..NRelays |-> "none"],
            proposal |-> [out |-> "na", version |-> "none", blinded |-> FALSE, dslot |-> 0],
            sign |-> "na",
            relays |-> [r \in 1..NRelays |-> "none"],
            submit |-> "na"]

SInit ==
    /\ Init
    /\ CfgFilter = "graffiti" => (cfg.graffiti /\ ~cfg.unblindAll)
    /\ CfgFilter = "nonodeclient" => ~cfg.nodeclient
    /\ CfgFilter = "wired" => cfg.conf # {}
    /\ sc = [cfg |-> cfg, duties |-> <<Base(duty)>>, sched |-> <<[op |-> "prepare", h |-> 1]>>]

Sched(op) == [op |-> op, h |-> cur]

\* an interface call of handle cur: what the collaborator answers, and the call passes that gate
Put(f, x) == sc' = [sc EXCEPT !.duties[cur][f] = x, !.sched = Append(@, Sched("step"))]

Delivers(script) == \E r \in DOMAIN script : script[r] \in {"full", "errfull", "heldfull"}
Holds(script) == \E r \in DOMAIN script : script[r] = "heldfull"

\* the relays of handle cur have their scripts (and, with heldfull, hold the call)
RelaysChosen == \E r \in 1..NRelays : sc.duties[cur].relays[r] # "none"

\* the call on handle cur is about to return
Returning == pc \in {"prepfailed", "prepared"} \/ (pc \in ProposePcs /\ MayReturn)

\* ok / err of a step that either works or fails
StepOuts == Bound({"ok", "err"}, LaterStepOuts)

SNext ==
    \/ \E out \in Bound(PrepOuts, LaterPrepOuts) : AccountsCall(Epoch(duty.slot), <<duty.v>>, out) /\ Put("accounts", out)
    \/ \E out \in Bound({"ok", "err"}, LaterPrepOuts \cap {"ok", "err"}) : RandaoCall(duty.v, duty.slot, out, 1) /\ Put("randao", out)
    \/ pc \in {"prepfailed", "prepared"} /\ PrepRet /\ UNCHANGED sc
    \/ ProposeCall /\ sc' = [sc EXCEPT !.sched = Append(@, Sched("propose"))]
    \* a prepared duty is dropped only where duty objects live side by side (a refresh replaced it)
    \/ MaxOpen > 1 /\ Drops /\ Drop /\ sc' = [sc EXCEPT !.sched = Append(@, Sched("drop"))]
    \/ \E out \in Bound(GraffitiOuts, LaterGraffitiOuts) : GraffitiCall(out) /\ Put("graffiti", out)
    \/ \E out \in Bound({"ok", "err"}, LaterNodeClientOuts) : NodeClientCall(out) /\ Put("nodeclient", out)
    \/ /\ pc = "auction" /\ "err" \in StepOuts
       /\ AuctionCall("err", {}, {}) /\ Put("auction", [kind |-> "err", all |-> Flags({}), providers |-> Flags({})])
    \/ /\ pc = "auction"
       /\ \E all \in Bound(AllChoices, LaterAllChoices) : \E providers \in SUBSET all :
            /\ AuctionCall("results", all, providers)
            /\ Put("auction", [kind |-> "results", all |-> Flags(all), providers |-> Flags(providers)])
    \* the auction as a component: the relays are asked in the order of their numbers (the order in which the
    \* goroutines of the strategy run is not the driver's to choose), each once (a relay gives the same answer to
    \* every request of one auction); the relays TLC names as Providers bid the highest value, with one header
    \/ /\ pc = "auction" /\ cfg.strategy # "opaque"
       /\ \E out \in StepOuts : AuctionStart(out) /\ Put("aacct", out)
    \/ /\ pc = "bidding" /\ auction.acct = "ok"
       /\ \E r \in cfg.conf : \E out \in Bound(BidOuts, LaterBidOuts) :
            /\ auction.asked[r] = 0 /\ \A x \in cfg.conf : x < r => auction.asked[x] > 0
            /\ BidCall(r, out)
            /\ sc' = [sc EXCEPT !.duties[cur].bids[r] = out]
    \/ /\ pc = "bidding" /\ auction.acct = "err"
       /\ AuctionCall("err", {}, {}) /\ Put("auction", [kind |-> "err", all |-> Flags({}), providers |-> Flags({})])
    \/ /\ pc = "bidding" /\ auction.acct = "ok" /\ \A r \in cfg.conf : auction.asked[r] > 0
       /\ \E providers \in SUBSET Bidders :
            /\ Bidders # {} => providers # {}
            /\ AuctionCall("results", cfg.conf, providers)
            /\ Put("auction", [kind |-> "results", all |-> Flags(cfg.conf), providers |-> Flags(providers)])
    \/ /\ pc = "proposal" /\ "err" \in StepOuts
       /\ ProposalCall(duty.slot, graffiti \notin {"static", "template"}, randao.token, "err", NoProp)
       /\ Put("proposal", [out |-> "err", version |-> "none", blinded |-> FALSE, dslot |-> 0])
    \/ /\ pc = "proposal"
       /\ \E p \in Proposals :
            /\ ProposalCall(duty.slot, graffiti \notin {"static", "template"}, randao.token, "ok", p)
            /\ Put("proposal", [out |-> "ok", version |-> p.version, blinded |-> p.blinded, dslot |-> p.slot - duty.slot])
    \/ /\ prop.slot = duty.slot
       /\ \E out \in StepOuts :
            /\ SignCall(duty.v, duty.slot, duty.v, Root(prop.id, "parent"), Root(prop.id, "state"),
                        Root(prop.id, "body"), out, 1)
            /\ Put("sign", out)
    \* the relays' scripts and the submission outcome, in one step
    \/ /\ pc = "signed" /\ sig # 0 /\ prop.blinded /\ Cand # {} /\ ~RelaysChosen
       /\ \E script \in [Cand -> Bound(Scripts, LaterScripts)] :
          \E sub \in (IF Delivers(script) THEN StepOuts ELSE {"na"}) :
            /\ sc' = [sc EXCEPT !.duties[cur].relays = [r \in 1..NRelays |-> IF r \in Cand THEN script[r] ELSE "none"],
                                !.duties[cur].submit = sub]
            \* a relay that holds the call: the call stays where it is until `release`
            /\ pc' = IF Holds(script) THEN pc ELSE "done"
       /\ UNCHANGED <<hvars, acct, randao, graffiti, nodeclient, auction, preq, prop, sreq, sig, calls, sent, fulls,
                      cancelled, submitted, subout>>
    \/ /\ pc = "signed" /\ sig # 0 /\ prop.blinded /\ RelaysChosen
       /\ sc' = [sc EXCEPT !.sched = Append(@, Sched("release"))]
       /\ pc' = "done"
       /\ UNCHANGED <<hvars, acct, randao, graffiti, nodeclient, auction, preq, prop, sreq, sig, calls, sent, fulls,
                      cancelled, submitted, subout>>
    \/ /\ sig # 0 /\ ~prop.blinded
       /\ \E out \in StepOuts : SubmitCall(OwnDesc(prop, sig), out) /\ Put("submit", out)
    \/ MayReturn /\ ~RelaysChosen /\ Ret /\ UNCHANGED sc
    \/ /\ ~Returning
       /\ \E g \in SlotGaps : \E v \in Validators :
            /\ NewDuty(LastSlot + g, v)
            /\ sc' = [sc EXCEPT !.duties = Append(@, Base([slot |-> LastSlot + g, v |-> v])),
                                !.sched = Append(@, [op |-> "prepare", h |-> k + 1])]
    \/ /\ ~Returning
       /\ \E h \in Handles : Switch(h)
       /\ UNCHANGED sc

SSpec == SInit /\ [][SNext]_svars

Emit == (k = NDuties /\ Open = {}) => PrintT(ToJson(sc))
=============================================================================
