--------------------------- MODULE Scen_Proposer ---------------------------
(* Scenario generator for C05.  A scenario is the environment's side of one duty: how the        *)
(* service is built (graffiti provider, auctioneer, unblind-from-all), and what each            *)
(* collaborator answers.  TLC walks the sequential part of Proposer.tla's design (`Next`) and    *)
(* collects the environment's choices in `sc`; the concurrent part (the relay goroutines) is    *)
(* represented by one script per candidate relay - the order in which the goroutines run is not *)
(* the driver's to choose.  Every terminal path is printed once (exhaustive mode).              *)
(* The scripts of a relay:                                                                      *)
(*   full     returns the full block for what it was sent                                      *)
(*   err      fails every attempt (the code tries three times, 250 ms apart)                    *)
(*   bad400   fails with "POST failed with status 400" (the code does not retry)                *)
(*   nilresp  returns no response and no error                                                  *)
(*   never    does not return until the context ends                                            *)
(*   errfull  fails the first attempt, returns the full block on the second                     *)
EXTENDS Proposer, Json

CONSTANTS Scripts,          \* relay scripts to enumerate
          GraffitiOuts,     \* outcomes of the graffiti lookup to enumerate
          NRelays           \* Relays = 1..NRelays

VARIABLE sc
svars == <<vars, sc>>

Flags(S) == [r \in 1..NRelays |-> r \in S]

Base == [slot |-> duty.slot, v |-> duty.v, cfg |-> cfg,
         accounts |-> "na", randao |-> "na", graffiti |-> "na",
         auction |-> [kind |-> "none", all |-> Flags({}), providers |-> Flags({})],
         proposal |-> [out |-> "na", version |-> "none", blinded |-> FALSE, dslot |-> 0],
         sign |-> "na",
         relays |-> [r \in 1..NRelays |-> "none"],
         submit |-> "na"]

SInit == Init /\ sc = Base

Put(f, x) == sc' = [sc EXCEPT ![f] = x]

Delivers(script) == \E r \in DOMAIN script : script[r] \in {"full", "errfull"}

SNext ==
    \/ \E out \in {"ok", "err", "empty"} : AccountsCall(Epoch(duty.slot), <<duty.v>>, out) /\ Put("accounts", out)
    \/ \E out \in {"ok", "err"} : RandaoCall(duty.v, duty.slot, out, 1) /\ Put("randao", out)
    \/ ProposeCall /\ UNCHANGED sc
    \/ \E out \in GraffitiOuts : GraffitiCall(out) /\ Put("graffiti", out)
    \/ AuctionCall("err", {}, {}) /\ Put("auction", [kind |-> "err", all |-> Flags({}), providers |-> Flags({})])
    \/ \E all \in AllChoices : \E providers \in SUBSET all :
            /\ AuctionCall("results", all, providers)
            /\ Put("auction", [kind |-> "results", all |-> Flags(all), providers |-> Flags(providers)])
    \/ /\ ProposalCall(duty.slot, graffiti # "ok", randao.token, "err", NoProp)
       /\ Put("proposal", [out |-> "err", version |-> "none", blinded |-> FALSE, dslot |-> 0])
    \/ \E p \in Proposals :
            /\ ProposalCall(duty.slot, graffiti # "ok", randao.token, "ok", p)
            /\ Put("proposal", [out |-> "ok", version |-> p.version, blinded |-> p.blinded, dslot |-> p.slot - duty.slot])
    \/ /\ prop.slot = duty.slot
       /\ \E out \in {"ok", "err"} :
            /\ SignCall(duty.v, duty.slot, duty.v, Root(prop.id, "parent"), Root(prop.id, "state"),
                        Root(prop.id, "body"), out, 1)
            /\ Put("sign", out)
    \* the relays' scripts and the submission outcome, in one step
    \/ /\ pc = "signed" /\ sig # 0 /\ prop.blinded /\ Cand # {}
       /\ \E script \in [Cand -> Scripts] :
          \E sub \in (IF Delivers(script) THEN {"ok", "err"} ELSE {"na"}) :
            sc' = [sc EXCEPT !.relays = [r \in 1..NRelays |-> IF r \in Cand THEN script[r] ELSE "none"],
                             !.submit = sub]
       /\ pc' = "done"
       /\ UNCHANGED <<duty, cfg, acct, randao, graffiti, auction, preq, prop, sreq, sig, calls, sent, fulls,
                      cancelled, submitted, subout>>
    \/ /\ sig # 0 /\ ~prop.blinded
       /\ \E out \in {"ok", "err"} : SubmitCall(OwnDesc(prop, sig), out) /\ Put("submit", out)
    \/ MayReturn /\ Ret /\ UNCHANGED sc

SSpec == SInit /\ [][SNext]_svars

Emit == (pc = "done") => PrintT(ToJson(sc))
=============================================================================
