SPECIFICATION SSpec
CONSTANTS
  Gather = "completion"
  Mix = "local"
  ParFrom = 4
  Validators = {1, 2, 3}
  SlotSpace = {3}
  Nows = {3}
  Committees = {0, 1}
  Sizes = {8}
  Targets = {2}
  HVals = {0, 1}
  HMod = 4
  MaxDuties = 3
  MaxSubs = 1
  SPE = 2
  Ep = 1
  MaxRefresh = 0
  MaxChanges = 0
  MaxHeld = 0
  SignerMayFail = FALSE
INVARIANTS STypeOK ProofsOwn AllFutureSubscribed AggregatorRuleExact SubscriptionHistoryIndependent InfoPrefersAggregator InfoInForceComplete EveryAggregatorCommitteeScheduled NoAggregationForPastSlot
CHECK_DEADLOCK FALSE
