-------------------------- MODULE SubscriberSigner --------------------------
(* The SIGNER behind the attestation aggregator, as part of the specification of C14.            *)
(*                                                                                               *)
(* Subscriber.tla takes "the slot signature of validator v for slot s" (its scalar h) from the   *)
(* duty oracle and lets a subscription calculate its flags with Exact(D, target): the signer is  *)
(* an oracle there.  The property draws its boundary further out: "marks a validator as          *)
(* aggregator exactly when the rule ON ITS SLOT SIGNATURE says so".  Between the validator's key *)
(* and the flag lie, as main.go wires them,                                                      *)
(*                                                                                               *)
(*   beaconcommitteesubscriber  getSignaturesAndAggregateData: accounts[i], committeeSizes[i] =  *)
(*                              the i-th validator of the slot's merged duty (attester.MergeDuties)*)
(*   attestationaggregator      AggregatorsAndSignatures: sigs = SignSlotSelections(accounts, s),*)
(*                              aggregators[i] = rule(sigs[i], committeeSizes[i])                *)
(*   signer/standard            SignSlotSelections -> signRootsByAccountType: the batch is SPLIT *)
(*                              into the accounts that are not distributed and those that are,   *)
(*                              each group signed by signRootsMulti, the signatures put back     *)
(*                              through two index maps; signRootsMulti: a group whose first      *)
(*                              account is a multi-signer (Dirk) is signed by ONE remote request *)
(*                              (SignGenericMulti, answer positional), any other group account by*)
(*                              account (Sign of the wallet account's own key)                   *)
(*   subscriber                 calculateSubscriptionInfoForDuty: aggregators[i] / sigs[i] are   *)
(*                              stored for duty.ValidatorIndices()[i]                            *)
(*                                                                                               *)
(* THE BATCH CONTRACT of the signer: the answer is positional - sigs[i] is the slot signature of *)
(* accounts[i] - whatever the kind of the accounts (the sibling implementations are values of    *)
(* Mix), however the batch was split, and in whatever order the individual signings COMPLETED    *)
(* (the environment chooses the completion order: SComplete; an implementation may sign a group  *)
(* of ParFrom or more local accounts in parallel).  Here the signer is a component with its own  *)
(* state: a (re-)subscription is Begin (duties fetched, the slot batches formed), one            *)
(* SComplete / SCompleteMulti per signing, End (gather, flags, info, store).                     *)
(*                                                                                               *)
(*   Gather = "positional"  the contract.  Every invariant of Subscriber holds for every Mix and *)
(*                          every completion order, and ProofsOwn (the selection proof stored for*)
(*                          a validator is its own slot signature).                              *)
(*   Gather = "completion"  DEVIATION (seeded/C14-parallel-local-signing-completion-order): the  *)
(*                          signatures of a group signed in parallel are gathered in the order in*)
(*                          which the signings completed.  TLC must report AggregatorRuleExact   *)
(*                          violated; with ParFrom above the batch sizes of the model (= every   *)
(*                          earlier scenario set: a handful of validators per slot) it passes.   *)
(*   Gather = "concat"      DEVIATION: the signatures of the two groups are concatenated instead *)
(*                          of being put back through the index maps.  Right for every batch of  *)
(*                          one kind; TLC must report AggregatorRuleExact violated for a mixed   *)
(*                          batch.                                                               *)
(* checks/C14.py runs the deviations as vacuity self-checks.                                     *)
EXTENDS Subscriber

CONSTANTS Gather,     \* see above
          Mix,        \* kinds of Vouch's accounts: "local" | "multi" | "dist" | "mixed" | "localmixed"
          ParFrom     \* a local group of ParFrom or more accounts is signed in parallel (0: never)

VARIABLES call,       \* the (re-)subscription inside the signer: NoCall or [kind, snap, batch, done]
          proofs      \* info entry -> the validator whose slot signature is stored as its selection proof
svars == <<vars, call, proofs>>

NoCall == [kind |-> "none"]

\* the account of a validator: a wallet account signs with its own key (local), a Dirk account is a
\* multi-signer (one remote request per group); either may be a distributed account
KindOf(v) ==
    CASE Mix = "local"      -> "local"
      [] Mix = "multi"      -> "multi"
      [] Mix = "dist"       -> "multidist"
      [] Mix = "mixed"      -> IF v % 2 = 0 THEN "multidist" ELSE "multi"
      [] Mix = "localmixed" -> IF v % 2 = 0 THEN "localdist" ELSE "local"
IsDist(v) == KindOf(v) \in {"multidist", "localdist"}
IsMulti(v) == KindOf(v) \in {"multi", "multidist"}

Orders(X) == {f \in [1..Cardinality(X) -> X] : \A a, b \in 1..Cardinality(X) : a # b => f[a] # f[b]}
Range(f) == {f[i] : i \in DOMAIN f}

SlotsOf(D) == {d.slot : d \in D}
ValsAt(D, s) == {d.v : d \in {x \in D : x.slot = s}}

\* positions of the batch B that belong to the group g ("plain": not distributed, "dist"), in batch order
GroupPos(B, g) == {i \in DOMAIN B : IsDist(B[i]) = (g = "dist")}
\* the k-th smallest element of a set of positions
Nth(P, k) == CHOOSE i \in P : Cardinality({j \in P : j < i}) = k - 1
\* a group is signed by one remote request when its first account is a multi-signer
GroupMulti(B, g) == GroupPos(B, g) # {} /\ IsMulti(B[Nth(GroupPos(B, g), 1)])
GroupParallel(B, g) == ~GroupMulti(B, g) /\ ParFrom > 0 /\ Cardinality(GroupPos(B, g)) >= ParFrom

NoProofs == [e \in {} |-> 0]

SInit == Init /\ call = NoCall /\ proofs = NoProofs

\* A (re-)subscription fetches the duties and forms the batch of every slot (the order of a batch is
\* the implementation's: MergeDuties keeps the order of the beacon node's answer).
SBegin(kind) ==
    /\ call = NoCall
    /\ duties # {}
    /\ IF kind = "sub"
       THEN nsub < MaxSubs /\ nsub' = nsub + 1 /\ inflight' = inflight
       ELSE inflight > 0 /\ inflight' = inflight - 1 /\ nsub' = nsub
    /\ \E B \in [SlotsOf(duties) -> UNION {Orders(ValsAt(duties, s)) : s \in SlotsOf(duties)}] :
          /\ \A s \in SlotsOf(duties) : Range(B[s]) = ValsAt(duties, s) /\ Len(B[s]) = Cardinality(ValsAt(duties, s))
          /\ call' = [kind |-> kind, snap |-> duties, batch |-> B, done |-> [s \in SlotsOf(duties) |-> <<>>]]
    /\ started' = TRUE
    /\ UNCHANGED <<now, target, geo, duties, info, infoD, submitted, subAt, held, nheld, nref, nchg, jobs, attests, done, proofs>>

Done(s) == Range(call.done[s])
GroupDone(s, g) == GroupPos(call.batch[s], g) \subseteq Done(s)

\* one account signs with its own key (the plain group is signed before the distributed one; a
\* group that is not signed in parallel is signed account by account, in order)
SComplete(s, i) ==
    /\ call # NoCall /\ s \in DOMAIN call.batch
    /\ LET B == call.batch[s]
           g == IF IsDist(B[i]) THEN "dist" ELSE "plain" IN
         /\ i \in DOMAIN B /\ i \notin Done(s)
         /\ ~GroupMulti(B, g)
         /\ g = "dist" => GroupDone(s, "plain")
         /\ GroupParallel(B, g) \/ \A j \in GroupPos(B, g) : j < i => j \in Done(s)
    /\ call' = [call EXCEPT !.done[s] = Append(@, i)]
    /\ UNCHANGED <<vars, proofs>>

\* the remote signer answers the request for a whole group (its answer is positional)
SCompleteMulti(s, g) ==
    /\ call # NoCall /\ s \in DOMAIN call.batch
    /\ LET B == call.batch[s]
           P == GroupPos(B, g) IN
         /\ GroupMulti(B, g) /\ ~GroupDone(s, g)
         /\ g = "dist" => GroupDone(s, "plain")
         /\ call' = [call EXCEPT !.done[s] = @ \o [k \in 1..Cardinality(P) |-> Nth(P, k)]]
    /\ UNCHANGED <<vars, proofs>>

\* whose signature the signer hands back at position i of the batch of slot s
Returned(s, i) ==
    LET B == call.batch[s]
        g == IF IsDist(B[i]) THEN "dist" ELSE "plain"
        P == GroupPos(B, g)
        rank == Cardinality({j \in P : j < i}) + 1                      \* i is the rank-th account of its group
        comp == SelectSeq(call.done[s], LAMBDA j : j \in P)             \* the group's positions as they completed
        plainN == Cardinality(GroupPos(B, "plain")) IN
    CASE Gather = "completion" /\ GroupParallel(B, g) -> B[comp[rank]]
      [] Gather = "concat" ->
            \* the answer is the plain group's signatures followed by the distributed group's
            IF i <= plainN THEN B[Nth(GroupPos(B, "plain"), i)] ELSE B[Nth(GroupPos(B, "dist"), i - plainN)]
      [] OTHER -> B[i]

PosOf(s, v) == CHOOSE i \in DOMAIN call.batch[s] : call.batch[s][i] = v
HOf(D, v, s) == (CHOOSE d \in D : d.v = v /\ d.slot = s).h

\* what the attestation aggregator answers for the duties of the call: the rule on the signature
\* handed back at the duty's position, with the duty's own committee length
Answers ==
    [d \in call.snap |-> IsAggregator(HOf(call.snap, Returned(d.slot, PosOf(d.slot, d.v)), d.slot), d.size, target)]

EntriesBy(D, A) == {[slot |-> d.slot, committee |-> d.committee, v |-> d.v, agg |-> A[d]] : d \in D}

AllDone == call # NoCall /\ \A s \in DOMAIN call.batch : Done(s) = DOMAIN call.batch[s]

SEnd(I, S) ==
    /\ AllDone
    /\ StoreCalc(I, S, call.snap, Answers)
    /\ proofs' = [e \in I |-> Returned(e.slot, PosOf(e.slot, e.v))]
    /\ call' = NoCall
    /\ UNCHANGED <<now, target, geo, duties, nsub, inflight, held, nheld, nref, nchg, jobs, attests, done>>

SNext ==
    \/ /\ UNCHANGED <<call, proofs>>
       /\ \/ \E d \in DutySpace : AddDuty(d) /\ (call # NoCall => HConsistent(d, call.snap))
          \/ \E d \in duties : DropDuty(d)
          \/ \E d \in duties : \E c \in Committees : \E z \in Sizes :
                 MoveDuty(d, [d EXCEPT !.committee = c, !.size = z])
          \/ \E t \in Nows : Advance(t)
          \/ SubscribeFail
          \/ Refresh
          \/ ResubFail
          \/ \E s \in SlotSpace : \E C \in SUBSET Committees : \E ok \in BOOLEAN : AttestJob(s, C, ok)
    \/ /\ Housekeep /\ proofs' = NoProofs /\ UNCHANGED call
    \/ \E k \in {"sub", "resub"} : SBegin(k)
    \/ \E s \in SlotSpace : \E i \in 1..Cardinality(Validators) : SComplete(s, i)
    \/ \E s \in SlotSpace : \E g \in {"plain", "dist"} : SCompleteMulti(s, g)
    \/ AllDone /\ \E I \in SUBSET EntriesBy(call.snap, Answers) : \E S \in SUBSET I : SEnd(I, S)

SSpec == SInit /\ [][SNext]_svars

-----------------------------------------------------------------------------
\* the batch contract, seen from the store: the selection proof kept for a validator (the signature
\* its aggregation job will carry) is that validator's own slot signature
ProofsOwn == \A e \in DOMAIN proofs : proofs[e] = e.v

STypeOK ==
    /\ TypeOK
    /\ DOMAIN proofs = info
    /\ call # NoCall => \A s \in DOMAIN call.batch : Done(s) \subseteq DOMAIN call.batch[s]
=============================================================================
