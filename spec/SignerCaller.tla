---------------------------- MODULE SignerCaller ----------------------------
(* C06 with the boundary drawn where the PROPERTY draws it: at the attestation that leaves Vouch.   *)
(*                                                                                                *)
(* Signer.tla states the batch contract of the signer: "the i-th signature belongs to the i-th     *)
(* account and message".  The property's observable is not the signer's reply but the SUBMITTED    *)
(* object: an attestation (slot, committee index, aggregation bit) is attributed by the chain to   *)
(* the validator the duty lists at (committee index, position in committee), and its signature     *)
(* must verify under THAT validator's key against the signing root of THAT attestation's data.     *)
(* Between the duty and the submitted attestation sit, as main.go wires them:                      *)
(*   controller.scheduleAttestations  AttesterDuties of the beacon node -> attester.MergeDuties    *)
(*                    (per slot: three parallel arrays validator / committee / position, sorted by *)
(*                    committee then validator) -> one job per slot -> attester.Attest(duty)       *)
(*   attester.fetchValidatorIndices   drops every validator that already attested in the epoch     *)
(*                    (`attested`, state of the long-lived attester instance): the FILTERED list   *)
(*   account manager  ValidatingAccountsForEpochByIndex(filtered list): a map index -> account;    *)
(*                    partial (no account / validator not active at the epoch)                     *)
(*   attester.Attest  THE CALLER'S PAIRING: builds the request positions - accounts[i] with        *)
(*                    committeeIndices[i] (handed to the signer) and validatorCommitteeIndices[i], *)
(*                    committeeSizes[i] (kept for the aggregation bits)                            *)
(*   signer.SignBeaconAttestations    Signer.tla (domain, split by account kind, merge)            *)
(*   attester.createAttestations      attestation i = (committeeIndices[i], bit                    *)
(*                    validatorCommitteeIndices[i], sigs[i])                                       *)
(*   submitter -> beacon node         what leaves Vouch                                            *)
(* Every one of these pairs things BY POSITION; the signer's contract is only the middle link.     *)
(* This module makes the caller's side part of the signing history: a request of Signer.tla is no  *)
(* longer an input of the environment but is BUILT by a caller action from a delivered duty, the   *)
(* instance's `attested` state and the accounts provider's answer; a Submit action composes what   *)
(* leaves Vouch from the signer's reply and the caller's arrays.  The environment delivers duties   *)
(* repeatedly on ONE attester + ONE signer instance: re-delivered / rescheduled duties (a re-org    *)
(* changes the dependent root, the controller fetches the duties of the current epoch again) list  *)
(* validators that already attested this epoch, possibly AHEAD of others.                           *)
(*                                                                                                *)
(* Sibling implementations of the pairing are values of the constant Pairing:                      *)
(*   "by_validator"         the pinned code: accounts in map order (any order), committee data     *)
(*                          looked up through validator index -> position in the DUTY              *)
(*   "by_duty_position"     walk the duty in order, skip validators that are filtered out or have  *)
(*                          no account, take the data of the duty position (deterministic order)   *)
(*   "by_filtered_position" walk the FILTERED list, skip validators without account, take the data *)
(*                          at the position IN THE FILTERED LIST from the unfiltered duty arrays   *)
(*                          (seeded/C06-attest-committee-data-by-filtered-position): right on      *)
(*                          every fresh instance and whenever nothing is filtered out; TLC must    *)
(*                          reject it (MC_SignerCaller_filtered.cfg, self-check of the check)      *)
(*   "by_account_position"  the duty data of the position in the ACCOUNTS array (the answer of the *)
(*                          accounts provider compacted): right whenever every listed validator    *)
(*                          has an account; rejected once the answer is partial                    *)
(* PairedOwn / SubmittedRight must hold for every legal value.                                     *)
(*                                                                                                *)
(* SIBLING CALLERS of the batch contract are values of the duty's `op` (CallerOps):                *)
(*   "attestations"  attester.Attest -> SignBeaconAttestations -> attestations (above)             *)
(*   "sync_root"     synccommitteemessenger.Message -> SignSyncCommitteeRoots -> sync committee     *)
(*                   messages: the duty lists validators (entries; c is not used), validators      *)
(*                   without an account are left out of the batch (a nil entry would fail it) and  *)
(*                   the signatures are mapped back; every position signs the same block root, so  *)
(*                   the signer call shows no pairing - what leaves does: a message is attributed  *)
(*                   to the validator whose INDEX it carries (written as that validator's entry:   *)
(*                   committee, pos) and must verify under that validator's key, DOMAIN_SYNC_-      *)
(*                   COMMITTEE at the slot's epoch.  No `attested` filter on this path.             *)
(* (SignSlotSelections / SignSyncCommitteeSelections / SignContributionAndProofs have callers of   *)
(* the same shape - beaconcommitteesubscriber, the messenger's Prepare, synccommitteeaggregator;   *)
(* they are not bound, see docs/C06.md.)                                                            *)
EXTENDS Signer

CONSTANTS NVal,          \* our validators are 1..NVal
          Committees,    \* committee indices of a slot
          CallerSlots,   \* slots for which duties are delivered
          MaxDuty,       \* most validators of ours in one duty
          Pairing        \* see above

Validators == 1..NVal

\* which callers deliver duties: subset of {"attestations", "sync_root"} (cfg files override: CallerOps <- OpsSync)
CallerOps == {"attestations"}
OpsSync == {"sync_root"}
OpsBoth == {"attestations", "sync_root"}

VARIABLES acct,        \* the instance's accounts: validator -> account kind, or "none" (no validating account at the
                       \* epoch: not in the wallet / validator not active) - the accounts provider's answer is partial
          attested,    \* the attester's memory: set of <<epoch, validator>> that attested (fetchValidatorIndices)
          cpc,         \* per request, the caller's side: "none" | "delivered" | "called" | "finished"
          duty,        \* per request: the duty delivered (slot, entries = sequence of [v, c, p])
          elig,        \* per request: the FILTERED list - validators of the duty that had not attested, in duty order
          cal,         \* per request: the caller's arrays as handed to the signer: vals (whose account), cidx
          submitted    \* what left Vouch: set of [rid, slot, committee, pos, by]

cvars == <<acct, attested, cpc, duty, elig, cal, submitted>>
allvars == <<vars, cvars>>

NoDuty == [op |-> "none", slot |-> -1, entries |-> <<>>]
NoCal == [vals |-> <<>>, cidx |-> <<>>]

\* the position in committee: any function that gives the validators of one committee different positions
PosOf(v, c) == 2 * v + c

\* duties as attester.MergeDuties hands them over: validators of ours at a slot, sorted by committee then validator
Sorted(e) == \A j \in 1..(Len(e) - 1) : (e[j].c < e[j + 1].c) \/ (e[j].c = e[j + 1].c /\ e[j].v < e[j + 1].v)
EntrySeqs == {e \in UNION {[1..n -> [v : Validators, c : Committees]] : n \in 1..MaxDuty} :
                 /\ \A j, k \in 1..Len(e) : j # k => e[j].v # e[k].v
                 /\ Sorted(e)}
WithPos(e) == [j \in 1..Len(e) |-> [v |-> e[j].v, c |-> e[j].c, p |-> PosOf(e[j].v, e[j].c)]]
Duties == {[op |-> "attestations", slot |-> s, entries |-> WithPos(e)] : s \in (IF "attestations" \in CallerOps THEN CallerSlots ELSE {}), e \in EntrySeqs}
          \cup
          \* the sync committee messenger's duty: validators only (one committee index for all, not used)
          {[op |-> "sync_root", slot |-> s, entries |-> WithPos(e)] :
              s \in (IF "sync_root" \in CallerOps THEN CallerSlots ELSE {}),
              e \in {x \in EntrySeqs : \A j \in 1..Len(x) : x[j].c = CHOOSE c \in Committees : TRUE}}

\* the account populations of an instance (cfg files override)
AcctChoices == [Validators -> {"plain", "plain_dist", "none"}]
\* a wallet, a wallet with a distributed account in the middle, a validator without account first / in the middle
AcctQuick == {[v \in Validators |-> "plain"],
              [v \in Validators |-> IF v = 2 THEN "plain_dist" ELSE "plain"],
              [v \in Validators |-> IF v = 1 THEN "none" ELSE "plain"],
              [v \in Validators |-> IF v = 2 THEN "none" ELSE IF v = 1 THEN "plain_dist" ELSE "plain"]}
AcctNone == {[v \in Validators |-> "none"]}       \* (initial state of the trace specification; Reset sets acct)
\* (overlapping deliveries, two validators) both ordinary / one distributed / one without account
AcctOverlap == {a \in [Validators -> {"plain", "plain_dist", "none"}] : a[1] # "none" /\ (a[1] = "plain" \/ a[2] = "plain")}
\* every validator has an account
AcctAll == {[v \in Validators |-> "plain"], [v \in Validators |-> IF v = 2 THEN "plain_dist" ELSE "plain"]}
\* what an nd wallet behind the wallet account manager can be: ordinary accounts, some validators without one
AcctWallet == [Validators -> {"plain", "none"}] \ {[v \in Validators |-> "none"]}
AcctWalletQuick == {a \in AcctWallet : Cardinality({v \in Validators : a[v] = "none"}) <= 1}

DutyVals(d) == [j \in 1..Len(d.entries) |-> d.entries[j].v]
IndexIn(s, x) == CHOOSE j \in 1..Len(s) : s[j] = x
EntryOf(d, v) == d.entries[IndexIn(DutyVals(d), v)]
HasAccount(v) == acct[v] # "none"

CallerInit ==
    /\ acct \in AcctChoices
    /\ attested = {}
    /\ cpc = [r \in Rids |-> "none"]
    /\ duty = [r \in Rids |-> NoDuty]
    /\ elig = [r \in Rids |-> <<>>]
    /\ cal = [r \in Rids |-> NoCal]
    /\ submitted = {}

CInit == Init /\ svc = "new" /\ CallerInit

-----------------------------------------------------------------------------
\* the controller's job for a slot runs: Attest(duty).  The first thing the attester does is filter the list
\* (and remember the validators it lets through: they are attesting now)
Deliver(r, d) ==
    /\ svc = "up"
    /\ cpc[r] = "none"
    /\ \A q \in Rids : q < r => cpc[q] # "none"
    /\ LET e == EpochOfSlot(d.slot)
           \* (the attester's memory of who attested this epoch; the messenger keeps none)
           keep == IF d.op = "attestations" THEN SelectSeq(DutyVals(d), LAMBDA v : <<e, v>> \notin attested)
                   ELSE DutyVals(d)
       IN /\ elig' = [elig EXCEPT ![r] = keep]
          /\ attested' = IF d.op = "attestations" THEN attested \cup {<<e, keep[j]>> : j \in 1..Len(keep)} ELSE attested
    /\ duty' = [duty EXCEPT ![r] = d]
    /\ cpc' = [cpc EXCEPT ![r] = "delivered"]
    /\ UNCHANGED <<vars, acct, cal, submitted>>

\* the caller invokes SignBeaconAttestations: the general step - WHOSE accounts are handed over, in which order,
\* and which committee index is paired with each is written down, not assumed
CallerCallWith(r, vals, cidx) ==
    /\ cpc[r] = "delivered"
    /\ Len(vals) >= 1
    /\ Len(cidx) = Len(vals)
    /\ Len(vals) <= MaxBatch
    /\ \A j \in 1..Len(vals) : vals[j] \in Validators /\ HasAccount(vals[j])
    /\ cal' = [cal EXCEPT ![r] = [vals |-> vals, cidx |-> cidx]]
    /\ cpc' = [cpc EXCEPT ![r] = "called"]
    \* = Call(r, c) of Signer.tla, the request BUILT by the caller (a delivery that ends without a signer call
    \* leaves its request number unused, so Call's "numbered in call order" does not apply)
    /\ pc[r] = "idle"
    /\ LET c == [op |-> duty[r].op, slot |-> duty[r].slot,
                 epoch |-> IF duty[r].op = "sync_root" THEN EpochOfSlot(duty[r].slot) ELSE CHOOSE e \in GivenEpochs : TRUE,
                 kinds |-> [j \in 1..Len(vals) |-> acct[vals[j]]], fail |-> "none", failidx |-> 0]
       IN /\ ValidCall(c)
          /\ req' = [req EXCEPT ![r] = c]
    /\ pc' = [pc EXCEPT ![r] = "called"]
    /\ UNCHANGED <<fork, boot, svc, domreqs, dom, insign, signed, result>>
    /\ UNCHANGED <<acct, attested, duty, elig, submitted>>

\* the filtered list without the validators the accounts provider gave no account for, in order
Served(r) == SelectSeq(elig[r], HasAccount)

Perms(s) == {p \in [1..Len(s) -> Range(s)] : \A j, k \in 1..Len(s) : j # k => p[j] # p[k]}

\* the arrays the sibling implementations build: <<vals, cidx, pos>>
Arrays(r, how) ==
    LET d == duty[r]
        served == Served(r)
    IN CASE how = "by_validator" ->
              {<<p, [j \in 1..Len(p) |-> EntryOf(d, p[j]).c], [j \in 1..Len(p) |-> EntryOf(d, p[j]).p]>> : p \in Perms(served)}
         [] how = "by_duty_position" ->
              {<<served, [j \in 1..Len(served) |-> EntryOf(d, served[j]).c], [j \in 1..Len(served) |-> EntryOf(d, served[j]).p]>>}
         [] how = "by_filtered_position" ->      \* position in the FILTERED list, data of the unfiltered duty
              {<<served, [j \in 1..Len(served) |-> d.entries[IndexIn(elig[r], served[j])].c],
                         [j \in 1..Len(served) |-> d.entries[IndexIn(elig[r], served[j])].p]>>}
         [] how = "by_account_position" ->       \* position in the accounts array, data of the duty
              {<<served, [j \in 1..Len(served) |-> d.entries[j].c], [j \in 1..Len(served) |-> d.entries[j].p]>>}

\* the protocol
CallerCall(r) ==
    /\ cpc[r] = "delivered"
    /\ \E a \in Arrays(r, Pairing) : CallerCallWith(r, a[1], a[2])

\* nobody to sign for: Attest ends without a signer call (the real code: "no accounts supplied" / no attestations)
CallerSkip(r) ==
    /\ cpc[r] = "delivered"
    /\ Len(Served(r)) = 0
    /\ cpc' = [cpc EXCEPT ![r] = "finished"]
    /\ UNCHANGED <<vars, acct, attested, duty, elig, cal, submitted>>

\* the position in committee the caller keeps for position j of its request
PosFor(r, j) == LET a == CHOOSE a \in Arrays(r, Pairing) : a[1] = cal[r].vals IN a[3][j]

\* Under whose key does abstract signature s verify against the signing root of the attestation data
\* (slot, committee) with the attester domain of the slot's epoch?  0 = nobody's.
\* s.key = <<q, k, vk>>: the account at position k of request q, verification key vk; s.msg: the message of a
\* position of request r - the AttestationData with the committee index the caller handed for that position.
SignedBy(r, s, slot, committee) ==
    IF /\ s # Absent
       /\ s.key[1] \in Rids /\ cal[s.key[1]] # NoCal /\ s.key[2] \in 1..Len(cal[s.key[1]].vals)
       /\ s.key[3] = VerKey(acct[cal[s.key[1]].vals[s.key[2]]])        \* the validator's public key (composite for Dirk)
       /\ IF duty[r].op = "attestations"
          THEN /\ s.msg.container = "AttestationData"
               /\ s.msg.slot = slot
               /\ s.msg.variant \in 1..Len(cal[r].cidx) /\ cal[r].cidx[s.msg.variant] = committee
               /\ s.dom = [type |-> <<1, 0, 0, 0>>, ver |-> IF slot \div boot.spe < fork THEN "old" ELSE "new"]
          ELSE /\ s.msg.container = "BlockRoot"            \* the same root for every position of the batch
               /\ s.msg.epoch = slot \div boot.spe
               /\ s.dom = [type |-> <<7, 0, 0, 0>>, ver |-> IF slot \div boot.spe < fork THEN "old" ELSE "new"]
    THEN cal[s.key[1]].vals[s.key[2]]
    ELSE 0

\* attestations leave Vouch: the general step - what they are is written down
SubmitWith(r, atts) ==
    /\ cpc[r] = "called"
    /\ pc[r] = "done"
    /\ submitted' = submitted \cup atts
    /\ cpc' = [cpc EXCEPT ![r] = "finished"]
    /\ UNCHANGED <<vars, acct, attested, duty, elig, cal>>

\* the protocol: one attestation per signature returned, with the committee index handed to the signer for
\* that position and the aggregation bit of that position's validator
Att(r, j) == [rid |-> r, slot |-> duty[r].slot, committee |-> cal[r].cidx[j], pos |-> PosFor(r, j),
              by |-> SignedBy(r, result[r][j], duty[r].slot, cal[r].cidx[j])]
Submit(r) ==
    /\ cpc[r] = "called" /\ pc[r] = "done"
    /\ SubmitWith(r, {Att(r, j) : j \in {k \in 1..Len(result[r]) : result[r][k] # Absent}})

\* the signer refused / failed: Attest returns the error, nothing leaves
CallerGiveUp(r) ==
    /\ cpc[r] = "called"
    /\ pc[r] = "error"
    /\ cpc' = [cpc EXCEPT ![r] = "finished"]
    /\ UNCHANGED <<vars, acct, attested, duty, elig, cal, submitted>>

\* the signer's own steps (Signer.tla), the caller's state untouched
SignerStep(r) ==
    /\ \/ FetchDomain(r) \/ DomainResp(r)
       \/ \E g \in {1, 2} : SignGroupStart(r, g)
       \/ SignEnd(r)
       \/ Return(r) \/ ReturnErr(r) \/ Refuse(r)
    /\ UNCHANGED cvars

\* duties are run one after the other (Sequential) or beside each other (the job of the next slot starts while the
\* previous one is still signing)
CONSTANT Sequential
MayStart(r) == Sequential => \A q \in Rids : q < r => cpc[q] = "finished"

CNext ==
    \/ Start(TRUE) /\ UNCHANGED cvars
    \/ \E r \in Rids : cpc[r] = "none" /\ MayStart(r) /\ \E d \in Duties : Deliver(r, d)
    \/ \E r \in Rids : CallerCall(r) \/ CallerSkip(r) \/ SignerStep(r) \/ Submit(r) \/ CallerGiveUp(r)

CSpec == CInit /\ [][CNext]_allvars

-----------------------------------------------------------------------------
CallerTypeOK ==
    /\ \A r \in Rids : cpc[r] \in {"none", "delivered", "called", "finished"}
    /\ \A v \in Validators : acct[v] \in Kinds \cup {"none"}

\* C06 on the caller's side of the batch contract (HandedOwn one layer up): the committee index paired with an
\* account is the duty's committee index OF THAT ACCOUNT'S VALIDATOR; no account is handed twice; every account
\* handed is one of the filtered list
PairedOwn ==
    \A r \in Rids : cal[r] # NoCal =>
        /\ NoRepeats(cal[r].vals)
        /\ \A j \in 1..Len(cal[r].vals) :
              /\ cal[r].vals[j] \in Range(elig[r])
              /\ cal[r].cidx[j] = EntryOf(duty[r], cal[r].vals[j]).c

\* C06 at the boundary of Vouch: every attestation that leaves is attributed by the chain - duty entry with its
\* committee index and position in committee - to the validator under whose key its signature verifies against
\* the signing root of its OWN data, with the attester domain of its slot's epoch
SubmittedRight ==
    \A a \in submitted :
        /\ a.by # 0
        /\ a.slot = duty[a.rid].slot
        /\ [v |-> a.by, c |-> a.committee, p |-> a.pos] \in Range(duty[a.rid].entries)

\* reachability witnesses (must be VIOLATED: the passing configurations are not empty)
NeverFilteredAhead ==      \* a duty whose first validator is filtered out while a later one attests, and submits
    ~ \E r \in Rids : /\ cpc[r] = "finished" /\ \E a \in submitted : a.rid = r
                      /\ Len(elig[r]) < Len(duty[r].entries)
                      /\ duty[r].entries[1].v \notin Range(elig[r])
=============================================================================
