------------------------ MODULE Scen_CollectorLookup ------------------------
(* Scenario generator for the WIRED family of C07: histories of calls on one strategy instance   *)
(* that consults the real block-root cache (CollectorLookup.tla).  Per call: what every node     *)
(* does (a behaviour of Collector.tla), in which phase, WHICH HEAD ROOT it reports; per root of   *)
(* the call what a header fetch does (ok0 / ok1 / fail / never) and whether the cache has been   *)
(* told the root beforehand (pre: the block event arrived) - the set LInit chooses from; when    *)
(* the call starts (seq / early / mid, at most two in flight, as in Scen_CollectorInst.tla).     *)
(* Families:                                                                                     *)
(*   "slow"  every call has a root whose header is slow or never comes, reported by a node that  *)
(*           answers in time - and (Best) another node, also in time, whose root is prompt       *)
(*           (known to the cache or answered at once): the lookup that blocks beside the one     *)
(*           that must not be kept from the decision point;                                      *)
(*   "free"  anything.                                                                           *)
EXTENDS CollectorLookup, Json

CONSTANTS Families, MaxLen

VARIABLES hv, hn, hthr, fam, klen, calls, at, cur, complete

shape == <<hv, hn, hthr, fam, klen>>
hvars == <<lvars, shape, calls, at, cur, complete>>

Coll(v) == v \in {"Majority", "RootMajority"}

NodeChoices == {c \in [b : Behaviours(hv), f : Phases3, r : Roots] :
                   /\ c.b.k = "silent" => c.f = "late"
                   /\ c.b.k # "valid" => c.r = 1
                   /\ (c.b.k = "valid" /\ Coll(hv)) => c.r = c.b.v}

i == Len(calls) + 1
InTimeValid(c) == c.b.k = "valid" /\ c.f # "late"

AtAllowed(a) ==
    /\ i > 1 \/ a = "seq"
    /\ (a # "seq") => calls[i - 1].at = "seq"

NodeAllowed(p, c) ==
    IF fam = "slow"
    THEN CASE p = 1 -> InTimeValid(c) /\ c.r = 1
           [] p = 2 /\ ~Coll(hv) -> InTimeValid(c) /\ c.r = 2
           [] OTHER -> TRUE
    ELSE TRUE

UsedIn(env) == {env[p].r : p \in {q \in 1..Len(env) : env[q].b.k = "valid"}}

HdrAllowed(env, h, pre) ==
    /\ \A r \in Roots : (r \notin UsedIn(env) \/ r \in pre) => h[r] = "ok0"
    /\ \A r \in Roots : r \notin UsedIn(env) => r \notin pre
    /\ fam = "slow" => /\ 1 \notin pre /\ h[1] \in {"ok1", "never"}
                       /\ ~Coll(hv) => (2 \in pre \/ h[2] = "ok0")

ChooseAt ==
    /\ i <= klen /\ at = "none"
    /\ \E a \in {"seq", "early", "mid"} : AtAllowed(a) /\ at' = a
    /\ UNCHANGED <<lvars, shape, calls, cur, complete>>

AddNode ==
    /\ at # "none" /\ Len(cur) < hn
    /\ \E c \in NodeChoices : NodeAllowed(Len(cur) + 1, c) /\ cur' = Append(cur, c)
    /\ UNCHANGED <<lvars, shape, calls, at, complete>>

AddHdr ==
    /\ at # "none" /\ Len(cur) = hn
    /\ \E h \in [Roots -> HdrKinds], pre \in SUBSET Roots :
          /\ HdrAllowed(cur, h, pre)
          /\ calls' = Append(calls, [at |-> at, env |-> cur, hdr |-> h, pre |-> pre])
    /\ cur' = <<>> /\ at' = "none"
    /\ UNCHANGED <<lvars, shape, complete>>

Finish ==
    /\ Len(calls) = klen /\ ~complete
    /\ complete' = TRUE
    /\ UNCHANGED <<lvars, shape, calls, at, cur>>

SInit ==
    /\ variant = "Best" /\ n = 1 /\ thr = 0 /\ cap = 1
    /\ beh = [p \in 1..1 |-> [k |-> "silent", v |-> 0, s |-> 0]]
    /\ ph = [p \in 1..1 |-> "late"]
    /\ InitCollector
    /\ nph = ph /\ rt = [p \in 1..1 |-> 1] /\ hdr = [r \in Roots |-> "ok0"] /\ fs = [p \in 1..1 |-> 0]
    /\ cached = {}
    /\ InitLookup
    /\ hv \in Variants
    /\ fam \in Families
    /\ hn \in (IF fam = "slow" /\ ~Coll(hv) THEN 2..MaxN ELSE 1..MaxN)
    /\ hthr \in (IF hv = "Majority" THEN 0..hn ELSE {0})
    /\ klen \in 1..MaxLen
    /\ calls = <<>> /\ at = "none" /\ cur = <<>>
    /\ complete = FALSE

SSpec == SInit /\ [][ChooseAt \/ AddNode \/ AddHdr \/ Finish]_hvars

Emit == complete =>
    PrintT(ToJson([variant |-> hv, n |-> hn, thr |-> hthr, fam |-> fam,
                   calls |-> [j \in 1..klen |->
                        [at |-> calls[j].at,
                         hdr |-> [r \in Roots |-> calls[j].hdr[r]],
                         pre |-> [r \in Roots |-> r \in calls[j].pre],
                         provs |-> [p \in 1..hn |-> [k |-> calls[j].env[p].b.k, v |-> calls[j].env[p].b.v,
                                                     s |-> calls[j].env[p].b.s, ph |-> calls[j].env[p].f,
                                                     r |-> calls[j].env[p].r]]]]]))
=============================================================================
