SPECIFICATION SemFreshSpec
CONSTANTS
  MaxN = 3
  Variants = {"Majority", "RootMajority"}
  Values = {1, 2}
  Scores = {0}
  FirstCap = 0
  PC = 3
  Deviation = "SharedTally"
INVARIANTS TypeOK SemTypeOK ReturnsByHard MajorityRule ErrorIffNothing InvalidNeverReturned
