SPECIFICATION TraceSpec
CONSTANTS
  P = 4
  EP = 2
  G = 2
  MaxSlot = 100000
  StartSlots = {}
  Mode = "design"
  RecMax = 100
  RecKeep = 32
  RootKeep = 4
  BidKeep = 32
  KRoots = 8
  KBids = 64
  Menu = {}
  Moods = {}
  MaxReorgs = 0
  MsgLates = {}
  AucLates = {}
  SubLates = {}
  AttLates = {}
  MaxHeld = 2
  MaxPasses = 1
  MaxHeads = 1
  HoldKinds = {"refresh"}
  Fams = {}
INVARIANTS SubsBounded
CONSTRAINT HWM
POSTCONDITION TraceAccepted
CHECK_DEADLOCK FALSE
