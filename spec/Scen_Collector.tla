--------------------------- MODULE Scen_Collector ---------------------------
(* Scenario generator for C07: the scenarios are exactly the initial states of Collector.tla   *)
(* (variant, n, threshold, and for every node what it answers and in which phase; one          *)
(* representative per multiset of nodes).  TLC enumerates them; each is printed as JSON and    *)
(* replayed on every real strategy of that variant by the Go driver.                           *)
EXTENDS Collector, Json

SSpec == Init /\ [][Terminated]_vars

Emit == PrintT(ToJson([variant |-> variant, n |-> n, thr |-> thr,
                       provs |-> [p \in Provs |-> [k |-> beh[p].k, v |-> beh[p].v, s |-> beh[p].s, ph |-> ph[p]]]]))
=============================================================================
