SPECIFICATION SSpec
CONSTANTS
  DutySlots = {9}
  Validators = {1, 2}
  SlotsPerEpoch = 4
  Relays = {1}
  NRelays = 1
  AllChoices = {{1}}
  Versions = {"deneb"}
  Blindable = {"deneb"}
  Outcomes = {"full"}
  Scripts = {"full", "heldfull"}
  GraffitiOuts = {"static"}
  PrepOuts = {"ok"}
  CfgFilter = "graffiti"
  Drops = FALSE
  Dslots <- FwdDslots
  MaxCalls = 3
  NDuties = 3
  SlotGaps = {0, 1}
  MaxOpen = 3
  MaxInFlight = 2
  InitCfgs <- BuilderCfgs
  LaterAllChoices = {{1}}
  LaterVersions = {"deneb"}
  LaterOutcomes = {"full"}
  LaterDslots = {0}
  LaterScripts = {"full", "heldfull"}
  LaterGraffitiOuts = {"static"}
  LaterPrepOuts = {"ok"}
  LaterNodeClientOuts = {"ok"}
  LaterStepOuts = {"ok"}
INVARIANTS Emit
CHECK_DEADLOCK FALSE
