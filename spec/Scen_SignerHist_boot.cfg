SPECIFICATION SSpec
CONSTANTS
  SlotsPerEpoch = 32
  Slots = {319, 320}
  GivenEpochs = {9, 10}
  MaxBatch = 2
  NReq = 3
  ForkEpochs = {10, 40}
  HistOps = {"attestation", "attestations", "proposal", "randao", "slot_selection", "sync_selection", "aggregate_and_proof", "sync_root", "contribution", "blob_sidecar", "registration"}
  HistKinds = {"plain", "plain_dist", "prot", "prot_dist"}
  HistFails = {"none", "input"}
  GateModes = {"d", "s", "none"}
  Boots <- BootsSim
INVARIANTS Emit
CHECK_DEADLOCK FALSE
