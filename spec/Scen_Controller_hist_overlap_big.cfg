SPECIFICATION SSpec
CONSTANTS
  MaxSlot = 5
  MaxVer = 1
  MaxReorgs = 2
  MaxCrashes = 0
  Gates = {"acct"}
  Interleave = FALSE
  Cfgs <- CfgsHistNoSync
  OraclesFor <- SeedOracles
  MaxAccts = 1
  AnswersFor <- AnswersSome
  Deviation = {}
  ScenLen = 11
  Seeds = {1, 2, 3, 4}
  StartSlots = {2, 4}
  MaxHeads = 2
  Stimuli = {"Start", "Reorg", "HeadEvent", "Accounts", "Hold", "Release"}
  MaxHolds = 1
  Focus = FALSE
  Disjoint = TRUE
  Tight = TRUE
INVARIANTS EmitOverlap
CONSTRAINT HistBound
CHECK_DEADLOCK FALSE
