SPECIFICATION SSpec
CONSTANTS
  SlotsPerEpoch = 32
  Slots = {0}
  GivenEpochs = {0}
  MaxBatch = 3
  NReq = 3
  ForkEpochs = {10}
  NVal = 4
  Committees = {1, 2, 3}
  CallerSlots = {317, 318, 319, 320}
  MaxDuty = 3
  Pairing = "by_validator"
  Sequential = TRUE
  AcctChoices <- AcctWallet
INVARIANTS Emit
CHECK_DEADLOCK FALSE
