-------------------------- MODULE Trace_ExecConfig --------------------------
(* Trace specification for C10: a trace recorded from the real code (blockrelay.UnmarshalJSON,    *)
(* ExecutionConfigurator.ProposerConfig, json.Marshal round trip) is a behaviour of ExecConfig.   *)
(* Reset lines carry the abstract document the driver rendered to JSON (concrete values as        *)
(* canonical strings) and whether the real parser accepted it; Lookup lines carry the validator    *)
(* and the ProposerConfig the real code returned; RoundTrip lines whether marshal + unmarshal      *)
(* succeeded.  TLC computes the expected answer with the operators of ExecConfig.                  *)
EXTENDS ExecConfig, TraceLib

VARIABLE l
tvars == <<vars, l>>

TraceInit ==
    /\ l = 1
    /\ cfg = NoConfig
    /\ fb = Fallback
    /\ last = NoReply
    /\ InitHWM

IsEvent(e) == l <= TraceLen /\ Trace[l].ev = e /\ l' = l + 1

\* a document the driver rendered is well formed: the real parser must accept it
TraceReset ==
    /\ IsEvent("Reset")
    /\ Trace[l].ok
    /\ cfg' = Trace[l].cfg
    /\ fb' = Trace[l].fb
    /\ last' = NoReply

TraceLookup ==
    /\ IsEvent("Lookup")
    /\ Trace[l].ok
    /\ Lookup(Trace[l].v)
    /\ last'.res.fr = Trace[l].res.fr
    /\ last'.res.relays = SeqToSet(Trace[l].res.relays)
    /\ Cardinality(last'.res.relays) = Len(Trace[l].res.relays)

TraceRoundTrip ==
    /\ IsEvent("RoundTrip")
    /\ Trace[l].ok
    /\ RoundTrip

TraceNext == TraceReset \/ TraceLookup \/ TraceRoundTrip

TraceSpec == TraceInit /\ [][TraceNext]_tvars

HWM == UpdateHWM(l)
TraceAccepted == TraceAcceptedUpTo
=============================================================================
