SPECIFICATION TraceSpec
CONSTANTS
  Names = {"a", "b"}
  Values = {"v1", "v2"}
  WithEmpty = FALSE
  MaxPathLen = 4
  ModelKinds = {"timeout"}
INVARIANTS TypeOK DirectMatch LevelByLevel FromLongestPrefix OthersIrrelevant EmptyNeverUsed
CONSTRAINT HWM
POSTCONDITION TraceAccepted
CHECK_DEADLOCK FALSE
