SPECIFICATION SSpec
CONSTANTS
  MaxSlot = 9
  MaxVer = 2
  MaxReorgs = 4
  MaxCrashes = 1
  Gates = {"acct"}
  Interleave = FALSE
  Cfgs <- CfgsSmall
  OraclesFor <- SeedOracles
  MaxAccts = 3
  AnswersFor <- AllAnswers
  Deviation = {}
  ScenLen = 34
  Seeds = {1, 2, 3, 4, 5, 6, 7, 8, 9, 10, 11, 12}
  StartSlots = {0, 1, 2, 3, 4, 5}
  MaxHeads = 2
  Stimuli = {"Start", "Crash", "Advance", "EpochTick", "Reorg", "HeadEvent", "Fire", "Accounts", "Hold", "Unhold", "Release"}
  MaxHolds = 2
  Focus = FALSE
  Disjoint = TRUE
  Tight = FALSE
INVARIANTS Emit
CHECK_DEADLOCK FALSE
