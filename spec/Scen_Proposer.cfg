SPECIFICATION SSpec
CONSTANTS
  DutySlots = {9}
  Validators = {2}
  SlotsPerEpoch = 4
  Relays = {1, 2}
  NRelays = 2
  AllChoices = {{}, {1}, {1, 2}}
  Versions = {"phase0", "altair", "bellatrix", "capella", "deneb"}
  Blindable = {"bellatrix", "capella", "deneb"}
  Outcomes = {"full"}
  Scripts = {"full", "err", "bad400", "nilresp", "never", "errfull"}
  GraffitiOuts = {"ok", "err"}
  MaxCalls = 3
INVARIANTS Emit
CHECK_DEADLOCK FALSE
