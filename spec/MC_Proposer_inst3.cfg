SPECIFICATION Spec
CONSTANTS
  DutySlots = {9}
  Validators = {1, 2}
  SlotsPerEpoch = 4
  Relays = {1}
  AllChoices = {{1}}
  Versions = {"deneb"}
  Blindable = {"deneb"}
  Outcomes = {"full"}
  Dslots = {0}
  MaxCalls = 1
  NDuties = 3
  SlotGaps = {0, 1}
  MaxOpen = 3
  MaxInFlight = 1
  InitCfgs <- BuilderCfgs
  LaterAllChoices = {{1}}
  LaterVersions = {"deneb"}
  LaterOutcomes = {"full"}
  LaterDslots = {0}
INVARIANTS TypeOK OnlyDutySigner SignedIsSelected SubmittedIntact NothingWithoutUnblind DegradesNotSkips CompletesDuty HistoryIndependent
CHECK_DEADLOCK TRUE
