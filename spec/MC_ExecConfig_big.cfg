SPECIFICATION Spec
CONSTANTS
  Pairs = TRUE
  Wide = TRUE
INVARIANTS TypeOK FeeRecipientRight DisabledRemoved ResetDiscards RelaySetRight MostSpecificWins OnlyFirstMatch NoMatchDefaults LegacyRight
CHECK_DEADLOCK FALSE
