SPECIFICATION SSpec
CONSTANTS
  MaxN = 4
  Variants = {"Best", "Majority", "RootMajority", "First"}
  Values = {1, 2}
  Scores = {0, 1, 2}
  FirstCap = 1
INVARIANTS Emit
CHECK_DEADLOCK FALSE
