------------------------- MODULE Scen_HierConfigWire -------------------------
(* Scenario generators for the wired family of C19 (HierConfigWire.tla).                          *)
(* SSpec (exhaustive): for every focus set, every tree over the points on the documented paths of *)
(* its services (the same tree for every kind of setting) and every choice of styles: the process *)
(* boots, every focus service is started, the first one a second time.                            *)
(* HSpec (simulation, seeded): a whole configuration - per kind its own random tree over the      *)
(* points of ALL services, a random style for every service - and every service started, in a     *)
(* random order, some of them again: the history of one process as main.go produces it.           *)
(* Concrete values, configuration sources and node addresses are chosen by the driver.            *)
EXTENDS HierConfigWire, Json, SequencesExt, Randomization

CONSTANT NInit      \* HSpec: number of random configurations drawn

VARIABLES hist, todo, reps, ix
svars == <<vars, hist, todo, reps, ix>>

TreeJson(t) == LET d == SetToSeq(DOMAIN t) IN [n \in DOMAIN d |-> [p |-> d[n], v |-> t[d[n]]]]
StylesJson(F, st) == LET d == SetToSeq(F) IN [n \in DOMAIN d |-> [s |-> d[n], st |-> st[d[n]]]]
StartJson(s) == [ev |-> "Start", svc |-> s]
StartsJson(F) == LET d == SetToSeq(F) IN [n \in DOMAIN d |-> StartJson(d[n])] \o <<StartJson(d[1])>>

SInit == Init /\ hist = <<>> /\ todo = {} /\ reps = 0 /\ ix = 0

SNext ==
    /\ hist = <<>>
    /\ \E F \in FocusSets : \E t \in TreesOver(Pts(F)), st \in StylesOver(F) :
          /\ StylesOK(F, st)
          /\ Boot([k \in Kinds |-> t], [k \in Kinds |-> "d0"], st)
          /\ focus' = F
          /\ hist' = <<[ev |-> "Boot", styles |-> StylesJson(F, st), tree |-> TreeJson(t)]>> \o StartsJson(F)
    /\ UNCHANGED <<todo, reps, ix>>

SSpec == SInit /\ [][SNext]_svars
Emit == (hist # <<>>) => PrintT(ToJson(hist))

-----------------------------------------------------------------------------
All == UNION FocusSets
AllPts == Pts(All)
\* (parameters: TLC evaluates a definition without parameters once and for all)
RandTree(i, k) == LET n == RandomElement(3..((2 * Cardinality(AllPts)) \div 3))
                  IN  [q \in RandomSubset(n, AllPts) |-> ValueAt(q)]
CfgJson(c) == LET ks == SetToSeq(Kinds) IN [n \in DOMAIN ks |-> [k |-> ks[n], tree |-> TreeJson(c[ks[n]])]]

HInit ==
    /\ ix \in 1..NInit
    /\ up = TRUE
    /\ cfg = [k \in Kinds |-> RandTree(ix, k)]
    /\ dflt = [k \in Kinds |-> "d0"]
    /\ style = [s \in Services |-> IF s \in All THEN RandomElement(StyleChoices(s)) ELSE ""]
    /\ got = NoFn
    /\ last = <<>>
    /\ starts = 0
    /\ focus = All
    /\ todo = All
    /\ reps = 3
    /\ hist = <<[ev |-> "Boot", styles |-> StylesJson(All, style), cfg |-> CfgJson(cfg)]>>

HNext ==
    \/ /\ todo # {}
       /\ \E s \in todo : Start(s) /\ todo' = todo \ {s} /\ hist' = Append(hist, StartJson(s))
       /\ UNCHANGED <<reps, ix>>
    \/ /\ reps > 0 /\ todo # All
       /\ \E s \in All \ todo : Start(s) /\ hist' = Append(hist, StartJson(s))
       /\ reps' = reps - 1
       /\ UNCHANGED <<todo, ix>>
    \/ /\ todo = {} /\ reps >= 0          \* the history is complete: printed once
       /\ reps' = -1
       /\ UNCHANGED <<vars, hist, todo, ix>>

HSpec == HInit /\ [][HNext]_svars
HEmit == (reps = -1) => PrintT(ToJson(hist))
=============================================================================
