SPECIFICATION ASpec
CONSTANTS
  Designs = {"kindsplit"}
  Alphabet = {"ok", "empty", "slow", "error", "timeout", "canceled", "notactive", "down"}
INVARIANTS ATypeOK KeepsRunning
CHECK_DEADLOCK FALSE
