SPECIFICATION SSpec
CONSTANTS
  MaxSlot = 5
  MaxVer = 2
  MaxReorgs = 0
  MaxCrashes = 0
  Gates = {}
  Interleave = FALSE
  Cfgs <- CfgsHist
  OraclesFor <- SeedOracles
  MaxAccts = 2
  AnswersFor <- AnswersSome
  Deviation = {}
  ScenLen = 12
  Seeds = {1}
  StartSlots = {1, 2}
  MaxHeads = 3
  Stimuli = {"Start", "Advance", "EpochTick", "Accounts", "FirePrep"}
  MaxHolds = 0
  Focus = FALSE
  Disjoint = TRUE
  Tight = TRUE
INVARIANTS EmitAfterEarly
CONSTRAINT HistBound
CHECK_DEADLOCK FALSE
