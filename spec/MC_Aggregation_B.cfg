SPECIFICATION Spec
CONSTANTS
  Pipelines = {"B"}
  SlotsPerEpoch = 4
  ASlots = {1}
  ADataRoots = {1}
  AValidators = {1}
  AProofs = {1}
  AAggIds = {1}
  AMaxJobs = 0
  BSlots = {8, 9}
  BRoots = {1, 2}
  BValidators = {1, 2}
  BSubs = {1}
  BContribIds = {1}
  BMaxSel = 2
  BMaxJobs = 1
  BMaxSets = 2
INVARIANTS TypeOK BContributionOfDuty BRememberedRootUsed BProofOfPair BSignedByOwnAccount BAggregatorsIndependent BRememberedRemoved BOthersKept
CHECK_DEADLOCK FALSE
