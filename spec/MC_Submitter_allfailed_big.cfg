SPECIFICATION Spec
CONSTANTS
  KindSet = {"att", "agg", "proposal", "syncmsg", "contrib", "bcsub", "scsub", "prep"}
  ConcSet = {2, 3}
  ItemSet = {1}
  NodeCounts = {3}
  DefaultConc = 16
  MaxCalls = 1
  HistClients = {}
  HistOutcomes = {}
  Design = "allfailed"
  MaxLat = 3
  CanonOuts = {"accept", "reject", "treject", "slowok1", "slowok2", "slowok3", "slowrej1", "slowrej2", "slowtrej1", "late", "hang"}
  ConfSets = {{1}, {1, 2}, {2, 3}, {1, 2, 3}}
  OtherSets = {{1}}
  RefKind = "att"
INVARIANTS TypeOK FlagSound TimeoutSignalHeard OfferedInFull SuccessIff ReturnsByTimeout Independence DeliveredToEach ClassifiedByNow
CHECK_DEADLOCK FALSE
