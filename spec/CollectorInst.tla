---------------------------- MODULE CollectorInst ----------------------------
(* The strategy INSTANCE with calls that OVERLAP (Collector.tla: one call at a time).            *)
(*                                                                                              *)
(* Production calls one strategy instance concurrently: every aggregating validator of a slot    *)
(* runs its own aggregation job (aggregateattestation), sync committee aggregators likewise      *)
(* (synccommitteecontribution), the attestation data request of a slot starts while a straggling *)
(* request of an earlier job may still be inside the strategy, the block-root strategies are     *)
(* called by several services.  Here a second call may be started on the instance while one is   *)
(* in flight (StartOverlap); the environment decides which of the two moves (Swap brings the     *)
(* other one to the front, the steps of Collector.tla always act on the front one); either may   *)
(* finish first; a finished one is forgotten (Drop) and further calls follow (NextCall,          *)
(* StartOverlap) - a history of calls on one instance, at most two of them in flight.            *)
(*                                                                                              *)
(* The two calls share Persistent (the construction parameters) and nothing else: the state of   *)
(* the call that is not in front is one value, `other`, that no step of the front call reads or  *)
(* writes.  The invariants of Collector.tla are evaluated on the front call; as Swap is enabled  *)
(* in every state with two calls, they are evaluated on every reachable state of either call,    *)
(* whatever the other one has done or is doing.                                                  *)
EXTENDS Collector

VARIABLE other      \* the call that is not in front (a record of all per-call variables; pc = "none": there is none)

ivars == <<vars, other>>

Pack == [beh |-> beh, ph |-> ph, clock |-> clock, pst |-> pst, respCh |-> respCh, errCh |-> errCh, pc |-> pc,
         responded |-> responded, errored |-> errored, timedOut |-> timedOut, softTimedOut |-> softTimedOut,
         best |-> best, counts |-> counts, rcvd |-> rcvd, hardSel |-> hardSel, steps |-> steps, result |-> result]

NoOther == [beh |-> <<>>, ph |-> <<>>, clock |-> "early", pst |-> <<>>, respCh |-> {}, errCh |-> {}, pc |-> "none",
            responded |-> 0, errored |-> 0, timedOut |-> 0, softTimedOut |-> 0,
            best |-> 0, counts |-> [v \in Values |-> 0], rcvd |-> {}, hardSel |-> FALSE, steps |-> 0, result |-> NoResult]

Unpack(c) ==
    /\ beh' = c.beh /\ ph' = c.ph /\ clock' = c.clock /\ pst' = c.pst /\ respCh' = c.respCh /\ errCh' = c.errCh
    /\ pc' = c.pc /\ responded' = c.responded /\ errored' = c.errored /\ timedOut' = c.timedOut
    /\ softTimedOut' = c.softTimedOut /\ best' = c.best /\ counts' = c.counts /\ rcvd' = c.rcvd
    /\ hardSel' = c.hardSel /\ steps' = c.steps /\ result' = c.result

Two == other.pc # "none"

\* a second call is started while one is in flight (it has not returned, or its stragglers are still running)
StartOverlap ==
    /\ ~Two /\ pc \in {"loop1", "loop2", "done"}
    /\ other' = Pack
    /\ UNCHANGED Persistent
    /\ beh' \in [Provs -> Behaviours(variant)]
    /\ ph' \in [Provs -> {"early", "mid", "late"}]
    /\ \A p \in Provs : beh'[p].k = "silent" => ph'[p] = "late"
    /\ \A p \in Provs : p < n => Code(beh'[p], ph'[p]) <= Code(beh'[p + 1], ph'[p + 1])
    /\ ResetCollector

\* the environment turns to the other call
Swap ==
    /\ Two
    /\ other' = Pack
    /\ UNCHANGED Persistent
    /\ Unpack(other)

\* the front call is over (returned, stragglers finished): the instance forgets it
Drop ==
    /\ Two /\ Finished
    /\ other' = NoOther
    /\ UNCHANGED Persistent
    /\ Unpack(other)

PairInit == Init /\ other = NoOther

\* EndCall (the instance comes to rest) only when no other call is in flight
PairNext ==
    \/ (Next \/ NextCall) /\ UNCHANGED other
    \/ ~Two /\ EndCall /\ UNCHANGED other
    \/ StartOverlap \/ Swap \/ Drop

PairSpec == PairInit /\ [][PairNext]_ivars

-----------------------------------------------------------------------------
OtherTypeOK ==
    /\ other.pc \in {"none", "loop1", "loop2", "done"}
    /\ ~Two => other = NoOther

\* a call is never touched by the steps of the other one, and nothing but Persistent is carried into a call
\* started on a busy instance
OverlapIndependent ==
    [][/\ (other' # other) => (other' = Pack \/ other' = NoOther)
       /\ (~Two /\ other' = Pack) => FreshCall']_ivars
=============================================================================
