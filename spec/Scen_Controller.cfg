SPECIFICATION SSpec
CONSTANTS
  MaxSlot = 9
  MaxVer = 2
  MaxReorgs = 3
  MaxCrashes = 1
  Gates = {}
  Interleave = FALSE
  Cfgs <- CfgsSmall
  OraclesFor <- SeedOracles
  ScenLen = 30
  Seeds = {1, 2, 3, 4, 5, 6, 7, 8, 9, 10, 11, 12, 13, 14, 15, 16, 17, 18, 19, 20}
  StartSlots = {0, 1, 2, 3, 4, 5}
  MaxHeads = 2
  Stimuli = {"Start", "Crash", "Advance", "EpochTick", "Reorg", "HeadEvent", "Fire", "Hold", "Unhold", "Release"}
  MaxHolds = 99
  Focus = FALSE
  Disjoint = FALSE
INVARIANTS Emit
CHECK_DEADLOCK FALSE
