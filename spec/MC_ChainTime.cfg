SPECIFICATION Spec
CONSTANTS
  Gs = {7, 8, 9, 10, 11, 12, 13, 14, 15, 16, 17}
  Ds = {1, 2, 3, 4}
  Ps = {1, 2, 3, 4}
  Shift = 12
  MaxSlot = 40
  Ts = {0, 6, 7, 11, 12, 13, 14, 15, 16, 17, 18, 19, 23, 24, 25, 35, 36, 37, 59, 60, 61, 112, 179}
INVARIANTS Slots Epochs Times TimeInsideSlot TimeInsideEpoch
CHECK_DEADLOCK FALSE
