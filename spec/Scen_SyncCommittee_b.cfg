SPECIFICATION SSpec
CONSTANTS
  SlotsPerEpoch = 3
  EpochsPerPeriod = 3
  Forks = {0, 2, 4}
  Nows = {0, 1, 2, 5, 8, 9, 10, 16, 17, 18, 25}
  ScheduleEpochs = {0, 2, 3, 5, 6, 8}
  Members = {1, 2, 3}
  IndexSets = {{0}, {127, 128}, {300, 511}}
  Sizes = {512}
  SubnetCounts = {4}
  Targets = {16, 32}
  Roots = {1, 2, 3}
  HVals = {0, 3, 4, 8}
  HMod = 840
  MaxSched = 2
  FaultKinds = {"sel", "root", "cp", "selerr", "rooterr", "cperr"}
  Deviation = "none"
  MaxFired = 2
  ScenLen = 9
  SetupLen = 2
INVARIANTS Emit TypeOK EverySlotOfWindow OnlySlotsOfWindow SignedOverObtainedRoot MembersIndependent AggregatorRuleExact
CHECK_DEADLOCK FALSE
