SPECIFICATION Spec
CONSTANTS
  SlotsPerEpoch = 32
  Slots = {319, 320}
  GivenEpochs = {9}
  MaxBatch = 2
  NReq = 2
  ForkEpochs = {10}
  LawBatch = 1
  HistOps = {"slot_selection", "sync_root"}
  HistKinds = {"plain", "plain_dist", "prot_dist"}
  HistFails = {"none", "signer"}
  Calls <- HistCalls
INVARIANTS TypeOK DomainRight Memoryless HandedOwn SigCorrect NoSignatureWithoutDomain ErrorHasNoSignatures RefusedForCause
PROPERTIES ReplyStable
CHECK_DEADLOCK FALSE
