----------------------------- MODULE Concurrency -----------------------------
(* Property C17: Vouch's own concurrency never corrupts its state.                              *)
(*                                                                                              *)
(* Part (a): the operations that production overlaps, grouped by the state they share, each with *)
(* its SEQUENTIAL meaning (Apply) over a small abstract state.  A call is Invoke ; Linearize ;   *)
(* Return, the effect and the result being determined at the Linearize step: property            *)
(* Linearizable - the results of overlapping calls are those of some sequential order of the     *)
(* calls that respects real time.  TLC validates recorded call histories of the real services    *)
(* by searching for the Linearize steps (Trace_Concurrency).                                     *)
(*                                                                                              *)
(* Part (b): the lock discipline.  Guard[var] names the lock that protects each shared variable; *)
(* Steps(g, op) renders every operation as the sequence of its accesses to shared variables with *)
(* the locks held at that access (mode R or W).  Accesses take time (Begin/End); the locks have  *)
(* their Go meaning (W excludes everything, R excludes W).  Invariant Disciplined: whenever two  *)
(* accesses to the same variable overlap and one of them is a write, both hold Guard[var] - a    *)
(* writer exclusively.  Pinned = TRUE renders the operations as the pinned tree has them (the    *)
(* suspected defects D9: unlocked reads and a write under a read lock); TLC must then find the   *)
(* violation (MC_Concurrency_pinned.cfg, expected counterexample = the model is not vacuous).    *)
(* Pinned = FALSE is the discipline the property demands.  InPlace = TRUE renders the            *)
(* registration round as altering the PUBLISHED map of controlled validators entry by entry       *)
(* (under the write lock) instead of replacing it: the REST request reads the entries of the map  *)
(* it picked up without the lock, which is only disciplined while published maps are never         *)
(* altered - TLC must find that violation too (MC_Concurrency_inplace_registrar.cfg).              *)
(*                                                                                              *)
(* The service INSTANCE is long-lived: a behaviour is a HISTORY of calls on one instance, some    *)
(* sequential, some overlapping.  What an operation touches may depend on what earlier calls left *)
(* on the instance: the state named Carried(g, st) is the only part of the instance's history a   *)
(* call's rendering may depend on (it is fixed per call at its invocation: calls[i].carry).        *)
(* Group dirk: the dirk account manager publishes, per refresh, a NEW list of public keys; the      *)
(* readers take the list under the read lock and use its ELEMENTS outside the lock, which is       *)
(* disciplined exactly as long as the elements of a published list are never written again.        *)
(* Reuse = TRUE renders a refresh that builds the new list in the backing array of the published   *)
(* one (s.pubKeys[:0]) under a refresh-local mutex: right on a fresh instance (nothing published:  *)
(* the first refresh allocates; MC_Concurrency_reuse_dirk_fresh.cfg, ONE refresh per instance,     *)
(* must hold) and a violation of Disciplined from the SECOND refresh of a history on              *)
(* (MC_Concurrency_reuse_dirk.cfg, histories of three calls from a fresh instance, must be          *)
(* rejected).  Behaviours of group dirk START on a fresh instance (StartInits): what only a       *)
(* history reaches is reached by a history.                                                        *)
(*                                                                                              *)
(* The groups are derived from the goroutine families that main.go wires up (scheduler jobs,      *)
(* event handlers of the beacon nodes' streams, periodic refreshers, start-up goroutines and the   *)
(* REST daemon that serves the beacon nodes' MEV-boost requests) x the shared fields of every      *)
(* service structure: docs/C17.md lists the table of overlapping pairs and the group of each.      *)
(*                                                                                              *)
(* Stated limit: whether two memory accesses of the Go program really are unsynchronised is a     *)
(* fact about the Go memory model that no specification at this level can observe.  The binding   *)
(* runs the TLC-generated overlap schedules on the real services in a binary built with -race;    *)
(* a race report whose two access sites are in Vouch's code is logged as the event                *)
(* Race(var, sites) - an event NO ACTION of this specification allows.  That half of C17 is        *)
(* decided by the race detector during model-generated schedules, not by TLC.                      *)
EXTENDS Integers, FiniteSets, Sequences, TLC

CONSTANTS Groups,     \* the groups explored by this configuration (subset of AllGroups)
          Pinned,     \* render the lock acquisitions as on the pinned tree
          InPlace,    \* render the registration round as altering the published controlled-validators map in place
          Reuse,      \* render the dirk refresh as building its key list in the backing array of the published list
          MaxPar      \* maximal number of overlapping operations in a schedule (3)

AllGroups == {"wallet", "blockrelay", "messenger", "controller", "cache", "validators", "attester",
              \* the REST (MEV-boost) surface of the block relay and two more pairs of the re-derived table
              "registrar", "bids", "restcfg", "exechead", "syncagg", "bestvotes", "bidstrategy",
              \* the dirk account manager (pair 2 of the table): second and later refreshes of one instance
              "dirk"}

-----------------------------------------------------------------------------
(* ---------------------------- part (a): sequential meaning -------------------------------- *)

Versions == 0..2        \* execution configuration documents (the value identifies the document)
Fail == -1              \* the configuration source fails

OldSlot == 1010  MidSlot == 1040  NewSlot == 1100      \* sync committee slot records that are tracked
Keep == 32                                        \* minSlotDataRecordsToKeep

\* abstract state at the start of a history
SeqInits(g) ==
    CASE g = "wallet" -> {[known |-> 1]}                                  \* one account in the store
      [] g = "blockrelay" -> {[src |-> 0, cfg |-> c] : c \in Versions}     \* service reused: any active document
      [] g = "messenger" -> {[rec |-> [s \in {} |-> 0]]}
      [] g = "controller" -> {[seen |-> 0]}
      [] g = "cache" -> {[map |-> {}]}
      [] g = "validators" -> {[node |-> {}, known |-> {}]}
      [] g = "attester" -> {[attested |-> {}]}
      \* every history of these groups works on validators / auction keys / slots of its own (fresh per history)
      [] g = "registrar" -> {[controlled |-> {}]}
      [] g = "bids" -> {[cache |-> [k \in 1..2 |-> {}]]}
      [] g = "restcfg" -> {[src |-> 0, cfg |-> c] : c \in Versions}
      [] g = "exechead" -> {[head |-> 0]}
      [] g = "syncagg" -> {[roots |-> [s \in {} |-> 0]]}
      [] g = "bestvotes" -> {[seen |-> 0]}
      [] g = "bidstrategy" -> {[seen |-> 0]}
      \* ONE dirk account manager serves every history: any set of accounts may be listed by Dirk (offer) and known
      \* to the service; pub = a list of public keys has been published on this instance (0: fresh instance)
      [] g = "dirk" -> {[offer |-> o, known |-> k, pub |-> p] : o \in SUBSET {1, 2}, k \in SUBSET {1, 2}, p \in 0..1}
                          \ {[offer |-> o, known |-> k, pub |-> 0] : o \in SUBSET {1, 2}, k \in (SUBSET {1, 2}) \ {{}}}

\* Start states of the exhaustive runs.  Group dirk: a FRESH instance (nothing published, nothing known) - every
\* other state of SeqInits is reached by a history of calls (recorded histories may start in any of them: the
\* drivers keep one instance over many histories).
StartInits(g) ==
    CASE g = "dirk" -> {[offer |-> o, known |-> {}, pub |-> 0] : o \in SUBSET {1, 2}}
      [] OTHER -> SeqInits(g)

\* The part of the instance's history that the RENDERING of a call (its accesses) may depend on.  Everything else
\* an operation does is independent of what earlier calls left behind.
Carried(g, st) == IF g = "dirk" THEN st.pub > 0 ELSE FALSE

Put(f, k, v) == [x \in (DOMAIN f) \cup {k} |-> IF x = k THEN v ELSE f[x]]
Drop(f, D) == [x \in (DOMAIN f) \ D |-> f[x]]
Mask(S) == (IF 1 \in S THEN 1 ELSE 0) + (IF 2 \in S THEN 2 ELSE 0)
HeadRoot == 9           \* sync committee aggregation falls back to the head root

\* Sequential meaning: the set of possible [st, res] of operation o in state st (a set, because a
\* few operations are specified loosely: the property only constrains what they may return).
Apply(g, st, o) ==
    CASE g = "wallet" ->
            IF o.op = "Refresh" THEN {[st |-> st, res |-> 0]}
            ELSE (* Validating *) {[st |-> st, res |-> st.known]}
      [] g \in {"blockrelay", "restcfg"} ->
            CASE o.op = "SourceSet" -> {[st |-> [st EXCEPT !.src = o.x], res |-> 0]}
              [] o.op = "Fetch" -> {[st |-> [st EXCEPT !.cfg = IF st.src = Fail THEN st.cfg ELSE st.src], res |-> 0]}
              [] OTHER (* Lookup, Register, Auction, and in group restcfg the REST requests RestRegs (a validator
                          Vouch does not control: forwarded to the relays of the active document), RestBid (no cached
                          bid: immediate auction), RestUnblind: the settings of the active document *) ->
                    {[st |-> st, res |-> st.cfg]}
      [] g = "messenger" ->
            \* Message(s, r) records r for slot s; whether recording also clears the records older than s - Keep
            \* (the service does since it bounds its records on every insertion) is left open: C17 is about overlap
            CASE o.op = "Message" -> {[st |-> [st EXCEPT !.rec = Drop(Put(st.rec, o.s, o.r), D)], res |-> 0] :
                                         D \in {{}, {s \in DOMAIN st.rec : s < o.s - Keep}}}
              [] o.op = "GetData" -> {[st |-> st, res |-> IF o.s \in DOMAIN st.rec THEN st.rec[o.s] ELSE 0]}
              [] OTHER (* Remove(cur): more than the threshold of records exist (driver prefill) *) ->
                    {[st |-> [st EXCEPT !.rec = Drop(st.rec, {s \in DOMAIN st.rec : s < o.cur - Keep})], res |-> 0]}
      [] g = "controller" -> {[st |-> st, res |-> 0]}
      [] g = "cache" ->
            CASE o.op = "BlockEvent" -> {[st |-> [st EXCEPT !.map = st.map \cup {o.r}], res |-> 0]}
              [] o.op = "Lookup" -> {[st |-> [st EXCEPT !.map = m], res |-> o.r] : m \in {st.map, st.map \cup {o.r}}}
              [] OTHER (* Clean: nothing in these histories is old enough to go *) -> {[st |-> st, res |-> 0]}
      [] g = "validators" ->
            CASE o.op = "NodeSet" -> {[st |-> [st EXCEPT !.node = o.x], res |-> 0]}
              [] o.op = "Refresh" -> {[st |-> [st EXCEPT !.known = IF st.node = {} THEN st.known ELSE st.node], res |-> 0]}
              [] OTHER (* ByIndex: which of validators 1, 2 are known *) -> {[st |-> st, res |-> Mask(st.known)]}
      [] g = "attester" ->
            \* Attest(V): the validators of the duty that had not attested in the epoch attest now
            {[st |-> [st EXCEPT !.attested = st.attested \cup o.v], res |-> Mask(o.v \ st.attested)]}
      [] g = "registrar" ->
            \* "Validator" 1, 2 = a block of accounts that every operation of the history handles alike.
            \* Round(V): a registration round for the accounts V (SubmitValidatorRegistrations).  Whether the set of
            \* controlled validators is REPLACED by V or EXTENDED by V is left open (C17 is about overlap, not about
            \* which of the two the service wants); RoundJob: the periodic job (all accounts), which skips its run
            \* (res 0) when another job-round holds the activity semaphore - see Allowed below.
            \* RestRegs(V): REST ValidatorRegistrations for V; res = the validators whose registration was
            \* FORWARDED to the relays, i.e. those Vouch does not control at that point.
            CASE o.op = "Round" -> {[st |-> [controlled |-> c], res |-> 0] : c \in {o.v, st.controlled \cup o.v}}
              [] o.op = "RoundJob" -> {[st |-> st, res |-> 0], [st |-> [controlled |-> {1, 2}], res |-> 3]}
              [] OTHER (* RestRegs *) -> {[st |-> st, res |-> Mask(o.v \ st.controlled)]}
      [] g = "bids" ->
            \* cache[k]: the bids cached so far for auction key k (slot/parent/proposer).  Auction(k, b): the relays'
            \* best bid during this auction is b (0: no acceptable bid, a dummy is cached); res = b.
            \* RestBid(k, b): REST BuilderBid - a cached bid if there is one (WHICH of several auctions' bids stays
            \* cached is left open: each is a valid answer), else an immediate auction (bid b) whose result is cached.
            IF o.op = "Auction" \/ st.cache[o.k] = {}
            THEN {[st |-> [st EXCEPT !.cache[o.k] = @ \cup {o.b}], res |-> o.b]}
            ELSE {[st |-> st, res |-> b] : b \in st.cache[o.k]}
      [] g = "exechead" ->
            IF o.op = "HeadEvent" THEN {[st |-> [head |-> o.h], res |-> 0]}
            ELSE (* ExecHead: root and height of ONE head *) {[st |-> st, res |-> st.head]}
      [] g = "syncagg" ->
            \* SetRoot(s, r): the messenger job of slot s hands over the root it signed; Aggregate(s): the aggregation
            \* job takes it (and forgets it), or falls back to the head root
            IF o.op = "SetRoot" THEN {[st |-> [roots |-> Put(st.roots, o.s, o.r)], res |-> 0]}
            ELSE IF o.s \in DOMAIN st.roots THEN {[st |-> [roots |-> Drop(st.roots, {o.s})], res |-> st.roots[o.s]]}
            ELSE {[st |-> st, res |-> HeadRoot]}
      [] g = "bestvotes" -> {[st |-> st, res |-> 0]}          \* head events return nothing (race half only)
      \* an auction ends with a verified winning bid (1) or, when its deadline passes first, without one (0): the
      \* strategies keep no state that a result could depend on (race half only)
      [] g = "bidstrategy" -> {[st |-> st, res |-> r] : r \in {0, 1}}
      [] g = "dirk" ->
            \* "Account" 1, 2 = the block of accounts of wallet 1, 2 (handled alike by every operation).
            \* Offer(S): from now on Dirk lists the accounts S (environment).  Refresh(first): the periodic refresh;
            \* the wallet whose accounts come in first does not matter; nothing listed = the old accounts are retained.
            \* Query("by_key"): ValidatingAccountsForEpoch and SyncCommitteeAccountsForEpoch; Query("by_index"): their
            \* ByIndex variants (all indices asked for): every known account validates; res = the accounts reported.
            CASE o.op = "Offer" -> {[st |-> [st EXCEPT !.offer = o.x], res |-> 0]}
              [] o.op = "Refresh" ->
                    {[st |-> IF st.offer = {} THEN st ELSE [st EXCEPT !.known = st.offer, !.pub = 1], res |-> 0]}
              [] OTHER (* Query *) -> {[st |-> st, res |-> Mask(st.known)]}

\* the sequential prologue of every history of a group (establishes a state worth racing on)
Prologue(g) ==
    CASE g \in {"blockrelay", "restcfg"} -> <<[op |-> "SourceSet", x |-> 1], [op |-> "Fetch"]>>
      [] g = "messenger" -> <<[op |-> "Message", s |-> OldSlot, r |-> 1], [op |-> "Message", s |-> MidSlot, r |-> 2]>>
      [] g = "validators" -> <<[op |-> "NodeSet", x |-> {1}], [op |-> "Refresh"]>>
      [] g = "cache" -> <<[op |-> "BlockEvent", r |-> 1]>>
      \* the first refresh of the history: every overlapping refresh is a second or later one of its instance
      [] g = "dirk" -> <<[op |-> "Offer", x |-> {1, 2}], [op |-> "Refresh", first |-> 1]>>
      [] OTHER -> <<>>

\* environment changes made between prologue and the overlapping operations (TLC picks one)
Twists(g) ==
    CASE g \in {"blockrelay", "restcfg"} -> {<<[op |-> "SourceSet", x |-> 2]>>, <<[op |-> "SourceSet", x |-> Fail]>>}
      [] g = "validators" -> {<<[op |-> "NodeSet", x |-> {1, 2}]>>, <<[op |-> "NodeSet", x |-> {}]>>}
      \* the history between the first refresh and the overlap: nothing changes in Dirk; accounts removed; Dirk lists
      \* nothing (the old list is retained); the list shrank and grows again; the accounts are exchanged
      [] g = "dirk" -> {<<>>,
                        <<[op |-> "Offer", x |-> {1}]>>,
                        <<[op |-> "Offer", x |-> {}]>>,
                        <<[op |-> "Offer", x |-> {1}], [op |-> "Refresh", first |-> 1], [op |-> "Offer", x |-> {1, 2}]>>,
                        <<[op |-> "Offer", x |-> {2}], [op |-> "Refresh", first |-> 2], [op |-> "Offer", x |-> {1}]>>}
      \* Structures that the FIRST call on an instance creates and later calls find (the epoch's map of attested
      \* validators, the votes of a block already seen, the relays' decoded public keys): the overlapping calls are
      \* the first ones of their instance, or come after a sequential call that has created the structure
      [] g = "attester" -> {<<>>, <<[op |-> "Attest", v |-> {2}]>>}
      [] g = "bestvotes" -> {<<>>, <<[op |-> "HeadEvent", b |-> 1]>>}
      [] g = "bidstrategy" -> {<<>>, <<[op |-> "Bid", s |-> "best"], [op |-> "Bid", s |-> "deadline"]>>}
      [] OTHER -> {<<>>}

\* the operations production overlaps
ParOps(g) ==
    CASE g = "wallet" -> {[op |-> "Refresh"], [op |-> "Validating"]}
      [] g = "blockrelay" -> {[op |-> "Fetch"], [op |-> "Lookup"], [op |-> "Register"], [op |-> "Auction"]}
      [] g = "messenger" -> {[op |-> "Message", s |-> NewSlot, r |-> 3], [op |-> "GetData", s |-> NewSlot],
                             [op |-> "GetData", s |-> OldSlot], [op |-> "Remove", cur |-> NewSlot]}
      [] g = "controller" -> {[op |-> "Head", node |-> 1], [op |-> "Head", node |-> 2], [op |-> "Job"],
                              [op |-> "Pending"]}        \* HasPendingAttestations: the main goroutine at shutdown
      [] g = "cache" -> {[op |-> "BlockEvent", r |-> 2], [op |-> "Lookup", r |-> 1], [op |-> "Lookup", r |-> 2], [op |-> "Clean"]}
      [] g = "validators" -> {[op |-> "Refresh"], [op |-> "ByIndex"]}
      [] g = "attester" -> {[op |-> "Attest", v |-> {1}], [op |-> "Attest", v |-> {2}], [op |-> "Attest", v |-> {1, 2}]}
      \* registration rounds (exported entry point, periodic job) || REST ValidatorRegistrations
      [] g = "registrar" -> {[op |-> "Round", v |-> {1, 2}], [op |-> "Round", v |-> {1}], [op |-> "RoundJob"],
                             [op |-> "RestRegs", v |-> {1, 2}]}
      \* AuctionBlock (proposal job) || REST BuilderBid (cached bid or immediate auction), two auction keys
      [] g = "bids" -> {[op |-> "Auction", k |-> 1, b |-> 1], [op |-> "Auction", k |-> 2, b |-> 0],
                        [op |-> "RestBid", k |-> 1, b |-> 2], [op |-> "RestBid", k |-> 2, b |-> 3]}
      \* config fetch || REST requests (|| AuctionBlock: REST UnblindBlock and the auction share the active document)
      [] g = "restcfg" -> {[op |-> "Fetch"], [op |-> "RestRegs"], [op |-> "RestBid"], [op |-> "RestUnblind"], [op |-> "Auction"]}
      \* head events (cache) || ExecutionChainHead (proposal job)
      [] g = "exechead" -> {[op |-> "HeadEvent", h |-> 1], [op |-> "HeadEvent", h |-> 2], [op |-> "ExecHead"]}
      \* sync committee messenger job (SetBeaconBlockRoot) || sync committee aggregation job
      [] g = "syncagg" -> {[op |-> "SetRoot", s |-> 1, r |-> 1], [op |-> "SetRoot", s |-> 2, r |-> 2],
                           [op |-> "Aggregate", s |-> 1], [op |-> "Aggregate", s |-> 2]}
      \* head events of two beacon nodes' streams in the "best" proposal strategy (votes of recent blocks)
      [] g = "bestvotes" -> {[op |-> "HeadEvent", b |-> 1], [op |-> "HeadEvent", b |-> 2]}
      \* AuctionBlock (proposal job) || immediate auction of a REST BuilderBid in the builder-bid strategies
      [] g = "bidstrategy" -> {[op |-> "Bid", s |-> "best"], [op |-> "Bid", s |-> "deadline"]}
      \* periodic accounts refresh (wallet 1 / wallet 2 finishing first) || the account queries of every duty job
      [] g = "dirk" -> {[op |-> "Refresh", first |-> 1], [op |-> "Refresh", first |-> 2]}
                       \cup {[op |-> "Query", kind |-> k] : k \in {"by_key", "by_index"}}

AllOps(g) == ParOps(g) \cup {Prologue(g)[i] : i \in DOMAIN Prologue(g)}
                       \cup UNION {{t[i] : i \in DOMAIN t} : t \in Twists(g)}

Count(s, x) == Cardinality({i \in DOMAIN s : s[i] = x})

\* overlap patterns: 1..Width(g) operations in gate-release order, at most two instances of each
\* (group restcfg has five operations and two environment twists: pairs)
Width(g) == IF g \in {"restcfg", "dirk"} /\ MaxPar > 2 THEN 2 ELSE MaxPar
Schedules(g) ==
    {s \in UNION {[1..n -> ParOps(g)] : n \in 1..Width(g)} :
        /\ \A x \in ParOps(g) : Count(s, x) <= 2
        \* the accounts refresher is ONE periodic job (rescheduled after it returned): it never overlaps itself
        /\ g = "dirk" => Cardinality({i \in DOMAIN s : s[i].op = "Refresh"}) <= 1}

\* How the environment resolves the overlap of a schedule: "free" = the calls start in the generated order and run
\* as they come; or ONE call is HELD at an interface while the others run, then released:
\*   "refresh-mid"  the refresh is held between its two wallets (the accounts of the first are taken in, those of
\*                  the second not yet) until the queries have returned;
\*   "query-snap"   the (first) query is held between taking its snapshot of the key list and using it (at the
\*                  validators manager) until the refresh has published its accounts (held in turn at its validators
\*                  refresh until the query has returned).
Holds(g, s) ==
    IF g = "dirk" /\ (\E i \in DOMAIN s : s[i].op = "Refresh") /\ (\E i \in DOMAIN s : s[i].op = "Query")
    THEN {"free", "refresh-mid", "query-snap"} ELSE {"free"}

-----------------------------------------------------------------------------
(* ------------------------------ part (b): lock discipline --------------------------------- *)

Guard ==
    [v \in {"wallet.accounts", "blockrelay.executionConfig", "v1.sharedProposerConfig", "messenger.slotDataRecords",
            "controller.reorgFields", "cache.blockRootToSlot", "validators.maps", "attester.attested",
            "blockrelay.controlledValidators", "blockrelay.controlledValidators.entries",
            "blockrelay.builderBidsCache", "blockrelay.signedValidatorRegistrations",
            "blockrelay.latestValidatorRegistrations", "util.builders", "cache.executionChainHead",
            "syncaggregator.beaconBlockRoots", "controller.subscriptionInfos", "controller.pendingAttestations",
            "bestproposal.priorBlocksVotes", "builderbid.relayPubkeys",
            "dirk.accounts", "dirk.pubKeys", "dirk.pubKeys.elements", "dirk.wallets"} |->
        CASE v = "wallet.accounts" -> "wallet.mutex"
          [] v = "blockrelay.executionConfig" -> "blockrelay.executionConfigMu"
          [] v = "v1.sharedProposerConfig" -> "blockrelay.executionConfigMu"
          [] v = "messenger.slotDataRecords" -> "messenger.slotDataRecordsMu"
          [] v = "controller.reorgFields" -> "controller.reorgMu"       \* does not exist on the pinned tree
          [] v = "cache.blockRootToSlot" -> "cache.blockRootToSlotMu"
          [] v = "validators.maps" -> "validators.validatorsMutex"
          [] v = "attester.attested" -> "attester.attestedMu"
          \* the field (a reference to the current map) and the entries of a map that has been published through
          \* it: readers pick the reference up under the lock and read the entries WITHOUT it, which is disciplined
          \* exactly as long as nobody writes the entries of a published map
          [] v = "blockrelay.controlledValidators" -> "blockrelay.controlledValidatorsMu"
          [] v = "blockrelay.controlledValidators.entries" -> "blockrelay.controlledValidatorsMu"
          [] v = "blockrelay.builderBidsCache" -> "blockrelay.builderBidsCacheMu"
          [] v = "blockrelay.signedValidatorRegistrations" -> "blockrelay.signedValidatorRegistrationsMu"
          [] v = "blockrelay.latestValidatorRegistrations" -> "blockrelay.latestValidatorRegistrationsMu"
          [] v = "util.builders" -> "util.buildersMu"
          [] v = "cache.executionChainHead" -> "cache.executionChainHeadMu"
          [] v = "syncaggregator.beaconBlockRoots" -> "syncaggregator.beaconBlockRootsMu"
          [] v = "controller.subscriptionInfos" -> "controller.subscriptionInfosMutex"
          [] v = "controller.pendingAttestations" -> "controller.pendingAttestationsMutex"
          [] v = "bestproposal.priorBlocksVotes" -> "bestproposal.priorBlocksVotesMu"
          [] v = "builderbid.relayPubkeys" -> "builderbid.relayPubkeysMu"
          \* dirk account manager: the map of accounts and the list of public keys are REPLACED by a refresh (both
          \* under the write lock); the field holding the list, and the elements of a list that has been published
          \* through it: readers take the list under the read lock and hand its elements on WITHOUT it
          [] v = "dirk.accounts" -> "dirk.mutex"
          [] v = "dirk.pubKeys" -> "dirk.mutex"
          [] v = "dirk.pubKeys.elements" -> "dirk.mutex"
          [] v = "dirk.wallets" -> "dirk.walletsMutex"]

Acc(v, k, held) == [var |-> v, kind |-> k, held |-> held]    \* held: set of <<lock, mode>>
None == {}
R(l) == {<<l, "R">>}
W(l) == {<<l, "W">>}

\* accesses shared by the operations of the block relay groups
ConfigLookup ==      \* Service.ProposerConfig: the active document under the read lock
    <<Acc("blockrelay.executionConfig", "R", R("blockrelay.executionConfigMu")),
      \* the legacy configuration fills defaults into the shared object
      Acc("v1.sharedProposerConfig", IF Pinned THEN "W" ELSE "R", R("blockrelay.executionConfigMu"))>>
FetchSteps ==
    <<Acc("blockrelay.executionConfig", "R", R("blockrelay.executionConfigMu")),
      Acc("blockrelay.executionConfig", "R", IF Pinned THEN None ELSE R("blockrelay.executionConfigMu")),  \* error path
      Acc("blockrelay.executionConfig", "W", W("blockrelay.executionConfigMu"))>>
ControlledSnapshot ==    \* REST ValidatorRegistrations: the reference under the read lock, the entries without
    <<Acc("blockrelay.controlledValidators", "R", R("blockrelay.controlledValidatorsMu")),
      Acc("blockrelay.controlledValidators.entries", "R", None)>>
RoundSteps ==
    <<Acc("blockrelay.signedValidatorRegistrations", "R", R("blockrelay.signedValidatorRegistrationsMu")),
      Acc("blockrelay.latestValidatorRegistrations", "R", R("blockrelay.latestValidatorRegistrationsMu")),
      Acc("blockrelay.signedValidatorRegistrations", "W", W("blockrelay.signedValidatorRegistrationsMu")),
      Acc("blockrelay.latestValidatorRegistrations", "W", W("blockrelay.latestValidatorRegistrationsMu")),
      \* the round fills a map of its own and publishes it - or (InPlace) writes the entries of the published map
      IF InPlace THEN Acc("blockrelay.controlledValidators.entries", "W", W("blockrelay.controlledValidatorsMu"))
      ELSE Acc("blockrelay.controlledValidators", "W", W("blockrelay.controlledValidatorsMu"))>>

\* dirk account manager.  carry = a list of public keys has been published on the instance before this call.
DirkKeysSnapshot ==      \* the list under the read lock, its elements (handed to the validators manager) without
    <<Acc("dirk.pubKeys", "R", R("dirk.mutex")), Acc("dirk.pubKeys.elements", "R", None)>>
DirkSteps(o, carry) ==
    IF o.op = "Refresh"
    THEN <<Acc("dirk.wallets", "W", W("dirk.walletsMutex"))>>                                     \* openWallet (cache)
         \* Reuse: the new list starts as s.pubKeys[:0] (taken under the read lock); the wallet goroutines append to
         \* it under the refresh's OWN mutex (no lock that any other call knows).  On a fresh instance there is no
         \* published array to write into: the appends allocate
         \o (IF Reuse THEN <<Acc("dirk.pubKeys", "R", R("dirk.mutex"))>> ELSE <<>>)
         \o (IF Reuse /\ carry THEN <<Acc("dirk.pubKeys.elements", "W", None)>> ELSE <<>>)
         \o <<Acc("dirk.accounts", "W", W("dirk.mutex")), Acc("dirk.pubKeys", "W", W("dirk.mutex"))>>   \* publication
         \o DirkKeysSnapshot                                                                      \* refreshValidators
    ELSE IF o.op = "Query"
    THEN DirkKeysSnapshot \o <<Acc("dirk.accounts", "R", R("dirk.mutex"))>>
    ELSE <<>>

\* The accesses of every operation, in program order, with the locks held at the access.
Steps(g, o) ==
    CASE g = "wallet" ->
            IF o.op = "Refresh"
            THEN <<Acc("wallet.accounts", "W", W("wallet.mutex")),                                \* refreshAccounts
                   Acc("wallet.accounts", "R", IF Pinned THEN None ELSE R("wallet.mutex"))>>      \* refreshValidators
            ELSE <<Acc("wallet.accounts", "R", IF Pinned THEN None ELSE R("wallet.mutex"))>>      \* accountsForEpochWithFilter
      [] g = "blockrelay" ->
            CASE o.op = "Fetch" -> FetchSteps
              [] o.op = "Register" ->
                    <<Acc("blockrelay.executionConfig", "R", IF Pinned THEN None ELSE R("blockrelay.executionConfigMu")),
                      Acc("v1.sharedProposerConfig", IF Pinned THEN "W" ELSE "R",
                          IF Pinned THEN None ELSE R("blockrelay.executionConfigMu"))>>
              [] OTHER (* Lookup, Auction, SourceSet *) -> IF o.op = "SourceSet" THEN <<>> ELSE ConfigLookup
      [] g = "messenger" ->
            CASE o.op = "Message" -> <<Acc("messenger.slotDataRecords", "W", W("messenger.slotDataRecordsMu"))>>
              [] o.op = "GetData" -> <<Acc("messenger.slotDataRecords", "R", IF Pinned THEN None ELSE W("messenger.slotDataRecordsMu"))>>
              [] OTHER -> <<Acc("messenger.slotDataRecords", "R", IF Pinned THEN None ELSE W("messenger.slotDataRecordsMu")),
                            Acc("messenger.slotDataRecords", "W", W("messenger.slotDataRecordsMu"))>>
      [] g = "controller" ->
            IF o.op = "Head"
            THEN <<Acc("controller.reorgFields", "R", IF Pinned THEN None ELSE W("controller.reorgMu")),
                   Acc("controller.reorgFields", "W", IF Pinned THEN None ELSE W("controller.reorgMu")),
                   Acc("controller.subscriptionInfos", "W", W("controller.subscriptionInfosMutex"))>>     \* old epochs removed
            ELSE IF o.op = "Job" THEN <<Acc("controller.pendingAttestations", "W", W("controller.pendingAttestationsMutex"))>>
            ELSE (* Pending *) <<Acc("controller.pendingAttestations", "R", R("controller.pendingAttestationsMutex"))>>
      [] g = "cache" ->
            CASE o.op = "BlockEvent" -> <<Acc("cache.blockRootToSlot", "W", W("cache.blockRootToSlotMu"))>>
              [] o.op = "Lookup" -> <<Acc("cache.blockRootToSlot", "R", R("cache.blockRootToSlotMu")),
                                      Acc("cache.blockRootToSlot", "W", W("cache.blockRootToSlotMu"))>>
              [] OTHER -> <<Acc("cache.blockRootToSlot", "W", W("cache.blockRootToSlotMu"))>>
      [] g = "validators" ->
            CASE o.op = "Refresh" -> <<Acc("validators.maps", "W", W("validators.validatorsMutex"))>>
              [] o.op = "ByIndex" -> <<Acc("validators.maps", "R", R("validators.validatorsMutex"))>>
              [] OTHER -> <<>>
      [] g = "attester" ->
            <<Acc("attester.attested", "W", W("attester.attestedMu")), Acc("attester.attested", "W", W("attester.attestedMu"))>>
      [] g = "registrar" ->
            IF o.op = "RestRegs" THEN ControlledSnapshot ELSE RoundSteps
      [] g = "bids" ->
            IF o.op = "Auction"
            THEN <<Acc("blockrelay.builderBidsCache", "W", W("blockrelay.builderBidsCacheMu"))>>                  \* cacheBid
            ELSE <<Acc("blockrelay.builderBidsCache", "R", R("blockrelay.builderBidsCacheMu")),                    \* cachedBid
                   \* miss: one immediate auction at a time (builderBidMu), look again, auction, cache the result
                   Acc("blockrelay.builderBidsCache", "R", R("blockrelay.builderBidsCacheMu") \cup W("blockrelay.builderBidMu")),
                   Acc("blockrelay.builderBidsCache", "W", W("blockrelay.builderBidsCacheMu") \cup W("blockrelay.builderBidMu"))>>
      [] g = "restcfg" ->
            CASE o.op = "Fetch" -> FetchSteps
              [] o.op = "SourceSet" -> <<>>
              [] o.op = "RestRegs" -> ControlledSnapshot \o ConfigLookup \o <<Acc("util.builders", "W", W("util.buildersMu"))>>
              [] o.op = "RestUnblind" -> ConfigLookup \o <<Acc("util.builders", "W", W("util.buildersMu"))>>
              [] OTHER (* RestBid, Auction *) -> ConfigLookup
      [] g = "exechead" ->
            IF o.op = "HeadEvent" THEN <<Acc("cache.executionChainHead", "W", W("cache.executionChainHeadMu"))>>
            ELSE <<Acc("cache.executionChainHead", "R", R("cache.executionChainHeadMu"))>>
      [] g = "syncagg" ->
            <<Acc("syncaggregator.beaconBlockRoots", "W", W("syncaggregator.beaconBlockRootsMu"))>>
      [] g = "bestvotes" ->
            <<Acc("bestproposal.priorBlocksVotes", "R", R("bestproposal.priorBlocksVotesMu")),
              Acc("bestproposal.priorBlocksVotes", "W", W("bestproposal.priorBlocksVotesMu"))>>
      [] g = "bidstrategy" ->
            <<Acc("builderbid.relayPubkeys", "R", R("builderbid.relayPubkeysMu")),
              Acc("builderbid.relayPubkeys", "W", W("builderbid.relayPubkeysMu"))>>
      [] g = "dirk" -> DirkSteps(o, FALSE)          \* (the rendering of a call of a history: StepsOf)

-----------------------------------------------------------------------------
VARIABLES g,        \* the group of the current history
          st,       \* abstract state
          calls,    \* id -> [op, status: "pending" | "done" | "returned", res, pc: next access, in: access in progress,
                    \*        carry: Carried(g, st) at the invocation]
          lin       \* ids in linearization order (history variable)

vars == <<g, st, calls, lin>>

Ids == 1..9
NoRes == -9

Init ==
    /\ g \in Groups
    /\ st \in StartInits(g)
    /\ calls = [i \in {} |-> 0]
    /\ lin = <<>>

Active == {i \in DOMAIN calls : calls[i].in}
StepsOf(i) == IF g = "dirk" THEN DirkSteps(calls[i].op, calls[i].carry) ELSE Steps(g, calls[i].op)
AccessOf(i) == StepsOf(i)[calls[i].pc]

Conflicts(h1, h2) ==      \* lock sets that cannot be held at the same time
    \E a \in h1, b \in h2 : a[1] = b[1] /\ (a[2] = "W" \/ b[2] = "W")

Invoke(i, o) ==
    /\ i \notin DOMAIN calls
    /\ o \in AllOps(g)
    \* the accounts refresher is one periodic job: a refresh is only started when the previous one has returned
    /\ (g = "dirk" /\ o.op = "Refresh") =>
            \A j \in DOMAIN calls : calls[j].op.op = "Refresh" => calls[j].status = "returned"
    /\ calls' = Put(calls, i, [op |-> o, status |-> "pending", res |-> NoRes, pc |-> 1, in |-> FALSE,
                                carry |-> Carried(g, st)])
    /\ UNCHANGED <<g, st, lin>>

\* A job-round may only skip its run (result 0) while another job-round is in progress (activity semaphore).
Allowed(i, a) ==
    (g = "registrar" /\ calls[i].op.op = "RoundJob" /\ a.res = 0)
        => \E j \in DOMAIN calls : j # i /\ calls[j].op.op = "RoundJob" /\ calls[j].status # "returned"

\* the linearization point: the effect takes place and the result is determined
Linearize(i) ==
    /\ i \in DOMAIN calls /\ calls[i].status = "pending"
    /\ \E a \in Apply(g, st, calls[i].op) :
          /\ Allowed(i, a)
          /\ st' = a.st
          /\ calls' = [calls EXCEPT ![i].status = "done", ![i].res = a.res]
    /\ lin' = Append(lin, i)
    /\ UNCHANGED g

\* an access to a shared variable begins: the locks it holds must be free in the Go sense
BeginAccess(i) ==
    /\ i \in DOMAIN calls /\ calls[i].status # "returned" /\ ~calls[i].in
    /\ calls[i].pc <= Len(StepsOf(i))
    /\ \A j \in Active : ~Conflicts(AccessOf(i).held, AccessOf(j).held)
    /\ calls' = [calls EXCEPT ![i].in = TRUE]
    /\ UNCHANGED <<g, st, lin>>

EndAccess(i) ==
    /\ i \in Active
    /\ calls' = [calls EXCEPT ![i].in = FALSE, ![i].pc = @ + 1]
    /\ UNCHANGED <<g, st, lin>>

Return(i) ==
    /\ i \in DOMAIN calls /\ calls[i].status = "done" /\ ~calls[i].in
    /\ calls[i].pc > Len(StepsOf(i))
    /\ calls' = [calls EXCEPT ![i].status = "returned"]
    /\ UNCHANGED <<g, st, lin>>

Next ==
    \/ \E o \in AllOps(g) : Invoke(Cardinality(DOMAIN calls) + 1, o)      \* ids in invocation order (symmetry)
    \/ \E i \in Ids : Linearize(i) \/ BeginAccess(i) \/ EndAccess(i) \/ Return(i)

Spec == Init /\ [][Next]_vars

-----------------------------------------------------------------------------
TypeOK ==
    /\ g \in Groups
    /\ DOMAIN calls \subseteq Ids
    /\ \A i \in DOMAIN calls : calls[i].status \in {"pending", "done", "returned"}

\* C17 (a): the results handed out are those of the sequential execution in linearization order
RECURSIVE Replay(_, _, _)
Replay(s, k, ok) ==          \* is there a sequential run of lin[k..] from s that yields the recorded results?
    IF k > Len(lin) THEN ok /\ s = st
    ELSE \E a \in Apply(g, s, calls[lin[k]].op) : a.res = calls[lin[k]].res /\ Replay(a.st, k + 1, ok)

Linearizable == \E s0 \in SeqInits(g) : Replay(s0, 1, TRUE)

\* C17 (b): two overlapping accesses to a variable, one of them a write, both hold its guard
HoldsGuard(a) ==
    IF a.kind = "W" THEN <<Guard[a.var], "W">> \in a.held
    ELSE \E m \in {"R", "W"} : <<Guard[a.var], m>> \in a.held

Disciplined ==
    \A i, j \in Active :
        (i # j /\ AccessOf(i).var = AccessOf(j).var /\ (AccessOf(i).kind = "W" \/ AccessOf(j).kind = "W"))
            => (HoldsGuard(AccessOf(i)) /\ HoldsGuard(AccessOf(j)))

\* state constraint of the exhaustive runs: one schedule = the prologue is skipped, <= MaxPar calls
Bounded == Cardinality(DOMAIN calls) <= MaxPar

\* state constraint of the self-checks of the Reuse rendering (group dirk): histories of refreshes and queries on one
\* instance while Dirk's list stays as it is (a sub-space: enough to hold a violation, and fast)
ReuseProbe ==
    /\ Bounded /\ st.offer = {1, 2}
    /\ \A i \in DOMAIN calls : calls[i].op \in {[op |-> "Refresh", first |-> 1], [op |-> "Query", kind |-> "by_key"]}
    /\ Cardinality({i \in DOMAIN calls : calls[i].op.op = "Query"}) <= 1
=============================================================================
