----------------------------- MODULE Concurrency -----------------------------
(* Property C17: Vouch's own concurrency never corrupts its state.                              *)
(*                                                                                              *)
(* Part (a): the operations that production overlaps, grouped by the state they share, each with *)
(* its SEQUENTIAL meaning (Apply) over a small abstract state.  A call is Invoke ; Linearize ;   *)
(* Return, the effect and the result being determined at the Linearize step: property            *)
(* Linearizable - the results of overlapping calls are those of some sequential order of the     *)
(* calls that respects real time.  TLC validates recorded call histories of the real services    *)
(* by searching for the Linearize steps (Trace_Concurrency).                                     *)
(*                                                                                              *)
(* Part (b): the lock discipline.  Guard[var] names the lock that protects each shared variable; *)
(* Steps(g, op) renders every operation as the sequence of its accesses to shared variables with *)
(* the locks held at that access (mode R or W).  Accesses take time (Begin/End); the locks have  *)
(* their Go meaning (W excludes everything, R excludes W).  Invariant Disciplined: whenever two  *)
(* accesses to the same variable overlap and one of them is a write, both hold Guard[var] - a    *)
(* writer exclusively.  Pinned = TRUE renders the operations as the pinned tree has them (the    *)
(* suspected defects D9: unlocked reads and a write under a read lock); TLC must then find the   *)
(* violation (MC_Concurrency_pinned.cfg, expected counterexample = the model is not vacuous).    *)
(* Pinned = FALSE is the discipline the property demands.  InPlace = TRUE renders the            *)
(* registration round as altering the PUBLISHED map of controlled validators entry by entry       *)
(* (under the write lock) instead of replacing it: the REST request reads the entries of the map  *)
(* it picked up without the lock, which is only disciplined while published maps are never         *)
(* altered - TLC must find that violation too (MC_Concurrency_inplace_registrar.cfg).              *)
(*                                                                                              *)
(* The service INSTANCE is long-lived: a behaviour is a HISTORY of calls on one instance, some    *)
(* sequential, some overlapping.  What an operation touches may depend on what earlier calls left *)
(* on the instance: the state named Carried(g, st) is the only part of the instance's history a   *)
(* call's rendering may depend on (it is fixed per call at its invocation: calls[i].carry).        *)
(* Group dirk: the dirk account manager publishes, per refresh, a NEW list of public keys; the      *)
(* readers take the list under the read lock and use its ELEMENTS outside the lock, which is       *)
(* disciplined exactly as long as the elements of a published list are never written again.        *)
(* Reuse = TRUE renders a refresh that builds the new list in the backing array of the published   *)
(* one (s.pubKeys[:0]) under a refresh-local mutex: right on a fresh instance (nothing published:  *)
(* the first refresh allocates; MC_Concurrency_reuse_dirk_fresh.cfg, ONE refresh per instance,     *)
(* must hold) and a violation of Disciplined from the SECOND refresh of a history on              *)
(* (MC_Concurrency_reuse_dirk.cfg, histories of three calls from a fresh instance, must be          *)
(* rejected).  Behaviours of group dirk START on a fresh instance (StartInits): what only a       *)
(* history reaches is reached by a history.                                                        *)
(*                                                                                              *)
(* Part (c): ALIASING.  Some structures are shared between jobs and handlers of DIFFERENT            *)
(* components without any lock, which is right only because nobody writes them once they have been   *)
(* handed on.  Group syncduty models the sync committee duty pipeline as production wires it (the     *)
(* controller's scheduling path, the messenger, the aggregator, the head event handler) with the      *)
(* OBJECTS the controller builds and who holds a reference to each: ONE map of committee positions    *)
(* and ONE map of accounts per sync committee period, handed to the duty of every slot; the messenger *)
(* keeps the duty's map BY REFERENCE in the slot's data record, over which the head event handler of   *)
(* the next slot ranges; the aggregator's duty holds the messenger duty's accounts map and selection   *)
(* proofs.  Touch(u) names the objects a unit (a call between two of its critical sections, a job a    *)
(* head event started, a scheduling goroutine) reads or writes; invariant SharedImmutable: two units    *)
(* that are under way at the same time never touch the same object when one of them writes it - the     *)
(* rule "shared => never written after publication".  Share = "period" is the aliasing of the code,     *)
(* Share = "slot" a design in which every duty has a copy of its own (what a driver that builds a        *)
(* fresh map per duty looks at).  AliasWrite names a CLASS of change - a component that starts to write  *)
(* an object it was handed, and only for an edge input of the widened environment (a committee member    *)
(* without an account, a head block that misses members): TLC must reject each class under the code's    *)
(* aliasing (MC_Concurrency_alias_*.cfg), and must ACCEPT the first one both with a copy per slot and    *)
(* with the narrow environment in which every member has an account (the two reasons why a check can     *)
(* be blind to it).  The environment of group syncduty is wide (WideEnv): which members have an account   *)
(* in the by-index lookup (all / one missing / only one / none), what the head-root request, the root     *)
(* signer (ok / a zero signature / error), the selection signer (aggregators / none / error), the         *)
(* contribution request and the fetch of the head block (all / some bits set / another parent / error)    *)
(* answer - per job.  Jobs are not atomic: a call of this group passes several linearization points       *)
(* (phases: take the job; record the data of the slot; schedule the next job), a head event starts the    *)
(* message job of its slot on a goroutine of its own (silent steps).  Group attinfo is the same idea    *)
(* on the attester's side, within part (b): the attestation jobs of every slot of an epoch read the       *)
(* ENTRIES of the epoch's subscription info (published through controller.subscriptionInfos) without the  *)
(* lock; a job that alters them (class job-subscription-entries: when the aggregator's account is not     *)
(* found) must violate Disciplined, and must not with the narrow environment in which the attester        *)
(* returns no attestations.                                                                               *)
(*                                                                                              *)
(* Group builderclients (fifth round: SIBLING code paths).  The relay clients are ONE process-wide   *)
(* map (util.builders, lock util.buildersMu) behind the shared helper util.FetchBuilderClient, which   *)
(* every path that talks to a relay goes through on a goroutine of its own: the registration round      *)
(* (one goroutine per relay), the auctions of BOTH builder-bid strategies (best, deadline: one fetch    *)
(* per relay of the proposer), the REST requests (BuilderBid, UnblindBlock, ValidatorRegistrations).    *)
(* The helper is a specification action with its own state: known = the relays that have a client;     *)
(* a fetch of a relay NEW to the process writes the map, a fetch of a known relay only reads it - the   *)
(* rendering of a call depends on what earlier calls of the history left in the map (carry).  The       *)
(* execution configuration (cfg: the relays of every proposer) is refreshed between the prologue and    *)
(* the overlap: it names relays that are new to the process, or (control) only known ones.              *)
(* AliasWrite = "builder-client-fast-path" renders the class "a known client is handed out BEFORE the   *)
(* lock is taken" (double-checked locking): TLC must reject it (MC_Concurrency_fastpath_builders.cfg),  *)
(* and must ACCEPT it in the narrow environment in which every relay is known before the overlap        *)
(* (MC_Concurrency_fastpath_builders_known.cfg: what a driver that registers its fake relay clients     *)
(* in the map up front looks at - the reason why the earlier versions of this check were blind to it).  *)
(*                                                                                              *)
(* The groups are derived from the goroutine families that main.go wires up (scheduler jobs,      *)
(* event handlers of the beacon nodes' streams, periodic refreshers, start-up goroutines and the   *)
(* REST daemon that serves the beacon nodes' MEV-boost requests) x the shared fields of every      *)
(* service structure: docs/C17.md lists the table of overlapping pairs and the group of each.      *)
(*                                                                                              *)
(* Stated limit: whether two memory accesses of the Go program really are unsynchronised is a     *)
(* fact about the Go memory model that no specification at this level can observe.  The binding   *)
(* runs the TLC-generated overlap schedules on the real services in a binary built with -race;    *)
(* a race report whose two access sites are in Vouch's code is logged as the event                *)
(* Race(var, sites) - an event NO ACTION of this specification allows.  That half of C17 is        *)
(* decided by the race detector during model-generated schedules, not by TLC.                      *)
EXTENDS Integers, FiniteSets, Sequences, TLC

CONSTANTS Groups,     \* the groups explored by this configuration (subset of AllGroups)
          Pinned,     \* render the lock acquisitions as on the pinned tree
          InPlace,    \* render the registration round as altering the published controlled-validators map in place
          Reuse,      \* render the dirk refresh as building its key list in the backing array of the published list
          WideEnv,    \* group syncduty: the environment presents its whole alphabet (FALSE: every member has an account,
                      \* every request is answered - the alphabet of the first versions of this specification)
          Share,      \* group syncduty: "period" = one map of committee positions per period, aliased by every duty and
                      \* every data record (the code); "slot" = a copy per duty (control design)
          AliasWrite, \* groups syncduty, attinfo: the class of change rendered - who writes an object it was handed: "none" (the
                      \* code), "message-indices", "prepare-indices", "verify-indices", "schedule-accounts" (syncduty),
                      \* "job-subscription-entries" (attinfo), "builder-client-fast-path" (builderclients)
          MaxPar      \* maximal number of overlapping operations in a schedule (3)

AllGroups == {"wallet", "blockrelay", "messenger", "controller", "cache", "validators", "attester",
              \* the REST (MEV-boost) surface of the block relay and two more pairs of the re-derived table
              "registrar", "bids", "restcfg", "exechead", "syncagg", "bestvotes", "bidstrategy",
              \* the dirk account manager (pair 2 of the table): second and later refreshes of one instance
              "dirk",
              \* the sync committee duty pipeline through the controller's scheduling path: structures ALIASED between
              \* the jobs of neighbouring slots, the data records and the head event handler
              "syncduty",
              \* attestation jobs of the slots of one epoch read the ENTRIES of the epoch's subscription info (one map,
              \* published through controller.subscriptionInfos) without the lock || head events (old epochs removed,
              \* node 2: a refresh publishes a new one)
              "attinfo",
              \* the process-wide map of relay clients behind util.FetchBuilderClient: registration round (real block
              \* relay) || auctions of both builder-bid strategies || direct fetches (the REST requests' loop), with relays
              \* that are NEW to the process
              "builderclients"}

-----------------------------------------------------------------------------
(* ---------------------------- part (a): sequential meaning -------------------------------- *)

Versions == 0..2        \* execution configuration documents (the value identifies the document)
Fail == -1              \* the configuration source fails

OldSlot == 1010  MidSlot == 1040  NewSlot == 1100      \* sync committee slot records that are tracked
Keep == 32                                        \* minSlotDataRecordsToKeep

-----------------------------------------------------------------------------
(* ---- group syncduty: the environment's alphabet, the abstract state, the phases of a call ---- *)

SyncSlots == 1..3           \* abstract slots of one sync committee period; the clock stands at SyncNow during the overlap
SyncNow == 2
SyncMembers == {1, 2, 3}    \* Vouch's validators that are members of the period's sync committee
Mask3(S) == (IF 1 \in S THEN 1 ELSE 0) + (IF 2 \in S THEN 2 ELSE 0) + (IF 3 \in S THEN 4 ELSE 0)

\* What the environment may present.  acct: the members that have an account in the by-index lookup made when the
\* duties of the period are scheduled (a member can lose its account between the lookup of all accounts and this
\* one: an exited validator still in the committee); the others are what each request of a job is answered.
AcctA == IF WideEnv THEN {{1, 2, 3}, {1, 2}, {3}, {}} ELSE {{1, 2, 3}}
RootA == IF WideEnv THEN {"ok", "fail"} ELSE {"ok"}                       \* head root request of a message job
SigA == IF WideEnv THEN {"ok", "zero1", "fail"} ELSE {"ok"}                \* root signer: ok / zero signature for validator 1 / error
SelA == IF WideEnv THEN {"agg", "noagg", "fail"} ELSE {"agg"}              \* selection signer of a prepare job: aggregators / none / error
ContribA == IF WideEnv THEN {"ok", "fail"} ELSE {"ok"}                     \* contribution request of an aggregation job
BlockA == IF WideEnv THEN {"match", "missing", "mismatch", "fail"} ELSE {"match"}   \* fetch of the head block by the verification

\* group attinfo: what the attester returns to an attestation job (no attestations / one per validator of the duty) and
\* whether the by-index lookup of the aggregator's account finds one
AttA == IF WideEnv THEN {"none", "some"} ELSE {"none"}
JobAcctA == IF WideEnv THEN {"yes", "no"} ELSE {"yes"}

\* State: the job table of the period (prepare / message / aggregation jobs by slot), the aggregators each prepare job
\* found, the slots with a data record, the message jobs a head event has started (spawn: before their record,
\* spawn2: after it; each with the generation of its duty), the slots whose duties a refresh is still scheduling (pend),
\* and the generation of the duty that the scheduled prepare / message / aggregation job of each slot belongs to (a
\* refresh makes NEW duties - new objects - for the slots from the current one on; jobs of the old duties that were
\* under way, or that such a job schedules, still work on the old objects).
SyncInit == [acct |-> {}, prep |-> SyncSlots, msg |-> {}, agg |-> {}, aggs |-> [s \in SyncSlots |-> {}], rec |-> {},
             spawn |-> {}, spawn2 |-> {}, pend |-> {}, gen |-> [s \in SyncSlots |-> 0],
             mgen |-> [s \in SyncSlots |-> 0], agen |-> [s \in SyncSlots |-> 0]]
\* the generation of the duty whose job a call takes at its first point
JobGen(st, o) == CASE o.op = "Prep" -> st.gen[o.s] [] o.op = "Msg" -> st.mgen[o.s] [] o.op = "Agg" -> st.agen[o.s] [] OTHER -> 0
\* ScheduleJob refuses a name that is taken: the job table keeps the job (and the duty) it has
AddMsg(st, s, k) == IF s \in st.msg THEN st ELSE [st EXCEPT !.msg = @ \cup {s}, !.mgen[s] = k]
AddAgg(st, s, k) == IF s \in st.agg THEN st ELSE [st EXCEPT !.agg = @ \cup {s}, !.agen[s] = k]

Submitted(acct, sig) == IF sig = "fail" THEN {} ELSE IF sig = "zero1" THEN acct \ {1} ELSE acct

\* One linearization point (phase ph) of operation o in state st; res is the result determined so far.  Yields the
\* possible [st, res, ph]: ph = the next phase, 0 when the call has passed its last point.
\*   Env(acct)          the accounts the by-index lookup knows (before the controller schedules the period)
\*   Prep(s, sel)       the timer starts the prepare job of slot s: 1 take the job (res 1; 0 = no such job); 2 the
\*                      selection proofs are in (sel) and the message job of the slot is scheduled
\*   Msg(s, root, sig)  the timer starts the message job: 1 take the job (res 0 = no such job); 2 the head root is in
\*                      (root) and the data of the slot is recorded; 3 the messages are signed (sig) and submitted (res =
\*                      8 + who), the aggregation job is scheduled if the slot has aggregators and messages went out
\*   Agg(s, contrib)    the timer starts the aggregation job: res = 8 + the aggregators whose contribution went out
\*   Head(s, node, block)  head event of the current slot from beacon node `node`: 1 fast track - the message job of
\*                      the slot, if scheduled, is started on a goroutine of its own; 2 the verification of slot s - 1
\*                      looks for its data record (res 1: found, the head block is fetched: block)
\*   Resched            refresh of the period's duties (reorg): 1..3 the jobs of slot 1, 2, 3 are cancelled; 4 the new
\*                      duties are being scheduled, slot by slot, on goroutines of their own (from the current slot on)
SyncApply(st, o, ph, res, k) ==        \* k: the generation of the duty whose job the call has taken
    CASE o.op = "Env" -> {[st |-> [st EXCEPT !.acct = o.acct], res |-> 0, ph |-> 0]}
      [] o.op = "Prep" ->
            IF ph = 1
            THEN IF o.s \in st.prep THEN {[st |-> [st EXCEPT !.prep = @ \ {o.s}], res |-> 1, ph |-> 2]}
                 ELSE {[st |-> st, res |-> 0, ph |-> 0]}
            ELSE IF o.sel = "fail" /\ st.acct # {} THEN {[st |-> st, res |-> res, ph |-> 0]}     \* no message job
                 ELSE {[st |-> [AddMsg(st, o.s, k) EXCEPT !.aggs[o.s] = IF o.sel = "agg" THEN st.acct ELSE {}],
                        res |-> res, ph |-> 0]}
      [] o.op = "Msg" ->
            CASE ph = 1 -> IF o.s \in st.msg THEN {[st |-> [st EXCEPT !.msg = @ \ {o.s}], res |-> 8, ph |-> 2]}
                           ELSE {[st |-> st, res |-> 0, ph |-> 0]}
              [] ph = 2 -> IF o.root = "fail" THEN {[st |-> st, res |-> res, ph |-> 0]}
                           ELSE {[st |-> [st EXCEPT !.rec = @ \cup {o.s}], res |-> res, ph |-> 3]}
              [] OTHER -> LET sub == Submitted(st.acct, o.sig) IN
                           {[st |-> IF sub # {} /\ st.aggs[o.s] # {} THEN AddAgg(st, o.s, k) ELSE st,
                             res |-> 8 + Mask3(sub), ph |-> 0]}
      [] o.op = "Agg" ->
            IF o.s \in st.agg
            THEN {[st |-> [st EXCEPT !.agg = @ \ {o.s}],
                   res |-> 8 + (IF o.contrib = "ok" THEN Mask3(st.aggs[o.s]) ELSE 0), ph |-> 0]}
            ELSE {[st |-> st, res |-> 0, ph |-> 0]}
      [] o.op = "Head" ->
            IF ph = 1
            THEN {[st |-> IF o.s \in st.msg THEN [st EXCEPT !.msg = @ \ {o.s}, !.spawn = @ \cup {<<o.s, st.mgen[o.s]>>}] ELSE st,
                   res |-> res, ph |-> 2]}
            ELSE {[st |-> st, res |-> IF (o.s - 1) \in st.rec THEN 1 ELSE 0, ph |-> 0]}
      [] OTHER (* Resched *) ->
            IF ph <= 3
            THEN {[st |-> [st EXCEPT !.prep = @ \ {ph}, !.msg = @ \ {ph}, !.agg = @ \ {ph}], res |-> 0, ph |-> ph + 1]}
            ELSE {[st |-> [st EXCEPT !.pend = {s \in SyncSlots : s >= SyncNow}], res |-> 0, ph |-> 0]}

\* Steps of goroutines that no call of the history is: the message job a head event started records its data (or gets
\* no head root) and finishes (whatever its signer answers); a scheduling goroutine of a refresh schedules the prepare
\* job of its slot for a NEW duty (next generation).
SyncSilent(st) ==
    {[st EXCEPT !.spawn = @ \ {j}, !.spawn2 = @ \cup {j}, !.rec = @ \cup {j[1]}] : j \in st.spawn}
    \cup {[st EXCEPT !.spawn = @ \ {j}] : j \in IF "fail" \in RootA THEN st.spawn ELSE {}}
    \cup {[st EXCEPT !.spawn2 = @ \ {j}] : j \in st.spawn2}
    \cup {AddAgg([st EXCEPT !.spawn2 = @ \ {j}], j[1], j[2]) : j \in {x \in st.spawn2 : st.aggs[x[1]] # {}}}
    \cup {[st EXCEPT !.pend = @ \ {s}, !.prep = @ \cup {s}, !.gen[s] = 1] : s \in st.pend}

\* the operations of group syncduty (every parameter ranges over the environment's alphabet)
SyncOps ==
    {[op |-> "Env", acct |-> a] : a \in AcctA}
    \cup {[op |-> "Prep", s |-> s, sel |-> x] : s \in SyncSlots, x \in SelA}
    \cup {[op |-> "Msg", s |-> s, root |-> r, sig |-> x] : s \in SyncSlots, r \in RootA, x \in SigA}
    \cup {[op |-> "Agg", s |-> s, contrib |-> c] : s \in SyncSlots, c \in ContribA}
    \cup {[op |-> "Head", s |-> SyncNow, node |-> n, block |-> b] : n \in 1..2, b \in BlockA}
    \cup {[op |-> "Resched"]}
\* ... those that production overlaps while the clock stands at slot SyncNow: head events of two beacon nodes, the
\* message jobs of the previous slot (late) and of this slot, the prepare job of the next slot, the aggregation job of
\* the previous slot, a refresh of the period's duties
SyncParOps ==
    {o \in SyncOps : \/ o.op \in {"Head", "Resched"}
                     \/ o.op = "Msg" /\ o.s \in {SyncNow - 1, SyncNow}
                     \/ o.op = "Prep" /\ o.s = SyncNow + 1
                     \/ o.op = "Agg" /\ o.s = SyncNow - 1}
\* two operations that stand for the same job / the same node's event (they differ in what the environment answers)
SyncKey(o) == <<o.op, IF o.op \in {"Env", "Resched"} THEN 0 ELSE o.s, IF o.op = "Head" THEN o.node ELSE 0>>

\* the history before the overlap: the prepare jobs of slots 1 and 2 have run; the message job of slot 1 has run
\* (late1 = FALSE) or is late and still to come
SyncPrologue(a, late1) ==
    <<[op |-> "Env", acct |-> a], [op |-> "Prep", s |-> 1, sel |-> "agg"], [op |-> "Prep", s |-> 2, sel |-> "agg"]>>
    \o IF late1 THEN <<>> ELSE <<[op |-> "Msg", s |-> 1, root |-> "ok", sig |-> "ok"]>>

\* the state a sequence of calls made one after the other leaves (their points are deterministic)
RECURSIVE SyncRunCall(_, _, _, _)
SyncRunCall(st, o, ph, res) ==
    IF ph = 0 THEN st
    ELSE LET a == CHOOSE x \in SyncApply(st, o, ph, res, 0) : TRUE IN SyncRunCall(a.st, o, a.ph, a.res)
RECURSIVE SyncRun(_, _)
SyncRun(st, ops) == IF ops = <<>> THEN st ELSE SyncRun(SyncRunCall(st, Head(ops), 1, -9), Tail(ops))

\* abstract state at the start of a history
SeqInits(g) ==
    CASE g = "wallet" -> {[known |-> 1]}                                  \* one account in the store
      [] g = "blockrelay" -> {[src |-> 0, cfg |-> c] : c \in Versions}     \* service reused: any active document
      [] g = "messenger" -> {[rec |-> [s \in {} |-> 0]]}
      [] g = "controller" -> {[seen |-> 0]}
      [] g = "cache" -> {[map |-> {}]}
      [] g = "validators" -> {[node |-> {}, known |-> {}]}
      [] g = "attester" -> {[attested |-> {}]}
      \* every history of these groups works on validators / auction keys / slots of its own (fresh per history)
      [] g = "registrar" -> {[controlled |-> {}]}
      [] g = "bids" -> {[cache |-> [k \in 1..2 |-> {}]]}
      [] g = "restcfg" -> {[src |-> 0, cfg |-> c] : c \in Versions}
      [] g = "exechead" -> {[head |-> 0]}
      [] g = "syncagg" -> {[roots |-> [s \in {} |-> 0]]}
      [] g = "bestvotes" -> {[seen |-> 0]}
      [] g = "bidstrategy" -> {[seen |-> 0]}
      \* ONE dirk account manager serves every history: any set of accounts may be listed by Dirk (offer) and known
      \* to the service; pub = a list of public keys has been published on this instance (0: fresh instance)
      [] g = "dirk" -> {[offer |-> o, known |-> k, pub |-> p] : o \in SUBSET {1, 2}, k \in SUBSET {1, 2}, p \in 0..1}
                          \ {[offer |-> o, known |-> k, pub |-> 0] : o \in SUBSET {1, 2}, k \in (SUBSET {1, 2}) \ {{}}}
      \* the controller has just started: the prepare jobs of the period's slots are scheduled
      [] g = "syncduty" -> {SyncInit}
      [] g = "attinfo" -> {[seen |-> 0]}
      \* every history works on relays of its own (addresses new to the process): no client is known, no relay configured
      \* (or the state the prologue leaves: relay 1 configured, its client created by the initial round)
      [] g = "builderclients" -> {[cfg |-> {}, known |-> {}], [cfg |-> {1}, known |-> {1}]}

\* Start states of the exhaustive runs.  Group dirk: a FRESH instance (nothing published, nothing known) - every
\* other state of SeqInits is reached by a history of calls (recorded histories may start in any of them: the
\* drivers keep one instance over many histories).
StartInits(g) ==
    CASE g = "dirk" -> {[offer |-> o, known |-> {}, pub |-> 0] : o \in SUBSET {1, 2}}
      \* group syncduty: the states the prologues lead to (the overlaps of interest need prepared jobs and a record)
      [] g = "syncduty" -> {SyncRun(SyncInit, SyncPrologue(a, l)) : a \in AcctA, l \in BOOLEAN}
      [] OTHER -> SeqInits(g)

\* The part of the instance's history that the RENDERING of a call (its accesses) may depend on.  Everything else
\* an operation does is independent of what earlier calls left behind.
\* (group builderclients: the relays that have a client, and the relays of the active configuration.)
Carried(g, st) == IF g = "dirk" THEN st.pub > 0 ELSE IF g = "builderclients" THEN st ELSE FALSE

Put(f, k, v) == [x \in (DOMAIN f) \cup {k} |-> IF x = k THEN v ELSE f[x]]
Drop(f, D) == [x \in (DOMAIN f) \ D |-> f[x]]
Mask(S) == (IF 1 \in S THEN 1 ELSE 0) + (IF 2 \in S THEN 2 ELSE 0)
HeadRoot == 9           \* sync committee aggregation falls back to the head root

\* Sequential meaning: the set of possible [st, res] of operation o in state st (a set, because a
\* few operations are specified loosely: the property only constrains what they may return).
Apply(g, st, o) ==
    CASE g = "wallet" ->
            IF o.op = "Refresh" THEN {[st |-> st, res |-> 0]}
            ELSE (* Validating *) {[st |-> st, res |-> st.known]}
      [] g \in {"blockrelay", "restcfg"} ->
            CASE o.op = "SourceSet" -> {[st |-> [st EXCEPT !.src = o.x], res |-> 0]}
              [] o.op = "Fetch" -> {[st |-> [st EXCEPT !.cfg = IF st.src = Fail THEN st.cfg ELSE st.src], res |-> 0]}
              [] OTHER (* Lookup, Register, Auction, and in group restcfg the REST requests RestRegs (a validator
                          Vouch does not control: forwarded to the relays of the active document), RestBid (no cached
                          bid: immediate auction), RestUnblind: the settings of the active document *) ->
                    {[st |-> st, res |-> st.cfg]}
      [] g = "messenger" ->
            \* Message(s, r) records r for slot s; whether recording also clears the records older than s - Keep
            \* (the service does since it bounds its records on every insertion) is left open: C17 is about overlap
            CASE o.op = "Message" -> {[st |-> [st EXCEPT !.rec = Drop(Put(st.rec, o.s, o.r), D)], res |-> 0] :
                                         D \in {{}, {s \in DOMAIN st.rec : s < o.s - Keep}}}
              [] o.op = "GetData" -> {[st |-> st, res |-> IF o.s \in DOMAIN st.rec THEN st.rec[o.s] ELSE 0]}
              [] OTHER (* Remove(cur): more than the threshold of records exist (driver prefill) *) ->
                    {[st |-> [st EXCEPT !.rec = Drop(st.rec, {s \in DOMAIN st.rec : s < o.cur - Keep})], res |-> 0]}
      [] g \in {"controller", "attinfo"} -> {[st |-> st, res |-> 0]}
      [] g = "cache" ->
            CASE o.op = "BlockEvent" -> {[st |-> [st EXCEPT !.map = st.map \cup {o.r}], res |-> 0]}
              [] o.op = "Lookup" -> {[st |-> [st EXCEPT !.map = m], res |-> o.r] : m \in {st.map, st.map \cup {o.r}}}
              [] OTHER (* Clean: nothing in these histories is old enough to go *) -> {[st |-> st, res |-> 0]}
      [] g = "validators" ->
            CASE o.op = "NodeSet" -> {[st |-> [st EXCEPT !.node = o.x], res |-> 0]}
              [] o.op = "Refresh" -> {[st |-> [st EXCEPT !.known = IF st.node = {} THEN st.known ELSE st.node], res |-> 0]}
              [] OTHER (* ByIndex: which of validators 1, 2 are known *) -> {[st |-> st, res |-> Mask(st.known)]}
      [] g = "attester" ->
            \* Attest(V): the validators of the duty that had not attested in the epoch attest now
            {[st |-> [st EXCEPT !.attested = st.attested \cup o.v], res |-> Mask(o.v \ st.attested)]}
      [] g = "registrar" ->
            \* "Validator" 1, 2 = a block of accounts that every operation of the history handles alike.
            \* Round(V): a registration round for the accounts V (SubmitValidatorRegistrations).  Whether the set of
            \* controlled validators is REPLACED by V or EXTENDED by V is left open (C17 is about overlap, not about
            \* which of the two the service wants); RoundJob: the periodic job (all accounts), which skips its run
            \* (res 0) when another job-round holds the activity semaphore - see Allowed below.
            \* RestRegs(V): REST ValidatorRegistrations for V; res = the validators whose registration was
            \* FORWARDED to the relays, i.e. those Vouch does not control at that point.
            CASE o.op = "Round" -> {[st |-> [controlled |-> c], res |-> 0] : c \in {o.v, st.controlled \cup o.v}}
              [] o.op = "RoundJob" -> {[st |-> st, res |-> 0], [st |-> [controlled |-> {1, 2}], res |-> 3]}
              [] OTHER (* RestRegs *) -> {[st |-> st, res |-> Mask(o.v \ st.controlled)]}
      [] g = "bids" ->
            \* cache[k]: the bids cached so far for auction key k (slot/parent/proposer).  Auction(k, b): the relays'
            \* best bid during this auction is b (0: no acceptable bid, a dummy is cached); res = b.
            \* RestBid(k, b): REST BuilderBid - a cached bid if there is one (WHICH of several auctions' bids stays
            \* cached is left open: each is a valid answer), else an immediate auction (bid b) whose result is cached.
            IF o.op = "Auction" \/ st.cache[o.k] = {}
            THEN {[st |-> [st EXCEPT !.cache[o.k] = @ \cup {o.b}], res |-> o.b]}
            ELSE {[st |-> st, res |-> b] : b \in st.cache[o.k]}
      [] g = "exechead" ->
            IF o.op = "HeadEvent" THEN {[st |-> [head |-> o.h], res |-> 0]}
            ELSE (* ExecHead: root and height of ONE head *) {[st |-> st, res |-> st.head]}
      [] g = "syncagg" ->
            \* SetRoot(s, r): the messenger job of slot s hands over the root it signed; Aggregate(s): the aggregation
            \* job takes it (and forgets it), or falls back to the head root
            IF o.op = "SetRoot" THEN {[st |-> [roots |-> Put(st.roots, o.s, o.r)], res |-> 0]}
            ELSE IF o.s \in DOMAIN st.roots THEN {[st |-> [roots |-> Drop(st.roots, {o.s})], res |-> st.roots[o.s]]}
            ELSE {[st |-> st, res |-> HeadRoot]}
      [] g = "bestvotes" -> {[st |-> st, res |-> 0]}          \* head events return nothing (race half only)
      \* an auction ends with a verified winning bid (1) or, when its deadline passes first, without one (0): the
      \* strategies keep no state that a result could depend on (race half only)
      [] g = "bidstrategy" -> {[st |-> st, res |-> r] : r \in {0, 1}}
      [] g = "dirk" ->
            \* "Account" 1, 2 = the block of accounts of wallet 1, 2 (handled alike by every operation).
            \* Offer(S): from now on Dirk lists the accounts S (environment).  Refresh(first): the periodic refresh;
            \* the wallet whose accounts come in first does not matter; nothing listed = the old accounts are retained.
            \* Query("by_key"): ValidatingAccountsForEpoch and SyncCommitteeAccountsForEpoch; Query("by_index"): their
            \* ByIndex variants (all indices asked for): every known account validates; res = the accounts reported.
            CASE o.op = "Offer" -> {[st |-> [st EXCEPT !.offer = o.x], res |-> 0]}
              [] o.op = "Refresh" ->
                    {[st |-> IF st.offer = {} THEN st ELSE [st EXCEPT !.known = st.offer, !.pub = 1], res |-> 0]}
              [] OTHER (* Query *) -> {[st |-> st, res |-> Mask(st.known)]}
      [] g = "builderclients" ->
            \* Config(R): the configuration refresh finds the relays R (for every proposer).  Round: a registration
            \* round - res = the relays that received the registration = all configured ones.  Bid(s): an auction of
            \* strategy s for a proposer - res = the relays that were asked for a bid: all configured ones (best: it
            \* waits for every relay), any of them (deadline: the deadline may pass before a relay was asked - C17 does not
            \* say).  Fetch(r): the helper itself (the loop of UnblindBlock / ValidatorRegistrations) - res = 1: a client,
            \* and the SAME client as every other fetch of the history got for relay r (one client per relay).
            \* Every one of them leaves a client for each relay it fetched.
            CASE o.op = "Config" -> {[st |-> [st EXCEPT !.cfg = o.x], res |-> 0]}
              [] o.op = "Round" -> {[st |-> [st EXCEPT !.known = @ \cup st.cfg], res |-> Mask3(st.cfg)]}
              [] o.op = "Bid" -> {[st |-> [st EXCEPT !.known = @ \cup st.cfg], res |-> Mask3(S)] :
                                     S \in IF o.s = "deadline" THEN SUBSET st.cfg ELSE {st.cfg}}
              [] OTHER (* Fetch *) -> {[st |-> [st EXCEPT !.known = @ \cup {o.r}], res |-> 1]}

\* One linearization point of a call: the calls of every group but syncduty have ONE (phase 1, then done = 0).
ApplyPh(gg, s, o, ph, res, k) ==
    IF gg = "syncduty" THEN SyncApply(s, o, ph, res, k)
    ELSE {[st |-> a.st, res |-> a.res, ph |-> 0] : a \in Apply(gg, s, o)}
\* the states a step of a goroutine that is no call of the history can lead to
Silent(gg, s) == IF gg = "syncduty" THEN SyncSilent(s) ELSE {}

\* the sequential prologue of every history of a group (establishes a state worth racing on)
Prologue(g) ==
    CASE g \in {"blockrelay", "restcfg"} -> <<[op |-> "SourceSet", x |-> 1], [op |-> "Fetch"]>>
      [] g = "messenger" -> <<[op |-> "Message", s |-> OldSlot, r |-> 1], [op |-> "Message", s |-> MidSlot, r |-> 2]>>
      [] g = "validators" -> <<[op |-> "NodeSet", x |-> {1}], [op |-> "Refresh"]>>
      [] g = "cache" -> <<[op |-> "BlockEvent", r |-> 1]>>
      \* the first refresh of the history: every overlapping refresh is a second or later one of its instance
      [] g = "dirk" -> <<[op |-> "Offer", x |-> {1, 2}], [op |-> "Refresh", first |-> 1]>>
      \* start-up: relay 1 is configured, the initial registration round creates its client
      [] g = "builderclients" -> <<[op |-> "Config", x |-> {1}], [op |-> "Round"]>>
      [] OTHER -> <<>>

\* environment changes made between prologue and the overlapping operations (TLC picks one)
Twists(g) ==
    CASE g \in {"blockrelay", "restcfg"} -> {<<[op |-> "SourceSet", x |-> 2]>>, <<[op |-> "SourceSet", x |-> Fail]>>}
      [] g = "validators" -> {<<[op |-> "NodeSet", x |-> {1, 2}]>>, <<[op |-> "NodeSet", x |-> {}]>>}
      \* the history between the first refresh and the overlap: nothing changes in Dirk; accounts removed; Dirk lists
      \* nothing (the old list is retained); the list shrank and grows again; the accounts are exchanged
      [] g = "dirk" -> {<<>>,
                        <<[op |-> "Offer", x |-> {1}]>>,
                        <<[op |-> "Offer", x |-> {}]>>,
                        <<[op |-> "Offer", x |-> {1}], [op |-> "Refresh", first |-> 1], [op |-> "Offer", x |-> {1, 2}]>>,
                        <<[op |-> "Offer", x |-> {2}], [op |-> "Refresh", first |-> 2], [op |-> "Offer", x |-> {1}]>>}
      \* Structures that the FIRST call on an instance creates and later calls find (the epoch's map of attested
      \* validators, the votes of a block already seen, the relays' decoded public keys): the overlapping calls are
      \* the first ones of their instance, or come after a sequential call that has created the structure
      [] g = "attester" -> {<<>>, <<[op |-> "Attest", v |-> {2}]>>}
      [] g = "bestvotes" -> {<<>>, <<[op |-> "HeadEvent", b |-> 1]>>}
      [] g = "bidstrategy" -> {<<>>, <<[op |-> "Bid", s |-> "best"], [op |-> "Bid", s |-> "deadline"]>>}
      \* the accounts the by-index lookup knows x the message job of the previous slot has run / is late
      [] g = "syncduty" -> {SyncPrologue(a, l) : a \in AcctA, l \in BOOLEAN}
      \* the configuration refresh finds two relays that are new to the process / finds nothing new (control: every
      \* client exists before the overlap - all that a driver with pre-registered relay clients ever runs)
      [] g = "builderclients" -> {<<[op |-> "Config", x |-> {1, 2, 3}]>>, <<>>}
      [] OTHER -> {<<>>}

\* the operations production overlaps
ParOps(g) ==
    CASE g = "wallet" -> {[op |-> "Refresh"], [op |-> "Validating"]}
      [] g = "blockrelay" -> {[op |-> "Fetch"], [op |-> "Lookup"], [op |-> "Register"], [op |-> "Auction"]}
      [] g = "messenger" -> {[op |-> "Message", s |-> NewSlot, r |-> 3], [op |-> "GetData", s |-> NewSlot],
                             [op |-> "GetData", s |-> OldSlot], [op |-> "Remove", cur |-> NewSlot]}
      [] g = "controller" -> {[op |-> "Head", node |-> 1], [op |-> "Head", node |-> 2], [op |-> "Job"],
                              [op |-> "Pending"]}        \* HasPendingAttestations: the main goroutine at shutdown
      [] g = "cache" -> {[op |-> "BlockEvent", r |-> 2], [op |-> "Lookup", r |-> 1], [op |-> "Lookup", r |-> 2], [op |-> "Clean"]}
      [] g = "validators" -> {[op |-> "Refresh"], [op |-> "ByIndex"]}
      [] g = "attester" -> {[op |-> "Attest", v |-> {1}], [op |-> "Attest", v |-> {2}], [op |-> "Attest", v |-> {1, 2}]}
      \* registration rounds (exported entry point, periodic job) || REST ValidatorRegistrations
      [] g = "registrar" -> {[op |-> "Round", v |-> {1, 2}], [op |-> "Round", v |-> {1}], [op |-> "RoundJob"],
                             [op |-> "RestRegs", v |-> {1, 2}]}
      \* AuctionBlock (proposal job) || REST BuilderBid (cached bid or immediate auction), two auction keys
      [] g = "bids" -> {[op |-> "Auction", k |-> 1, b |-> 1], [op |-> "Auction", k |-> 2, b |-> 0],
                        [op |-> "RestBid", k |-> 1, b |-> 2], [op |-> "RestBid", k |-> 2, b |-> 3]}
      \* config fetch || REST requests (|| AuctionBlock: REST UnblindBlock and the auction share the active document)
      [] g = "restcfg" -> {[op |-> "Fetch"], [op |-> "RestRegs"], [op |-> "RestBid"], [op |-> "RestUnblind"], [op |-> "Auction"]}
      \* head events (cache) || ExecutionChainHead (proposal job)
      [] g = "exechead" -> {[op |-> "HeadEvent", h |-> 1], [op |-> "HeadEvent", h |-> 2], [op |-> "ExecHead"]}
      \* sync committee messenger job (SetBeaconBlockRoot) || sync committee aggregation job
      [] g = "syncagg" -> {[op |-> "SetRoot", s |-> 1, r |-> 1], [op |-> "SetRoot", s |-> 2, r |-> 2],
                           [op |-> "Aggregate", s |-> 1], [op |-> "Aggregate", s |-> 2]}
      \* head events of two beacon nodes' streams in the "best" proposal strategy (votes of recent blocks)
      [] g = "bestvotes" -> {[op |-> "HeadEvent", b |-> 1], [op |-> "HeadEvent", b |-> 2]}
      \* AuctionBlock (proposal job) || immediate auction of a REST BuilderBid in the builder-bid strategies
      [] g = "bidstrategy" -> {[op |-> "Bid", s |-> "best"], [op |-> "Bid", s |-> "deadline"]}
      \* periodic accounts refresh (wallet 1 / wallet 2 finishing first) || the account queries of every duty job
      [] g = "dirk" -> {[op |-> "Refresh", first |-> 1], [op |-> "Refresh", first |-> 2]}
                       \cup {[op |-> "Query", kind |-> k] : k \in {"by_key", "by_index"}}
      \* head events of two nodes || message jobs of the previous and the current slot || prepare job of the next slot ||
      \* aggregation job of the previous slot || refresh of the period's duties, each with every answer of the environment
      [] g = "syncduty" -> SyncParOps
      \* attestation jobs of two slots of the epoch (the attester returns nothing - the job ends there - or attestations:
      \* the job looks the aggregator up in the epoch's subscription info, then its account) || head events
      [] g = "attinfo" -> {[op |-> "Job", s |-> s, att |-> a, acct |-> c] : s \in 1..2, a \in AttA, c \in JobAcctA}
                          \cup {[op |-> "Head", node |-> 1], [op |-> "Head", node |-> 2]}
      \* registration round || auction (either strategy) || the helper called directly for a known relay (1) / for one
      \* that is new after the refresh (3)
      [] g = "builderclients" -> {[op |-> "Round"], [op |-> "Bid", s |-> "best"], [op |-> "Bid", s |-> "deadline"],
                                  [op |-> "Fetch", r |-> 1], [op |-> "Fetch", r |-> 3]}

AllOps(g) == ParOps(g) \cup {Prologue(g)[i] : i \in DOMAIN Prologue(g)}
                       \cup UNION {{t[i] : i \in DOMAIN t} : t \in Twists(g)}

Count(s, x) == Cardinality({i \in DOMAIN s : s[i] = x})

\* overlap patterns: 1..Width(g) operations in gate-release order, at most two instances of each
\* (group restcfg has five operations and two environment twists: pairs)
Width(g) == IF g \in {"restcfg", "dirk", "syncduty", "attinfo", "builderclients"} /\ MaxPar > 2 THEN 2 ELSE MaxPar
Schedules(g) ==
    {s \in UNION {[1..n -> ParOps(g)] : n \in 1..Width(g)} :
        /\ \A x \in ParOps(g) : Count(s, x) <= 2
        \* the accounts refresher is ONE periodic job (rescheduled after it returned): it never overlaps itself
        /\ g = "dirk" => Cardinality({i \in DOMAIN s : s[i].op = "Refresh"}) <= 1
        \* one job is started once, one node delivers the head event of a slot once
        /\ g = "syncduty" => \A i, j \in DOMAIN s : i # j => SyncKey(s[i]) # SyncKey(s[j])
        \* the job of a slot runs once; whether the aggregator's account is found only matters when there are attestations
        /\ g = "attinfo" => \A i, j \in DOMAIN s :
                                /\ (i # j /\ s[i].op = "Job" /\ s[j].op = "Job") => s[i].s # s[j].s
                                /\ (s[i].op = "Job" /\ s[i].att = "none") => s[i].acct = "yes"}

\* How the environment resolves the overlap of a schedule: "free" = the calls start in the generated order and run
\* as they come; or ONE call is HELD at an interface while the others run, then released:
\*   "refresh-mid"  the refresh is held between its two wallets (the accounts of the first are taken in, those of
\*                  the second not yet) until the queries have returned;
\*   "query-snap"   the (first) query is held between taking its snapshot of the key list and using it (at the
\*                  validators manager) until the refresh has published its accounts (held in turn at its validators
\*                  refresh until the query has returned).
Holds(g, s) ==
    IF g = "dirk" /\ (\E i \in DOMAIN s : s[i].op = "Refresh") /\ (\E i \in DOMAIN s : s[i].op = "Query")
    THEN {"free", "refresh-mid", "query-snap"} ELSE {"free"}

-----------------------------------------------------------------------------
(* ------------------------------ part (b): lock discipline --------------------------------- *)

Guard ==
    [v \in {"wallet.accounts", "blockrelay.executionConfig", "v1.sharedProposerConfig", "messenger.slotDataRecords",
            "controller.reorgFields", "cache.blockRootToSlot", "validators.maps", "attester.attested",
            "blockrelay.controlledValidators", "blockrelay.controlledValidators.entries",
            "blockrelay.builderBidsCache", "blockrelay.signedValidatorRegistrations",
            "blockrelay.latestValidatorRegistrations", "util.builders", "cache.executionChainHead",
            "syncaggregator.beaconBlockRoots", "controller.subscriptionInfos", "controller.pendingAttestations",
            "bestproposal.priorBlocksVotes", "builderbid.relayPubkeys",
            "dirk.accounts", "dirk.pubKeys", "dirk.pubKeys.elements", "dirk.wallets",
            "controller.subscriptionInfos.entries",
            "syncduty.messageIndices", "syncduty.accountsByIndex", "syncduty.dutyAccounts", "syncduty.selectionProofs"} |->
        CASE v = "wallet.accounts" -> "wallet.mutex"
          [] v = "blockrelay.executionConfig" -> "blockrelay.executionConfigMu"
          [] v = "v1.sharedProposerConfig" -> "blockrelay.executionConfigMu"
          [] v = "messenger.slotDataRecords" -> "messenger.slotDataRecordsMu"
          [] v = "controller.reorgFields" -> "controller.reorgMu"       \* does not exist on the pinned tree
          [] v = "cache.blockRootToSlot" -> "cache.blockRootToSlotMu"
          [] v = "validators.maps" -> "validators.validatorsMutex"
          [] v = "attester.attested" -> "attester.attestedMu"
          \* the field (a reference to the current map) and the entries of a map that has been published through
          \* it: readers pick the reference up under the lock and read the entries WITHOUT it, which is disciplined
          \* exactly as long as nobody writes the entries of a published map
          [] v = "blockrelay.controlledValidators" -> "blockrelay.controlledValidatorsMu"
          [] v = "blockrelay.controlledValidators.entries" -> "blockrelay.controlledValidatorsMu"
          [] v = "blockrelay.builderBidsCache" -> "blockrelay.builderBidsCacheMu"
          [] v = "blockrelay.signedValidatorRegistrations" -> "blockrelay.signedValidatorRegistrationsMu"
          [] v = "blockrelay.latestValidatorRegistrations" -> "blockrelay.latestValidatorRegistrationsMu"
          [] v = "util.builders" -> "util.buildersMu"
          [] v = "cache.executionChainHead" -> "cache.executionChainHeadMu"
          [] v = "syncaggregator.beaconBlockRoots" -> "syncaggregator.beaconBlockRootsMu"
          [] v = "controller.subscriptionInfos" -> "controller.subscriptionInfosMutex"
          [] v = "controller.pendingAttestations" -> "controller.pendingAttestationsMutex"
          \* the entries of an epoch's subscription info (slot -> committee -> subscription) that has been published
          \* through the field: the attestation jobs of the epoch's slots pick the epoch's map up under the lock and read
          \* its entries WITHOUT it - disciplined as long as a published info is replaced, never altered
          [] v = "controller.subscriptionInfos.entries" -> "controller.subscriptionInfosMutex"
          [] v = "bestproposal.priorBlocksVotes" -> "bestproposal.priorBlocksVotesMu"
          [] v = "builderbid.relayPubkeys" -> "builderbid.relayPubkeysMu"
          \* dirk account manager: the map of accounts and the list of public keys are REPLACED by a refresh (both
          \* under the write lock); the field holding the list, and the elements of a list that has been published
          \* through it: readers take the list under the read lock and hand its elements on WITHOUT it
          [] v = "dirk.accounts" -> "dirk.mutex"
          [] v = "dirk.pubKeys" -> "dirk.mutex"
          [] v = "dirk.pubKeys.elements" -> "dirk.mutex"
          [] v = "dirk.wallets" -> "dirk.walletsMutex"
          \* part (c): objects the controller builds and hands on BY REFERENCE; no lock: never written once handed on
          \*   messageIndices   validator -> committee positions, one per period: every slot's duty, every data record
          \*   accountsByIndex  the accounts of the period's by-index lookup: every slot's scheduling goroutine
          \*   dutyAccounts     a duty's accounts: its prepare and message jobs, then the aggregation job's duty
          \*   selectionProofs  a duty's aggregator subcommittees: written by its prepare job BEFORE the message job is
          \*                    scheduled, read by the message job and, through the aggregator's duty, the aggregation job
          [] OTHER -> "(immutable)"]

Acc(v, k, held) == [var |-> v, kind |-> k, held |-> held]    \* held: set of <<lock, mode>>
None == {}
R(l) == {<<l, "R">>}
W(l) == {<<l, "W">>}

\* accesses shared by the operations of the block relay groups
ConfigLookup ==      \* Service.ProposerConfig: the active document under the read lock
    <<Acc("blockrelay.executionConfig", "R", R("blockrelay.executionConfigMu")),
      \* the legacy configuration fills defaults into the shared object
      Acc("v1.sharedProposerConfig", IF Pinned THEN "W" ELSE "R", R("blockrelay.executionConfigMu"))>>
FetchSteps ==
    <<Acc("blockrelay.executionConfig", "R", R("blockrelay.executionConfigMu")),
      Acc("blockrelay.executionConfig", "R", IF Pinned THEN None ELSE R("blockrelay.executionConfigMu")),  \* error path
      Acc("blockrelay.executionConfig", "W", W("blockrelay.executionConfigMu"))>>
ControlledSnapshot ==    \* REST ValidatorRegistrations: the reference under the read lock, the entries without
    <<Acc("blockrelay.controlledValidators", "R", R("blockrelay.controlledValidatorsMu")),
      Acc("blockrelay.controlledValidators.entries", "R", None)>>
RoundSteps ==
    <<Acc("blockrelay.signedValidatorRegistrations", "R", R("blockrelay.signedValidatorRegistrationsMu")),
      Acc("blockrelay.latestValidatorRegistrations", "R", R("blockrelay.latestValidatorRegistrationsMu")),
      Acc("blockrelay.signedValidatorRegistrations", "W", W("blockrelay.signedValidatorRegistrationsMu")),
      Acc("blockrelay.latestValidatorRegistrations", "W", W("blockrelay.latestValidatorRegistrationsMu")),
      \* the round fills a map of its own and publishes it - or (InPlace) writes the entries of the published map
      IF InPlace THEN Acc("blockrelay.controlledValidators.entries", "W", W("blockrelay.controlledValidatorsMu"))
      ELSE Acc("blockrelay.controlledValidators", "W", W("blockrelay.controlledValidatorsMu"))>>

\* dirk account manager.  carry = a list of public keys has been published on the instance before this call.
DirkKeysSnapshot ==      \* the list under the read lock, its elements (handed to the validators manager) without
    <<Acc("dirk.pubKeys", "R", R("dirk.mutex")), Acc("dirk.pubKeys.elements", "R", None)>>
DirkSteps(o, carry) ==
    IF o.op = "Refresh"
    THEN <<Acc("dirk.wallets", "W", W("dirk.walletsMutex"))>>                                     \* openWallet (cache)
         \* Reuse: the new list starts as s.pubKeys[:0] (taken under the read lock); the wallet goroutines append to
         \* it under the refresh's OWN mutex (no lock that any other call knows).  On a fresh instance there is no
         \* published array to write into: the appends allocate
         \o (IF Reuse THEN <<Acc("dirk.pubKeys", "R", R("dirk.mutex"))>> ELSE <<>>)
         \o (IF Reuse /\ carry THEN <<Acc("dirk.pubKeys.elements", "W", None)>> ELSE <<>>)
         \o <<Acc("dirk.accounts", "W", W("dirk.mutex")), Acc("dirk.pubKeys", "W", W("dirk.mutex"))>>   \* publication
         \o DirkKeysSnapshot                                                                      \* refreshValidators
    ELSE IF o.op = "Query"
    THEN DirkKeysSnapshot \o <<Acc("dirk.accounts", "R", R("dirk.mutex"))>>
    ELSE <<>>

\* util.FetchBuilderClient for relay r.  carry.known = the relays that had a client when the call was invoked: a
\* fetch of a known relay reads the map, a fetch of a new one reads it and inserts the client it creates - all under
\* util.buildersMu.  Class builder-client-fast-path: the first look at the map is made BEFORE the lock is taken (a
\* known client is handed out directly), the look under the lock and the insertion follow for a new relay.
FetchClient(r, carry) ==
    IF AliasWrite = "builder-client-fast-path"
    THEN <<Acc("util.builders", "R", None)>>
         \o (IF r \in carry.known THEN <<>>
             ELSE <<Acc("util.builders", "R", W("util.buildersMu")), Acc("util.builders", "W", W("util.buildersMu"))>>)
    ELSE <<Acc("util.builders", "R", W("util.buildersMu"))>>
         \o (IF r \in carry.known THEN <<>> ELSE <<Acc("util.builders", "W", W("util.buildersMu"))>>)
\* the relays an operation fetches a client for: the configured ones (registration round: a goroutine per relay;
\* auction: the loop of the strategy - rendered one after the other), or the one named
BuilderSteps(o, carry) ==
    LET F(r) == IF r \in carry.cfg THEN FetchClient(r, carry) ELSE <<>> IN
    CASE o.op \in {"Round", "Bid"} -> F(1) \o F(2) \o F(3)
      [] o.op = "Fetch" -> FetchClient(o.r, carry)
      [] OTHER -> <<>>

\* The accesses of every operation, in program order, with the locks held at the access.
Steps(g, o) ==
    CASE g = "wallet" ->
            IF o.op = "Refresh"
            THEN <<Acc("wallet.accounts", "W", W("wallet.mutex")),                                \* refreshAccounts
                   Acc("wallet.accounts", "R", IF Pinned THEN None ELSE R("wallet.mutex"))>>      \* refreshValidators
            ELSE <<Acc("wallet.accounts", "R", IF Pinned THEN None ELSE R("wallet.mutex"))>>      \* accountsForEpochWithFilter
      [] g = "blockrelay" ->
            CASE o.op = "Fetch" -> FetchSteps
              [] o.op = "Register" ->
                    <<Acc("blockrelay.executionConfig", "R", IF Pinned THEN None ELSE R("blockrelay.executionConfigMu")),
                      Acc("v1.sharedProposerConfig", IF Pinned THEN "W" ELSE "R",
                          IF Pinned THEN None ELSE R("blockrelay.executionConfigMu"))>>
              [] OTHER (* Lookup, Auction, SourceSet *) -> IF o.op = "SourceSet" THEN <<>> ELSE ConfigLookup
      [] g = "messenger" ->
            CASE o.op = "Message" -> <<Acc("messenger.slotDataRecords", "W", W("messenger.slotDataRecordsMu"))>>
              [] o.op = "GetData" -> <<Acc("messenger.slotDataRecords", "R", IF Pinned THEN None ELSE W("messenger.slotDataRecordsMu"))>>
              [] OTHER -> <<Acc("messenger.slotDataRecords", "R", IF Pinned THEN None ELSE W("messenger.slotDataRecordsMu")),
                            Acc("messenger.slotDataRecords", "W", W("messenger.slotDataRecordsMu"))>>
      [] g = "controller" ->
            IF o.op = "Head"
            THEN <<Acc("controller.reorgFields", "R", IF Pinned THEN None ELSE W("controller.reorgMu")),
                   Acc("controller.reorgFields", "W", IF Pinned THEN None ELSE W("controller.reorgMu")),
                   Acc("controller.subscriptionInfos", "W", W("controller.subscriptionInfosMutex"))>>     \* old epochs removed
            ELSE IF o.op = "Job" THEN <<Acc("controller.pendingAttestations", "W", W("controller.pendingAttestationsMutex"))>>
            ELSE (* Pending *) <<Acc("controller.pendingAttestations", "R", R("controller.pendingAttestationsMutex"))>>
      [] g = "cache" ->
            CASE o.op = "BlockEvent" -> <<Acc("cache.blockRootToSlot", "W", W("cache.blockRootToSlotMu"))>>
              [] o.op = "Lookup" -> <<Acc("cache.blockRootToSlot", "R", R("cache.blockRootToSlotMu")),
                                      Acc("cache.blockRootToSlot", "W", W("cache.blockRootToSlotMu"))>>
              [] OTHER -> <<Acc("cache.blockRootToSlot", "W", W("cache.blockRootToSlotMu"))>>
      [] g = "validators" ->
            CASE o.op = "Refresh" -> <<Acc("validators.maps", "W", W("validators.validatorsMutex"))>>
              [] o.op = "ByIndex" -> <<Acc("validators.maps", "R", R("validators.validatorsMutex"))>>
              [] OTHER -> <<>>
      [] g = "attester" ->
            <<Acc("attester.attested", "W", W("attester.attestedMu")), Acc("attester.attested", "W", W("attester.attestedMu"))>>
      [] g = "registrar" ->
            IF o.op = "RestRegs" THEN ControlledSnapshot ELSE RoundSteps
      [] g = "bids" ->
            IF o.op = "Auction"
            THEN <<Acc("blockrelay.builderBidsCache", "W", W("blockrelay.builderBidsCacheMu"))>>                  \* cacheBid
            ELSE <<Acc("blockrelay.builderBidsCache", "R", R("blockrelay.builderBidsCacheMu")),                    \* cachedBid
                   \* miss: one immediate auction at a time (builderBidMu), look again, auction, cache the result
                   Acc("blockrelay.builderBidsCache", "R", R("blockrelay.builderBidsCacheMu") \cup W("blockrelay.builderBidMu")),
                   Acc("blockrelay.builderBidsCache", "W", W("blockrelay.builderBidsCacheMu") \cup W("blockrelay.builderBidMu"))>>
      [] g = "restcfg" ->
            CASE o.op = "Fetch" -> FetchSteps
              [] o.op = "SourceSet" -> <<>>
              [] o.op = "RestRegs" -> ControlledSnapshot \o ConfigLookup \o <<Acc("util.builders", "W", W("util.buildersMu"))>>
              [] o.op = "RestUnblind" -> ConfigLookup \o <<Acc("util.builders", "W", W("util.buildersMu"))>>
              [] OTHER (* RestBid, Auction *) -> ConfigLookup
      [] g = "exechead" ->
            IF o.op = "HeadEvent" THEN <<Acc("cache.executionChainHead", "W", W("cache.executionChainHeadMu"))>>
            ELSE <<Acc("cache.executionChainHead", "R", R("cache.executionChainHeadMu"))>>
      [] g = "syncagg" ->
            <<Acc("syncaggregator.beaconBlockRoots", "W", W("syncaggregator.beaconBlockRootsMu"))>>
      [] g = "bestvotes" ->
            <<Acc("bestproposal.priorBlocksVotes", "R", R("bestproposal.priorBlocksVotesMu")),
              Acc("bestproposal.priorBlocksVotes", "W", W("bestproposal.priorBlocksVotesMu"))>>
      [] g = "bidstrategy" ->
            <<Acc("builderbid.relayPubkeys", "R", R("builderbid.relayPubkeysMu")),
              Acc("builderbid.relayPubkeys", "W", W("builderbid.relayPubkeysMu"))>>
      [] g = "dirk" -> DirkSteps(o, FALSE)          \* (the rendering of a call of a history: StepsOf)
      [] g = "syncduty" -> <<>>                     \* no lock to render: part (c), Touch
      [] g = "builderclients" -> BuilderSteps(o, [cfg |-> {}, known |-> {}])   \* (the rendering of a call of a history: StepsOf)
      [] g = "attinfo" ->
            IF o.op = "Head"
            THEN <<Acc("controller.reorgFields", "W", W("controller.reorgMu")),
                   Acc("controller.subscriptionInfos", "W", W("controller.subscriptionInfosMutex"))>>     \* old epochs removed
                 \* node 2 is on another fork: the refresh it starts publishes a NEW info for the epoch
                 \o (IF o.node = 2 THEN <<Acc("controller.subscriptionInfos", "W", W("controller.subscriptionInfosMutex"))>> ELSE <<>>)
            ELSE (IF o.att = "some"
                  THEN <<Acc("controller.subscriptionInfos", "R", W("controller.subscriptionInfosMutex")),
                         Acc("controller.subscriptionInfos.entries", "R", None)>>
                       \* class job-subscription-entries: the job removes its slot from the epoch's info when the
                       \* aggregator has no account (even under the lock: the other jobs read without it)
                       \o (IF AliasWrite = "job-subscription-entries" /\ o.acct = "no"
                           THEN <<Acc("controller.subscriptionInfos.entries", "W", W("controller.subscriptionInfosMutex"))>> ELSE <<>>)
                  ELSE <<>>)
                 \o <<Acc("controller.pendingAttestations", "W", W("controller.pendingAttestationsMutex"))>>

-----------------------------------------------------------------------------
VARIABLES g,        \* the group of the current history
          st,       \* abstract state
          calls,    \* id -> [op, status: "pending" | "done" | "returned", res, pc: next access, in: access in progress,
                    \*        carry: Carried(g, st) at the invocation, ph: the next linearization point of the call,
                    \*        gen: (syncduty) the generation of the duty whose job the call took]
          lin       \* the linearization points passed, in order: <<id, phase>> (history variable)

vars == <<g, st, calls, lin>>

Ids == 1..9
NoRes == -9

Init ==
    /\ g \in Groups
    /\ st \in StartInits(g)
    /\ calls = [i \in {} |-> 0]
    /\ lin = <<>>

Active == {i \in DOMAIN calls : calls[i].in}
StepsOf(i) == IF g = "dirk" THEN DirkSteps(calls[i].op, calls[i].carry)
              ELSE IF g = "builderclients" THEN BuilderSteps(calls[i].op, calls[i].carry)
              ELSE Steps(g, calls[i].op)
AccessOf(i) == StepsOf(i)[calls[i].pc]

Conflicts(h1, h2) ==      \* lock sets that cannot be held at the same time
    \E a \in h1, b \in h2 : a[1] = b[1] /\ (a[2] = "W" \/ b[2] = "W")

Invoke(i, o) ==
    /\ i \notin DOMAIN calls
    /\ o \in AllOps(g)
    \* the accounts refresher is one periodic job: a refresh is only started when the previous one has returned
    /\ (g = "dirk" /\ o.op = "Refresh") =>
            \A j \in DOMAIN calls : calls[j].op.op = "Refresh" => calls[j].status = "returned"
    \* a refresh of the period's duties is started by a change of the dependent root: one per history
    /\ (g = "syncduty" /\ o.op = "Resched") => \A j \in DOMAIN calls : calls[j].op.op # "Resched"
    /\ calls' = Put(calls, i, [op |-> o, status |-> "pending", res |-> NoRes, pc |-> 1, in |-> FALSE,
                                carry |-> Carried(g, st), ph |-> 1, gen |-> 0])
    /\ UNCHANGED <<g, st, lin>>

\* A job-round may only skip its run (result 0) while another job-round is in progress (activity semaphore).
Allowed(i, a) ==
    (g = "registrar" /\ calls[i].op.op = "RoundJob" /\ a.res = 0)
        => \E j \in DOMAIN calls : j # i /\ calls[j].op.op = "RoundJob" /\ calls[j].status # "returned"

\* a linearization point (the only one, for every group but syncduty): the effect takes place, the result is determined
Linearize(i) ==
    /\ i \in DOMAIN calls /\ calls[i].status = "pending"
    /\ LET k == IF g = "syncduty" /\ calls[i].ph = 1 THEN JobGen(st, calls[i].op) ELSE calls[i].gen IN
       \E a \in ApplyPh(g, st, calls[i].op, calls[i].ph, calls[i].res, k) :
          /\ Allowed(i, a)
          /\ st' = a.st
          /\ calls' = [calls EXCEPT ![i].status = IF a.ph = 0 THEN "done" ELSE "pending", ![i].res = a.res, ![i].ph = a.ph,
                                    ![i].gen = k]      \* the duty whose job the call has taken (group syncduty)
    \* (the history variable is kept for the groups whose calls have one point: a call of group syncduty passes
    \* several, its result is compared point by point where it is determined - Linearize, TraceRet)
    /\ lin' = IF g = "syncduty" THEN lin ELSE Append(lin, <<i, calls[i].ph>>)
    /\ UNCHANGED g

\* a step of a goroutine that is no call of the history (group syncduty)
SilentStep ==
    /\ \E s2 \in Silent(g, st) : st' = s2
    /\ UNCHANGED <<g, calls, lin>>

\* an access to a shared variable begins: the locks it holds must be free in the Go sense
BeginAccess(i) ==
    /\ i \in DOMAIN calls /\ calls[i].status # "returned" /\ ~calls[i].in
    /\ calls[i].pc <= Len(StepsOf(i))
    /\ \A j \in Active : ~Conflicts(AccessOf(i).held, AccessOf(j).held)
    /\ calls' = [calls EXCEPT ![i].in = TRUE]
    /\ UNCHANGED <<g, st, lin>>

EndAccess(i) ==
    /\ i \in Active
    /\ calls' = [calls EXCEPT ![i].in = FALSE, ![i].pc = @ + 1]
    /\ UNCHANGED <<g, st, lin>>

Return(i) ==
    /\ i \in DOMAIN calls /\ calls[i].status = "done" /\ ~calls[i].in
    /\ calls[i].pc > Len(StepsOf(i))
    /\ calls' = [calls EXCEPT ![i].status = "returned"]
    /\ UNCHANGED <<g, st, lin>>

\* Exhaustive runs of group syncduty.  A call does nothing before its first point, so every state of (abstract
\* state, progress of the calls) is reached with all calls invoked before any point is passed; and calls invoked
\* together are interchangeable: they are invoked in the order of OpCode (symmetry reduction).  (Recorded histories
\* are not restricted: the trace specification uses Invoke.)
OpCode(o) ==
    LET ix(x, seq) == CHOOSE n \in DOMAIN seq : seq[n] = x IN
    CASE o.op = "Env" -> 0
      [] o.op = "Prep" -> 100 + 10 * o.s + ix(o.sel, <<"agg", "noagg", "fail">>)
      [] o.op = "Msg" -> 200 + 10 * o.s + 3 * ix(o.root, <<"ok", "fail">>) + ix(o.sig, <<"ok", "zero1", "fail">>)
      [] o.op = "Agg" -> 300 + 10 * o.s + ix(o.contrib, <<"ok", "fail">>)
      [] o.op = "Head" -> 400 + 10 * o.node + ix(o.block, <<"match", "missing", "mismatch", "fail">>)
      [] OTHER -> 500
InvokeFirst(o) ==
    g = "syncduty" =>
        /\ \A i \in DOMAIN calls : calls[i].ph = 1 /\ calls[i].status = "pending" /\ OpCode(calls[i].op) <= OpCode(o)

Next ==
    \/ \E o \in AllOps(g) : InvokeFirst(o) /\ Invoke(Cardinality(DOMAIN calls) + 1, o)      \* ids in invocation order (symmetry)
    \/ \E i \in Ids : Linearize(i) \/ BeginAccess(i) \/ EndAccess(i) \/ Return(i)
    \/ SilentStep

Spec == Init /\ [][Next]_vars

-----------------------------------------------------------------------------
TypeOK ==
    /\ g \in Groups
    /\ DOMAIN calls \subseteq Ids
    /\ \A i \in DOMAIN calls : calls[i].status \in {"pending", "done", "returned"}

\* C17 (a): the results handed out are those of the sequential execution of the points in linearization order
RECURSIVE Replay(_, _, _)
Replay(s, k, p) ==           \* is there a sequential run of lin[k..] from s that yields the recorded results?  p: id -> result so far
    IF k > Len(lin) THEN s = st /\ \A i \in DOMAIN calls : calls[i].res = p[i]
    ELSE LET e == lin[k] IN
         \E a \in ApplyPh(g, s, calls[e[1]].op, e[2], p[e[1]], 0) : Replay(a.st, k + 1, [p EXCEPT ![e[1]] = a.res])

Linearizable == g # "syncduty" => \E s0 \in SeqInits(g) : Replay(s0, 1, [i \in DOMAIN calls |-> NoRes])

\* C17 (b): two overlapping accesses to a variable, one of them a write, both hold its guard
HoldsGuard(a) ==
    IF a.kind = "W" THEN <<Guard[a.var], "W">> \in a.held
    ELSE \E m \in {"R", "W"} : <<Guard[a.var], m>> \in a.held

Disciplined ==
    \A i, j \in Active :
        (i # j /\ AccessOf(i).var = AccessOf(j).var /\ (AccessOf(i).kind = "W" \/ AccessOf(j).kind = "W"))
            => (HoldsGuard(AccessOf(i)) /\ HoldsGuard(AccessOf(j)))

\* C17 (c): aliasing.  An object: [name (key of Guard), s (the slot of the duty it belongs to; 0: the period's), gen].
Obj(n, s, k) == [name |-> n, s |-> s, gen |-> k]
IdxObj(s, k) == Obj("syncduty.messageIndices", IF Share = "period" THEN 0 ELSE s, k)    \* the map the duty of slot s holds
SomeAccountless == st.acct # SyncMembers
Tch(o, k) == [var |-> o, kind |-> k]
\* what a message job touches between taking the job and recording the data of its slot (1), and from there to its
\* end (2): the duty's map (len, and - class message-indices - the members without an account are deleted from it
\* BEFORE the map goes into the record), then the duty's accounts and selection proofs
MsgTouch(s, k, w) ==
    IF w = 1 THEN {Tch(IdxObj(s, k), "R")}
                  \cup (IF AliasWrite = "message-indices" /\ SomeAccountless THEN {Tch(IdxObj(s, k), "W")} ELSE {})
    ELSE {Tch(Obj("syncduty.dutyAccounts", s, k), "R"), Tch(Obj("syncduty.selectionProofs", s, k), "R")}
\* the objects call i touches in its present state: nothing before it has taken its job / after it found none
CallTouch(i) ==
    LET o == calls[i].op  k == calls[i].gen  ph == calls[i].ph IN
    IF calls[i].status = "returned" \/ calls[i].res = 0 \/ calls[i].res = NoRes THEN {}
    ELSE CASE o.op = "Prep" /\ ph = 2 ->
                  {Tch(IdxObj(o.s, k), "R"), Tch(Obj("syncduty.dutyAccounts", o.s, k), "R"),
                   Tch(Obj("syncduty.selectionProofs", o.s, k), "W")}
                  \cup (IF AliasWrite = "prepare-indices" /\ SomeAccountless THEN {Tch(IdxObj(o.s, k), "W")} ELSE {})
           [] o.op = "Msg" /\ ph \in {2, 3} -> MsgTouch(o.s, k, ph - 1)
           [] o.op = "Agg" /\ ph = 0 ->
                  {Tch(Obj("syncduty.dutyAccounts", o.s, k), "R"), Tch(Obj("syncduty.selectionProofs", o.s, k), "R")}
           \* the verification ranges over the map in the data record of the previous slot (never rescheduled: gen 0)
           [] o.op = "Head" /\ ph = 0 /\ calls[i].res = 1 ->
                  {Tch(IdxObj(o.s - 1, 0), "R")}
                  \cup (IF AliasWrite = "verify-indices" /\ o.block \in {"missing", "mismatch"} THEN {Tch(IdxObj(o.s - 1, 0), "W")} ELSE {})
           [] OTHER -> {}
\* Units under way: the calls, the message jobs a head event started, the scheduling goroutines of a refresh (each
\* reads the period's accounts map for the duty of its slot)
Units == {<<"call", i>> : i \in DOMAIN calls} \cup {<<"spawn", j>> : j \in st.spawn} \cup {<<"spawn2", j>> : j \in st.spawn2}
         \cup {<<"sched", s>> : s \in st.pend}
Touch(u) ==
    CASE u[1] = "call" -> CallTouch(u[2])
      [] u[1] = "spawn" -> MsgTouch(u[2][1], u[2][2], 1)
      [] u[1] = "spawn2" -> MsgTouch(u[2][1], u[2][2], 2)
      [] OTHER -> {Tch(Obj("syncduty.accountsByIndex", 0, 1), "R")}
                  \cup (IF AliasWrite = "schedule-accounts" /\ SomeAccountless THEN {Tch(Obj("syncduty.accountsByIndex", 0, 1), "W")} ELSE {})
\* "shared => never written after publication": no object is touched by two units under way when one of them writes
\* it (none of these objects has a lock: Guard[name] = "(immutable)")
SharedImmutable ==
    g = "syncduty" =>
        \A u, v \in Units : u # v =>
            \A a \in Touch(u), b \in Touch(v) :
                (a.var = b.var /\ (a.kind = "W" \/ b.kind = "W")) => Guard[a.var.name] # "(immutable)"

\* state constraint of the exhaustive runs: one schedule = the prologue is skipped, <= MaxPar calls
Bounded == Cardinality(DOMAIN calls) <= MaxPar

\* state constraint of the self-checks of the aliasing model (group syncduty): every choice of accounts, every overlap,
\* the requests answered (a sub-space: enough to hold each violation, and fast) - but for the head block, which may
\* miss members (the edge input of class verify-indices)
AliasProbe ==
    /\ Bounded
    /\ \A i \in DOMAIN calls :
          LET o == calls[i].op IN
          /\ o.op = "Msg" => o.root = "ok" /\ o.sig = "ok"
          /\ o.op = "Prep" => o.sel = "agg"
          /\ o.op = "Agg" => o.contrib = "ok"
          /\ o.op = "Head" => o.block \in {"match", "missing"}

\* state constraint of the self-checks of the Reuse rendering (group dirk): histories of refreshes and queries on one
\* instance while Dirk's list stays as it is (a sub-space: enough to hold a violation, and fast)
ReuseProbe ==
    /\ Bounded /\ st.offer = {1, 2}
    /\ \A i \in DOMAIN calls : calls[i].op \in {[op |-> "Refresh", first |-> 1], [op |-> "Query", kind |-> "by_key"]}
    /\ Cardinality({i \in DOMAIN calls : calls[i].op.op = "Query"}) <= 1

\* state constraint of the control of class builder-client-fast-path: the NARROW environment - no configuration
\* refresh during the history, the helper is not asked for a relay outside the configuration: histories from the
\* state the prologue leaves (relay 1 configured, its client known) in which every fetch finds its client
KnownProbe ==
    /\ Bounded /\ 1 \in st.known
    /\ \A i \in DOMAIN calls : calls[i].op.op # "Config" /\ (calls[i].op.op = "Fetch" => calls[i].op.r = 1)
=============================================================================
