----------------------------- MODULE Concurrency -----------------------------
(* Property C17: Vouch's own concurrency never corrupts its state.                              *)
(*                                                                                              *)
(* Part (a): the operations that production overlaps, grouped by the state they share, each with *)
(* its SEQUENTIAL meaning (Apply) over a small abstract state.  A call is Invoke ; Linearize ;   *)
(* Return, the effect and the result being determined at the Linearize step: property            *)
(* Linearizable - the results of overlapping calls are those of some sequential order of the     *)
(* calls that respects real time.  TLC validates recorded call histories of the real services    *)
(* by searching for the Linearize steps (Trace_Concurrency).                                     *)
(*                                                                                              *)
(* Part (b): the lock discipline.  Guard[var] names the lock that protects each shared variable; *)
(* Steps(g, op) renders every operation as the sequence of its accesses to shared variables with *)
(* the locks held at that access (mode R or W).  Accesses take time (Begin/End); the locks have  *)
(* their Go meaning (W excludes everything, R excludes W).  Invariant Disciplined: whenever two  *)
(* accesses to the same variable overlap and one of them is a write, both hold Guard[var] - a    *)
(* writer exclusively.  Pinned = TRUE renders the operations as the pinned tree has them (the    *)
(* suspected defects D9: unlocked reads and a write under a read lock); TLC must then find the   *)
(* violation (MC_Concurrency_pinned.cfg, expected counterexample = the model is not vacuous).    *)
(* Pinned = FALSE is the discipline the property demands.                                        *)
(*                                                                                              *)
(* Stated limit: whether two memory accesses of the Go program really are unsynchronised is a     *)
(* fact about the Go memory model that no specification at this level can observe.  The binding   *)
(* runs the TLC-generated overlap schedules on the real services in a binary built with -race;    *)
(* a race report whose two access sites are in Vouch's code is logged as the event                *)
(* Race(var, sites) - an event NO ACTION of this specification allows.  That half of C17 is        *)
(* decided by the race detector during model-generated schedules, not by TLC.                      *)
EXTENDS Integers, FiniteSets, Sequences, TLC

CONSTANTS Groups,     \* the groups explored by this configuration (subset of AllGroups)
          Pinned,     \* render the lock acquisitions as on the pinned tree
          MaxPar      \* maximal number of overlapping operations in a schedule (3)

AllGroups == {"wallet", "blockrelay", "messenger", "controller", "cache", "validators", "attester"}

-----------------------------------------------------------------------------
(* ---------------------------- part (a): sequential meaning -------------------------------- *)

Versions == 0..2        \* execution configuration documents (the value identifies the document)
Fail == -1              \* the configuration source fails

OldSlot == 10  MidSlot == 60  NewSlot == 100      \* sync committee slot records that are tracked
Keep == 32                                        \* minSlotDataRecordsToKeep

\* abstract state at the start of a history
SeqInits(g) ==
    CASE g = "wallet" -> {[known |-> 1]}                                  \* one account in the store
      [] g = "blockrelay" -> {[src |-> 0, cfg |-> c] : c \in Versions}     \* service reused: any active document
      [] g = "messenger" -> {[rec |-> [s \in {} |-> 0]]}
      [] g = "controller" -> {[seen |-> 0]}
      [] g = "cache" -> {[map |-> {}]}
      [] g = "validators" -> {[node |-> {}, known |-> {}]}
      [] g = "attester" -> {[attested |-> {}]}

Put(f, k, v) == [x \in (DOMAIN f) \cup {k} |-> IF x = k THEN v ELSE f[x]]
Drop(f, D) == [x \in (DOMAIN f) \ D |-> f[x]]
Mask(S) == (IF 1 \in S THEN 1 ELSE 0) + (IF 2 \in S THEN 2 ELSE 0)

\* Sequential meaning: the set of possible [st, res] of operation o in state st (a set, because a
\* few operations are specified loosely: the property only constrains what they may return).
Apply(g, st, o) ==
    CASE g = "wallet" ->
            IF o.op = "Refresh" THEN {[st |-> st, res |-> 0]}
            ELSE (* Validating *) {[st |-> st, res |-> st.known]}
      [] g = "blockrelay" ->
            CASE o.op = "SourceSet" -> {[st |-> [st EXCEPT !.src = o.x], res |-> 0]}
              [] o.op = "Fetch" -> {[st |-> [st EXCEPT !.cfg = IF st.src = Fail THEN st.cfg ELSE st.src], res |-> 0]}
              [] OTHER (* Lookup, Register, Auction: the settings of the active document *) ->
                    {[st |-> st, res |-> st.cfg]}
      [] g = "messenger" ->
            CASE o.op = "Message" -> {[st |-> [st EXCEPT !.rec = Put(st.rec, o.s, o.r)], res |-> 0]}
              [] o.op = "GetData" -> {[st |-> st, res |-> IF o.s \in DOMAIN st.rec THEN st.rec[o.s] ELSE 0]}
              [] OTHER (* Remove(cur): more than the threshold of records exist (driver prefill) *) ->
                    {[st |-> [st EXCEPT !.rec = Drop(st.rec, {s \in DOMAIN st.rec : s < o.cur - Keep})], res |-> 0]}
      [] g = "controller" -> {[st |-> st, res |-> 0]}
      [] g = "cache" ->
            CASE o.op = "BlockEvent" -> {[st |-> [st EXCEPT !.map = st.map \cup {o.r}], res |-> 0]}
              [] o.op = "Lookup" -> {[st |-> [st EXCEPT !.map = m], res |-> o.r] : m \in {st.map, st.map \cup {o.r}}}
              [] OTHER (* Clean: nothing in these histories is old enough to go *) -> {[st |-> st, res |-> 0]}
      [] g = "validators" ->
            CASE o.op = "NodeSet" -> {[st |-> [st EXCEPT !.node = o.x], res |-> 0]}
              [] o.op = "Refresh" -> {[st |-> [st EXCEPT !.known = IF st.node = {} THEN st.known ELSE st.node], res |-> 0]}
              [] OTHER (* ByIndex: which of validators 1, 2 are known *) -> {[st |-> st, res |-> Mask(st.known)]}
      [] g = "attester" ->
            \* Attest(V): the validators of the duty that had not attested in the epoch attest now
            {[st |-> [st EXCEPT !.attested = st.attested \cup o.v], res |-> Mask(o.v \ st.attested)]}

\* the sequential prologue of every history of a group (establishes a state worth racing on)
Prologue(g) ==
    CASE g = "blockrelay" -> <<[op |-> "SourceSet", x |-> 1], [op |-> "Fetch"]>>
      [] g = "messenger" -> <<[op |-> "Message", s |-> OldSlot, r |-> 1], [op |-> "Message", s |-> MidSlot, r |-> 2]>>
      [] g = "validators" -> <<[op |-> "NodeSet", x |-> {1}], [op |-> "Refresh"]>>
      [] g = "cache" -> <<[op |-> "BlockEvent", r |-> 1]>>
      [] OTHER -> <<>>

\* environment changes made between prologue and the overlapping operations (TLC picks one)
Twists(g) ==
    CASE g = "blockrelay" -> {<<[op |-> "SourceSet", x |-> 2]>>, <<[op |-> "SourceSet", x |-> Fail]>>}
      [] g = "validators" -> {<<[op |-> "NodeSet", x |-> {1, 2}]>>, <<[op |-> "NodeSet", x |-> {}]>>}
      [] OTHER -> {<<>>}

\* the operations production overlaps
ParOps(g) ==
    CASE g = "wallet" -> {[op |-> "Refresh"], [op |-> "Validating"]}
      [] g = "blockrelay" -> {[op |-> "Fetch"], [op |-> "Lookup"], [op |-> "Register"], [op |-> "Auction"]}
      [] g = "messenger" -> {[op |-> "Message", s |-> NewSlot, r |-> 3], [op |-> "GetData", s |-> NewSlot],
                             [op |-> "GetData", s |-> OldSlot], [op |-> "Remove", cur |-> NewSlot]}
      [] g = "controller" -> {[op |-> "Head", node |-> 1], [op |-> "Head", node |-> 2], [op |-> "Job"]}
      [] g = "cache" -> {[op |-> "BlockEvent", r |-> 2], [op |-> "Lookup", r |-> 1], [op |-> "Lookup", r |-> 2], [op |-> "Clean"]}
      [] g = "validators" -> {[op |-> "Refresh"], [op |-> "ByIndex"]}
      [] g = "attester" -> {[op |-> "Attest", v |-> {1}], [op |-> "Attest", v |-> {2}], [op |-> "Attest", v |-> {1, 2}]}

AllOps(g) == ParOps(g) \cup {Prologue(g)[i] : i \in DOMAIN Prologue(g)}
                       \cup UNION {{t[i] : i \in DOMAIN t} : t \in Twists(g)}

Count(s, x) == Cardinality({i \in DOMAIN s : s[i] = x})

\* overlap patterns: 1..MaxPar operations in gate-release order, at most two instances of each
Schedules(g) ==
    {s \in UNION {[1..n -> ParOps(g)] : n \in 1..MaxPar} : \A x \in ParOps(g) : Count(s, x) <= 2}

-----------------------------------------------------------------------------
(* ------------------------------ part (b): lock discipline --------------------------------- *)

Guard ==
    [v \in {"wallet.accounts", "blockrelay.executionConfig", "v1.sharedProposerConfig", "messenger.slotDataRecords",
            "controller.reorgFields", "cache.blockRootToSlot", "validators.maps", "attester.attested"} |->
        CASE v = "wallet.accounts" -> "wallet.mutex"
          [] v = "blockrelay.executionConfig" -> "blockrelay.executionConfigMu"
          [] v = "v1.sharedProposerConfig" -> "blockrelay.executionConfigMu"
          [] v = "messenger.slotDataRecords" -> "messenger.slotDataRecordsMu"
          [] v = "controller.reorgFields" -> "controller.reorgMu"       \* does not exist on the pinned tree
          [] v = "cache.blockRootToSlot" -> "cache.blockRootToSlotMu"
          [] v = "validators.maps" -> "validators.validatorsMutex"
          [] v = "attester.attested" -> "attester.attestedMu"]

Acc(v, k, held) == [var |-> v, kind |-> k, held |-> held]    \* held: set of <<lock, mode>>
None == {}
R(l) == {<<l, "R">>}
W(l) == {<<l, "W">>}

\* The accesses of every operation, in program order, with the locks held at the access.
Steps(g, o) ==
    CASE g = "wallet" ->
            IF o.op = "Refresh"
            THEN <<Acc("wallet.accounts", "W", W("wallet.mutex")),                                \* refreshAccounts
                   Acc("wallet.accounts", "R", IF Pinned THEN None ELSE R("wallet.mutex"))>>      \* refreshValidators
            ELSE <<Acc("wallet.accounts", "R", IF Pinned THEN None ELSE R("wallet.mutex"))>>      \* accountsForEpochWithFilter
      [] g = "blockrelay" ->
            CASE o.op = "Fetch" ->
                    <<Acc("blockrelay.executionConfig", "R", R("blockrelay.executionConfigMu")),
                      Acc("blockrelay.executionConfig", "R", IF Pinned THEN None ELSE R("blockrelay.executionConfigMu")),  \* error path
                      Acc("blockrelay.executionConfig", "W", W("blockrelay.executionConfigMu"))>>
              [] o.op = "Register" ->
                    <<Acc("blockrelay.executionConfig", "R", IF Pinned THEN None ELSE R("blockrelay.executionConfigMu")),
                      Acc("v1.sharedProposerConfig", IF Pinned THEN "W" ELSE "R",
                          IF Pinned THEN None ELSE R("blockrelay.executionConfigMu"))>>
              [] OTHER (* Lookup, Auction, SourceSet *) ->
                    IF o.op = "SourceSet" THEN <<>>
                    ELSE <<Acc("blockrelay.executionConfig", "R", R("blockrelay.executionConfigMu")),
                           \* the legacy configuration fills defaults into the shared object
                           Acc("v1.sharedProposerConfig", IF Pinned THEN "W" ELSE "R", R("blockrelay.executionConfigMu"))>>
      [] g = "messenger" ->
            CASE o.op = "Message" -> <<Acc("messenger.slotDataRecords", "W", W("messenger.slotDataRecordsMu"))>>
              [] o.op = "GetData" -> <<Acc("messenger.slotDataRecords", "R", IF Pinned THEN None ELSE W("messenger.slotDataRecordsMu"))>>
              [] OTHER -> <<Acc("messenger.slotDataRecords", "R", IF Pinned THEN None ELSE W("messenger.slotDataRecordsMu")),
                            Acc("messenger.slotDataRecords", "W", W("messenger.slotDataRecordsMu"))>>
      [] g = "controller" ->
            IF o.op = "Head"
            THEN <<Acc("controller.reorgFields", "R", IF Pinned THEN None ELSE W("controller.reorgMu")),
                   Acc("controller.reorgFields", "W", IF Pinned THEN None ELSE W("controller.reorgMu"))>>
            ELSE <<>>
      [] g = "cache" ->
            CASE o.op = "BlockEvent" -> <<Acc("cache.blockRootToSlot", "W", W("cache.blockRootToSlotMu"))>>
              [] o.op = "Lookup" -> <<Acc("cache.blockRootToSlot", "R", R("cache.blockRootToSlotMu")),
                                      Acc("cache.blockRootToSlot", "W", W("cache.blockRootToSlotMu"))>>
              [] OTHER -> <<Acc("cache.blockRootToSlot", "W", W("cache.blockRootToSlotMu"))>>
      [] g = "validators" ->
            CASE o.op = "Refresh" -> <<Acc("validators.maps", "W", W("validators.validatorsMutex"))>>
              [] o.op = "ByIndex" -> <<Acc("validators.maps", "R", R("validators.validatorsMutex"))>>
              [] OTHER -> <<>>
      [] g = "attester" ->
            <<Acc("attester.attested", "W", W("attester.attestedMu")), Acc("attester.attested", "W", W("attester.attestedMu"))>>

-----------------------------------------------------------------------------
VARIABLES g,        \* the group of the current history
          st,       \* abstract state
          calls,    \* id -> [op, status: "pending" | "done" | "returned", res, pc: next access, in: access in progress]
          lin       \* ids in linearization order (history variable)

vars == <<g, st, calls, lin>>

Ids == 1..9
NoRes == -9

Init ==
    /\ g \in Groups
    /\ st \in SeqInits(g)
    /\ calls = [i \in {} |-> 0]
    /\ lin = <<>>

Active == {i \in DOMAIN calls : calls[i].in}
AccessOf(i) == Steps(g, calls[i].op)[calls[i].pc]

Conflicts(h1, h2) ==      \* lock sets that cannot be held at the same time
    \E a \in h1, b \in h2 : a[1] = b[1] /\ (a[2] = "W" \/ b[2] = "W")

Invoke(i, o) ==
    /\ i \notin DOMAIN calls
    /\ o \in AllOps(g)
    /\ calls' = Put(calls, i, [op |-> o, status |-> "pending", res |-> NoRes, pc |-> 1, in |-> FALSE])
    /\ UNCHANGED <<g, st, lin>>

\* the linearization point: the effect takes place and the result is determined
Linearize(i) ==
    /\ i \in DOMAIN calls /\ calls[i].status = "pending"
    /\ \E a \in Apply(g, st, calls[i].op) :
          /\ st' = a.st
          /\ calls' = [calls EXCEPT ![i].status = "done", ![i].res = a.res]
    /\ lin' = Append(lin, i)
    /\ UNCHANGED g

\* an access to a shared variable begins: the locks it holds must be free in the Go sense
BeginAccess(i) ==
    /\ i \in DOMAIN calls /\ calls[i].status # "returned" /\ ~calls[i].in
    /\ calls[i].pc <= Len(Steps(g, calls[i].op))
    /\ \A j \in Active : ~Conflicts(AccessOf(i).held, AccessOf(j).held)
    /\ calls' = [calls EXCEPT ![i].in = TRUE]
    /\ UNCHANGED <<g, st, lin>>

EndAccess(i) ==
    /\ i \in Active
    /\ calls' = [calls EXCEPT ![i].in = FALSE, ![i].pc = @ + 1]
    /\ UNCHANGED <<g, st, lin>>

Return(i) ==
    /\ i \in DOMAIN calls /\ calls[i].status = "done" /\ ~calls[i].in
    /\ calls[i].pc > Len(Steps(g, calls[i].op))
    /\ calls' = [calls EXCEPT ![i].status = "returned"]
    /\ UNCHANGED <<g, st, lin>>

Next ==
    \/ \E o \in AllOps(g) : Invoke(Cardinality(DOMAIN calls) + 1, o)      \* ids in invocation order (symmetry)
    \/ \E i \in Ids : Linearize(i) \/ BeginAccess(i) \/ EndAccess(i) \/ Return(i)

Spec == Init /\ [][Next]_vars

-----------------------------------------------------------------------------
TypeOK ==
    /\ g \in Groups
    /\ DOMAIN calls \subseteq Ids
    /\ \A i \in DOMAIN calls : calls[i].status \in {"pending", "done", "returned"}

\* C17 (a): the results handed out are those of the sequential execution in linearization order
RECURSIVE Replay(_, _, _)
Replay(s, k, ok) ==          \* is there a sequential run of lin[k..] from s that yields the recorded results?
    IF k > Len(lin) THEN ok /\ s = st
    ELSE \E a \in Apply(g, s, calls[lin[k]].op) : a.res = calls[lin[k]].res /\ Replay(a.st, k + 1, ok)

Linearizable == \E s0 \in SeqInits(g) : Replay(s0, 1, TRUE)

\* C17 (b): two overlapping accesses to a variable, one of them a write, both hold its guard
HoldsGuard(a) ==
    IF a.kind = "W" THEN <<Guard[a.var], "W">> \in a.held
    ELSE \E m \in {"R", "W"} : <<Guard[a.var], m>> \in a.held

Disciplined ==
    \A i, j \in Active :
        (i # j /\ AccessOf(i).var = AccessOf(j).var /\ (AccessOf(i).kind = "W" \/ AccessOf(j).kind = "W"))
            => (HoldsGuard(AccessOf(i)) /\ HoldsGuard(AccessOf(j)))

\* state constraint of the exhaustive runs: one schedule = the prologue is skipped, <= MaxPar calls
Bounded == Cardinality(DOMAIN calls) <= MaxPar
=============================================================================
