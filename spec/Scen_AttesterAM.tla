--------------------------- MODULE Scen_AttesterAM ---------------------------
(* Scenario generator for AttesterAM.tla: histories for the WIRED stack (real attester, real     *)
(* dirk / wallet account manager, real validators manager, real signer; the fakes one layer      *)
(* further out: wallet listing / store, beacon node, submitter).                                 *)
(* The account manager's answers are NOT scripted any more: an "Accounts" step only lets the    *)
(* run's call through; the answer the model expects is recorded for information (expect).        *)
(*   WScenMode = "wired"   multi-run histories on one wired instance: random and RE-DELIVERED    *)
(*                         duties (the same duty again, or the same validators moved to another *)
(*                         slot - half of all deliveries), refreshes of the account manager     *)
(*                         (accounts dropped / added, validators unknown / exited / not yet     *)
(*                         active), the operation asked directly with empty / repeated /        *)
(*                         unknown index lists, node / signer / submitter failures              *)
(*   WScenMode = "wshape"  enumerated exhaustively: for each kind, a run that marks any         *)
(*                         non-empty subset S of the duty validators, an optional refresh, then *)
(*                         a duty over any non-empty list T in the same epoch (same slot or a   *)
(*                         later one): T inside S = a re-delivered duty whose validators are    *)
(*                         ALL marked (the attester asks the account manager with an EMPTY      *)
(*                         list), T overlapping S (partial list), T disjoint from S             *)
EXTENDS Scen_Attester, AttesterAM

CONSTANTS WScenMode

wsvars == <<vars, amvars, hist, succ>>

NV == Cardinality(AllVals)      \* AllVals = 1..NV
RecSeq(R) == [v \in 1..NV |-> [v |-> v, known |-> R[v].known, act |-> R[v].act, exit |-> R[v].exit]]
AllActive == [v \in AllVals |-> ActiveRec]
ScenEpochs == {Epoch(s) : s \in ScenSlots}
MinEpoch == CHOOSE e \in ScenEpochs : \A x \in ScenEpochs : e <= x

WInit ==
    /\ Init /\ succ = {}
    /\ AMInit(AMKinds, {AllVals}, {AllActive})
    /\ hist = <<[ev |-> "Reset", spe |-> SlotsPerEpoch, mode |-> WScenMode, am |-> amKind,
                 held |-> held, recs |-> RecSeq(vrec)]>>

CountEv(e) == Cardinality({i \in DOMAIN hist : hist[i].ev = e})

\* a record drawn at random: mostly active; unknown to the node; exits after the first epoch of the scenario;
\* becomes active two epochs later
RandomRec(x) == RandomElement(IF x >= 0 THEN
                    {<<1, ActiveRec>>, <<2, ActiveRec>>, <<3, ActiveRec>>, <<4, ActiveRec>>, <<5, UnknownRec>>,
                     <<6, [known |-> TRUE, act |-> 0, exit |-> MinEpoch + 1]>>,
                     <<7, [known |-> TRUE, act |-> MinEpoch + 2, exit |-> FFE]>>} ELSE {})[2]
RandomRecs(x) == [v \in AllVals |-> RandomRec(x + v)]
RandomHeld(x) == IF RandomElement(IF x >= 0 THEN 1..2 ELSE {}) = 1 THEN AllVals
                 ELSE RandomElement((SUBSET AllVals) \ {{}})
RandomAsk(x) == LET v == RandomElement(IF x >= 0 THEN AllVals ELSE {})
                    w == RandomElement(IF x >= 0 THEN AllVals ELSE {})
                    k == RandomElement(1..6) IN
                CASE k = 1 -> <<>> [] k = 2 -> <<v>> [] k = 3 -> <<v, v>> [] k = 4 -> <<v, w>>
                  [] k = 5 -> <<NV + 5>> [] OTHER -> <<v, NV + 5, v>>

WInternal(r) ==
    \/ Lift(Validate(r, DataOK(run[r].duty, run[r].data)))
    \/ Lift(Build(r, {AttZ(run[r].duty, v, run[r].data) : v \in Signed(run[r])}))
    \/ /\ run[r].pc = "ret"
       /\ Lift(Housekeep(r, IF r \in succ THEN {p \in attested : p[1] + 2 = Epoch(run[r].duty.slot)} ELSE {}))

WiredNext ==
    \/ \E r \in RunIds, n \in 1..4 :
            /\ \A q \in RunIds : q < r => run[q].pc # "idle"
            /\ LET d == IF n <= 2 THEN Redeliver(Len(hist)) ELSE RandomDuty(Len(hist)) IN
                 Lift(Deliver(r, d)) /\ H([ev |-> "Deliver", run |-> r, duty |-> run'[r].duty]) /\ UNCHANGED succ
    \/ \E r \in RunIds :
        \/ \E a \in DataChoices(run[r].duty) :
                Lift(Fetch(r, a)) /\ H([ev |-> "Fetch", run |-> r, err |-> FALSE, data |-> a, inc |-> IncKind(a)]) /\ UNCHANGED succ
        \/ \E n \in 1..12, k \in Roots :
                Lift(Fetch(r, GoodData(run[r].duty, k))) /\ H([ev |-> "Fetch", run |-> r, err |-> FALSE, data |-> GoodData(run[r].duty, k)]) /\ UNCHANGED succ
        \/ Lift(FetchErr(r)) /\ H([ev |-> "Fetch", run |-> r, err |-> TRUE, kind |-> ErrKind]) /\ UNCHANGED succ
        \/ \E n \in 1..4 : AMByIndex(r) /\ H([ev |-> "Accounts", run |-> r, expect |-> amLast'.res]) /\ UNCHANGED succ
        \/ \E n \in 1..4 : SignAM(r) /\ H([ev |-> "Sign", run |-> r]) /\ UNCHANGED succ
        \/ \E n \in 1..4 : Lift(SignRet(r, {}, TRUE)) /\ H([ev |-> "SignRet", run |-> r, err |-> FALSE, zero |-> {}]) /\ UNCHANGED succ
        \/ Lift(SignRet(r, {}, FALSE)) /\ H([ev |-> "SignRet", run |-> r, err |-> TRUE, zero |-> {}, kind |-> ErrKind]) /\ UNCHANGED succ
        \/ \E n \in 1..4 : Lift(SubmitCall(r)) /\ H([ev |-> "Submit", run |-> r]) /\ UNCHANGED succ
        \/ \E n \in 1..4 :
                LET ok == n > 1 IN
                Lift(SubmitRet(r, ok)) /\ H([ev |-> "SubmitRet", run |-> r, err |-> ~ok, kind |-> IF ok THEN "" ELSE ErrKind])
                /\ succ' = IF ok THEN succ \cup {r} ELSE succ
        \/ WInternal(r) /\ UNCHANGED <<hist, succ>>
    \/ /\ CountEv("Refresh") < 2
       /\ \E Hd \in {RandomHeld(Len(hist))}, R \in {RandomRecs(Len(hist))} :
            Refresh(Hd, R) /\ H([ev |-> "Refresh", held |-> Hd, recs |-> RecSeq(R)]) /\ UNCHANGED succ
    \/ /\ CountEv("Probe") < 2
       /\ \E e \in {RandomElement(IF Len(hist) >= 0 THEN ScenEpochs ELSE {})}, rs \in {RandomAsk(Len(hist))} :
            AMAsk(e, rs) /\ H([ev |-> "Probe", epoch |-> e, idxs |-> rs, expect |-> amLast'.res]) /\ UNCHANGED succ

(* ---- wshape: mark S, optionally refresh, deliver T in the same epoch (exhaustive) ---- *)
WPrepDuties == {[slot |-> ScenPrepSlot, vals |-> SortedSeq(S), comm |-> [i \in 1..Cardinality(S) |-> 0],
                 pos |-> [i \in 1..Cardinality(S) |-> SortedSeq(S)[i] % 5], sizes |-> Sizes]
                    : S \in (SUBSET ScenVals) \ {{}}}
WShapeDuties == {MkDuty(s, SortedSeq(T), 1, 0) : s \in ScenSlots, T \in (SUBSET ScenVals) \ {{}}}
\* between the two runs: nothing, an account dropped, a validator the node does not know any more
WRefreshes == {<<AllVals \ {1}, AllActive>>, <<AllVals, [AllActive EXCEPT ![2] = UnknownRec]>>}

WShapeNext ==
    \/ /\ run[1].pc = "idle" /\ run[2].pc = "idle"
       /\ \E d \in WPrepDuties : Lift(Deliver(1, d)) /\ H([ev |-> "Deliver", run |-> 1, duty |-> d]) /\ UNCHANGED succ
    \/ /\ run[1].pc = "done" /\ run[2].pc = "idle" /\ CountEv("Refresh") = 0
       /\ \E x \in WRefreshes : Refresh(x[1], x[2]) /\ H([ev |-> "Refresh", held |-> x[1], recs |-> RecSeq(x[2])]) /\ UNCHANGED succ
    \/ /\ run[1].pc = "done" /\ run[2].pc = "idle"
       /\ \E d \in WShapeDuties : Lift(Deliver(2, d)) /\ H([ev |-> "Deliver", run |-> 2, duty |-> d]) /\ UNCHANGED succ
    \/ \E r \in {1, 2} :
        \/ Lift(Fetch(r, GoodData(run[r].duty, r))) /\ H([ev |-> "Fetch", run |-> r, err |-> FALSE, data |-> GoodData(run[r].duty, r)]) /\ UNCHANGED succ
        \/ AMByIndex(r) /\ H([ev |-> "Accounts", run |-> r, expect |-> amLast'.res]) /\ UNCHANGED succ
        \/ SignAM(r) /\ H([ev |-> "Sign", run |-> r]) /\ UNCHANGED succ
        \/ Lift(SignRet(r, {}, TRUE)) /\ H([ev |-> "SignRet", run |-> r, err |-> FALSE, zero |-> {}]) /\ UNCHANGED succ
        \/ Lift(SubmitCall(r)) /\ H([ev |-> "Submit", run |-> r]) /\ UNCHANGED succ
        \/ Lift(SubmitRet(r, TRUE)) /\ H([ev |-> "SubmitRet", run |-> r, err |-> FALSE]) /\ succ' = succ \cup {r}
        \/ WInternal(r) /\ UNCHANGED <<hist, succ>>

WNext ==
    /\ Len(hist) <= ScenLen
    /\ IF Marking # {}
       THEN \E r \in Marking, claim \in BOOLEAN : Lift(MarkOne(r, claim)) /\ UNCHANGED <<hist, succ>>
       ELSE IF WScenMode = "wired" THEN WiredNext ELSE WShapeNext

WSpec == WInit /\ [][WNext]_wsvars

WFinished == IF WScenMode = "wired"
             THEN Len(hist) = ScenLen + 1 \/ \A r \in RunIds : run[r].pc = "done"
             ELSE run[2].pc = "done"
WEmit == WFinished => PrintT(ToJson(hist))
=============================================================================
