SPECIFICATION TraceSpec
CONSTANTS
  DutySlots = {0}
  Validators = {0}
  SlotsPerEpoch = 32
  Relays = {1, 2, 3}
  AllChoices = {{}}
  Versions = {"phase0", "altair", "bellatrix", "capella", "deneb"}
  Blindable = {"bellatrix", "capella", "deneb"}
  Outcomes = {"full", "err", "bad400", "nilresp", "never"}
  Dslots <- AllDslots
  MaxCalls = 12
  NDuties = 16
  SlotGaps = {1}
  MaxOpen = 16
  MaxInFlight = 16
  InitCfgs <- AllCfgs
  LaterAllChoices = {{}}
  LaterVersions = {"deneb"}
  LaterOutcomes = {"full"}
  LaterDslots = {0}
INVARIANTS OnlyDutySigner SignedIsSelected SubmittedIntact NothingWithoutUnblind DegradesNotSkips CompletesDuty HistoryIndependent
CONSTRAINT HWM
POSTCONDITION TraceAccepted
CHECK_DEADLOCK FALSE
