---------------------------- MODULE Trace_Unblind ----------------------------
(* Trace specification of property C20, part (b): one call of a `first` strategy or of unblindProposal *)
(* on the real code is a behaviour of Unblind.  Logged: Call (configuration), Reply (a scripted node / *)
(* relay has answered one request), Pass (unblind: the driver let a relay goroutine go on from the     *)
(* point between its semaphore check and its final acquire), Cancel (the driver ended a context that   *)
(* has no deadline, after its observation), Return (the call returned a result / an error), Quiet      *)
(* (after the quiescence period: nothing is blocked).  The steps of the goroutines in between are      *)
(* silent.  BlockedSender (a goroutine of the call parked in its channel send after the call returned, *)
(* every node has answered and the quiescence period has passed) and Stuck (the call has not returned  *)
(* although every relay goroutine has given up) are events no action allows.                           *)
EXTENDS Unblind, TraceLib

VARIABLE l
tvars == <<vars, l>>

Line == Trace[l]
IsEvent(e) == l <= TraceLen /\ Line.ev = e /\ l' = l + 1

TraceInit ==
    /\ l = 1
    /\ kind = "first" /\ n = 1 /\ deadline = TRUE /\ plan = <<"ok">>
    /\ pc = <<"done">> /\ cur = <<"none">> /\ tries = <<Retries>>
    /\ sem = 0 /\ chan = 0 /\ caller = "err" /\ ctx = "done"
    /\ InitHWM

TraceCall ==
    /\ IsEvent("Call")
    /\ kind' = Line.kind /\ n' = Line.n /\ deadline' = Line.deadline
    /\ plan' = [p \in 1..Line.n |-> Line.plan[p]]
    /\ pc' = [p \in 1..Line.n |-> "call"]
    /\ cur' = [p \in 1..Line.n |-> "none"]
    /\ tries' = [p \in 1..Line.n |-> Retries]
    /\ sem' = 0 /\ chan' = 0 /\ caller' = "waiting" /\ ctx' = "live"

TraceReply == IsEvent("Reply") /\ Reply(Line.p, Line.r)
TracePass == IsEvent("Pass") /\ UNCHANGED vars
TraceCancel ==
    /\ IsEvent("Cancel")
    /\ ctx' = "done"
    /\ UNCHANGED <<kind, n, deadline, plan, pc, cur, tries, sem, chan, caller>>
TraceReturn == IsEvent("Return") /\ caller = Line.res /\ UNCHANGED vars
TraceQuiet == IsEvent("Quiet") /\ caller # "waiting" /\ UNCHANGED vars

Silent ==
    /\ UNCHANGED l
    /\ \/ \E p \in Procs : ChkAcq(p) \/ ChkRel(p) \/ Claim(p) \/ Send(p)
       \/ Recv \/ CtxDone \/ RetCtx \/ AllFailed

TraceNext == TraceCall \/ TraceReply \/ TracePass \/ TraceCancel \/ TraceReturn \/ TraceQuiet \/ Silent

TraceSpec == TraceInit /\ [][TraceNext]_tvars

HWM == UpdateHWM(l)
TraceAccepted == TraceAcceptedUpTo
=============================================================================
