SPECIFICATION SpecC12
CONSTANTS
  Validators = {1, 2}
  Externals = {}
  Relays = {1, 2}
  Nodes = {1, 2}
  DocIds = {1, 3}
  FailKinds = {"error"}
  Ops = {1, 2}
  MaxInFlight = 3
  AuctionImpl = "pinned"
  Resolution = "locked"
  MaxRounds = 0
INVARIANTS TypeOKC12
PROPERTY NoWedge
CHECK_DEADLOCK FALSE
