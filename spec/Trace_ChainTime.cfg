SPECIFICATION TraceSpec
INVARIANTS Slots Times
CONSTRAINT HWM
POSTCONDITION TraceAccepted
CHECK_DEADLOCK FALSE
