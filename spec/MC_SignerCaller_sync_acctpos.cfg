SPECIFICATION CSpec
CONSTANTS
  SlotsPerEpoch = 32
  Slots = {0}
  GivenEpochs = {0}
  MaxBatch = 3
  NReq = 2
  ForkEpochs = {10}
  NVal = 3
  Committees = {1, 2}
  CallerSlots = {318, 319, 320}
  MaxDuty = 3
  Pairing = "by_account_position"
  Sequential = TRUE
  CallerOps <- OpsSync
  AcctChoices <- AcctQuick
INVARIANTS TypeOK CallerTypeOK DomainRight Memoryless HandedOwn SigCorrect NoSignatureWithoutDomain ErrorHasNoSignatures RefusedForCause PairedOwn SubmittedRight
CHECK_DEADLOCK FALSE
