------------------------ MODULE Scen_BuilderCatalogue ------------------------
(* Histories of BuilderCatalogue (configuration keys written one at a time, Build in between),   *)
(* printed as JSON and replayed on the real obtainBuilderConfigs of package main.               *)
EXTENDS BuilderCatalogue, Sequences, Json

CONSTANT ScenLen
VARIABLE hist
svars == <<vars, hist>>

SInit == Init /\ hist = <<[ev |-> "Reset"]>>
H(e) == hist' = Append(hist, e)

SNext ==
    /\ Len(hist) <= ScenLen
    /\ IF Len(hist) = ScenLen /\ out.st = "unbuilt"
       THEN Build /\ H([ev |-> "Build"])            \* a history ends with the catalogue being asked for
       ELSE \/ \E b \in Builders :
                 \/ Exclude(b) /\ H([ev |-> "Exclude", b |-> b])
                 \/ Privilege(b) /\ H([ev |-> "Privilege", b |-> b])
                 \/ LET e == RandomElement(Entry)
                    IN Configure(b, e) /\ H([ev |-> "Configure", b |-> b, cat |-> e.cat, fac |-> e.fac, off |-> e.off])
            \/ out.st = "unbuilt" /\ Build /\ H([ev |-> "Build"])

SSpec == SInit /\ [][SNext]_svars
Emit == (Len(hist) = ScenLen + 1) => PrintT(ToJson(hist))
=============================================================================
