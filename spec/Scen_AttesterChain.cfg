SPECIFICATION SSpec
CONSTANTS
  Chain = {0, 1, 2, 3, 4}
  OursSets = {{2, 3, 4}, {0, 2, 3}}
  Managers = {"wallet", "dirk"}
  VMDesigns = {"replace"}
  SPE = 32
  Epochs = {2, 3}
  StrictVM = TRUE
  AllOffers = FALSE
  Lean = TRUE
  ScenLen = 14
INVARIANTS Emit SignedByAssignee
CHECK_DEADLOCK FALSE
