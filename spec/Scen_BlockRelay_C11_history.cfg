SPECIFICATION SSpec
CONSTANTS
  Validators = {1, 2}
  Externals = {3}
  Relays = {1, 2}
  Nodes = {1, 2, 3}
  DocIds = {1, 2, 3, 5}
  FailKinds = {"error", "malformed", "empty", "timeout", "canceled"}
  Ops = {}
  MaxInFlight = 0
  AuctionImpl = "intended"
  Resolution = "locked"
  MaxRounds = 0
  ScenLen = 6
  MaxSignFail = 1
  History = TRUE
  Matrix = FALSE
  Script = "none"
INVARIANTS Emit
CHECK_DEADLOCK FALSE
