SPECIFICATION TraceSpec
CONSTANTS
  SlotsPerEpoch = 32
  Slots = {0}
  GivenEpochs = {0}
  MaxBatch = 8
  NReq = 4
  ForkEpochs = {0}
  NVal = 4
  Committees = {1}
  CallerSlots = {0}
  MaxDuty = 1
  Pairing = "by_validator"
  Sequential = FALSE
  AcctChoices <- AcctNone
INVARIANTS TypeOK CallerTypeOK DomainRight Memoryless HandedOwn SigCorrect NoSignatureWithoutDomain ErrorHasNoSignatures RefusedForCause PairedOwn SubmittedRight
PROPERTIES TraceReplyStable
CONSTRAINT HWM
POSTCONDITION TraceAccepted
CHECK_DEADLOCK FALSE
