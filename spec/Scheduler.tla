----------------------------- MODULE Scheduler -----------------------------
(* One job instance of Vouch's scheduler (services/scheduler/advanced/service.go): its entry in  *)
(* the job table, its control block (active, finalised, the two 1-buffered channels, stateLock), *)
(* the job goroutine with its select, any number of run-now callers (RunJob / RunJobIfExists),   *)
(* cancellers (CancelJob...), the timer and the parent context.  Jobs are independent of each    *)
(* other (they share only the table, in which each name is one entry), so one instance with all  *)
(* interleavings of its callers is a complete model of the per-job protocol.                     *)
(*                                                                                              *)
(* The actions follow the code's atomicity:                                                     *)
(*   RLookup(c)  table section of RunJob (lookup + delete of a one-off job, under jobsMutex)      *)
(*   RCheck(c)   runJob: take stateLock, test active / finalised, set active  (lock kept)        *)
(*   RSend(c)    runJob: send on runCh, release stateLock, return                                 *)
(*   KLookup(k)  table section of CancelJob;  KSignal(k) its stateLock section                    *)
(*   GSel*       the goroutine's select: a ready case is chosen nondeterministically (Go)        *)
(*   GT*         the timer branch, one action per shared access: the goroutine reads and writes   *)
(*               `active` WITHOUT stateLock, so every access is its own step                      *)
(*   GFinalise   finaliseJob (its own stateLock section)                                          *)
(* The specification describes the INTENDED protocol of property C02: a job claimed by a run-now *)
(* request is run even if its timer fires before the run signal is picked up (GTWait).           *)
EXTENDS Integers, FiniteSets, TLC

CONSTANTS Callers,      \* run-now requests
          Cancellers,   \* cancel requests
          Periodic,     \* BOOLEAN: periodic job (loops, stays in the table) or one-off
          MaxRuns,      \* bound on job function invocations explored (periodic)
          DeleteByName, \* FALSE = intended protocol (a goroutine removes only its own table entry).  TRUE = named
                        \* deviation of the pinned code: `delete(s.jobs, name)` also removes a successor's entry
          ClaimIgnoresCancel, \* FALSE = intended protocol (the timer branch claims under stateLock and honours a
                        \* cancellation that has already succeeded).  TRUE = named deviation of the pinned code:
                        \* `active := TRUE` without looking at `finalised`
          PrefixCancellers, \* the cancellers that use CancelJobs(prefix): they first LIST the matching names under the
                        \* table lock (KList) and cancel each name found afterwards (KLookup, KSignal)
          BlockingSend, \* FALSE = intended protocol (a run-now request does not wait for room in the run channel: a pending
                        \* signal starts the job just as well).  TRUE = named deviation of the pinned code: the send waits,
                        \* with the state lock held, while an earlier request's signal is still in the channel
          DropOnClaim   \* FALSE = intended protocol.  TRUE adds the named deviation GTDrop: the
                        \* pinned code's timer branch leaving when it sees the job claimed

VARIABLES inTable, bInTable, bLive, active, finalised, closed, runCh, cancelCh, lock,
          gpc, runs, running, timerExpired, ctxDone, panicked,
          cpc, cres, kpc, kres,
          took          \* history: which select branch ended the goroutine ("none","ctx","cancel","nomore")

vars == <<inTable, bInTable, bLive, active, finalised, closed, runCh, cancelCh, lock, gpc, runs, running,
          timerExpired, ctxDone, panicked, cpc, cres, kpc, kres, took>>

Init ==
    /\ inTable = TRUE /\ bInTable = FALSE /\ bLive = FALSE /\ active = FALSE /\ finalised = FALSE /\ closed = FALSE
    /\ runCh = 0 /\ cancelCh = 0 /\ lock = "free"
    /\ gpc = "select" /\ runs = 0 /\ running = 0
    /\ timerExpired = FALSE /\ ctxDone = FALSE /\ panicked = FALSE
    /\ cpc = [c \in Callers |-> "idle"] /\ cres = [c \in Callers |-> "none"]
    /\ kpc = [k \in Cancellers |-> "idle"] /\ kres = [k \in Cancellers |-> "none"]
    /\ took = "none"

-----------------------------------------------------------------------------
(* environment *)
TimerExpire == ~timerExpired /\ timerExpired' = TRUE
               /\ UNCHANGED <<inTable, bInTable, bLive, active, finalised, closed, runCh, cancelCh, lock, gpc, runs, running, ctxDone, panicked, cpc, cres, kpc, kres, took>>
CtxCancel == ~ctxDone /\ ctxDone' = TRUE
             /\ UNCHANGED <<inTable, bInTable, bLive, active, finalised, closed, runCh, cancelCh, lock, gpc, runs, running, timerExpired, panicked, cpc, cres, kpc, kres, took>>

\* The name is scheduled again (ScheduleJob with the same name) once it is free: a successor job
\* "b" (abstract: only its table entry is modelled) now owns the name.  A name that is taken is refused.
Resched == /\ ~inTable /\ ~bInTable /\ ~bLive
           /\ bInTable' = TRUE /\ bLive' = TRUE
           /\ UNCHANGED <<inTable, active, finalised, closed, runCh, cancelCh, lock, gpc, runs, running, timerExpired, ctxDone, panicked, cpc, cres, kpc, kres, took>>

-----------------------------------------------------------------------------
(* run-now callers *)
RLookup(c) ==
    /\ cpc[c] = "idle"
    /\ IF inTable
       THEN /\ inTable' = (IF Periodic THEN TRUE ELSE FALSE)
            /\ cpc' = [cpc EXCEPT ![c] = "p"]
            /\ cres' = cres
            /\ UNCHANGED <<bInTable, bLive>>
       ELSE IF bInTable
       THEN \* the name now belongs to the successor job: it is started and leaves the table
            /\ bInTable' = FALSE /\ bLive' = FALSE /\ inTable' = inTable
            /\ cpc' = [cpc EXCEPT ![c] = "done"]
            /\ cres' = [cres EXCEPT ![c] = "okb"]
       ELSE /\ UNCHANGED <<inTable, bInTable, bLive>>
            /\ cpc' = [cpc EXCEPT ![c] = "done"]
            /\ cres' = [cres EXCEPT ![c] = "nosuchjob"]
    /\ UNCHANGED <<active, finalised, closed, runCh, cancelCh, lock, gpc, runs, running, timerExpired, ctxDone, panicked, kpc, kres, took>>

RCheck(c) ==
    /\ cpc[c] = "p" /\ lock = "free"
    /\ IF active
       THEN /\ cpc' = [cpc EXCEPT ![c] = "done"] /\ cres' = [cres EXCEPT ![c] = "running"]
            /\ UNCHANGED <<active, lock>>
       ELSE IF finalised
       THEN /\ cpc' = [cpc EXCEPT ![c] = "done"] /\ cres' = [cres EXCEPT ![c] = "finalised"]
            /\ UNCHANGED <<active, lock>>
       ELSE /\ active' = TRUE /\ lock' = c
            /\ cpc' = [cpc EXCEPT ![c] = "h"] /\ cres' = cres
    /\ UNCHANGED <<inTable, bInTable, bLive, finalised, closed, runCh, cancelCh, gpc, runs, running, timerExpired, ctxDone, panicked, kpc, kres, took>>

\* on a closed channel a send panics; on a full 1-buffered channel it would block (the action is disabled) - the
\* intended protocol does not wait (select with default), the pinned code did (BlockingSend)
RSend(c) ==
    /\ cpc[c] = "h" /\ lock = c
    /\ \/ closed /\ panicked' = TRUE /\ runCh' = runCh
       \/ ~closed /\ runCh = 0 /\ runCh' = 1 /\ panicked' = panicked
       \* the channel still holds an earlier request's signal (periodic job whose instance the timer started)
       \/ ~closed /\ runCh = 1 /\ ~BlockingSend /\ runCh' = 1 /\ panicked' = panicked
    /\ lock' = "free"
    /\ cpc' = [cpc EXCEPT ![c] = "done"] /\ cres' = [cres EXCEPT ![c] = "ok"]
    /\ UNCHANGED <<inTable, bInTable, bLive, active, finalised, closed, cancelCh, gpc, runs, running, timerExpired, ctxDone, kpc, kres, took>>

-----------------------------------------------------------------------------
(* cancellers *)
\* CancelJobs(prefix): collect the names with the prefix under jobsMutex; a name that is not there is not cancelled
KList(k) ==
    /\ k \in PrefixCancellers /\ kpc[k] = "idle"
    /\ IF inTable \/ bInTable
       THEN kpc' = [kpc EXCEPT ![k] = "l"] /\ kres' = kres
       ELSE kpc' = [kpc EXCEPT ![k] = "done"] /\ kres' = [kres EXCEPT ![k] = "nosuchjob"]
    /\ UNCHANGED <<inTable, bInTable, bLive, active, finalised, closed, runCh, cancelCh, lock, gpc, runs, running, timerExpired, ctxDone, panicked, cpc, cres, took>>

KLookup(k) ==
    /\ kpc[k] = (IF k \in PrefixCancellers THEN "l" ELSE "idle")
    /\ IF inTable
       THEN /\ inTable' = FALSE /\ kpc' = [kpc EXCEPT ![k] = "p"] /\ kres' = kres
            /\ UNCHANGED <<bInTable, bLive>>
       ELSE IF bInTable
       THEN \* the successor job is cancelled
            /\ bInTable' = FALSE /\ bLive' = FALSE /\ inTable' = inTable
            /\ kpc' = [kpc EXCEPT ![k] = "done"] /\ kres' = [kres EXCEPT ![k] = "okb"]
       ELSE /\ UNCHANGED <<inTable, bInTable, bLive>> /\ kpc' = [kpc EXCEPT ![k] = "done"]
            /\ kres' = [kres EXCEPT ![k] = "nosuchjob"]
    /\ UNCHANGED <<active, finalised, closed, runCh, cancelCh, lock, gpc, runs, running, timerExpired, ctxDone, panicked, cpc, cres, took>>

KSignal(k) ==
    /\ kpc[k] = "p" /\ lock = "free"
    /\ IF finalised
       THEN UNCHANGED <<finalised, cancelCh, panicked>>
       ELSE /\ finalised' = TRUE
            /\ \/ closed /\ panicked' = TRUE /\ cancelCh' = cancelCh
               \/ ~closed /\ cancelCh = 0 /\ cancelCh' = 1 /\ panicked' = panicked
    \* "won": the cancellation succeeded on a job that had not been started (history value for CancelOkNeverRuns)
    /\ kpc' = [kpc EXCEPT ![k] = "done"]
    /\ kres' = [kres EXCEPT ![k] = IF ~finalised /\ ~Periodic /\ runs = 0 /\ ~active /\ gpc \in {"select", "t1", "t2", "t3"}
                                    THEN "won" ELSE "ok"]
    /\ UNCHANGED <<inTable, bInTable, bLive, active, closed, runCh, lock, gpc, runs, running, timerExpired, ctxDone, cpc, cres, took>>

-----------------------------------------------------------------------------
(* the job goroutine *)
G(from, to) == gpc = from /\ gpc' = to

\* Go's select: any ready case may be taken
GSelCtx    == G("select", "c1") /\ ctxDone /\ took' = "ctx"
              /\ UNCHANGED <<inTable, bInTable, bLive, active, finalised, closed, runCh, cancelCh, lock, runs, running, timerExpired, ctxDone, panicked, cpc, cres, kpc, kres>>
GSelCancel == G("select", "k1") /\ cancelCh = 1 /\ cancelCh' = 0 /\ took' = "cancel"
              /\ UNCHANGED <<inTable, bInTable, bLive, active, finalised, closed, runCh, lock, runs, running, timerExpired, ctxDone, panicked, cpc, cres, kpc, kres>>
GSelRun    == G("select", "r1") /\ runCh = 1 /\ runCh' = 0
              /\ UNCHANGED <<inTable, bInTable, bLive, active, finalised, closed, cancelCh, lock, runs, running, timerExpired, ctxDone, panicked, cpc, cres, kpc, kres, took>>
GSelTimer  == G("select", "t1") /\ timerExpired
              /\ UNCHANGED <<inTable, bInTable, bLive, active, finalised, closed, runCh, cancelCh, lock, runs, running, timerExpired, ctxDone, panicked, cpc, cres, kpc, kres, took>>

\* parent context done: remove the name from the table, finalise
GCtxDel == G("c1", "k1") /\ inTable' = FALSE
           /\ bInTable' = (IF DeleteByName THEN FALSE ELSE bInTable)
               /\ UNCHANGED <<bLive, active, finalised, closed, runCh, cancelCh, lock, runs, running, timerExpired, ctxDone, panicked, cpc, cres, kpc, kres, took>>

\* finaliseJob: stateLock section; closes both channels
Finalise(from, to) ==
    /\ G(from, to) /\ lock = "free"
    /\ finalised' = TRUE /\ closed' = TRUE
    /\ UNCHANGED <<inTable, bInTable, bLive, active, runCh, cancelCh, lock, runs, running, timerExpired, ctxDone, panicked, cpc, cres, kpc, kres, took>>

\* the job function
RunStart(from, to) == G(from, to) /\ runs' = runs + 1 /\ running' = running + 1
    /\ UNCHANGED <<inTable, bInTable, bLive, active, finalised, closed, runCh, cancelCh, lock, timerExpired, ctxDone, panicked, cpc, cres, kpc, kres, took>>
RunEnd(from, to) == G(from, to) /\ running' = running - 1
    /\ UNCHANGED <<inTable, bInTable, bLive, active, finalised, closed, runCh, cancelCh, lock, runs, timerExpired, ctxDone, panicked, cpc, cres, kpc, kres, took>>
SetActive(from, to, v) == G(from, to) /\ active' = v
    /\ UNCHANGED <<inTable, bInTable, bLive, finalised, closed, runCh, cancelCh, lock, runs, running, timerExpired, ctxDone, panicked, cpc, cres, kpc, kres, took>>
Skip(from, to) == G(from, to)
    /\ UNCHANGED <<inTable, bInTable, bLive, active, finalised, closed, runCh, cancelCh, lock, runs, running, timerExpired, ctxDone, panicked, cpc, cres, kpc, kres, took>>

\* --- one-off job ---
\* cancel branch / end of ctx branch
GKFinalise == ~Periodic /\ Finalise("k1", "done")
\* run branch: jobFunc; finaliseJob; active := false
GRStart    == RunStart("r1", "r2")
GREnd      == RunEnd("r2", "r3")
GRFinalise == ~Periodic /\ Finalise("r3", "r4")
GRReset    == ~Periodic /\ SetActive("r4", "done", FALSE)
\* timer branch: read active (no lock!)
GTCheck    == gpc = "t1" /\ IF active THEN Skip("t1", IF Periodic THEN "p0" ELSE "tw")
                                      ELSE Skip("t1", IF Periodic THEN "t3" ELSE "t2")
\* C02: the job was claimed by a run-now request whose signal is on its way: take it and run
GTWait     == ~Periodic /\ G("tw", "r1") /\ runCh = 1 /\ runCh' = 0
              /\ UNCHANGED <<inTable, bInTable, bLive, active, finalised, closed, cancelCh, lock, runs, running, timerExpired, ctxDone, panicked, cpc, cres, kpc, kres, took>>
\* named deviation (only with DropOnClaim): the timer branch exits, the claimed job never runs
GTDrop     == ~Periodic /\ DropOnClaim /\ gpc = "t1" /\ active /\ Skip("t1", "done")
GTDel      == ~Periodic /\ G("t2", "t3") /\ inTable' = FALSE
              /\ bInTable' = (IF DeleteByName THEN FALSE ELSE bInTable)
               /\ UNCHANGED <<bLive, active, finalised, closed, runCh, cancelCh, lock, runs, running, timerExpired, ctxDone, panicked, cpc, cres, kpc, kres, took>>
\* claim: one stateLock section.  One-off job: a cancellation that has already succeeded (CancelJob took the
\* job off the list, marked it finalised and reported success) wins: the job is finalised without running.
\* (The periodic loop claims without the lock, as the code does.)
GTClaim    == \/ /\ Periodic /\ SetActive("t3", "t4", TRUE)
              \/ /\ ~Periodic /\ lock = "free" /\ (~finalised \/ ClaimIgnoresCancel) /\ SetActive("t3", "t4", TRUE)
GTCancelled == /\ ~Periodic /\ ~ClaimIgnoresCancel /\ lock = "free" /\ finalised
               /\ G("t3", "k1") /\ took' = "cancel"
               /\ UNCHANGED <<inTable, bInTable, bLive, active, finalised, closed, runCh, cancelCh, lock, runs, running, timerExpired, ctxDone, panicked, cpc, cres, kpc, kres>>
GTStart    == RunStart("t4", "t5")
GTEnd      == RunEnd("t5", "t6")
GTReset    == SetActive("t6", IF Periodic THEN "p0" ELSE "t7", FALSE)
GTFinalise == ~Periodic /\ Finalise("t7", "done")

\* --- periodic job: loop back to the runtime function ---
GPKFinalise == Periodic /\ Finalise("k1", "done")
GPRReset    == Periodic /\ SetActive("r3", "p0", FALSE)
\* runtimeFunc: next instance (timer re-armed) or no more instances
GPNext      == Periodic /\ G("p0", "select") /\ runs < MaxRuns /\ timerExpired' = FALSE
               /\ UNCHANGED <<inTable, bInTable, bLive, active, finalised, closed, runCh, cancelCh, lock, runs, running, ctxDone, panicked, cpc, cres, kpc, kres, took>>
GPNoMore    == Periodic /\ G("p0", "k1") /\ inTable' = FALSE /\ took' = "nomore"
               /\ bInTable' = (IF DeleteByName THEN FALSE ELSE bInTable)
               /\ UNCHANGED <<bLive, active, finalised, closed, runCh, cancelCh, lock, runs, running, timerExpired, ctxDone, panicked, cpc, cres, kpc, kres>>

GNext == \/ GSelCtx \/ GSelCancel \/ GSelRun \/ GSelTimer \/ GCtxDel
         \/ GKFinalise \/ GRStart \/ GREnd \/ GRFinalise \/ GRReset
         \/ GTCheck \/ GTWait \/ GTDrop \/ GTDel \/ GTClaim \/ GTCancelled \/ GTStart \/ GTEnd \/ GTReset \/ GTFinalise
         \/ GPKFinalise \/ GPRReset \/ GPNext \/ GPNoMore

Next == \/ TimerExpire \/ CtxCancel \/ Resched
        \/ \E c \in Callers : RLookup(c) \/ RCheck(c) \/ RSend(c)
        \/ \E k \in Cancellers : KList(k) \/ KLookup(k) \/ KSignal(k)
        \/ GNext

Spec == Init /\ [][Next]_vars
FairSpec == Spec /\ WF_vars(GNext) /\ WF_vars(TimerExpire)
            /\ \A c \in Callers : WF_vars(RCheck(c) \/ RSend(c))
            /\ \A k \in Cancellers : WF_vars(KSignal(k))

-----------------------------------------------------------------------------
(* C02 *)
SomeRunOk == \E c \in Callers : cres[c] = "ok"
SomeCancelPointer == \E k \in Cancellers : kpc[k] = "p" \/ kres[k] \in {"ok", "won"}

TypeOK == /\ runCh \in 0..1 /\ cancelCh \in 0..1 /\ running \in 0..1
          /\ lock \in {"free"} \cup Callers

\* never twice
AtMostOnce == ~Periodic => runs <= 1
\* never overlaps itself
NoOverlap == running <= 1
\* no send on a closed channel
NoPanic == ~panicked
\* an early-run request that reports success means the job runs (unless the parent context ended it)
NoLostRun == (~Periodic /\ gpc = "done" /\ SomeRunOk /\ took # "ctx") => runs = 1
\* accepted, not cancelled, context alive: exactly once
NotDropped == (~Periodic /\ gpc = "done" /\ took = "none") => runs = 1
\* a cancel or context end that the goroutine acted on means it did not run afterwards
CancelBranchNoRun == (~Periodic /\ took \in {"ctx", "cancel"}) => runs = 0
\* a finished job's name can be scheduled again
NameReusable == gpc = "done" => ~inTable
\* a cancellation that succeeded on a job that had not been started means the job never runs: CancelJob()
\* reported success, the caller may schedule a replacement under the same name
CancelOkNeverRuns == (\E k \in Cancellers : kres[k] = "won") => runs = 0
\* one name, one entry
NameSlotUnique == ~(inTable /\ bInTable)
\* a job scheduled under a re-used name stays reachable by that name until it is started or cancelled:
\* the earlier job's goroutine only ever removes its own entry
SuccessorReachable == bLive => bInTable
\* nobody is left holding the lock
LockFreeAtEnd == (gpc = "done" /\ \A c \in Callers : cpc[c] \in {"idle", "done"}) => lock = "free"

\* liveness (FairSpec): once its time has come (or it was claimed, cancelled, or the context ended)
\* the one-off goroutine terminates; a periodic job returns to its select after an early run
Terminates == ~Periodic => ((timerExpired \/ ctxDone) ~> gpc = "done")
\* ("k1": the loop has ended - cancel, context or no more instances - and only finalisation is left)
KeepsTicking == Periodic => \A c \in Callers : (cres[c] = "ok") ~> (gpc \in {"select", "done", "k1"})
NoStuckCaller == \A c \in Callers : (cpc[c] = "h") ~> (cpc[c] = "done")
=============================================================================
