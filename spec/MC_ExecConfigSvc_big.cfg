SPECIFICATION Spec
CONSTANTS
  Calls = {1, 2, 3}
  DocIds = {1, 2}
  FailKinds = {"error"}
  MaxFetches = 2
  MaxOpen = 2
  Overlap = TRUE
  Kinds = {"direct"}
  Ours = {"V1", "V2"}
  LookErrs = {}
  MaxRefresh = 0
  AuctionMiss = "fail"
  BidAccount = "lookup"
  Design = "resolve"
INVARIANTS TypeOK UsesInForce SequentialRight CallersAgree MissOnly
CONSTRAINT FetchBound
CHECK_DEADLOCK FALSE
