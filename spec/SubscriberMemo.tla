--------------------------- MODULE SubscriberMemo ---------------------------
(* Controls for the history part of Subscriber (property C14): DESIGNS of the attestation        *)
(* aggregator that keep state on the long-lived instance between (or across) its selection       *)
(* calls.  Each of them answers every call on a FRESH instance exactly as the rule demands       *)
(* (FreshInstanceExact; MC_SubscriberMemo_*_fresh.cfg: one call per instance passes every        *)
(* invariant), so no single-shot scenario can tell them from the pinned code.                    *)
(*                                                                                               *)
(*   Design = "memosig"     slot selections are memoised per (validator, slot): the SIGNATURE    *)
(*                          only; the flag is calculated for every call from the committee       *)
(*                          length of that call.  A legal implementation: TLC must pass it.      *)
(*   Design = "memoflag"    the memo also holds the derived is-aggregator FLAG and answers from  *)
(*                          it; the committee length is not part of the key                      *)
(*                          (seeded/C14-aggregator-flag-memoised-without-committee-size).        *)
(*                          TLC must report AggregatorRuleExact violated - by a SEQUENTIAL       *)
(*                          history: subscribe, a re-org that leaves the validator its slot but  *)
(*                          changes the length of its committee, re-subscribe.                   *)
(*   Design = "sharedsizes" the committee lengths of a call are parked on the instance (per      *)
(*                          validator) before the signer is asked and read back afterwards.      *)
(*                          Right in every sequential history (MaxHeld = 0 passes); TLC must     *)
(*                          report AggregatorRuleExact violated as soon as a call is held at the *)
(*                          signer while another one runs (MaxHeld = 1).                         *)
(*                                                                                               *)
(* checks/C14.py runs these as vacuity self-checks: anything but the stated outcome is a broken  *)
(* run.                                                                                          *)
EXTENDS Subscriber

CONSTANT Design

VARIABLES memo,      \* on the aggregator instance: set of [v, slot, h, agg], at most one per (v, slot)
          scratch,   \* on the aggregator instance: set of [v, size], at most one per v
          hans       \* id of a held call -> what its memo look-ups gave (they precede the signer call)
mvars == <<vars, memo, scratch, hans>>

Hit(d) == \E m \in memo : m.v = d.v /\ m.slot = d.slot
M(d) == CHOOSE m \in memo : m.v = d.v /\ m.slot = d.slot

\* what the instance answers for the duties D of a call at the moment it looks at its memo
Lookup(D) ==
    [d \in D |-> CASE Design = "memoflag" /\ Hit(d) -> M(d).agg
                   [] Design = "memosig" /\ Hit(d)  -> IsAggregator(M(d).h, d.size, target)
                   [] OTHER                         -> DutyAggregates(d, target)]

\* the memo after the selections of the duties X (answers A) have been written: held selections of
\* slots that have passed are let go; a selection is held for slots that have not - for the duties
\* the memo did not answer (over: for all of X, replacing what another call wrote meanwhile)
Fill(X, A, over) ==
    IF Design \in {"memoflag", "memosig"}
    THEN LET W == {d \in X : d.slot >= now /\ (over \/ ~Hit(d))} IN
         {m \in memo : m.slot >= now /\ ~\E d \in W : d.v = m.v /\ d.slot = m.slot}
         \cup {[v |-> d.v, slot |-> d.slot, h |-> d.h, agg |-> A[d]] : d \in W}
    ELSE memo

EntriesBy(D, A) == {[slot |-> d.slot, committee |-> d.committee, v |-> d.v, agg |-> A[d]] : d \in D}

\* a call parks the committee length of each of its validators on the instance (a validator with
\* duties in two slots: the later writer wins, either may be)
Parked(D, W) ==
    /\ W \subseteq {[v |-> d.v, size |-> d.size] : d \in D}
    /\ \A d \in D : \E w \in W : w.v = d.v
    /\ \A a, b \in W : a.v = b.v => a = b
Park(D) ==
    IF Design = "sharedsizes"
    THEN \E W \in SUBSET {[v |-> d.v, size |-> d.size] : d \in D} :
            /\ Parked(D, W)
            /\ scratch' = {x \in scratch : ~\E w \in W : w.v = x.v} \cup W
    ELSE scratch' = scratch

ScratchSize(d) == IF \E x \in scratch : x.v = d.v THEN (CHOOSE x \in scratch : x.v = d.v).size ELSE d.size

MInit == Init /\ memo = {} /\ scratch = {} /\ hans = <<>>

\* a call that runs from fetch to store without anything in between
MStore(I, S) ==
    /\ StoreCalc(I, S, duties, Lookup(duties))
    /\ memo' = Fill(duties, Lookup(duties), FALSE)
    /\ Park(duties)
    /\ hans' = hans

MSubscribe ==
    /\ nsub < MaxSubs /\ nsub' = nsub + 1
    /\ \E I \in SUBSET EntriesBy(duties, Lookup(duties)) : \E S \in SUBSET I : MStore(I, S)
    /\ UNCHANGED <<now, target, geo, duties, inflight, held, nheld, nref, nchg, jobs, attests, done>>

MResub ==
    /\ inflight > 0 /\ inflight' = inflight - 1
    /\ \E I \in SUBSET EntriesBy(duties, Lookup(duties)) : \E S \in SUBSET I : MStore(I, S)
    /\ UNCHANGED <<now, target, geo, duties, nsub, held, nheld, nref, nchg, jobs, attests, done>>

\* the held call: its look-ups and the selections of its other slots are done now; the selection
\* of slot hs is written (and, for "sharedsizes", its parked length read back) when it returns
MFetch(hs) ==
    /\ ResubFetch(hs)
    /\ hans' = [i \in DOMAIN hans \cup {nheld + 1} |-> IF i = nheld + 1 THEN Lookup(duties) ELSE hans[i]]
    /\ memo' = Fill({d \in duties : d.slot # hs}, Lookup(duties), FALSE)
    /\ Park(duties)

MFinish ==
    \E c \in held :
        LET A == [d \in c.snap |-> IF Design = "sharedsizes" /\ d.slot = c.hs
                                   THEN IsAggregator(d.h, ScratchSize(d), target)
                                   ELSE hans[c.id][d]] IN
        /\ held' = held \ {c}
        /\ \E I \in SUBSET EntriesBy(c.snap, A) : \E S \in SUBSET I : StoreCalc(I, S, c.snap, A)
        /\ memo' = Fill({d \in c.snap : d.slot = c.hs}, A, TRUE)
        /\ UNCHANGED <<scratch, hans>>
        /\ UNCHANGED <<now, target, geo, duties, nsub, inflight, nheld, nref, nchg, jobs, attests, done>>

\* the signer is deterministic: a signature held in the memo is the validator's signature
MemoConsistent(d) == \A m \in memo : (m.v = d.v /\ m.slot = d.slot) => m.h = d.h

MNext ==
    \/ /\ UNCHANGED <<memo, scratch, hans>>
       /\ \/ \E d \in DutySpace : AddDuty(d) /\ MemoConsistent(d)
          \/ \E d \in duties : DropDuty(d)
          \/ \E d \in duties : \E c \in Committees : \E z \in Sizes :
                 MoveDuty(d, [d EXCEPT !.committee = c, !.size = z])
          \/ \E s \in SlotSpace : \E c \in Committees : \E z \in Sizes : ResizePair(s, c, z)
          \/ \E t \in Nows : Advance(t)
          \/ SubscribeFail
          \/ Refresh
          \/ ResubFail
          \/ Housekeep
          \/ \E s \in SlotSpace : \E C \in SUBSET Committees : \E ok \in BOOLEAN : AttestJob(s, C, ok)
    \/ MSubscribe
    \/ MResub
    \/ \E hs \in SlotSpace : MFetch(hs)
    \/ MFinish

MSpec == MInit /\ [][MNext]_mvars

\* nothing carried: the designs cannot be told from the rule by a call on a fresh instance
FreshInstanceExact ==
    (memo = {} /\ scratch = {}) => \A d \in duties : Lookup(duties)[d] = DutyAggregates(d, target)
=============================================================================
