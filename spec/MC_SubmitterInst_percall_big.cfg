SPECIFICATION Spec
CONSTANTS
  NCalls = 2
  NNodes = 2
  IClientSet = {"lighthouse"}
  IConcSet = {1, 2}
  IKinds = {"att", "prep"}
  IOutcomes = {"accept", "reject", "treject", "hang", "heldok", "heldtrej"}
  IFailOutcomes = {"accept", "treject"}
  Design = "percall"
INVARIANTS TypeOK SuccessIffC OfferedC IndependenceC
CHECK_DEADLOCK FALSE
