SPECIFICATION TraceSpec
CONSTANTS
  Pipelines = {"A", "B"}
  SlotsPerEpoch = 4
  ASlots = {1}
  ADataRoots = {1}
  AValidators = {1}
  AProofs = {1}
  AAggIds = {1}
  AMaxJobs = 1000
  BSlots = {1}
  BRoots = {1}
  BValidators = {1}
  BSubs = {0}
  BContribIds = {1}
  BMaxSel = 1
  BMaxJobs = 1000
  BMaxSets = 1000
INVARIANTS TypeOK ANamesDutyValidator ACarriesObtainedAggregate ASelectionProofIsSlotSignature ASignedByAccountOverMessage ANothingWithoutAggregate AOncePerJob AEveryAggregatorAggregates BContributionOfDuty BRememberedRootUsed BProofOfPair BSignedByOwnAccount BAggregatorsIndependent BRememberedRemoved BOthersKept
CONSTRAINT HWM
POSTCONDITION TraceAccepted
CHECK_DEADLOCK FALSE
