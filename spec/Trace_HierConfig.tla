-------------------------- MODULE Trace_HierConfig --------------------------
(* Trace specification for C19: a trace recorded from the real util functions (with the tree      *)
(* loaded into viper from a configuration file, the environment, explicit settings or defaults)   *)
(* is a behaviour of HierConfig.  Reset lines carry the kind, the tree the driver loaded          *)
(* (concrete component names, canonical value strings, EmptyVal for written-down non-values) and  *)
(* the value of the setting when nothing is configured; Lookup lines carry the path and what the  *)
(* real function returned, in the same canonical form.                                            *)
EXTENDS HierConfig, TraceLib

VARIABLE l
tvars == <<vars, l>>

TraceInit ==
    /\ l = 1
    /\ kind = "none"
    /\ tree = NoTree
    /\ dflt = Default
    /\ last = NoReply
    /\ InitHWM

IsEvent(e) == l <= TraceLen /\ Trace[l].ev = e /\ l' = l + 1

LoggedTree(line) ==
    LET es == SeqToSet(line.tree)
    IN  [q \in {e.p : e \in es} |-> (CHOOSE e \in es : e.p = q).v]

TraceReset ==
    /\ IsEvent("Reset")
    /\ Trace[l].kind \in Kinds
    /\ Cardinality({e.p : e \in SeqToSet(Trace[l].tree)}) = Len(Trace[l].tree)
    /\ kind' = Trace[l].kind
    /\ tree' = LoggedTree(Trace[l])
    /\ dflt' = Trace[l].dflt
    /\ last' = NoReply

TraceLookup ==
    /\ IsEvent("Lookup")
    /\ Trace[l].kind = kind
    /\ Lookup(Trace[l].path)
    /\ last'.value = Trace[l].got

TraceNext == TraceReset \/ TraceLookup

TraceSpec == TraceInit /\ [][TraceNext]_tvars

HWM == UpdateHWM(l)
TraceAccepted == TraceAcceptedUpTo
=============================================================================
