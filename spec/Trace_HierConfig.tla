-------------------------- MODULE Trace_HierConfig --------------------------
(* Trace specification for C19: a trace recorded from the real util functions (with the tree      *)
(* loaded into viper from a configuration file, the environment, explicit settings or defaults)   *)
(* is a behaviour of HierConfig.  Reset lines carry the kind, the tree the driver loaded          *)
(* (concrete component names, canonical value strings, EmptyVal for written-down non-values) and  *)
(* the value of the setting when nothing is configured; Lookup lines carry the path and what the  *)
(* real function returned, in the same canonical form.  SetAt / Unset / Reconfigure lines are     *)
(* configuration changes made in the SAME process (no restart): they carry the action's arguments *)
(* and the complete tree the driver believes to be in force afterwards, which must be the tree    *)
(* the specification arrives at; every later Lookup line is judged against that tree.             *)
EXTENDS HierConfig, TraceLib

VARIABLE l
tvars == <<vars, l>>

TraceInit ==
    /\ l = 1
    /\ kind = "none"
    /\ tree = NoTree
    /\ dflt = Default
    /\ last = NoReply
    /\ InitHWM

IsEvent(e) == l <= TraceLen /\ Trace[l].ev = e /\ l' = l + 1

LoggedTree(line) ==
    LET es == SeqToSet(line.tree)
    IN  [q \in {e.p : e \in es} |-> (CHOOSE e \in es : e.p = q).v]

TraceReset ==
    /\ IsEvent("Reset")
    /\ Trace[l].kind \in Kinds
    /\ Cardinality({e.p : e \in SeqToSet(Trace[l].tree)}) = Len(Trace[l].tree)
    /\ kind' = Trace[l].kind
    /\ tree' = LoggedTree(Trace[l])
    /\ dflt' = Trace[l].dflt
    /\ last' = NoReply

TraceLookup ==
    /\ IsEvent("Lookup")
    /\ Trace[l].kind = kind
    /\ Lookup(Trace[l].path)
    /\ last'.value = Trace[l].got

UniquePoints(line) == Cardinality({e.p : e \in SeqToSet(line.tree)}) = Len(line.tree)

TraceSetAt ==
    /\ IsEvent("SetAt")
    /\ Trace[l].kind = kind
    /\ SetAt(Trace[l].path, Trace[l].v)
    /\ UniquePoints(Trace[l])
    /\ tree' = LoggedTree(Trace[l])
    /\ dflt' = Trace[l].dflt

TraceUnset ==
    /\ IsEvent("Unset")
    /\ Trace[l].kind = kind
    /\ Unset(Trace[l].path)
    /\ UniquePoints(Trace[l])
    /\ tree' = LoggedTree(Trace[l])
    /\ dflt' = Trace[l].dflt

TraceReconfigure ==
    /\ IsEvent("Reconfigure")
    /\ Trace[l].kind = kind
    /\ UniquePoints(Trace[l])
    /\ Reconfigure(LoggedTree(Trace[l]), Trace[l].dflt)

TraceNext == TraceReset \/ TraceLookup \/ TraceSetAt \/ TraceUnset \/ TraceReconfigure

TraceSpec == TraceInit /\ [][TraceNext]_tvars

HWM == UpdateHWM(l)
TraceAccepted == TraceAcceptedUpTo
=============================================================================
