--------------------------- MODULE CollectorLookup ---------------------------
(* The strategies that CONSULT THE BLOCK-ROOT CACHE, with the cache and its header provider on   *)
(* the path (C07 draws the boundary at "what the strategy returns and when", not at the end of   *)
(* the strategy's file).  main.go wires:                                                         *)
(*     strategy -> services/cache/standard BlockRootToSlot -> header provider (beaconblockheader *)
(*     'first' over the beacon nodes by default, or the client itself) -> beacon nodes           *)
(* and four strategies consult the cache:                                                        *)
(*     attestationdata/best, beaconblockroot/latest   in the provider goroutine, BEFORE the      *)
(*                                                     response is handed to the collector       *)
(*                                                     (the score needs the head's slot)         *)
(*     attestationdata/majority, beaconblockroot/majority   in the collector, AFTER the loops,   *)
(*                                                     once per tallied root (tie-break)         *)
(* Collector.tla treats the score as an oracle; here the lookup is a SUB-CALL WITH DURATION:     *)
(* per root the cache knows it (hit: no time), or the header is fetched: the answer comes within *)
(* the phase (ok0), one phase later (ok1), the fetch fails at once (fail: the client says so),   *)
(* or nothing comes back before the caller's context ends (never).                               *)
(*                                                                                              *)
(* C07's clauses are about the responses "received by the decision point" and about the hard     *)
(* time-out; with the cache on the path they read:                                               *)
(*   - a node's response is AVAILABLE to the collector when the node has answered and the lookup *)
(*     of ITS OWN root has taken ITS OWN header's time: ph[p] = Eff(nph[p], hdr[rt[p]]) - set by *)
(*     Answer(p) from the cache's content at that moment; what other lookups are in progress     *)
(*     (another root's slow header) plays no part;                                               *)
(*   - every invariant of Collector.tla (BestIsMax, ErrorIffNothing, MajorityRule, ReturnsByHard *)
(*     ...) holds with "in time" meaning that availability;                                      *)
(*   - a lookup made by the collector (tie-break) is bounded by the hard time-out like any other *)
(*     wait of the collector (NotOverdue).                                                       *)
(* Left open: whether a majority strategy waits for a tie-break lookup at all (it may give up at *)
(* any moment; the property says nothing about the head slot), the order of the lookups.         *)
(*                                                                                              *)
(* Deviations (constant Dev; control models that TLC must reject - vacuity self-check):          *)
(*   "GlobalFetchLock"    the cache fetches a missing header under ONE service-wide lock held    *)
(*                        across the fetch and taken without regard to the caller's context      *)
(*                        (seeded/C07-cache-miss-global-mutex-blocks-best): the lookup of a      *)
(*                        prompt root waits for another root's slow fetch;                       *)
(*   "UnboundedTiebreak"  the collector's tie-break lookups run under the CALLER's context, not  *)
(*                        under the strategy's hard time-out.                                    *)
EXTENDS Collector

CONSTANTS Roots,       \* block roots (positive integers); for the majority variants the root IS the value
          Dev,         \* "none" | "GlobalFetchLock" | "UnboundedTiebreak"
          Tolerant     \* FALSE: a fetch ends exactly in the phase Eff says (model checking); TRUE: in that phase or
                       \* any other from the current one on - trace validation, where the instant at which the
                       \* lookup's own duration has passed is classified before / ambiguous / after the deadlines like
                       \* every other instant (a fetch cut by the context ends AT the hard deadline: ambiguous)

VARIABLES nph,         \* nph[p]: the phase in which node p answers (ph[p]: in which its response is available)
          rt,          \* rt[p]: the head root node p reports
          hdr,         \* hdr[r]: what a header fetch for root r does: "ok0" | "ok1" | "fail" | "never"
          fs,          \* fs[p]: the score of p's response without the head's slot (the lookup failed): <= beh[p].s
          cached,      \* the cache's content (state of the cache service: survives the call)
          lk,          \* lk[p]: provider p's lookup: "idle" | "wait" (for the fetch lock) | "fetch" | "ready"
          fdue,        \* fdue[p]: the phase in which p's fetch really ends
          holder,      \* Dev = "GlobalFetchLock": who holds the fetch lock (0: nobody)
          tb,          \* the collector's tie-break: "no" | "run" | "fin"
          pend,        \* roots the collector still has to look up
          tcur, tdue,  \* the lookup the collector is blocked in (0: none) and the phase in which it ends
          over         \* history: the hard time-out has passed with the collector blocked

lonly == <<nph, rt, hdr, fs, cached, lk, fdue, holder, tb, pend, tcur, tdue, over>>
lvars == <<vars, lonly>>

HdrKinds == {"ok0", "ok1", "fail", "never"}
Nx(f) == CASE f = "early" -> "mid" [] f = "mid" -> "late" [] OTHER -> "late"
\* when a fetch started in phase f for a root with header behaviour h ends (never: with the context)
Eff(f, h) == CASE h = "ok1" -> Nx(f) [] h = "never" -> "late" [] OTHER -> f
FetchOk(r) == hdr[r] \in {"ok0", "ok1"}
PhNo(f) == CASE f = "early" -> 1 [] f = "mid" -> 2 [] OTHER -> 3
EffSet(f, h) == IF Tolerant THEN {g \in {"early", "mid", "late"} : PhNo(g) >= PhNo(f)} ELSE {Eff(f, h)}

ProvLookup == variant = "Best"                       \* the lookup is made in the provider goroutine
CollLookup == variant \in {"Majority", "RootMajority"}  \* ... by the collector, after the loops
Scored(p) == ProvLookup /\ beh[p].k = "valid"          \* only a response that passed the validity rules is scored

-----------------------------------------------------------------------------
\* what is mandatory for the collector (it does it without waiting for anything)
LMandatory ==
    \/ tb = "no" /\ MandatoryEnabled
    \/ tb = "run" /\ (tcur = 0 \/ (clock = "late" /\ Dev # "UnboundedTiebreak"))
    \/ tb = "fin" /\ pc # "done"
LQuiescent == ~LMandatory

\* the phase in which provider p will really hand over (none: it is blocked on the fetch lock)
ADue(p) ==
    IF ~Scored(p) THEN ph[p]
    ELSE CASE lk[p] = "idle" -> nph[p]
           [] lk[p] = "fetch" -> fdue[p]
           [] lk[p] = "ready" -> clock
           [] OTHER -> IF holder = 0 THEN clock ELSE "none"

LNoneDue(f) ==
    /\ \A p \in Provs : ~(pst[p] = "idle" /\ beh[p].k # "silent" /\ ADue(p) = f)
    /\ ~(tcur # 0 /\ tdue = f)

-----------------------------------------------------------------------------
\* the provider goroutine: node answer, lookup of the head root, hand-over

\* node p answers; its goroutine looks the head root up.  ph[p] becomes the phase in which the response is
\* available by the lookup's OWN duration; a failed lookup leaves the response with the base score.
Answer(p) ==
    /\ Scored(p) /\ pst[p] = "idle" /\ lk[p] = "idle" /\ nph[p] = clock /\ LQuiescent
    /\ IF rt[p] \in cached
       THEN lk' = [lk EXCEPT ![p] = "ready"] /\ UNCHANGED <<ph, beh, fdue, holder>>
       ELSE /\ \E f \in EffSet(clock, hdr[rt[p]]) :
                  /\ ph' = [ph EXCEPT ![p] = f]
                  /\ IF Dev = "GlobalFetchLock" /\ holder # 0
                     THEN lk' = [lk EXCEPT ![p] = "wait"] /\ UNCHANGED <<fdue, holder>>
                     ELSE /\ lk' = [lk EXCEPT ![p] = "fetch"]
                          /\ fdue' = [fdue EXCEPT ![p] = f]
                          /\ holder' = IF Dev = "GlobalFetchLock" THEN p ELSE holder
            /\ beh' = [beh EXCEPT ![p].s = IF FetchOk(rt[p]) THEN @ ELSE fs[p]]
    /\ UNCHANGED <<variant, n, thr, cap, clock, pst, respCh, errCh, pc, responded, errored, timedOut, softTimedOut,
                   best, counts, rcvd, hardSel, steps, result, nph, rt, hdr, fs, cached, tb, pend, tcur, tdue, over>>

\* (deviation) the lock is free: the waiting goroutine takes it, checks the map again and fetches
Acquire(p) ==
    /\ lk[p] = "wait" /\ holder = 0
    /\ IF rt[p] \in cached
       THEN lk' = [lk EXCEPT ![p] = "ready"] /\ UNCHANGED <<fdue, holder>>
       ELSE /\ lk' = [lk EXCEPT ![p] = "fetch"]
            /\ fdue' = [fdue EXCEPT ![p] = Eff(clock, hdr[rt[p]])]
            /\ holder' = p
    /\ UNCHANGED <<vars, nph, rt, hdr, fs, cached, tb, pend, tcur, tdue, over>>

\* the header comes back (or the fetch fails / ends with the context): the cache learns the root
FetchDone(p) ==
    /\ lk[p] = "fetch" /\ fdue[p] = clock /\ LQuiescent
    /\ lk' = [lk EXCEPT ![p] = "ready"]
    /\ cached' = IF FetchOk(rt[p]) THEN cached \cup {rt[p]} ELSE cached
    /\ holder' = IF holder = p THEN 0 ELSE holder
    /\ UNCHANGED <<vars, nph, rt, hdr, fs, fdue, tb, pend, tcur, tdue, over>>

LRespond(p) ==
    /\ LQuiescent
    /\ IF Scored(p) THEN pst[p] = "idle" /\ lk[p] = "ready" ELSE Due(p)
    /\ Send(p)
    /\ UNCHANGED lonly

LSoftExpire ==
    /\ pc # "idle" /\ clock = "early" /\ LQuiescent /\ LNoneDue("early")
    /\ clock' = "mid"
    /\ UNCHANGED <<variant, n, thr, cap, beh, ph, pst, respCh, errCh, pc, responded, errored, timedOut, softTimedOut,
                   best, counts, rcvd, hardSel, steps, result, lonly>>

LHardExpire ==
    /\ pc # "idle" /\ clock = "mid" /\ LQuiescent /\ LNoneDue("mid")
    /\ clock' = "late"
    /\ UNCHANGED <<variant, n, thr, cap, beh, ph, pst, respCh, errCh, pc, responded, errored, timedOut, softTimedOut,
                   best, counts, rcvd, hardSel, steps, result, lonly>>

\* the hard time-out has passed and the collector is still blocked
Overdue ==
    /\ clock = "late" /\ pc \in {"loop1", "loop2"} /\ LQuiescent /\ ~over
    /\ over' = TRUE
    /\ UNCHANGED <<vars, nph, rt, hdr, fs, cached, lk, fdue, holder, tb, pend, tcur, tdue>>

-----------------------------------------------------------------------------
\* the collector's tie-break lookups (after the loops, one tallied root after the other)

Tallied == {r \in Roots : r \in Values /\ counts[r] > 0}

TbStart ==
    /\ CollLookup /\ tb = "no" /\ ReturnEnabled
    /\ tb' = "run" /\ pend' = Tallied
    /\ UNCHANGED <<vars, nph, rt, hdr, fs, cached, lk, fdue, holder, tcur, tdue, over>>

TbHit(r) ==
    /\ tb = "run" /\ tcur = 0 /\ r \in pend /\ r \in cached
    /\ pend' = pend \ {r}
    /\ UNCHANGED <<vars, nph, rt, hdr, fs, cached, lk, fdue, holder, tb, tcur, tdue, over>>

TbFetch(r) ==
    /\ tb = "run" /\ tcur = 0 /\ r \in pend /\ r \notin cached
    /\ ~(clock = "late" /\ Dev # "UnboundedTiebreak")       \* (the context has ended: TbHard)
    /\ tcur' = r /\ tdue' = Eff(clock, hdr[r])
    /\ UNCHANGED <<vars, nph, rt, hdr, fs, cached, lk, fdue, holder, tb, pend, over>>

\* "never" ends with the context the lookup was made under: the hard time-out (TbHard) - or, deviation, not at all
TbDone ==
    /\ tb = "run" /\ tcur # 0 /\ tdue = clock /\ hdr[tcur] # "never"
    /\ pend' = pend \ {tcur} /\ tcur' = 0
    /\ cached' = IF FetchOk(tcur) THEN cached \cup {tcur} ELSE cached
    /\ UNCHANGED <<vars, nph, rt, hdr, fs, lk, fdue, holder, tb, tdue, over>>

\* the hard time-out ends every lookup still to be made
TbHard ==
    /\ tb = "run" /\ clock = "late" /\ Dev # "UnboundedTiebreak"
    /\ pend' = {} /\ tcur' = 0 /\ tb' = "fin"
    /\ UNCHANGED <<vars, nph, rt, hdr, fs, cached, lk, fdue, holder, tdue, over>>

\* the property does not oblige a majority strategy to wait for the head slot
TbGiveUp ==
    /\ tb = "run" /\ tcur # 0 /\ Dev # "UnboundedTiebreak"
    /\ pend' = {} /\ tcur' = 0 /\ tb' = "fin"
    /\ UNCHANGED <<vars, nph, rt, hdr, fs, cached, lk, fdue, holder, tdue, over>>

TbFin ==
    /\ tb = "run" /\ tcur = 0 /\ pend = {}
    /\ tb' = "fin"
    /\ UNCHANGED <<vars, nph, rt, hdr, fs, cached, lk, fdue, holder, pend, tcur, tdue, over>>

LReturn == (CollLookup => tb = "fin") /\ Return /\ UNCHANGED lonly

Loop(A) == tb = "no" /\ A /\ UNCHANGED lonly

LFinished == Finished /\ \A p \in Provs : lk[p] \in {"idle", "ready"}
LTerminated == LFinished /\ UNCHANGED lvars

-----------------------------------------------------------------------------
Used == {rt[p] : p \in {q \in Provs : beh[q].k = "valid"}}

InitLookup ==
    /\ lk = [p \in Provs |-> "idle"]
    /\ fdue = [p \in Provs |-> "late"]
    /\ holder = 0
    /\ tb = "no" /\ pend = {} /\ tcur = 0 /\ tdue = "late"
    /\ over = FALSE

LInit ==
    /\ Init
    /\ nph = ph
    /\ rt \in [Provs -> Roots]
    \* for the majority variants the value is (determined by) the root; a response without content reports none
    /\ \A p \in Provs : IF beh[p].k # "valid" THEN rt[p] = 1
                        ELSE (CollLookup => rt[p] = beh[p].v)
    /\ hdr \in [Roots -> HdrKinds]
    /\ fs \in [Provs -> Scores]
    /\ cached \in SUBSET Roots
    /\ \A p \in Provs : /\ fs[p] <= beh[p].s
                        /\ ~(Scored(p) /\ rt[p] \notin cached /\ ~FetchOk(rt[p])) => fs[p] = beh[p].s
    \* what cannot matter is fixed: a root nobody reports, the header of a root the cache knows
    /\ \A r \in Roots : (r \notin Used \/ r \in cached) => hdr[r] = "ok0"
    /\ \A r \in Roots : r \notin Used => r \notin cached
    /\ InitLookup

LNext ==
    \/ \E p \in Provs : Answer(p) \/ Acquire(p) \/ FetchDone(p) \/ LRespond(p)
    \/ \E p \in Provs : Loop(RecvResp(p)) \/ Loop(RecvErr(p))
    \/ Loop(SelectSoft) \/ Loop(SelectHard) \/ Loop(ExitLoop1)
    \/ TbStart \/ TbFin \/ TbHard \/ TbGiveUp \/ TbDone
    \/ \E r \in Roots : TbHit(r) \/ TbFetch(r)
    \/ LReturn
    \/ LSoftExpire \/ LHardExpire \/ Overdue
    \/ LTerminated

LSpec == LInit /\ [][LNext]_lvars /\ WF_lvars(LNext)

-----------------------------------------------------------------------------
Phases3 == {"early", "mid", "late"}

LTypeOK ==
    /\ TypeOK
    /\ nph \in [Provs -> Phases3] /\ rt \in [Provs -> Roots] /\ hdr \in [Roots -> HdrKinds]
    /\ fs \in [Provs -> Scores] /\ cached \subseteq Roots
    /\ lk \in [Provs -> {"idle", "wait", "fetch", "ready"}] /\ fdue \in [Provs -> Phases3]
    /\ holder \in 0..n
    /\ tb \in {"no", "run", "fin"} /\ pend \subseteq Roots /\ tcur \in {0} \cup Roots /\ tdue \in Phases3
    /\ (tb # "no") => CollLookup /\ pc \in {"loop2", "done"}

\* C07 "returns within its configured timeout", with the collector's own lookups on the path
NotOverdue == ~over

\* "a lookup that blocks must not keep another response from the decision point": a fetch takes its own
\* header's time (the phase in which the response is really handed over is the phase it is available in)
LookupOwnTime == \A p \in Provs : lk[p] = "fetch" => fdue[p] = ph[p]

\* the cache learns only what a header said
CacheSound == \A r \in cached : r \in Roots

LTermination == <>(pc = "done")
=============================================================================
