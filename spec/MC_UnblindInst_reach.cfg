SPECIFICATION ISpec
CONSTANTS
  MaxN = 2
  Kinds = {"first", "unblind"}
  CapOne = FALSE
  AllFailedReturns = TRUE
  Retries = 2
  MaxCalls = 2
  Carry = "none"
INVARIANTS NeverSecondCall
CHECK_DEADLOCK FALSE
