SPECIFICATION Spec
CONSTANTS
  Variants = {"best", "deadline"}
  Relays = {1, 2}
  Values = {0, 1, 2}
  CfgSet <- MCCfgPair
  BuilderSet = {"std", "excl"}
  AnswerSet <- MCAnswersClean
  Headers = {1}
  MaxRounds = 1
  Keys = {1, 2, 3}
  MaxAuctions = 2
INVARIANTS TypeOK WinnerIsArgmax OnlyEligibleWin ProvidersOfferedWinner NoWinnerIffNone ParticipationSound ArrivedConsidered CacheRight ServedRight
