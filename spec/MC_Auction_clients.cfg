SPECIFICATION Spec
CONSTANTS
  Variants = {"best", "deadline"}
  Relays = {1, 2}
  FetchSet <- MCFetchFirst
  Values = {1, 2}
  CfgSet <- MCCfgClients
  TableSet = {"A"}
  BuilderSet = {"std"}
  AnswerSet <- MCAnswersClients
  Headers = {1}
  MaxRounds = 1
  Keys = {1, 2, 3}
  MaxAuctions = 2
  MaxOpen = 1
  Deviation = "none"
INVARIANTS TypeOK ClientOfAddress WinnerIsArgmax OnlyEligibleWin ProvidersOfferedWinner NoWinnerIffNone ParticipationSound ArrivedConsidered CacheRight ServedRight HistoryShape
ACTION_CONSTRAINT KeysInOrder
