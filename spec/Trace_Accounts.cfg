SPECIFICATION TraceSpec
CONSTANTS
  Alphabet = {"a", "b"}
  Classes <- AB
  MaxNameLen = 3
  FFE = 99
INVARIANTS OnlyConfigured ExactlyActive NoStrangers RightIndex
PROPERTY TraceNeverWiped
CONSTRAINT HWM
POSTCONDITION TraceAccepted
CHECK_DEADLOCK FALSE
