SPECIFICATION Spec
CONSTANTS
  DutySlots = {9}
  Validators = {2}
  SlotsPerEpoch = 4
  Relays = {1}
  AllChoices = {{}}
  Versions = {"deneb"}
  Blindable = {"deneb"}
  Outcomes = {"full"}
  Dslots <- JustDslot
  MaxCalls = 1
  NDuties = 2
  SlotGaps = {1}
  MaxOpen = 2
  MaxInFlight = 2
  InitCfgs <- WiredOneCfgs
  LaterAllChoices = {{}}
  LaterVersions = {"deneb"}
  LaterOutcomes = {"full"}
  LaterDslots = {0}
INVARIANTS TypeOK OnlyDutySigner SignedIsSelected SubmittedIntact NothingWithoutUnblind DegradesNotSkips CompletesDuty HistoryIndependent
CHECK_DEADLOCK TRUE
