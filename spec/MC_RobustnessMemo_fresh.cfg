SPECIFICATION MSpec
CONSTANTS
  EPs = {"builderbid", "execservice"}
  Designs = {"nilmemo", "poison", "lock", "shared"}
  MaxCalls = 1
  MaxInFlight = 1
INVARIANTS TypeOK KeepsRunning EndsProperly HistoryIndependent BoundedOverlap MTotal

CHECK_DEADLOCK FALSE
