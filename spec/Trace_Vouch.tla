----------------------------- MODULE Trace_Vouch -----------------------------
(* Trace specification of the composition: a trace recorded from the REAL controller on the REAL *)
(* scheduler with the REAL attester (overlay/services/controller/standard/zz_verif_vouch_test.go) *)
(* is a behaviour of Vouch.tla.                                                                  *)
(*                                                                                              *)
(* Logged (one line each, written under one lock together with the call it reports):            *)
(*   Head, Reorg, Fetch, Tick, PrepStart, Exists, Sched, Cancel, Run, JobStart, Sign, JobEnd,    *)
(*   Probe, Has, Clock.                                                                          *)
(* Silent (TLC searches where they fall, depth-first): the clock; the handler of a head event    *)
(* (HeadCheck: the Head line is written BEFORE the handler is called); the clock reads of        *)
(* scheduleAttestations (SchedFilter, which also notes the slots as pending) and of the refresh  *)
(* (RefDecide); the removal of pending notes (RefUnmark, BodyUnmark); the timer branch of a job  *)
(* goroutine (TimerFire, TimerRemove) and of the prepare-for-epoch job (PrepTake); the marking   *)
(* loop (MarkOne); a job body that fails before it reaches the signer.                           *)
(*                                                                                              *)
(* Time.  Every line carries hh = the half slot (2*slot + phase) of the wall clock when it was   *)
(* written; the action it reports happened no later, so the specification's clock is at most hh  *)
(* when the line is consumed.  A Clock line is written by the driver after half slot h has      *)
(* begun: from then on the clock is at least h.  Within these bounds TLC chooses the clock       *)
(* (which side of a slot boundary a clock read of the code fell on is never judged from wall-    *)
(* clock distances).  No lateness bound is imposed: a stalled machine shows as envViol (a job    *)
(* started outside EnvWindow), and at-most-once signing is then not promised (NoDoubleSignEnv).  *)
EXTENDS Vouch, TraceLib

VARIABLES l,
          ptaken,     \* epochs whose prepare-for-epoch job has left the table and not yet begun its function
          armed       \* the clock has just been moved for the step that reads it next
tvars == <<vars, l, ptaken, armed>>

Line == Trace[l]
IsEvent(e) == l <= TraceLen /\ Line.ev = e /\ l' = l + 1 /\ ~armed /\ armed' = FALSE
HalfNow == 2 * now + phase
InTime == HalfNow <= Line.hh
Silent == l' = l /\ ~armed /\ armed' = FALSE
SetOf(s) == SeqToSet(s)

\* the duty table of the Reset line as an oracle (partial: what is not listed has no duties)
OracleOf(ds) ==
    [k \in {<<d.e, d.w>> : d \in SetOf(ds)} |->
        [v \in Validators |-> LET S == {d \in SetOf(ds) : d.e = k[1] /\ d.w = k[2] /\ d.v = v}
                              IN IF S = {} THEN 0 ELSE (CHOOSE d \in S : TRUE).slot - First(k[1])]]
KnownDuties(e, w) == IF <<e, w>> \in DOMAIN oracle THEN DutiesOf(e, w) ELSE {}
LoggedDuties(ds) == {[slot |-> d.slot, vals |-> SetOf(d.vals)] : d \in SetOf(ds)}

ResetTo(start, f, orc) ==
    /\ now' = start /\ phase' = 1
    /\ ft' = f
    /\ oracle' = orc
    /\ ver' = [e \in 0..MaxEpoch |-> 0]
    /\ seen' = [e |-> 0, pv |-> 0, cv |-> 0]
    /\ tasks' = Spawn({}, <<[Task("sched", Epoch(start), "fetch") EXCEPT !.nc = TRUE],
                            [Task("sched", Epoch(start) + 1, "fetch") EXCEPT !.nc = TRUE]>>)
    /\ prep' = {} /\ ticked' = Epoch(start)
    /\ table' = Empty /\ jobs' = [id \in Ids |-> FreeJob] /\ nextId' = 1
    /\ pending' = {} /\ attested' = {}
    /\ signReq' = {} /\ runs' = {} /\ horizon' = 0 /\ envViol' = FALSE
    /\ nReorg' = 0 /\ nHeads' = 0 /\ nSlow' = 0 /\ nLate' = 0 /\ nCarry' = 0
    /\ ptaken' = {}

TraceInit ==
    /\ l = 1
    /\ now = 0 /\ phase = 1 /\ ft = FALSE /\ oracle = Empty
    /\ ver = [e \in 0..MaxEpoch |-> 0]
    /\ seen = [e |-> 0, pv |-> 0, cv |-> 0]
    /\ tasks = {} /\ prep = {} /\ ticked = 0
    /\ table = Empty /\ jobs = [id \in Ids |-> FreeJob] /\ nextId = 1
    /\ pending = {} /\ attested = {}
    /\ signReq = {} /\ runs = {} /\ horizon = 0 /\ envViol = FALSE
    /\ nReorg = 0 /\ nHeads = 0 /\ nSlow = 0 /\ nLate = 0 /\ nCarry = 0
    /\ ptaken = {} /\ armed = FALSE
    /\ InitHWM

TraceReset ==
    /\ IsEvent("Reset")
    /\ Line.p = P /\ SetOf(Line.vals) = Validators
    /\ ResetTo(Line.start, Line.ft, OracleOf(Line.duties))

-----------------------------------------------------------------------------
(* the clock *)
ClockVars == <<ft, oracle, ver, seen, tasks, prep, ticked, table, jobs, nextId, pending, attested, signReq, runs,
               horizon, envViol, nReorg, nHeads, nSlow, nLate, nCarry, ptaken>>
(* The clock moves only where it matters: to the half slot a Clock line reports, or right before *)
(* a step that reads it (armed: the next step is such a reader) - and never beyond what the next  *)
(* line allows.  A clock that otherwise lags loses nothing: every other guard on it is an upper   *)
(* bound.                                                                                        *)
ClockTo(c) == now' = c \div 2 /\ phase' = c % 2
TraceJump ==
    /\ l' = l /\ ~armed /\ armed' = TRUE
    /\ l <= TraceLen
    /\ \E c \in (HalfNow + 1)..Line.hh : c \div 2 <= MaxSlot /\ ClockTo(c)
    /\ UNCHANGED ClockVars
TraceClock ==
    /\ IsEvent("Clock")
    /\ ClockTo(IF HalfNow >= Line.h THEN HalfNow ELSE Line.h)
    /\ UNCHANGED ClockVars

-----------------------------------------------------------------------------
(* environment *)
TraceHead ==
    /\ IsEvent("Head")
    /\ tasks' = Spawn(tasks, <<[Task("head", Line.slot, "check") EXCEPT !.pv = Line.pv, !.cv = Line.cv, !.pos = Line.n]>>)
    /\ Line.pv = ver[Epoch(Line.slot)] /\ Line.cv = ver[Epoch(Line.slot) + 1]
    /\ UNCHANGED <<now, phase, ft, oracle, ver, seen, prep, ticked, table, jobs, nextId, pending, attested, signReq, runs,
                   horizon, envViol, nReorg, nHeads, nSlow, nLate, nCarry, ptaken>>

\* the handler of head event n has returned
TraceHeadDone ==
    /\ IsEvent("HeadDone")
    /\ ~\E t \in tasks : t.k = "head" /\ t.pos = Line.n
    /\ UNCHANGED vars /\ UNCHANGED ptaken

TraceReorg ==
    /\ IsEvent("Reorg")
    /\ ver' = [ver EXCEPT ![Line.e] = @ + 1]
    /\ UNCHANGED <<now, phase, ft, oracle, seen, tasks, prep, ticked, table, jobs, nextId, pending, attested, signReq, runs,
                   horizon, envViol, nReorg, nHeads, nSlow, nLate, nCarry, ptaken>>

-----------------------------------------------------------------------------
(* controller *)
NoSched == UNCHANGED <<table, jobs, nextId>>

\* ScheduleJob("Prepare for epoch e") by the epoch ticker
TraceTick ==
    /\ IsEvent("Tick") /\ InTime
    /\ IF Line.ok THEN prep' = prep \cup {Line.e} /\ ticked' = Max(ticked, Line.e - 1)
                  ELSE UNCHANGED <<prep, ticked>>
    /\ UNCHANGED <<now, phase, ft, oracle, ver, seen, tasks, table, jobs, nextId, pending, attested, signReq, runs,
                   horizon, envViol, nReorg, nHeads, nSlow, nLate, nCarry, ptaken>>

\* the timer branch of that job takes it out of the table ...
TracePrepTake ==
    /\ Silent
    /\ \E e \in prep : prep' = prep \ {e} /\ ptaken' = ptaken \cup {e}
    /\ UNCHANGED <<now, phase, ft, oracle, ver, seen, tasks, ticked, table, jobs, nextId, pending, attested, signReq, runs,
                   horizon, envViol, nReorg, nHeads, nSlow, nLate, nCarry>>

\* ... and its function begins: scheduleAttestations(e, notCurrentSlot = false)
TracePrepStart ==
    /\ IsEvent("PrepStart") /\ InTime
    /\ Line.e \in ptaken
    /\ ptaken' = ptaken \ {Line.e}
    /\ tasks' = Spawn(tasks, <<Task("sched", Line.e, "fetch")>>)
    /\ UNCHANGED <<now, phase, ft, oracle, ver, seen, prep, ticked, table, jobs, nextId, pending, attested, signReq, runs,
                   horizon, envViol, nReorg, nHeads, nSlow, nLate, nCarry>>

(* JobExists.  kind prep: the first call of refreshAttesterDutiesForEpoch (the epoch was read    *)
(* from the clock just before: this slot's epoch, or the one before if the line was written      *)
(* across an epoch boundary).  kind att: the fast track.                                         *)
TraceExists ==
    /\ IsEvent("Exists") /\ InTime
    /\ \/ /\ Line.k = "prep"
          /\ \E t \in tasks :
                /\ t.k = "ref" /\ t.st = "begin"
                /\ Line.n - (IF t.nc THEN 1 ELSE 0) \in {Epoch(now), Epoch(now) - 1}
                /\ Line.res = (Line.n \in prep)
                /\ Swap(t, IF Line.res THEN {}
                           ELSE {[t EXCEPT !.key = Line.n, !.st = "cancel", !.pos = First(Line.n), !.nc = FALSE]})
          /\ UNCHANGED <<seen, table, jobs, nextId, pending>> /\ TaskFrame
       \/ /\ Line.k = "att"
          /\ \E t \in tasks : t.key = Line.n /\ Line.res = (Line.n \in DOMAIN table) /\ FtCheck(t)
    /\ UNCHANGED ptaken

TraceRun ==
    /\ IsEvent("Run") /\ InTime
    /\ \E t \in tasks : t.key = Line.slot /\ FtRun(t)
    /\ UNCHANGED ptaken

TraceCancel ==
    /\ IsEvent("Cancel") /\ InTime
    /\ \E t \in tasks : t.k = "ref" /\ t.pos = Line.slot /\ Line.ok = (Line.slot \in DOMAIN table) /\ RefCancel(t)
    /\ UNCHANGED ptaken

\* AttesterDuties(e) answered at the version in force (the reply is what the duty table says)
TraceFetch ==
    /\ IsEvent("Fetch") /\ InTime
    /\ Line.ver = ver[Line.e]
    /\ LoggedDuties(Line.duties) = KnownDuties(Line.e, Line.ver)
    /\ \E t \in tasks :
        /\ t.k = "sched" /\ t.st = "fetch" /\ t.key = Line.e
        /\ Swap(t, {[t EXCEPT !.st = "filter", !.ver = Line.ver, !.duties = LoggedDuties(Line.duties)]})
    /\ UNCHANGED <<seen, table, jobs, nextId, pending>> /\ TaskFrame
    /\ UNCHANGED ptaken

TraceSched ==
    /\ IsEvent("Sched") /\ InTime
    /\ Line.ok = (Line.slot \notin DOMAIN table)
    /\ Line.ok => Line.id = nextId
    /\ \E t \in tasks : t.k = "sched" /\ t.st = "sched" /\ \E d \in t.duties : d.slot = Line.slot /\ SchedOne(t, d)
    /\ UNCHANGED ptaken

-----------------------------------------------------------------------------
(* jobs *)
TraceJobStart ==
    /\ IsEvent("JobStart") /\ InTime
    /\ Line.id \in Ids /\ jobs[Line.id].slot = Line.slot
    /\ BodyStart(Line.id)
    /\ UNCHANGED ptaken

\* the signer is asked: exactly for the validators the run has claimed
TraceSign ==
    /\ IsEvent("Sign") /\ InTime
    /\ \E id \in Ids :
        /\ jobs[id].st = "body" /\ jobs[id].slot = Line.slot
        /\ SetOf(Line.vals) = jobs[id].claimed
        /\ Line.e = Epoch(Line.slot) /\ Line.tgt = Epoch(Line.slot)
        /\ BodySign(id, TRUE)
    /\ UNCHANGED ptaken

\* the job function has returned; the attester's map still has every epoch the specification keeps
TraceJobEnd ==
    /\ IsEvent("JobEnd") /\ InTime
    /\ Line.id \in Ids /\ jobs[Line.id].slot = Line.slot
    /\ {p[1] : p \in attested} \subseteq SetOf(Line.att)
    /\ BodyEnd(Line.id)
    /\ UNCHANGED ptaken

\* a remark of the driver (directed schedules: a job goroutine held / released)
TraceNote == IsEvent("Note") /\ UNCHANGED vars /\ UNCHANGED ptaken

\* a copy of pendingAttestations / the answer of HasPendingAttestations
TraceProbe == IsEvent("Probe") /\ InTime /\ SetOf(Line.pend) = pending /\ UNCHANGED vars /\ UNCHANGED ptaken
TraceHas == IsEvent("Has") /\ InTime /\ Line.has = (Line.s \in pending) /\ UNCHANGED vars /\ UNCHANGED ptaken

-----------------------------------------------------------------------------
\* steps that read the clock (alone after a jump of the clock)
TraceReader ==
    /\ l' = l /\ armed' = FALSE /\ UNCHANGED ptaken
    /\ \/ \E t \in tasks : HeadCheck(t) \/ RefDecide(t) \/ SchedFilter(t)
       \/ \E id \in Ids : TimerFire(id)
TraceSilent ==
    /\ Silent /\ UNCHANGED ptaken
    /\ \/ \E t \in tasks : RefUnmark(t)
       \/ \E id \in Ids : \/ TimerRemove(id) \/ XRemove(id)
                          \/ MarkOne(id) \/ BodyUnmark(id)
                          \/ (Failures /\ BodySign(id, FALSE))

TraceNext ==
    \/ TraceReset
    \/ TraceHead \/ TraceReorg \/ TraceClock
    \/ TraceTick \/ TracePrepStart \/ TraceExists \/ TraceRun \/ TraceCancel \/ TraceFetch \/ TraceSched
    \/ TraceJobStart \/ TraceSign \/ TraceJobEnd \/ TraceProbe \/ TraceHas
    \/ TraceHeadDone \/ TraceNote
    \/ TraceJump \/ TraceReader \/ TracePrepTake \/ TraceSilent

TraceSpec == TraceInit /\ [][TraceNext]_tvars

\* S1 at system level: promised while the environment kept EnvWindow (a run that starts two epochs late
\* on a stalled machine is outside what the attester is specified for: Attester.tla, EnvWindow)
NoDoubleSignEnv == envViol \/ NoDoubleSign

(* S3 / S4 on traces are judged as they stand (SlotOnce, CancelledNeverRuns, PendingExact).  The  *)
(* configuration keeps CancelRace = TRUE only as the envelope that EXPLAINS a run of a withdrawn  *)
(* job (state xrace: the scheduler before repair 7cb52d1), so that such a trace is rejected by    *)
(* the invariant it breaks - with the line after which it is false - rather than as "no action    *)
(* explains this line".  The directed schedule that holds a job goroutine right after its timer   *)
(* fired while a refresh cancels and re-schedules its name is accepted only if the withdrawn job  *)
(* does not run.                                                                                 *)

HWM == UpdateHWM(l)
TraceAccepted == TraceAcceptedUpTo
=============================================================================
