SPECIFICATION Spec
CONSTANTS
  MaxN = 3
  Variants = {"First"}
  Values = {1, 2}
  Scores = {0, 1}
  FirstCap = 1
INVARIANTS TypeOK NoBlockedSender
