SPECIFICATION SemSeqSpec
CONSTANTS
  MaxN = 2
  Variants = {"Majority"}
  Values = {1, 2}
  Scores = {0}
  FirstCap = 0
  PC = 2
  Deviation = "SemLeak"
INVARIANTS TypeOK SemTypeOK MajorityRule
