SPECIFICATION Spec
CONSTANTS
  P = 2
  EP = 2
  G = 1
  MaxSlot = 5
  StartSlots = {2}
  Mode = "schederr"
  RecMax = 2
  RecKeep = 1
  RootKeep = 2
  BidKeep = 2
  KRoots = 4
  KBids = 4
  Menu = {{}, {0}, {0, 1}}
  Moods = {"plain", "reorg"}
  MaxReorgs = 2
  MsgLates = {0}
  AucLates = {0}
  SubLates = {0}
  AttLates = {0}
  MaxHeld = 1
  MaxPasses = 1
  MaxHeads = 2
  HoldKinds = {"start", "prepare", "refresh"}
  Fams = {"att"}
INVARIANTS TypeOK RunningLeftTable PendingExact
CHECK_DEADLOCK FALSE
