SPECIFICATION SemFreshSpec
CONSTANTS
  MaxN = 3
  Variants = {"Best", "Majority", "RootMajority", "First"}
  Values = {1, 2}
  Scores = {0, 1}
  FirstCap = 0
  PC = 3
  Deviation = "SemLeak"
INVARIANTS TypeOK SemTypeOK ReturnsByHard BestIsMax MajorityRule FirstIsSome ErrorIffNothing InvalidNeverReturned
