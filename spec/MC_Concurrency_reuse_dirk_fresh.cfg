SPECIFICATION Spec
CONSTANTS
  Groups = {"dirk"}
  Pinned = FALSE
  InPlace = FALSE
  Reuse = TRUE
  WideEnv = TRUE
  Share = "period"
  AliasWrite = "none"
  MaxPar = 2
INVARIANTS TypeOK Linearizable Disciplined
CONSTRAINT ReuseProbe
CHECK_DEADLOCK FALSE
