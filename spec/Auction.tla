------------------------------- MODULE Auction -------------------------------
(* Relay auction of Vouch: strategies/builderbid/{best,deadline}/builderbid.go on top of which   *)
(* services/blockrelay/standard/{auctionblock,builderbid}.go caches and serves the winning bid. *)
(*                                                                                              *)
(* Property C09: the winning bid is the one with the highest score (value adjusted by the       *)
(* per-builder offset and factor) among the bids that arrived before the strategy's deadline    *)
(* and are eligible; ineligible, late or excluded bids never win; every relay listed for        *)
(* unblinding offered the winning payload and the winner's relay is among them; no eligible bid *)
(* => no winner; what BuilderBid then serves for (slot, parent, pubkey) is that auction's       *)
(* winner or "no bid".                                                                          *)
(*                                                                                              *)
(* One action per interface call / critical section:                                            *)
(*   Deliver(r, a)   environment: relay r answers its (next) request with a, now                *)
(*                   (provider.BuilderBid returns inside the per-relay goroutine, which checks  *)
(*                   eligibility - builderBid/builderBidAttempt - and sends to respCh/errCh)    *)
(*   Consume(e)      main loop receives e from respCh and runs setBuilderBid                    *)
(*   Drop(e)         a bid that cannot change the winner is not processed (left open by the     *)
(*                   property; the deadline strategy does not forward non-improving bids)       *)
(*   Tick            environment: the soft / hard time-out (best) or the deadline expires       *)
(*   Return          the strategy returns its Results and AuctionBlock caches the winner        *)
(*   NewAuction(k)   AuctionBlock is called for another (slot, parent, pubkey)                  *)
(*   Serve(k)        BuilderBid(slot, parent, pubkey) on a key that has been auctioned          *)
EXTENDS Integers, FiniteSets, Sequences, TLC

CONSTANTS Variants,      \* subset of {"best", "deadline"}
          Relays,        \* relay ids (positive integers)
          Values,        \* bid values (naturals; 0 = the "zero value" bid)
          CfgSet,        \* set of relay configurations [Relays -> [min, key, grace]]:
                         \*   min = configured minimum value, key \in {"none", "config", "provider"} = where the
                         \*   relay public key is known from, grace = grace period (0 = none; timing only)
          BuilderSet,    \* subset of Builders
          AnswerSet,     \* the answers the environment may give (subset of Answers)
          Headers,       \* payload header ids
          MaxRounds,     \* answers per relay in the deadline variant
          Keys,          \* (slot, parent, pubkey) keys
          MaxAuctions

VARIABLES variant,    \* which strategy
          cfg,        \* [Relays -> [min, key, grace]]
          key,        \* key being auctioned
          clock,      \* 0 = before the soft time-out, 1 = between soft and hard, 2 = hard time-out / deadline passed
          rounds,     \* [Relays -> number of answers delivered]
          chan,       \* eligible bids delivered and not yet received by the main loop (respCh)
          winner,     \* Results.WinningParticipation
          providers,  \* Results.Providers (as a set)
          part,       \* Results.Participation
          returned,   \* the strategy has returned
          cache,      \* builderBidsCache: [Keys -> Unset | content]
          served,     \* last reply of BuilderBid (observation)
          offers,     \* ghost: eligible bids that arrived before the deadline (consumed or dropped)
          inel,       \* ghost: <<r, n>> of answers that were not eligible bids
          auctions    \* ghost: number of auctions so far

vars == <<variant, cfg, key, clock, rounds, chan, winner, providers, part, returned, cache, served,
          offers, inel, auctions>>

-----------------------------------------------------------------------------
(* Builder catalogue (services/blockrelay/builderconfig.go): absent offset/factor = identity.   *)
Builders == {"std", "plus", "minus", "excl", "half", "boost"}
None == 1000000
BOff(b) == CASE b = "plus" -> 1 [] b = "minus" -> -2 [] b = "boost" -> 1 [] OTHER -> None
BFac(b) == CASE b = "excl" -> 0 [] b = "half" -> 50 [] b = "boost" -> 150 [] OTHER -> None

\* score = ((value + offset) * factor) div 100, as setBuilderBid computes it with big.Int
\* (big.Int.Div is Euclidean division: floor for the positive divisor 100, like \div)
Score(val, b) ==
    LET s1 == IF BOff(b) = None THEN val ELSE val + BOff(b)
    IN IF BFac(b) = None THEN s1 ELSE (s1 * BFac(b)) \div 100

Sigs == {"valid", "invalid", "unverifiable"}

Bids == [kind : {"bid"}, val : Values, bld : BuilderSet, hdr : Headers,
         feeZero : BOOLEAN, tsOk : BOOLEAN, sig : Sigs]
Filler == [kind |-> "x", val |-> 0, bld |-> "std", hdr |-> 0, feeZero |-> FALSE, tsOk |-> TRUE, sig |-> "valid"]
NoBidAnswer == [Filler EXCEPT !.kind = "nobid"]
ErrorAnswer == [Filler EXCEPT !.kind = "error"]
Answers == Bids \cup {NoBidAnswer, ErrorAnswer}

\* C09: value at least the relay's minimum, non-zero value, non-zero fee recipient, timestamp equal
\* to the slot start, valid relay signature when the relay's public key is known
Eligible(a, c) ==
    /\ a.kind = "bid"
    /\ a.val >= c.min
    /\ a.val # 0
    /\ ~a.feeZero
    /\ a.tsOk
    /\ (c.key # "none" => a.sig = "valid")

NoWin == [r |-> 0, n |-> 0, score |-> 0, hdr |-> 0]
NoPart == [n |-> 0, score |-> 0]
Unset == [r |-> -1, n |-> -1, k |-> -1]
NoBid == [r |-> 0, n |-> 0, k |-> 0]       \* the zero-value dummy: BuilderBid answers "no bid"
NoReply == [op |-> "none"]

FreshAuction(k) ==
    /\ key' = k
    /\ clock' = 0
    /\ rounds' = [r \in Relays |-> 0]
    /\ chan' = {}
    /\ winner' = NoWin
    /\ providers' = {}
    /\ part' = [r \in Relays |-> NoPart]
    /\ returned' = FALSE
    /\ offers' = {}
    /\ inel' = {}

Init ==
    /\ variant \in Variants
    /\ cfg \in CfgSet
    /\ key \in Keys
    /\ clock = 0
    /\ rounds = [r \in Relays |-> 0]
    /\ chan = {}
    /\ winner = NoWin
    /\ providers = {}
    /\ part = [r \in Relays |-> NoPart]
    /\ returned = FALSE
    /\ cache = [k \in Keys |-> Unset]
    /\ served = NoReply
    /\ offers = {}
    /\ inel = {}
    /\ auctions = 1

-----------------------------------------------------------------------------
MaxRoundsOf(v) == IF v = "best" THEN 1 ELSE MaxRounds

\* relay r answers; an eligible bid travels to the main loop (with the score setBuilderBid will give
\* it), anything else changes nothing
Deliver(r, a) ==
    /\ ~returned
    /\ rounds[r] < MaxRoundsOf(variant)
    /\ rounds' = [rounds EXCEPT ![r] = @ + 1]
    /\ LET n == rounds[r] + 1 IN
         IF Eligible(a, cfg[r])
         THEN /\ chan' = chan \cup {[r |-> r, n |-> n, score |-> Score(a.val, a.bld), hdr |-> a.hdr, ph |-> clock]}
              /\ inel' = inel
         ELSE /\ chan' = chan
              /\ inel' = inel \cup {<<r, n>>}
    /\ served' = NoReply
    /\ UNCHANGED <<variant, cfg, key, clock, winner, providers, part, returned, cache, offers, auctions>>

OfferOf(e) == [r |-> e.r, n |-> e.n, score |-> e.score, hdr |-> e.hdr]

\* setBuilderBid: zero score never wins; strictly greater replaces and resets the providers; otherwise
\* an equal header adds its relay to the providers
Consume(e) ==
    /\ ~returned
    /\ e \in chan
    /\ e.ph < 2                        \* a bid delivered after the deadline is never taken
    /\ chan' = chan \ {e}
    /\ offers' = offers \cup {OfferOf(e)}
    /\ LET s == e.score IN
         /\ part' = [part EXCEPT ![e.r] = [n |-> e.n, score |-> s]]
         /\ IF s = 0 THEN UNCHANGED <<winner, providers>>
            ELSE IF winner = NoWin \/ s > winner.score
                 THEN /\ winner' = [r |-> e.r, n |-> e.n, score |-> s, hdr |-> e.hdr]
                      /\ providers' = {e.r}
            ELSE IF e.hdr = winner.hdr
                 THEN /\ providers' = providers \cup {e.r}
                      /\ UNCHANGED winner
            ELSE UNCHANGED <<winner, providers>>
    /\ served' = NoReply
    /\ UNCHANGED <<variant, cfg, key, clock, rounds, returned, cache, inel, auctions>>

\* The property does not oblige the strategy to process a bid that cannot become the winner.
Drop(e) ==
    /\ ~returned
    /\ e \in chan
    /\ e.ph < 2
    /\ LET s == e.score IN s = 0 \/ (winner # NoWin /\ s <= winner.score)
    /\ chan' = chan \ {e}
    /\ offers' = offers \cup {OfferOf(e)}
    /\ served' = NoReply
    /\ UNCHANGED <<variant, cfg, key, clock, rounds, winner, providers, part, returned, cache, inel, auctions>>

Tick ==
    /\ ~returned
    /\ clock < 2
    /\ clock' = IF variant = "deadline" THEN 2 ELSE clock + 1
    /\ served' = NoReply
    /\ UNCHANGED <<variant, cfg, key, rounds, chan, winner, providers, part, returned, cache, offers, inel, auctions>>

AllAnswered == \A r \in Relays : rounds[r] >= 1

\* When may the strategy decide?  best: everything answered and processed; or the soft time-out has
\* passed and there is a winner; or the hard time-out has passed.  deadline: the deadline has passed.
\* A bid delivered strictly before the time-out that justifies the decision has been processed.
MayReturn ==
    /\ \A e \in chan : e.ph >= clock
    /\ \/ variant = "best" /\ AllAnswered /\ chan = {}
       \/ variant = "best" /\ clock = 1 /\ winner # NoWin
       \/ clock = 2

Content(w, k) == IF w = NoWin THEN NoBid ELSE [r |-> w.r, n |-> w.n, k |-> k]

\* the strategy returns; AuctionBlock caches the winning bid (or the dummy) under the auctioned key
Return ==
    /\ ~returned
    /\ MayReturn
    /\ returned' = TRUE
    /\ cache' = [cache EXCEPT ![key] = Content(winner, key)]
    /\ served' = NoReply
    /\ UNCHANGED <<variant, cfg, key, clock, rounds, chan, winner, providers, part, offers, inel, auctions>>

NewAuction(k) ==
    /\ returned
    /\ auctions < MaxAuctions
    /\ cache[k] = Unset
    /\ FreshAuction(k)
    /\ auctions' = auctions + 1
    /\ served' = NoReply
    /\ UNCHANGED <<variant, cfg, cache>>

Serve(k) ==
    /\ returned
    /\ cache[k] # Unset
    /\ served' = [op |-> "serve", key |-> k, bid |-> cache[k]]
    /\ UNCHANGED <<variant, cfg, key, clock, rounds, chan, winner, providers, part, returned, cache, offers, inel, auctions>>

Next ==
    \/ \E r \in Relays, a \in AnswerSet : Deliver(r, a)
    \/ \E e \in chan : Consume(e) \/ Drop(e)
    \/ Tick
    \/ Return
    \/ \E k \in Keys : NewAuction(k) \/ Serve(k)

Spec == Init /\ [][Next]_vars

-----------------------------------------------------------------------------
Max(S) == CHOOSE x \in S : \A y \in S : y <= x
Scoring == {o \in offers : o.score # 0}

TypeOK ==
    /\ clock \in 0..2
    /\ providers \subseteq Relays
    /\ \A e \in chan : e.r \in Relays

\* C09: the winner's score is the highest score among the eligible, non-zero-score bids that arrived
\* before the decision point
WinnerIsArgmax ==
    (returned /\ winner # NoWin) =>
        /\ \E o \in Scoring : o.r = winner.r /\ o.n = winner.n /\ o.score = winner.score /\ o.hdr = winner.hdr
        /\ winner.score = Max({o.score : o \in Scoring})

\* C09: ineligible, late or zero-score (excluded builder) bids never win
OnlyEligibleWin ==
    (returned /\ winner # NoWin) =>
        /\ <<winner.r, winner.n>> \notin inel
        /\ winner.score # 0

\* C09: every relay listed for unblinding offered the winning payload; the winner's relay is listed
ProvidersOfferedWinner ==
    returned =>
        IF winner = NoWin THEN providers = {}
        ELSE /\ winner.r \in providers
             /\ providers \subseteq {o.r : o \in {x \in offers : x.hdr = winner.hdr}}

\* C09: no eligible bid <=> no winner (so that the local payload is used)
NoWinnerIffNone == returned => ((winner = NoWin) <=> (Scoring = {}))

\* participation entries are bids the relay really made
ParticipationSound ==
    \A r \in Relays : part[r] # NoPart =>
        \E o \in offers : o.r = r /\ o.n = part[r].n /\ o.score = part[r].score

\* C09: a bid that arrived before the time-out on which the decision rests has been considered
ArrivedConsidered == returned => \A e \in chan : e.ph >= clock

\* C09 (cache): what is served for a key is the result of the auction for that key
CacheRight ==
    /\ \A k \in Keys : cache[k] \notin {Unset, NoBid} => cache[k].k = k
    /\ returned => cache[key] = Content(winner, key)
ServedRight == served.op = "serve" => (served.bid = cache[served.key] /\ (served.bid # NoBid => served.bid.k = served.key))
=============================================================================
