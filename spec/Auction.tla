------------------------------- MODULE Auction -------------------------------
(* Relay auctions of Vouch: strategies/builderbid/{best,deadline}/builderbid.go on top of which *)
(* services/blockrelay/standard/{auctionblock,builderbid}.go caches and serves the winning bid. *)
(*                                                                                              *)
(* Property C09: the winning bid is the one with the highest score (value adjusted by the       *)
(* per-builder offset and factor) among the bids that arrived before the strategy's deadline    *)
(* and are eligible; ineligible, late or excluded bids never win; every relay listed for        *)
(* unblinding offered the winning payload and the winner's relay is among them; no eligible bid *)
(* => no winner; what BuilderBid then serves for (slot, parent, pubkey) is that auction's       *)
(* winner or "no bid".                                                                          *)
(*                                                                                              *)
(* THE INSTANCE AND ITS HISTORY.  A behaviour is the life of ONE strategy Service and ONE block *)
(* relay Service (both are created once in main.go and live as long as the process): a history  *)
(* of auctions 1..MaxAuctions on that instance.  The relay ADDRESSES (Relays) and the builder   *)
(* public keys are the same throughout, but everything else is an input of the single auction:  *)
(* the RelayConfig of every relay is generated anew for every auction from the execution        *)
(* configuration (min_value, public key, grace can differ per proposer / proposer-relay and     *)
(* after a configuration refresh): cfg[i]; the builder configuration is a parameter of the      *)
(* strategy call: tab[i]; the bids.  Production overlaps auctions on the instance (the proposal *)
(* jobs of neighbouring slots, the immediate auction that BuilderBid starts for a key it does   *)
(* not know, two validators of one slot in a test network): Start and Return are separate       *)
(* actions and up to MaxOpen auctions are in progress at the same time, their steps interleaved *)
(* by the environment.                                                                          *)
(*                                                                                              *)
(* The property must hold for EVERY auction of the history: all invariants are quantified over  *)
(* the auctions and judge auction i by its OWN inputs only (cfg[i], tab[i], the answers given   *)
(* to auction i and their phases).  The only state the property makes persistent on the         *)
(* instance is `cache` (the winner or the "no bid" dummy per auctioned key).                    *)
(*                                                                                              *)
(* WHO A RELAY IS (round 5).  The property speaks of "the relay's public key" as known for the  *)
(* relay AS CONFIGURED FOR THE VALIDATOR whose block is auctioned.  A relay of the              *)
(* configuration is an ADDRESS = (location, spelling): the location is the server (Relays), the *)
(* spelling is the user-information part of the URL, which IS the relay's public key            *)
(* ("none", "K1", "K2": http://host, http://0x<K1>@host, http://0x<K2>@host - after a key       *)
(* rotation, or in the proposer-specific section of another validator).  The key known for      *)
(* relay r in auction i is the RelayConfig's public_key if the configuration carries one, else  *)
(* the key of the address spelled in THIS auction's configuration (cfg[i][r].sp), else none.    *)
(* Between the configuration and the strategies sits a component with state of its own, the     *)
(* process-wide client cache of util.FetchBuilderClient (`clients`): both strategies, the        *)
(* registration submitter and the unblinder obtain the relay client from it, and the strategies *)
(* read the address's key from the client they were handed (provider.Pubkey()).  The cache is   *)
(* modelled as what it is: a map from cache key to the client, a client remembering the address *)
(* it was created from; `Fetch` is a fetch by another user (order of first use), `Start` fetches *)
(* the clients of its relays (`cl[i]`).  In the specified design the cache key is the address,  *)
(* so the client handed out for an address reports that address's key (ClientOfAddress).        *)
(* Everything else must be history-independent.  `memo` is the state that the named DEVIATING   *)
(* designs keep on the instance (vacuity self-checks: every one of them is right on a fresh     *)
(* instance, respectively on sequential histories, and TLC must reject it on histories):        *)
(*   MinMemo     the minimum value of a relay is remembered by relay address (first seen wins)  *)
(*   KeyMemo     whether a relay's bids need a signature check is remembered by relay address   *)
(*   TabMemo     the builder catalogue (offset / factor per builder) is remembered              *)
(*   SharedBest  the best score so far lives in the service (reset when an auction starts)      *)
(*   ClientByLoc the client cache is keyed by the relay's LOCATION: the client created for the  *)
(*               spelling used first serves every spelling of that location, with its key       *)
(*               (right on every instance on which each relay is written one way)               *)
(*                                                                                              *)
(* One action per interface call / critical section:                                            *)
(*   Start(i,k,c,t)  AuctionBlock is called for key k = (slot, parent, pubkey); the execution   *)
(*                   configuration yields relay configurations c, the builder catalogue is t    *)
(*   Deliver(i,r,a)  environment: relay r answers its (next) request of auction i with a, now   *)
(*                   (provider.BuilderBid returns inside the per-relay goroutine, which checks  *)
(*                   eligibility - builderBid/builderBidAttempt - and sends to respCh/errCh)    *)
(*   Consume(i,e)    main loop of auction i receives e from respCh and runs setBuilderBid       *)
(*   Drop(i,e)       a bid that cannot change the winner is not processed (left open by the     *)
(*                   property)                                                                  *)
(*   Tick(i)         environment: the soft / hard time-out (best) or the deadline of auction i   *)
(*                   expires (every auction has its own clock: time-outs count from its start)  *)
(*   Return(i)       the strategy returns its Results and AuctionBlock caches the winner        *)
(*   Serve(k)        BuilderBid(slot, parent, pubkey) on a key that has been auctioned          *)
(*   Fetch(r,sp)     another user of util.FetchBuilderClient (submission of validator            *)
(*                   registrations at start-up and every epoch, unblinding) fetches the client   *)
(*                   of address (r, sp): the client is created if the cache has none             *)
EXTENDS Integers, FiniteSets, Sequences, TLC

CONSTANTS Variants,      \* subset of {"best", "deadline"}
          Relays,        \* relay ids = relay addresses (positive integers)
          FetchSet,      \* addresses <<r, sp>> that other users of the client cache may fetch
          Values,        \* bid values (naturals; 0 = the "zero value" bid)
          CfgSet,        \* set of per-auction relay configurations [Relays -> [min, key, grace, sp]]:
                         \*   min = configured minimum value, key \in {"none", "config", "config2"} = the
                         \*   public_key of the relay configuration of THIS auction (none / K1 / K2), grace =
                         \*   grace period (0 = none; timing only), sp \in Spellings = the key spelled in the
                         \*   user-information part of the relay address of THIS auction's configuration
          TableSet,      \* builder catalogues an auction may be run with (subset of {"A", "B"})
          BuilderSet,    \* subset of Builders
          AnswerSet,     \* the answers the environment may give (subset of Answers)
          Headers,       \* payload header ids
          MaxRounds,     \* answers per relay and auction in the deadline variant
          Keys,          \* (slot, parent, pubkey) keys
          MaxAuctions,   \* length of the history
          MaxOpen,       \* auctions in progress at the same time
          Deviation      \* "none" | "MinMemo" | "KeyMemo" | "TabMemo" | "SharedBest" | "ClientByLoc"

Auc == 1..MaxAuctions

VARIABLES variant,    \* instance: which strategy (fixed when the service is created)
          clients,    \* PERSISTENT (process-wide, util.builders): [ClientKeys -> "unset" | the spelling of the
                      \*   address the client held under that key was created from]
          cl,         \* [Auc -> [Relays -> spelling the client handed to auction i for relay r was created from]]
          st,         \* [Auc -> "idle" | "open" | "done" | "past"] (past = done and folded away, see Start)
          cfg,        \* [Auc -> [Relays -> [min, key, grace]]]   input of auction i
          tab,        \* [Auc -> TableSet]                         input of auction i
          key,        \* [Auc -> Keys]                             key auctioned by auction i
          clock,      \* [Auc -> 0..2] 0 = before the soft time-out, 1 = between soft and hard, 2 = hard time-out / deadline passed
          rounds,     \* [Auc -> [Relays -> number of answers delivered]]
          chan,       \* [Auc -> bids handed to the main loop and not yet received (respCh)]
          winner,     \* [Auc -> Results.WinningParticipation]
          providers,  \* [Auc -> Results.Providers (as a set)]
          part,       \* [Auc -> Results.Participation]
          cache,      \* PERSISTENT: builderBidsCache: [Keys -> Unset | content]
          served,     \* last reply of BuilderBid (observation)
          offers,     \* ghost [Auc -> eligible bids that arrived before the deadline (consumed or dropped), with their true score]
          inel,       \* ghost [Auc -> <<r, n>> of answers that were not eligible bids]
          lost,       \* ghost [Auc -> eligible bids that the relay goroutine did not hand to the main loop] (deviations only)
          memo        \* what a deviating design remembers on the instance (constant for Deviation = "none")

avars == <<st, cfg, tab, key, cl, clock, rounds, chan, winner, providers, part, offers, inel, lost>>
vars == <<variant, clients, avars, cache, served, memo>>

-----------------------------------------------------------------------------
(* Builder catalogues (services/blockrelay/builderconfig.go): absent offset/factor = identity.  *)
(* The same builder public keys appear in both; an auction is run with one of them.             *)
Builders == {"std", "plus", "minus", "excl", "half", "boost"}
None == 1000000
BOff(t, b) == IF t = "A"
              THEN CASE b = "plus" -> 1 [] b = "minus" -> -2 [] b = "boost" -> 1 [] OTHER -> None
              ELSE CASE b = "minus" -> 1 [] b = "boost" -> -2 [] OTHER -> None
BFac(t, b) == IF t = "A"
              THEN CASE b = "excl" -> 0 [] b = "half" -> 50 [] b = "boost" -> 150 [] OTHER -> None
              ELSE CASE b = "std" -> 50 [] b = "half" -> 0 [] OTHER -> None

\* score = ((value + offset) * factor) div 100, as setBuilderBid computes it with big.Int
\* (big.Int.Div is Euclidean division: floor for the positive divisor 100, like \div)
Score(t, val, b) ==
    LET s1 == IF BOff(t, b) = None THEN val ELSE val + BOff(t, b)
    IN IF BFac(t, b) = None THEN s1 ELSE (s1 * BFac(t, b)) \div 100

\* Who signed a bid: "valid" = the relay's key K1, "invalid" = another key, K2 (which IS the relay's key for a
\* validator whose configuration names K2 for the relay), "unverifiable" = bytes that are no signature.
Sigs == {"valid", "invalid", "unverifiable"}
Spellings == {"none", "K1", "K2"}
KeyName(k) == CASE k = "config" -> "K1" [] k = "config2" -> "K2" [] OTHER -> "none"
SigOK(s, k) == (s = "valid" /\ k = "K1") \/ (s = "invalid" /\ k = "K2")

Bids == [kind : {"bid"}, val : Values, bld : BuilderSet, hdr : Headers,
         feeZero : BOOLEAN, tsOk : BOOLEAN, sig : Sigs]
Filler == [kind |-> "x", val |-> 0, bld |-> "std", hdr |-> 0, feeZero |-> FALSE, tsOk |-> TRUE, sig |-> "valid"]
NoBidAnswer == [Filler EXCEPT !.kind = "nobid"]
ErrorAnswer == [Filler EXCEPT !.kind = "error"]
Answers == Bids \cup {NoBidAnswer, ErrorAnswer}

\* C09: value at least the relay's minimum, non-zero value, non-zero fee recipient, timestamp equal
\* to the slot start, valid relay signature when the relay's public key is known (k = that key or "none")
Eligible(a, min, k) ==
    /\ a.kind = "bid"
    /\ a.val >= min
    /\ a.val # 0
    /\ ~a.feeZero
    /\ a.tsOk
    /\ (k # "none" => SigOK(a.sig, k))

\* the inputs of auction i, as the property reads them ...
MinOf(i, r) == cfg[i][r].min
KeyOf(i, r) == IF cfg[i][r].key # "none" THEN KeyName(cfg[i][r].key) ELSE cfg[i][r].sp
\* ... and as the (possibly deviating) design reads them
ImplMin(i, r) == IF Deviation = "MinMemo" THEN memo[r] ELSE MinOf(i, r)
\* (the strategies: RelayConfig.PublicKey, else provider.Pubkey() of the client they were handed)
ImplKey(i, r) == IF Deviation = "KeyMemo" THEN memo[r]
                 ELSE IF cfg[i][r].key # "none" THEN KeyName(cfg[i][r].key) ELSE cl[i][r]
ImplTab(i) == IF Deviation = "TabMemo" THEN memo ELSE tab[i]

NoWin == [r |-> 0, n |-> 0, score |-> 0, hdr |-> 0]
NoPart == [n |-> 0, score |-> 0]
Unset == [i |-> -1, r |-> -1, n |-> -1]
NoBid == [i |-> 0, r |-> 0, n |-> 0]       \* the zero-value dummy: BuilderBid answers "no bid"
NoReply == [op |-> "none"]
NoScore == -1000000

DummyCfg == [r \in Relays |-> [min |-> 0, key |-> "none", grace |-> 0, sp |-> "none"]]
NoClients == [r \in Relays |-> "none"]

\* The client cache (util.FetchBuilderClient).  The key under which the client of address (r, sp) is held: the
\* address itself; a deviating design holds one client per location.
ClientKeys == (Relays \X Spellings) \cup (Relays \X {"*"})
CacheKey(r, sp) == IF Deviation = "ClientByLoc" THEN <<r, "*">> ELSE <<r, sp>>
\* the client a fetch of address (r, sp) returns in cache state c, by the spelling it was created from
Made(c, r, sp) == IF c[CacheKey(r, sp)] = "unset" THEN sp ELSE c[CacheKey(r, sp)]
\* the cache after the clients of configuration cf have been fetched (one address per location)
AfterFetches(c, cf) == [k \in ClientKeys |-> IF k = CacheKey(k[1], cf[k[1]].sp) THEN Made(c, k[1], cf[k[1]].sp) ELSE c[k]]
AnyKey == CHOOSE k \in Keys : TRUE
AnyTab == CHOOSE t \in TableSet : TRUE

MemoInit == CASE Deviation = "MinMemo" -> [r \in Relays |-> -1]
              [] Deviation = "KeyMemo" -> [r \in Relays |-> "unset"]
              [] Deviation = "TabMemo" -> "unset"
              [] Deviation = "SharedBest" -> NoScore
              [] OTHER -> 0

Init ==
    /\ variant \in Variants
    /\ clients = [k \in ClientKeys |-> "unset"]
    /\ cl = [i \in Auc |-> NoClients]
    /\ st = [i \in Auc |-> "idle"]
    /\ cfg = [i \in Auc |-> DummyCfg]
    /\ tab = [i \in Auc |-> AnyTab]
    /\ key = [i \in Auc |-> AnyKey]
    /\ clock = [i \in Auc |-> 0]
    /\ rounds = [i \in Auc |-> [r \in Relays |-> 0]]
    /\ chan = [i \in Auc |-> {}]
    /\ winner = [i \in Auc |-> NoWin]
    /\ providers = [i \in Auc |-> {}]
    /\ part = [i \in Auc |-> [r \in Relays |-> NoPart]]
    /\ cache = [k \in Keys |-> Unset]
    /\ served = NoReply
    /\ offers = [i \in Auc |-> {}]
    /\ inel = [i \in Auc |-> {}]
    /\ lost = [i \in Auc |-> {}]
    /\ memo = MemoInit

-----------------------------------------------------------------------------
MaxRoundsOf(v) == IF v = "best" THEN 1 ELSE MaxRounds

Open == {i \in Auc : st[i] = "open"}

\* what a deviating design remembers when an auction starts (first seen wins)
MemoAtStart(c, t) ==
    CASE Deviation = "MinMemo" -> [r \in Relays |-> IF memo[r] = -1 THEN c[r].min ELSE memo[r]]
      [] Deviation = "KeyMemo" -> [r \in Relays |-> IF memo[r] = "unset"
                                                    THEN (IF c[r].key # "none" THEN KeyName(c[r].key) ELSE c[r].sp)
                                                    ELSE memo[r]]
      [] Deviation = "TabMemo" -> IF memo = "unset" THEN t ELSE memo
      [] Deviation = "SharedBest" -> NoScore
      [] OTHER -> memo

\* AuctionBlock(slot, parent, pubkey) is called: the next auction of the history starts, with its own
\* relay configurations and builder catalogue; other auctions may be in progress.  (Book-keeping: the
\* records of the auctions that have returned - judged by the invariants in every state since their
\* Return - are folded to "past" here: nothing of them but the cache entry persists on the instance.)
StartF(f, i, v, init) == [j \in Auc |-> IF j = i THEN v ELSE IF st[j] = "done" THEN init ELSE f[j]]
Start(i, k, c, t) ==
    /\ st[i] = "idle"
    /\ Cardinality(Open) < MaxOpen
    /\ cache[k] = Unset
    /\ \A j \in Open : key[j] # k
    /\ st' = StartF(st, i, "open", "past")
    /\ cfg' = StartF(cfg, i, c, DummyCfg)
    /\ tab' = StartF(tab, i, t, AnyTab)
    /\ key' = [key EXCEPT ![i] = k]
    /\ cl' = StartF(cl, i, [r \in Relays |-> Made(clients, r, c[r].sp)], NoClients)
    /\ clients' = AfterFetches(clients, c)
    /\ clock' = StartF(clock, i, 0, 0)
    /\ rounds' = StartF(rounds, i, [r \in Relays |-> 0], [r \in Relays |-> 0])
    /\ chan' = StartF(chan, i, {}, {})
    /\ winner' = StartF(winner, i, NoWin, NoWin)
    /\ providers' = StartF(providers, i, {}, {})
    /\ part' = StartF(part, i, [r \in Relays |-> NoPart], [r \in Relays |-> NoPart])
    /\ offers' = StartF(offers, i, {}, {})
    /\ inel' = StartF(inel, i, {}, {})
    /\ lost' = StartF(lost, i, {}, {})
    /\ memo' = MemoAtStart(c, t)
    /\ served' = NoReply
    /\ UNCHANGED <<variant, cache>>

\* relay r answers auction i; an eligible bid travels to the main loop (with the score setBuilderBid will
\* give it), anything else changes nothing
Deliver(i, r, a) ==
    /\ st[i] = "open"
    /\ rounds[i][r] < MaxRoundsOf(variant)
    /\ rounds' = [rounds EXCEPT ![i][r] = @ + 1]
    /\ LET n == rounds[i][r] + 1
           truly == Eligible(a, MinOf(i, r), KeyOf(i, r))
           impl == Eligible(a, ImplMin(i, r), ImplKey(i, r))
           e == [r |-> r, n |-> n, score |-> Score(ImplTab(i), a.val, a.bld), tscore |-> Score(tab[i], a.val, a.bld),
                 hdr |-> a.hdr, ph |-> clock[i]]
       IN /\ chan' = [chan EXCEPT ![i] = IF impl THEN @ \cup {e} ELSE @]
          /\ inel' = [inel EXCEPT ![i] = IF truly THEN @ ELSE @ \cup {<<r, n>>}]
          /\ lost' = [lost EXCEPT ![i] = IF truly /\ ~impl THEN @ \cup {e} ELSE @]
    /\ served' = NoReply
    /\ UNCHANGED <<variant, clients, st, cfg, tab, key, cl, clock, winner, providers, part, cache, offers, memo>>

OfferOf(e) == [r |-> e.r, n |-> e.n, score |-> e.tscore, hdr |-> e.hdr]

\* the score a new bid has to beat
ToBeat(i) == IF Deviation = "SharedBest" THEN memo
             ELSE IF winner[i] = NoWin THEN NoScore ELSE winner[i].score

\* setBuilderBid: zero score never wins; strictly greater replaces and resets the providers; otherwise
\* an equal header adds its relay to the providers
Consume(i, e) ==
    /\ st[i] = "open"
    /\ e \in chan[i]
    /\ e.ph < 2                        \* a bid delivered after the deadline is never taken
    /\ chan' = [chan EXCEPT ![i] = @ \ {e}]
    /\ offers' = [offers EXCEPT ![i] = @ \cup {OfferOf(e)}]
    /\ LET s == e.score IN
         /\ part' = [part EXCEPT ![i][e.r] = [n |-> e.n, score |-> s]]
         /\ IF s = 0 THEN UNCHANGED <<winner, providers, memo>>
            ELSE IF ToBeat(i) = NoScore \/ s > ToBeat(i)
                 THEN /\ winner' = [winner EXCEPT ![i] = [r |-> e.r, n |-> e.n, score |-> s, hdr |-> e.hdr]]
                      /\ providers' = [providers EXCEPT ![i] = {e.r}]
                      /\ memo' = IF Deviation = "SharedBest" THEN s ELSE memo
            ELSE IF winner[i] # NoWin /\ e.hdr = winner[i].hdr
                 THEN /\ providers' = [providers EXCEPT ![i] = @ \cup {e.r}]
                      /\ UNCHANGED <<winner, memo>>
            ELSE UNCHANGED <<winner, providers, memo>>
    /\ served' = NoReply
    /\ UNCHANGED <<variant, clients, st, cfg, tab, key, cl, clock, rounds, cache, inel, lost>>

\* The property does not oblige the strategy to process a bid that cannot become the winner.
Drop(i, e) ==
    /\ st[i] = "open"
    /\ Deviation = "none"
    /\ e \in chan[i]
    /\ e.ph < 2
    /\ LET s == e.score IN s = 0 \/ (winner[i] # NoWin /\ s <= winner[i].score)
    /\ chan' = [chan EXCEPT ![i] = @ \ {e}]
    /\ offers' = [offers EXCEPT ![i] = @ \cup {OfferOf(e)}]
    /\ served' = NoReply
    /\ UNCHANGED <<variant, clients, st, cfg, tab, key, cl, clock, rounds, winner, providers, part, cache, inel, lost, memo>>

Tick(i) ==
    /\ st[i] = "open"
    /\ clock[i] < 2
    /\ clock' = [clock EXCEPT ![i] = IF variant = "deadline" THEN 2 ELSE @ + 1]
    /\ served' = NoReply
    /\ UNCHANGED <<variant, clients, st, cfg, tab, key, cl, rounds, chan, winner, providers, part, cache, offers, inel, lost, memo>>

AllAnswered(i) == \A r \in Relays : rounds[i][r] >= 1

\* When may the strategy decide?  best: everything answered and processed; or the soft time-out has
\* passed and there is a winner; or the hard time-out has passed.  deadline: the deadline has passed.
\* A bid delivered strictly before the time-out that justifies the decision has been processed.
MayReturn(i) ==
    /\ \A e \in chan[i] : e.ph >= clock[i]
    /\ \/ variant = "best" /\ AllAnswered(i) /\ chan[i] = {}
       \/ variant = "best" /\ clock[i] = 1 /\ winner[i] # NoWin
       \/ clock[i] = 2

Content(i) == IF winner[i] = NoWin THEN NoBid ELSE [i |-> i, r |-> winner[i].r, n |-> winner[i].n]

\* the strategy returns; AuctionBlock caches the winning bid (or the dummy) under the auctioned key
Return(i) ==
    /\ st[i] = "open"
    /\ MayReturn(i)
    /\ st' = [st EXCEPT ![i] = "done"]
    /\ cache' = [cache EXCEPT ![key[i]] = Content(i)]
    /\ served' = NoReply
    /\ UNCHANGED <<variant, clients, cfg, tab, key, cl, clock, rounds, chan, winner, providers, part, offers, inel, lost, memo>>

\* BuilderBid on a key that has been auctioned (other auctions may be in progress)
Serve(k) ==
    /\ cache[k] # Unset
    /\ served' = [op |-> "serve", key |-> k, bid |-> cache[k]]
    /\ UNCHANGED <<variant, clients, avars, cache, memo>>

\* another user of util.FetchBuilderClient fetches the client of address (r, sp); only the first fetch of a
\* cache key changes anything (the client is created from THIS address)
Fetch(r, sp) ==
    /\ <<r, sp>> \in FetchSet
    /\ clients[CacheKey(r, sp)] = "unset"
    /\ clients' = [clients EXCEPT ![CacheKey(r, sp)] = sp]
    /\ served' = NoReply
    /\ UNCHANGED <<variant, avars, cache, memo>>

Next ==
    \/ \E i \in Auc, k \in Keys, c \in CfgSet, t \in TableSet : Start(i, k, c, t)
    \/ \E i \in Auc, r \in Relays, a \in AnswerSet : Deliver(i, r, a)
    \/ \E i \in Auc : \E e \in chan[i] : Consume(i, e) \/ Drop(i, e)
    \/ \E i \in Auc : Tick(i) \/ Return(i)
    \/ \E k \in Keys : Serve(k)
    \/ \E a \in FetchSet : Fetch(a[1], a[2])

Spec == Init /\ [][Next]_vars

-----------------------------------------------------------------------------
(* The property, for every auction of the history, from that auction's own inputs.              *)
Max(S) == CHOOSE x \in S : \A y \in S : y <= x
Scoring(i) == {o \in offers[i] : o.score # 0}
Done == {i \in Auc : st[i] = "done"}
Past == {i \in Auc : st[i] = "past"}

TypeOK ==
    /\ \A i \in Auc : clock[i] \in 0..2 /\ providers[i] \subseteq Relays /\ \A e \in chan[i] : e.r \in Relays
    /\ Cardinality(Open) <= MaxOpen

\* C09: the winner's score is the highest score among the eligible, non-zero-score bids that arrived
\* before the decision point
WinnerIsArgmax ==
    \A i \in Done : winner[i] # NoWin =>
        /\ \E o \in Scoring(i) : o.r = winner[i].r /\ o.n = winner[i].n /\ o.score = winner[i].score /\ o.hdr = winner[i].hdr
        /\ winner[i].score = Max({o.score : o \in Scoring(i)})

\* C09: ineligible, late or zero-score (excluded builder) bids never win
OnlyEligibleWin ==
    \A i \in Done : winner[i] # NoWin =>
        /\ <<winner[i].r, winner[i].n>> \notin inel[i]
        /\ winner[i].score # 0

\* C09: every relay listed for unblinding offered the winning payload; the winner's relay is listed
ProvidersOfferedWinner ==
    \A i \in Done :
        IF winner[i] = NoWin THEN providers[i] = {}
        ELSE /\ winner[i].r \in providers[i]
             /\ providers[i] \subseteq {o.r : o \in {x \in offers[i] : x.hdr = winner[i].hdr}}

\* C09: no eligible bid <=> no winner (so that the local payload is used)
NoWinnerIffNone == \A i \in Done : (winner[i] = NoWin) <=> (Scoring(i) = {})

\* participation entries are bids the relay really made
ParticipationSound ==
    \A i \in Auc : \A r \in Relays : part[i][r] # NoPart =>
        \E o \in offers[i] : o.r = r /\ o.n = part[i][r].n /\ o.score = part[i][r].score

\* C09: a bid that arrived before the time-out on which the decision rests has been considered
ArrivedConsidered == \A i \in Done : \A e \in chan[i] \cup lost[i] : e.ph >= clock[i]

\* C09 (cache, the persistent state): what is kept for a key is the result of THE auction for that key
CacheRight ==
    /\ \A k \in Keys : cache[k] \notin {Unset, NoBid} => (cache[k].i \in Done \cup Past /\ key[cache[k].i] = k)
    /\ \A i \in Done : cache[key[i]] = Content(i)
    /\ \A k \in Keys : cache[k] # Unset => \E i \in Done \cup Past : key[i] = k
ServedRight == served.op = "serve" => served.bid = cache[served.key]

\* the client cache as specified: the client handed out for an address was created from that address (it reports
\* the key spelled in it).  A statement about the DESIGN (checked in the exhaustive runs); the property's
\* invariants above do not depend on it.
ClientOfAddress ==
    /\ \A i \in Auc : st[i] \in {"open", "done"} => \A r \in Relays : cl[i][r] = cfg[i][r].sp
    /\ \A r \in Relays, sp \in Spellings : clients[<<r, sp>>] \in {"unset", sp}

\* the history is a history: no two auctions of one key, nothing in an auction that has not started
HistoryShape ==
    /\ \A i, j \in Auc : (i # j /\ st[i] # "idle" /\ st[j] # "idle") => key[i] # key[j]
    /\ \A i \in Auc : st[i] \in {"idle", "past"} => (chan[i] = {} /\ offers[i] = {} /\ winner[i] = NoWin)
=============================================================================
