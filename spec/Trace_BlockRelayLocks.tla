------------------------ MODULE Trace_BlockRelayLocks ------------------------
(* Trace specification for the lock part of C12: a trace recorded from ONE real block relay        *)
(* service is a behaviour of BlockRelayLocks.  Logged (at the interfaces, in the order it           *)
(* happened):                                                                                      *)
(*   Start    an entry point is called (fetch job, ProposerConfig, AuctionBlock, BuilderBid,         *)
(*            registration job, ValidatorRegistrations)                                             *)
(*   Source   the configuration source answered        Bid   the builder-bid strategy answered      *)
(*   Return   the call returned                                                                     *)
(*   Quiesce  nothing in flight: TryLock() of every lock of the service, TryAcquire of activitySem   *)
(*   Stuck    a call did not return although every gate of the driver was open (watchdog)            *)
(*   Crash    a call panicked                                                                       *)
(* Not logged: the lock operations and the branches inside the code; they are silent actions TLC     *)
(* places wherever the specification allows - in particular a call can only have passed a lock that   *)
(* the calls in flight left free.  No action explains Stuck, Crash or a lock that is not free at      *)
(* quiescence.                                                                                      *)
EXTENDS BlockRelayLocks, TraceLib

VARIABLE l
tvars == <<lvars, l>>

TraceInit == l = 1 /\ LInit /\ InitHWM

IsEvent(e) == l <= TraceLen /\ Trace[l].ev = e /\ l' = l + 1
Line == Trace[l]

TraceReset ==
    /\ IsEvent("Reset")
    /\ st' = [o \in Ops |-> "idle"]
    /\ kind' = [o \in Ops |-> "none"]
    /\ arg' = [o \in Ops |-> 0]
    /\ rest' = [o \in Ops |-> <<>>]
    /\ rd' = [o \in Ops |-> [k \in RW |-> 0]]
    /\ wr' = [o \in Ops |-> [k \in RW |-> FALSE]]
    /\ sem' = 0
    /\ cache' = {}

TraceStart == IsEvent("Start") /\ Start(Line.op, Line.kind, Line.v)

TraceSource ==
    /\ IsEvent("Source")
    /\ st[Line.op] = "run" /\ Next1(Line.op).op = "E" /\ Next1(Line.op).l = "source"
    /\ DoE(Line.op, Line.out)

TraceBid ==
    /\ IsEvent("Bid")
    /\ st[Line.op] = "run" /\ Next1(Line.op).op = "E" /\ Next1(Line.op).l = "bid"
    /\ DoE(Line.op, Line.out)

TraceReturn == IsEvent("Return") /\ DoRet(Line.op)

Free(k) == Readers(k) = 0 /\ ~Writer(k)

TraceQuiesce ==
    /\ IsEvent("Quiesce")
    /\ Quiescent
    /\ \A k \in RW : Line.free[k] = Free(k)
    /\ Line.free["sem"] = (sem = 0)
    /\ UNCHANGED lvars

TraceSilent == l <= TraceLen /\ (\E o \in Ops : Silent(o)) /\ UNCHANGED l

TraceNext ==
    \/ TraceReset \/ TraceStart \/ TraceSource \/ TraceBid \/ TraceReturn \/ TraceQuiesce
    \/ TraceSilent

TraceSpec == TraceInit /\ [][TraceNext]_tvars

HWM == UpdateHWM(l)
TraceAccepted == TraceAcceptedUpTo
=============================================================================
