SPECIFICATION SSpec
CONSTANTS
  Vals = {1, 2}
  Relays = {1, 2}
  Nodes = {1, 2}
  DocIds = {1, 2, 3, 4, 5}
  Kinds = {"round", "prep", "fwd", "unblind", "auction", "bid"}
  Routes = {"epoch", "import"}
  Memo = "none"
  ScenLen = 4
  Script = "poison"
INVARIANTS Emit
CHECK_DEADLOCK FALSE
