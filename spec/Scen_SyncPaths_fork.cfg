\* fork-centred: started before / at / after an Altair fork epoch inside a period
SPECIFICATION SSpec
CONSTANTS
  SPE = 2
  EPP = 8
  Prep = 5
  MaxSlot = 50
  Validators = {1, 2, 3}
  StartCfgs = {10016, 10019, 10020, 10021, 11016, 11021, 11022, 3000, 3002, 3005, 3006, 3007, 12023, 8015, 8016}
  AcctSets = {{1, 2, 3}, {1, 3}}
  CommChoices = {{1, 2, 3}, {2, 3}, {1, 3}}
  ExitEpochs = {4, 9, 12, 17}
  SlashEpochs = {3, 10, 15}
  WdDelay = 3
  Varying = {2, 3}
  Roots = {1, 2}
  Steps = {1}
  JumpTargets = {6, 16, 20, 22, 23, 24, 31, 32, 33, 38}
  HeadEpochs = {8, 16}
  MaxHeads = 3
  MaxEnv = 2
  MaxRefresh = 2
  MaxXTicks = 1
  MaxRan = 4
  Deviation = "none"
  ScenLen = 14
  ForceHeads = FALSE
INVARIANTS Emit TypeOK JobsComplete NowHasJob EveryMemberMessages OnlyMembers
CHECK_DEADLOCK FALSE
