SPECIFICATION Spec
CONSTANTS
  MaxSlot = 3
  MaxVer = 2
  MaxReorgs = 2
  MaxCrashes = 0
  Gates = {"acct"}
  Interleave = FALSE
  Cfgs <- MCCfgsOne
  OraclesFor <- MCOraclesA
  MaxAccts = 1
  AnswersFor <- MCAnswers
  Deviation = {}
INVARIANTS TypeOK JobTimeRight JobCoversExactly NoSlotTwice OneJobPerDutySlot OnlyStrictlyLaterOnStart SyncWindowRight EpochTickOnce NoFutureDutyUnscheduled NoStaleJob ReorgActedOn RefreshCompletes
CONSTRAINT NoOverlap
CHECK_DEADLOCK FALSE
