SPECIFICATION Spec
CONSTANTS
  Builders = {"b1", "b2"}
  Cats = {"nil", "excluded", "privileged", "other"}
  Facs = {"nil", "0", "50", "150", "neg", "bad"}
  Offs = {"nil", "-2", "1", "bad"}
  Vals = {0, 1, 5, 100}
  Deviation = "none"
INVARIANTS ExcludedNeverScores OwnEntryWins PrivilegedOutranksExcluded OnlyNamed RefusedIffUnreadable
CHECK_DEADLOCK FALSE
