----------------------------- MODULE Robustness -----------------------------
(* Property C16: no data from a beacon node, relay or configuration can crash Vouch.            *)
(*                                                                                              *)
(* For every ENTRY POINT of Vouch that consumes outside data this module defines                *)
(*   Shapes(ep)   the lattice of input shapes in scope: a record of shape choices, one field    *)
(*                per dimension in which the input can be well-formed-but-unexpected (absent,   *)
(*                null, empty, duplicate, out of range, mismatching, unparsable ...);           *)
(*   Gated(ep,s)  whether the shape can only reach Vouch through a decoder of go-eth2-client /  *)
(*                go-builder-client (then the binding first asks the real decoder; if it does    *)
(*                not deliver the shape the scenario ends with Undeliverable: the property only  *)
(*                quantifies over values the libraries can deliver);                            *)
(*   Allowed(ep,s) the outcomes the property allows: the affected duty ends ok, with an error,  *)
(*                or with a fallback.                                                           *)
(* Actions: Call (the environment delivers an input), Return (the duty ends with an allowed     *)
(* outcome), Undeliverable, DecoderPanic.  The trace vocabulary additionally has the event Crash (panic or     *)
(* fatal runtime error, in the calling goroutine or any goroutine Vouch started): NO ACTION OF   *)
(* THIS SPECIFICATION PRODUCES IT, so a recorded trace containing it is not a behaviour.         *)
(* All dimension values are strings.  The Go drivers (overlay/verifdrivers/c16) build the        *)
(* concrete input for a shape; what each value means is documented next to the dimension here    *)
(* and in docs/C16.md.                                                                          *)
EXTENDS Integers, FiniteSets, Sequences, TLC

CONSTANT EPs        \* the entry points explored by this configuration (subset of EntryPoints)

Outcomes == {"ok", "error", "fallback"}

EntryPoints == {"execv2", "execv1", "execmutate", "graffiti", "builderbid", "proposalbest", "proposer",
                "attester", "aggregator", "syncmessenger", "syncaggregator", "mergeduties",
                "cacheevents", "submitclassify"}

-----------------------------------------------------------------------------
(* execution configuration, version 2 (blockrelay.UnmarshalJSON ; ProposerConfig ; String)      *)
(*  version   value of "version": "2" | "1" | "3" | "str" (a JSON string) | "null"               *)
(*  top       top-level fee_recipient/gas_limit/grace/min_value: none | all | bad (unparsable)   *)
(*  relays    top-level "relays": absent | empty {} | one | null (an address mapped to null) |   *)
(*            emptykey ("" as address) | dup (the same address twice in the document)            *)
(*  proposers "proposers": absent | empty [] | account (one entry selecting by account regex) |  *)
(*            validator (by public key) | null ([null]) | neither (entry without selector) |      *)
(*            badregex (account is not a regular expression)                                      *)
(*  prelays   "relays" of that proposer entry: absent | empty | one (overrides the top relay) |  *)
(*            null (address mapped to null) | disabled | new (an address not at top level)        *)
(*  match     whether the looked-up validator is selected by the proposer entry                   *)
ExecV2 ==
    LET full == [version : {"2"}, top : {"none", "all", "bad"},
                 relays : {"absent", "empty", "one", "null", "emptykey", "dup"},
                 proposers : {"absent", "empty", "account", "validator", "null", "neither", "badregex"},
                 prelays : {"absent", "empty", "one", "null", "disabled", "new"},
                 match : {"y", "n"}]
        other == [version : {"1", "3", "str", "null"}, top : {"none"}, relays : {"absent", "null"},
                  proposers : {"absent", "null"}, prelays : {"absent"}, match : {"y"}]
    IN  {s \in full : /\ (s.proposers \notin {"account", "validator"} => s.prelays = "absent")
                      /\ (s.top = "bad" => (s.relays = "one" /\ s.proposers = "absent" /\ s.match = "y"))}
        \cup other

(* execution configuration, legacy version (no "version" or 0)                                   *)
(*  dflt    "default_config": absent | null | full | nobuilder | nullbuilder (builder: null) |   *)
(*          nofee (no fee_recipient) | disabled (builder.enabled false)                            *)
(*  pc      "proposer_config": absent | empty | one | null (key mapped to null) | badkey (not    *)
(*          hex) | shortkey (hex of the wrong length) | dup (same key twice)                       *)
(*  brelays builder.relays of the entries: empty | one | null (relays: null)                      *)
ExecV1 ==
    [version : {"absent", "0"},
     dflt : {"absent", "null", "full", "nobuilder", "nullbuilder", "nofee", "disabled"},
     pc : {"absent", "empty", "one", "null", "badkey", "shortkey", "dup"},
     brelays : {"empty", "one", "null"},
     match : {"y", "n"}]

(* execution configuration "of any shape": a complete baseline document with one structural       *)
(* mutation of its JSON tree                                                                       *)
(*  base  v2 (version 2 document with every field at every level, two proposer entries) | v1       *)
(*  site  the node (depth first, modulo the number of nodes) that is mutated                        *)
(*  mut   the node becomes null | {} | [] | "" | 0 | true | a string, is deleted, or its member is  *)
(*        written twice                                                                             *)
ExecMutate ==
    [base : {"v2", "v1"}, site : {ToString(i) : i \in 0..69},
     mut : {"null", "emptyobj", "emptyarr", "emptystr", "zero", "true", "string", "delete", "duplicate"}]

(* dynamic graffiti provider (content fetched from an operator-supplied location)                *)
(*  file     missing | error | empty | blank (only newlines) | spaces | crlf | one | many |       *)
(*           template ({{SLOT}}/{{VALIDATORINDEX}}) | long (>32 bytes) | client ({{CLIENT}})       *)
(*  fallback fallback location: none | present | missing                                          *)
(*  loc      location string: plain | templated                                                   *)
Graffiti ==
    [file : {"missing", "error", "empty", "blank", "spaces", "crlf", "one", "many", "template", "long", "client"},
     fallback : {"none", "present", "missing"},
     loc : {"plain", "templated"}]

(* builder-bid strategies (strategies/builderbid/{best,deadline}.BuilderBid) with the relay      *)
(* reached through util.FetchBuilderClient and the real go-builder-client HTTP decoder           *)
(*  strat   best | deadline                                                                       *)
(*  addr    relay address in the proposer configuration: good | empty | unparsable | noscheme |   *)
(*          refused (nothing listens)                                                             *)
(*  bid     what the relay answers: valid | nocontent (204) | datanull | emptyobj ({}) |          *)
(*          nomessage | noheader | zerovalue | wrongparent | badversion | notjson | http500 |      *)
(*          zerofee (zero fee recipient) | badsig                                                 *)
(*  second  a second, well-behaved relay in the same auction: none | good                         *)
(*  pkcfg   relay public key configured: none | set                                               *)
BuilderBid ==
    LET full == [strat : {"best", "deadline"},
                 addr : {"good", "empty", "unparsable", "noscheme", "refused"},
                 bid : {"valid", "nocontent", "datanull", "emptyobj", "nomessage", "noheader", "zerovalue",
                        "wrongparent", "badversion", "notjson", "http500", "zerofee", "badsig"},
                 second : {"none", "good"},
                 pkcfg : {"none", "set"}]
    IN  {s \in full : /\ (s.addr # "good" => s.bid = "valid" /\ s.pkcfg = "none")
                      /\ (s.pkcfg = "set" => s.bid \in {"valid", "badsig", "nomessage"})}

(* proposal `best` strategy (strategies/beaconblockproposal/best.Proposal)                        *)
(*  graffiti  none | plain | client ("{{CLIENT}}" zero-padded) | prefix ("vouch {{CLIENT}}") |    *)
(*            full (all 32 bytes used, ends with {{CLIENT}})                                       *)
(*  clen      length of the client name the node reports (NodeClient), "0".."40"                   *)
(*  nodeclient ok | error                                                                          *)
(*  proposal  what the node's Proposal call delivers: ok | nildata | error | zerofee | nilvalues   *)
(*  n         number of beacon nodes                                                              *)
ProposalBest ==
    LET full == [graffiti : {"none", "plain", "client", "prefix", "full"},
                 clen : {"0", "1", "4", "5", "6", "8", "10", "11", "22", "23", "32", "40"},
                 nodeclient : {"ok", "error"},
                 proposal : {"ok", "nildata", "error", "zerofee", "nilvalues"},
                 n : {"1", "2"}]
        templ(s) == s.graffiti \in {"client", "prefix", "full"}
    IN  {s \in full : /\ (~templ(s) => s.clen = "10" /\ s.nodeclient = "ok")
                      /\ (templ(s) /\ s.nodeclient = "error" => s.clen = "10" /\ s.proposal = "ok")
                      /\ (templ(s) /\ s.nodeclient = "ok" => s.proposal \in {"ok", "nilvalues"})}

(* proposer (services/beaconblockproposer/standard.Propose); the proposal comes through the real  *)
(* go-eth2-client HTTP decoder (v3 block production endpoint), unblinding through the real        *)
(* go-builder-client HTTP decoder                                                                  *)
(*  auction  none (no auctioneer configured) | failed (auction returns an error) | empty (results *)
(*           without providers) | won (one relay that can unblind) | cannotunblind                 *)
(*  ver      consensus version of the block the node returns                                       *)
(*  blinded  the node flags the block as blinded (header Eth-Execution-Payload-Blinded)            *)
(*  body     valid | datanull | wrongslot | notjson | novalues (value headers absent) |            *)
(*           badvalues (value headers not numbers)                                                 *)
(*  unblind  what the relay answers to the unblinding request: ok | datanull | emptyobj |          *)
(*           notjson | http400 | http500 | wrongver                                                *)
(*  graffiti none | error | short | client                                                         *)
Proposer ==
    LET full == [auction : {"none", "failed", "empty", "won", "cannotunblind"},
                 ver : {"phase0", "altair", "bellatrix", "capella", "deneb"},
                 blinded : {"y", "n"},
                 body : {"valid", "datanull", "wrongslot", "notjson", "novalues", "badvalues"},
                 unblind : {"ok", "datanull", "emptyobj", "notjson", "http400", "http500", "wrongver"},
                 graffiti : {"none", "error", "short", "client"}]
    IN  {s \in full : /\ (s.body # "valid" => s.ver = "deneb" /\ s.auction \in {"none", "won"} /\ s.graffiti = "none")
                      /\ (s.unblind # "ok" => s.auction = "won" /\ s.blinded = "y" /\ s.body = "valid"
                                               /\ s.ver \in {"bellatrix", "capella", "deneb"} /\ s.graffiti = "none")
                      /\ (s.graffiti # "none" => s.ver = "deneb" /\ s.auction = "none" /\ s.blinded = "n")}

(* attester (services/attester/standard.Attest); attestation data through the real HTTP decoder   *)
(*  body   valid | datanull | emptyobj | nosource | notarget | nullsource | nulltarget |           *)
(*         slotmismatch | srcgttgt | notjson | http500 | http404                                   *)
(*  slot   slot of the duty: "0" | "1" | "64"                                                      *)
(*  duty   one | dup (the same validator twice) | zerolen (committee length 0) | vcirange          *)
(*         (validator committee index >= committee length) | many | noaccount                      *)
Attester ==
    [body : {"valid", "datanull", "emptyobj", "nosource", "notarget", "nullsource", "nulltarget",
             "slotmismatch", "srcgttgt", "notjson", "http500", "http404"},
     slot : {"0", "1", "64"},
     duty : {"one", "dup", "zerolen", "vcirange", "many", "noaccount"}]

(* attestation aggregator (services/attestationaggregator/standard.Aggregate)                      *)
(*  body   valid | datanull | emptyobj | nullinner (aggregate without data) | emptybits |          *)
(*         nobits | notjson | http404                                                              *)
Aggregator ==
    [body : {"valid", "datanull", "emptyobj", "nullinner", "emptybits", "nobits", "notjson", "http404"},
     slot : {"0", "1", "64"},
     account : {"present", "missing"}]

(* sync committee messenger (Prepare / Message) with the head root through the HTTP decoder        *)
(*  body     valid | datanull | emptyobj | noroot | notjson | http404                              *)
(*  accounts all | somenil | allnil | none                                                         *)
SyncMessenger ==
    [body : {"valid", "datanull", "emptyobj", "noroot", "notjson", "http404"},
     accounts : {"all", "somenil", "allnil", "none"},
     slot : {"0", "1", "64"}]

(* sync committee aggregator (Aggregate) with the contribution through the HTTP decoder            *)
(*  body   valid | datanull | emptyobj | emptybits | nobits | notjson | http404                    *)
(*  root   known (the messenger recorded a head root for the slot) | unknown                       *)
SyncAggregator ==
    [body : {"valid", "datanull", "emptyobj", "emptybits", "nobits", "notjson", "http404"},
     root : {"known", "unknown"},
     slot : {"0", "1", "64"}]

(* attester duties as delivered by the HTTP decoder -> attester.MergeDuties -> Attest              *)
(*  n      number of duties: "0" | "1" | "3"                                                       *)
(*  dup    none | sameslot (a validator twice in a slot) | twoslots (a validator in two slots)      *)
(*  range  ok | vci (validator committee index >= committee length) | committee (committee index   *)
(*         >= committees at slot)                                                                   *)
(*  zero   none | length (committee length 0) | atslot (committees at slot 0)                       *)
(*  entry  ok | null (a null element in the list)                                                  *)
MergeDuties ==
    LET full == [n : {"0", "1", "3"}, dup : {"none", "sameslot", "twoslots"}, range : {"ok", "vci", "committee"},
                 zero : {"none", "length", "atslot"}, entry : {"ok", "null"}]
    IN  {s \in full : (s.n = "0" => s.dup = "none" /\ s.range = "ok" /\ s.zero = "none")
                      /\ (s.n = "1" => s.dup = "none")}

(* cache service event handlers (head event -> block fetched through the HTTP decoder)             *)
(*  event  head | block | nildata (event without data)                                             *)
(*  ver    version of the block                                                                    *)
(*  body   valid | datanull | nomessage | nobody | nopayload | notjson | http404                   *)
CacheEvents ==
    LET full == [event : {"head", "block", "nildata"},
                 ver : {"phase0", "altair", "bellatrix", "capella", "deneb", "unknown"},
                 body : {"valid", "datanull", "nomessage", "nobody", "nopayload", "notjson", "http404"}]
    IN  {s \in full : s.event # "head" => s.ver = "deneb" /\ s.body = "valid"}

(* submitter error classification (services/submitter/multinode, error text of a beacon node)      *)
(*  op     messages | contributions | attestations                                                 *)
(*  server lighthouse | teku | prysm | unknown                                                     *)
(*  err    nojson | brace (a brace, not JSON) | nullentry (failures:[null]) | emptylist |           *)
(*         nofailures | known (an allowable failure) | real | notarray | nested | nullfailures      *)
SubmitClassify ==
    [op : {"messages", "contributions", "attestations"},
     server : {"lighthouse", "teku", "prysm", "unknown"},
     err : {"nojson", "brace", "nullentry", "emptylist", "nofailures", "known", "real", "notarray", "nested",
            "nullfailures"}]

Shapes(ep) ==
    CASE ep = "execv2" -> ExecV2
      [] ep = "execv1" -> ExecV1
      [] ep = "execmutate" -> ExecMutate
      [] ep = "graffiti" -> Graffiti
      [] ep = "builderbid" -> BuilderBid
      [] ep = "proposalbest" -> ProposalBest
      [] ep = "proposer" -> Proposer
      [] ep = "attester" -> Attester
      [] ep = "aggregator" -> Aggregator
      [] ep = "syncmessenger" -> SyncMessenger
      [] ep = "syncaggregator" -> SyncAggregator
      [] ep = "mergeduties" -> MergeDuties
      [] ep = "cacheevents" -> CacheEvents
      [] ep = "submitclassify" -> SubmitClassify

(* Gated shapes: the binding itself has to ask a library decoder for the value before it can call *)
(* Vouch (attester duties are fetched by the driver and handed to MergeDuties, as the controller   *)
(* does); if the decoder refuses, the scenario ends with Undeliverable.  Everywhere else the real   *)
(* HTTP decoders are in the call path of the Vouch service itself (Vouch sees their error), so no   *)
(* gate is needed.                                                                                  *)
Gated(ep, s) == ep = "mergeduties"

(* The property allows every input in scope to end in any of the three ways; which one is a        *)
(* matter of the functional properties C05..C15, not of C16.                                       *)
Allowed(ep, s) == Outcomes

-----------------------------------------------------------------------------
VARIABLES pending,   \* the input being processed: [ep, shape] or NoCall
          last,      \* how the last duty ended
          alive      \* the process keeps running

vars == <<pending, last, alive>>

NoCall == [ep |-> "none"]
NoOutcome == [ep |-> "none", outcome |-> "none"]

Init == pending = NoCall /\ last = NoOutcome /\ alive = TRUE

Call(ep, s) ==
    /\ alive
    /\ pending = NoCall
    /\ ep \in EPs /\ s \in Shapes(ep)
    /\ pending' = [ep |-> ep, shape |-> s]
    /\ UNCHANGED <<last, alive>>

Return(o) ==
    /\ pending # NoCall
    /\ o \in Allowed(pending.ep, pending.shape)
    /\ last' = [ep |-> pending.ep, outcome |-> o]
    /\ pending' = NoCall
    /\ UNCHANGED alive

Undeliverable ==
    /\ pending # NoCall
    /\ Gated(pending.ep, pending.shape)
    /\ last' = [ep |-> pending.ep, outcome |-> "undeliverable"]
    /\ pending' = NoCall
    /\ UNCHANGED alive

(* The HTTP decoding layer of a client library (go-eth2-client/http, go-builder-client/http) itself  *)
(* panics on the wire input: the library delivers no value to Vouch.  C16 quantifies over "all       *)
(* values that the client libraries' decoders can deliver", so this is outside the property; the      *)
(* binding records it (event DecoderPanic, with the library frame) and the check reports the          *)
(* observations in its evidence, but it is not a Crash of Vouch in the sense of C16.                   *)
DecoderPanic ==
    /\ pending # NoCall
    /\ last' = [ep |-> pending.ep, outcome |-> "undeliverable"]
    /\ pending' = NoCall
    /\ UNCHANGED alive

\* There is deliberately no action Crash: nothing sets alive to FALSE.

Next ==
    \/ \E ep \in EPs : \E s \in Shapes(ep) : Call(ep, s)
    \/ \E o \in Outcomes : Return(o)
    \/ Undeliverable
    \/ DecoderPanic

Spec == Init /\ [][Next]_vars

-----------------------------------------------------------------------------
TypeOK ==
    /\ alive \in BOOLEAN
    /\ pending = NoCall \/ (pending.ep \in EPs /\ pending.shape \in Shapes(pending.ep))
    /\ last.outcome \in Outcomes \cup {"none", "undeliverable"}

\* C16: the process keeps running
KeepsRunning == alive

\* C16: every duty that consumed outside data ended with ok / error / fallback
EndsProperly == last.outcome \in Outcomes \cup {"none", "undeliverable"}

\* an input is never dropped on the floor by the specification: a pending call can always end
Total == pending # NoCall => ENABLED (\E o \in Outcomes : Return(o))

LatticeSize == [ep \in EntryPoints |-> Cardinality(Shapes(ep))]
=============================================================================
