----------------------------- MODULE Robustness -----------------------------
(* Property C16: no data from a beacon node, relay or configuration can crash Vouch.            *)
(*                                                                                              *)
(* For every ENTRY POINT of Vouch that consumes outside data this module defines                *)
(*   Shapes(ep)   the lattice of input shapes in scope: a record of shape choices, one field    *)
(*                per dimension in which the input can be well-formed-but-unexpected (absent,   *)
(*                null, empty, duplicate, out of range, mismatching, unparsable ...);           *)
(*   Gated(ep,s)  whether the shape can only reach Vouch through a decoder of go-eth2-client /  *)
(*                go-builder-client (then the binding first asks the real decoder; if it does    *)
(*                not deliver the shape the scenario ends with Undeliverable: the property only  *)
(*                quantifies over values the libraries can deliver);                            *)
(*   Allowed(ep,s) the outcomes the property allows: the affected duty ends ok, with an error,  *)
(*                or with a fallback.                                                           *)
(*   Decides(ep)  the entry point starts with a decoder of Vouch whose verdict (accepted /       *)
(*                rejected) is visible to the caller;                                            *)
(*   Uses(ep,s)   the CONSUMERS of the decoded value that belong to the entry point: an input is  *)
(*                consumed END TO END, i.e. decoded AND used, because a decoder may "succeed"     *)
(*                with a value that crashes its first user (a typed-nil configuration behind a    *)
(*                non-nil interface, a nil entry in a map, ...).  A duty that consumed the input   *)
(*                has not ended before every use was performed (or the decoder rejected it).      *)
(*   AuxRequests(ep,s) the AUXILIARY requests the code may make on its own while it handles the     *)
(*                input (the node version request behind a {{CLIENT}} graffiti marker), each with  *)
(*                the answer the environment has chosen for it: a value, a late value, or one of    *)
(*                the fault kinds (nil response with an error of a particular kind).  The main      *)
(*                request of the duty and its auxiliary requests are answered independently.         *)
(*   PollAnswer(ep,s,r,n) what relay r answers to the n-th request of ONE call: a strategy may poll a relay     *)
(*                repeatedly within an operation, and the successive answers are a history of untrusted      *)
(*                inputs within one call (zero value, then a real bid; a real bid, then garbage ...).         *)
(* Actions: Call (the environment delivers an input), Poll (a relay answers the n-th request of the      *)
(* pending call), Aux (the environment answers an auxiliary     *)
(* request of the pending input), Decoded (Vouch's decoder accepted or        *)
(* rejected it), Use (a consumer worked with what the decoder left behind and ended ok / error /   *)
(* fallback), Return (the duty ends with an allowed outcome), Undeliverable, DecoderPanic.  The   *)
(* trace vocabulary additionally has the event Crash (panic or                                    *)
(* fatal runtime error, in the calling goroutine or any goroutine Vouch started): NO ACTION OF   *)
(* THIS SPECIFICATION PRODUCES IT, so a recorded trace containing it is not a behaviour.         *)
(* All dimension values are strings.  The Go drivers (overlay/verifdrivers/c16) build the        *)
(* concrete input for a shape; what each value means is documented next to the dimension here    *)
(* and in docs/C16.md.                                                                          *)
(* The definitions of the entry points and their shape lattices are in RobustnessShapes.tla.     *)
EXTENDS RobustnessShapes


CONSTANT EPs        \* the entry points explored by this configuration (subset of EntryPoints)

MaxPoll == 3        \* the third and every later poll of a relay within one call is answered alike (BidAtOf)

-----------------------------------------------------------------------------
VARIABLES pending,   \* the input being processed: [ep, shape] or NoCall
          progress,  \* how far the pending input got: [decoded, done, asked, polled]
          last,      \* how the last duty ended (an outcome, "undeliverable", or "none")
          alive      \* the process keeps running

vars == <<pending, progress, last, alive>>

NoCall == [ep |-> "none"]
NoOutcome == "none"
NoProgress == [decoded |-> "na", done |-> {}, asked |-> {}, polled |-> {}]

Init == pending = NoCall /\ progress = NoProgress /\ last = NoOutcome /\ alive = TRUE

Call(ep, s) ==
    /\ alive
    /\ pending = NoCall
    /\ ep \in EPs /\ s \in Shapes(ep)
    /\ pending' = [ep |-> ep, shape |-> s]
    /\ progress' = [decoded |-> IF Decides(ep) THEN "unknown" ELSE "na", done |-> {}, asked |-> {}, polled |-> {}]
    /\ UNCHANGED <<last, alive>>

(* The code made an auxiliary request (any number of times, at any moment before the duty ends: before,  *)
(* between or after the main requests, from the calling goroutine or from one it started) and the          *)
(* environment gave the answer it had chosen for it - a value or a fault.  Nothing else changes: whatever    *)
(* the answer, the duty goes on to one of its allowed ends.                                                  *)
Aux(a) ==
    /\ pending # NoCall
    /\ a \in AuxRequests(pending.ep, pending.shape)
    /\ progress' = [progress EXCEPT !.asked = @ \cup {a}]
    /\ UNCHANGED <<pending, last, alive>>

(* The code asked relay r for the n-th time on behalf of the pending call and the relay gave the answer the   *)
(* input chose for that poll.  How often and when the code asks is its own business (before the call returns  *)
(* or from a goroutine the call left behind); whatever the SEQUENCE of answers, nothing else changes: the        *)
(* duty goes on to one of its allowed ends and the process keeps running.                                        *)
Poll(r, n) ==
    /\ pending # NoCall
    /\ Polled(pending.ep) /\ r \in Relays /\ n \in 1..MaxPoll
    /\ progress' = [progress EXCEPT !.polled = @ \cup {[relay |-> r, answer |-> PollAnswer(pending.ep, pending.shape, r, n)]}]
    /\ UNCHANGED <<pending, last, alive>>

(* Vouch's decoder returned: it accepted the input (a value was handed to the caller without an       *)
(* error) or rejected it.                                                                              *)
Decoded(accepted) ==
    /\ pending # NoCall
    /\ progress.decoded = "unknown"
    /\ progress' = [progress EXCEPT !.decoded = IF accepted THEN "accepted" ELSE "rejected"]
    /\ UNCHANGED <<pending, last, alive>>

(* A consumer used what the decoder left behind and ended in one of the allowed ways.                  *)
Use(u, o) ==
    /\ pending # NoCall
    /\ u \in Uses(pending.ep, pending.shape) \ progress.done
    /\ progress.decoded \in {"na", "accepted"}
    /\ o \in Allowed(pending.ep, pending.shape)
    /\ progress' = [progress EXCEPT !.done = @ \cup {u}]
    /\ UNCHANGED <<pending, last, alive>>

(* the input has been consumed end to end: rejected by the decoder, or decoded and used by every       *)
(* consumer of the entry point                                                                         *)
Consumed ==
    \/ progress.decoded = "rejected"
    \/ /\ progress.decoded \in {"na", "accepted"}
       /\ Uses(pending.ep, pending.shape) \subseteq progress.done

Return(o) ==
    /\ pending # NoCall
    /\ Consumed
    /\ o \in Allowed(pending.ep, pending.shape)
    /\ last' = o
    /\ pending' = NoCall /\ progress' = NoProgress
    /\ UNCHANGED alive

Undeliverable ==
    /\ pending # NoCall
    /\ Gated(pending.ep, pending.shape)
    /\ last' = "undeliverable"
    /\ pending' = NoCall /\ progress' = NoProgress
    /\ UNCHANGED alive

(* The HTTP decoding layer of a client library (go-eth2-client/http, go-builder-client/http) itself  *)
(* panics on the wire input: the library delivers no value to Vouch.  C16 quantifies over "all       *)
(* values that the client libraries' decoders can deliver", so this is outside the property; the      *)
(* binding records it (event DecoderPanic, with the library frame) and the check reports the          *)
(* observations in its evidence, but it is not a Crash of Vouch in the sense of C16.                   *)
DecoderPanic ==
    /\ pending # NoCall
    /\ last' = "undeliverable"
    /\ pending' = NoCall /\ progress' = NoProgress
    /\ UNCHANGED alive

\* There is deliberately no action Crash: nothing sets alive to FALSE.

Next ==
    \/ \E ep \in EPs : \E s \in Shapes(ep) : Call(ep, s)
    \/ \E a \in BOOLEAN : Decoded(a)
    \/ \E a \in AuxUniverse : Aux(a)
    \/ \E r \in Relays : \E n \in 1..MaxPoll : Poll(r, n)
    \/ \E u \in UseNames : \E o \in Outcomes : Use(u, o)
    \/ \E o \in Outcomes : Return(o)
    \/ Undeliverable
    \/ DecoderPanic

Spec == Init /\ [][Next]_vars

-----------------------------------------------------------------------------
TypeOK ==
    /\ alive \in BOOLEAN
    /\ pending = NoCall \/ (pending.ep \in EPs /\ pending.shape \in Shapes(pending.ep))
    /\ progress.decoded \in {"na", "unknown", "accepted", "rejected"}
    /\ progress.done \subseteq UseNames
    /\ progress.asked \subseteq AuxUniverse
    /\ progress.polled \subseteq [relay : Relays, answer : PollUniverse]
    /\ pending = NoCall => progress = NoProgress
    /\ last \in Outcomes \cup {"none", "undeliverable"}

\* C16: the process keeps running
KeepsRunning == alive

\* C16: every duty that consumed outside data ended with ok / error / fallback
EndsProperly == last \in Outcomes \cup {"none", "undeliverable"}

\* C16 for the auxiliary requests: whatever was answered to them - a fault of any kind included - the
\* process keeps running, and only answers of the environment's alphabet for THIS input were given
AuxFaultsSurvived ==
    pending # NoCall =>
        /\ progress.asked \subseteq AuxRequests(pending.ep, pending.shape)
        /\ ((\E a \in progress.asked : a.answer \in AuxFaults) => alive)

\* C16 for poll sequences: whatever sequence of answers a relay gave to the polls of one call - only answers of
\* THIS input's sequence were given - the process keeps running (also when the answers differ in class: a zero
\* value and a real bid, a real bid and garbage)
PollSequencesSurvived ==
    pending # NoCall =>
        /\ \A p \in progress.polled : \E n \in 1..MaxPoll : p.answer = PollAnswer(pending.ep, pending.shape, p.relay, n)
        /\ (Cardinality({PollClass(p.answer) : p \in {x \in progress.polled : x.relay = "relay1"}}) > 1 => alive)

\* decode AND use: nothing is used that the decoder rejected, and only consumers of the entry point run
UsedOnlyIfDecoded ==
    pending # NoCall =>
        /\ progress.done \subseteq Uses(pending.ep, pending.shape)
        /\ (progress.done # {} => progress.decoded \in {"na", "accepted"})

\* an input is never dropped on the floor by the specification: a pending call can always make its next
\* step towards an allowed end (decoder verdict, a remaining use, or the end of the duty)
Total ==
    pending # NoCall =>
        \/ ENABLED (\E a \in BOOLEAN : Decoded(a))
        \/ ENABLED (\E u \in UseNames : \E o \in Outcomes : Use(u, o))
        \/ ENABLED (\E o \in Outcomes : Return(o))

LatticeSize == [ep \in EntryPoints |-> Cardinality(Shapes(ep))]
=============================================================================
