SPECIFICATION SSpec
CONSTANTS
  Validators = {1, 2, 3, 4}
  SlotSpace = {8, 9, 10}
  Nows = {7, 8, 9, 10, 16}
  Committees = {0, 1}
  Sizes = {1, 4, 8, 12, 40}
  Targets = {1, 2, 16}
  HVals = {0, 1, 2, 4, 6, 8, 12, 20, 40, 420}
  HMod = 840
  MaxDuties = 5
  MaxSubs = 2
  SPE = 4
  Ep = 2
  MaxRefresh = 2
  MaxChanges = 2
  MaxHeld = 1
  SignerMayFail = TRUE
  MoveFan = 1
  ScenLen = 13
  SetupFan = 24
  SetupLen = 5
INVARIANTS Emit TypeOK AllFutureSubscribed AggregatorRuleExact SubscriptionHistoryIndependent InfoInForceComplete EveryAggregatorCommitteeScheduled
CHECK_DEADLOCK FALSE
