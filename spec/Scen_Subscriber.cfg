SPECIFICATION SSpec
CONSTANTS
  Validators = {1, 2, 3, 4}
  SlotSpace = {4, 5, 6}
  Nows = {3, 4, 5, 6}
  Committees = {0, 1}
  Sizes = {1, 4, 8, 12, 40}
  Targets = {1, 2, 16}
  HVals = {0, 1, 2, 4, 6, 8, 12, 20, 40, 420}
  HMod = 840
  MaxDuties = 5
  MaxSubs = 2
  ScenLen = 10
  SetupLen = 5
INVARIANTS Emit TypeOK AllFutureSubscribed AggregatorRuleExact EveryAggregatorCommitteeScheduled
CHECK_DEADLOCK FALSE
