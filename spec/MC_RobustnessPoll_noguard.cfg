SPECIFICATION PSpec
CONSTANTS
  Designs = {"noguard"}
  Styles = {"best", "deadline"}
  Scripts = "diagonal"
INVARIANTS PTypeOK KeepsRunning
CHECK_DEADLOCK FALSE
