---------------------------- MODULE Trace_Auction ----------------------------
(* Trace specification: a trace recorded from ONE real builder-bid strategy service under ONE   *)
(* real block relay service, over a whole history of auctions, is a behaviour of Auction.       *)
(*   Reset             a new instance (strategy + block relay service) has been created         *)
(*   Auction           AuctionBlock is called: auction i of the history starts (its key, its    *)
(*                     relay configurations, its builder catalogue); others may be in progress  *)
(*   Deliver           a relay fake handed its answer to auction i; `phs` = the clock phases    *)
(*                     compatible with the instant it did so (before / ambiguous / after each   *)
(*                     time-out, DESIGN 2.2: TLC chooses for ambiguous instants)                *)
(*   Return            AuctionBlock of auction i returned; `clks` = the clock phases compatible *)
(*                     with the instant; the logged Results must be the specification's state   *)
(*   Serve             BuilderBid(key) returned `bid`                                           *)
(*   Fetch             another user of the client cache (submission of validator registrations, *)
(*                     a direct fetch) obtained the client of address (r, sp)                   *)
(* Relays are identified by LOCATION in the logged Results (providers, all providers,           *)
(* participation): which spelling's client a design hands out is not the property's business,   *)
(* whether a bid was eligible under the key known for the relay as configured for the auction   *)
(* is - the specification computes that from the logged configuration (cfg[i][r].key / .sp).    *)
(* The lines of one auction form a block placed at the instant the auction returned (auctions   *)
(* that overlapped in real time - flag `overlapping` - appear one after the other; the Serve    *)
(* lines are where they happened relative to the returns): the auctions of the specification    *)
(* only interact through the cache, so steps of different auctions commute and every            *)
(* interleaving has the same per-auction projections as this one.  The trace specification      *)
(* itself accepts any interleaving.                                                             *)
(* Not logged (silent, the strategy's own steps): Tick, Consume, Drop; a silent step of auction *)
(* i is only taken in front of a line of auction i.                                             *)
EXTENDS Auction, TraceLib

VARIABLES l,     \* next trace line
          dl     \* trace only: delivery instant (ms) of the bids in chan, by <<auction, relay, round>>
tvars == <<vars, l, dl>>

K(s, p, v) == [s |-> s, p |-> p, v |-> v]
TraceKeys == {K(s, p, v) : s \in 1..3, p \in 1..3, v \in 1..3}

TraceFetchSet == Relays \X Spellings

Fresh(v) ==
    /\ variant' = v
    /\ clients' = [k \in ClientKeys |-> "unset"]
    /\ cl' = [i \in Auc |-> NoClients]
    /\ st' = [i \in Auc |-> "idle"]
    /\ cfg' = [i \in Auc |-> DummyCfg]
    /\ tab' = [i \in Auc |-> AnyTab]
    /\ key' = [i \in Auc |-> AnyKey]
    /\ clock' = [i \in Auc |-> 0]
    /\ rounds' = [i \in Auc |-> [r \in Relays |-> 0]]
    /\ chan' = [i \in Auc |-> {}]
    /\ winner' = [i \in Auc |-> NoWin]
    /\ providers' = [i \in Auc |-> {}]
    /\ part' = [i \in Auc |-> [r \in Relays |-> NoPart]]
    /\ cache' = [k \in Keys |-> Unset]
    /\ served' = NoReply
    /\ offers' = [i \in Auc |-> {}]
    /\ inel' = [i \in Auc |-> {}]
    /\ lost' = [i \in Auc |-> {}]
    /\ memo' = MemoInit

TraceInit ==
    /\ l = 1
    /\ variant = "best"
    /\ clients = [k \in ClientKeys |-> "unset"]
    /\ cl = [i \in Auc |-> NoClients]
    /\ st = [i \in Auc |-> "idle"]
    /\ cfg = [i \in Auc |-> DummyCfg]
    /\ tab = [i \in Auc |-> AnyTab]
    /\ key = [i \in Auc |-> AnyKey]
    /\ clock = [i \in Auc |-> 0]
    /\ rounds = [i \in Auc |-> [r \in Relays |-> 0]]
    /\ chan = [i \in Auc |-> {}]
    /\ winner = [i \in Auc |-> NoWin]
    /\ providers = [i \in Auc |-> {}]
    /\ part = [i \in Auc |-> [r \in Relays |-> NoPart]]
    /\ cache = [k \in Keys |-> Unset]
    /\ served = NoReply
    /\ offers = [i \in Auc |-> {}]
    /\ inel = [i \in Auc |-> {}]
    /\ lost = [i \in Auc |-> {}]
    /\ memo = MemoInit
    /\ dl = <<>>
    /\ InitHWM

IsEvent(e) == l <= TraceLen /\ Trace[l].ev = e /\ l' = l + 1

TraceReset ==
    /\ IsEvent("Reset")
    /\ Fresh(Trace[l].variant)
    /\ dl' = <<>>

TraceAuction ==
    /\ IsEvent("Auction")
    /\ Start(Trace[l].i, Trace[l].key, [r \in Relays |-> Trace[l].cfg[r]], Trace[l].tab)
    /\ UNCHANGED dl

\* The main loop is idle while it waits, so it takes a bid from the channel promptly: by the time a relay
\* delivers at instant d, every bid of that auction delivered (in time) before d - w has been processed.
\* w (`w_ms`, set by the driver: 50 ms, far above the scheduling lateness a judged run may have; unbounded
\* for a run that is widened because the machine stalled) only bounds the reorderings TLC has to consider.
TraceDeliver ==
    /\ IsEvent("Deliver")
    /\ LET i == Trace[l].i IN
         /\ i \in Auc
         /\ clock[i] \in SeqToSet(Trace[l].phs)
         /\ Trace[l].n = rounds[i][Trace[l].r] + 1
         /\ \A e \in chan[i] : e.ph < 2 => dl[<<i, e.r, e.n>>] + Trace[l].w_ms >= Trace[l].d_ms
         /\ Deliver(i, Trace[l].r, Trace[l].a)
         /\ dl' = (<<i, Trace[l].r, Trace[l].n>> :> Trace[l].d_ms) @@ dl

LoggedPart(line, r) ==
    LET ps == {p \in SeqToSet(line.part) : p.r = r}
    IN IF ps = {} THEN NoPart ELSE LET p == CHOOSE p \in ps : TRUE IN [n |-> p.n, score |-> p.score]

\* C09 AllProvidersListed: every configured relay is listed in Results.AllProviders
TraceReturn ==
    /\ IsEvent("Return")
    /\ UNCHANGED dl
    /\ LET i == Trace[l].i IN
         /\ i \in Auc
         /\ clock[i] \in SeqToSet(Trace[l].clks)
         /\ Return(i)
         /\ winner[i].r = Trace[l].win.r /\ winner[i].n = Trace[l].win.n /\ winner[i].score = Trace[l].win.score
         /\ providers[i] = SeqToSet(Trace[l].prov)
         /\ SeqToSet(Trace[l].allprov) = Relays
         /\ \A r \in Relays : part[i][r] = LoggedPart(Trace[l], r)

TraceServe ==
    /\ IsEvent("Serve")
    /\ UNCHANGED dl
    /\ Serve(Trace[l].key)
    /\ served'.bid = [i |-> Trace[l].bid.i, r |-> Trace[l].bid.r, n |-> Trace[l].bid.n]

\* a fetch of a client that exists changes nothing
TraceFetch ==
    /\ IsEvent("Fetch")
    /\ UNCHANGED dl
    /\ Trace[l].r \in Relays /\ Trace[l].sp \in Spellings
    /\ \/ Fetch(Trace[l].r, Trace[l].sp)
       \/ clients[CacheKey(Trace[l].r, Trace[l].sp)] # "unset" /\ UNCHANGED vars

TraceSilent ==
    /\ l > 1 /\ l <= TraceLen /\ Trace[l].ev \in {"Deliver", "Return"} /\ l' = l
    /\ UNCHANGED dl
    /\ LET i == Trace[l].i IN
         /\ i \in Auc
         /\ \/ Tick(i)
            \/ \E e \in chan[i] : Consume(i, e) \/ Drop(i, e)

TraceNext == TraceReset \/ TraceAuction \/ TraceDeliver \/ TraceReturn \/ TraceServe \/ TraceFetch \/ TraceSilent

TraceSpec == TraceInit /\ [][TraceNext]_tvars

HWM == UpdateHWM(l)
TraceAccepted == TraceAcceptedUpTo
=============================================================================
