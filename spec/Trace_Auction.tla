---------------------------- MODULE Trace_Auction ----------------------------
(* Trace specification: a trace recorded from the real builder-bid strategies (through the real *)
(* block relay service) is a behaviour of Auction.                                              *)
(*   Reset / Auction   AuctionBlock is called (first / further key of the scenario)             *)
(*   Deliver           a relay fake handed its answer to the strategy; `phs` = the clock phases *)
(*                     compatible with the instant it did so (before / ambiguous / after each   *)
(*                     time-out, DESIGN 2.2: TLC chooses for ambiguous instants)                *)
(*   Return            AuctionBlock returned; `clks` = the clock phases compatible with the     *)
(*                     instant; the logged Results must be the specification's state            *)
(*   Serve             BuilderBid(key) returned `bid`                                           *)
(* Not logged (silent, the strategy's own steps): Tick, Consume, Drop.                          *)
EXTENDS Auction, TraceLib

VARIABLES l,     \* next trace line
          dl     \* trace only: delivery instant (ms) of the bids in chan, by <<relay, round>>
tvars == <<vars, l, dl>>

TraceInit ==
    /\ l = 1
    /\ variant = "best"
    /\ cfg = [r \in Relays |-> [min |-> 0, key |-> "none", grace |-> 0]]
    /\ key = 1
    /\ clock = 0
    /\ rounds = [r \in Relays |-> 0]
    /\ chan = {}
    /\ winner = NoWin
    /\ providers = {}
    /\ part = [r \in Relays |-> NoPart]
    /\ returned = FALSE
    /\ cache = [k \in Keys |-> Unset]
    /\ served = NoReply
    /\ offers = {}
    /\ inel = {}
    /\ auctions = 1
    /\ dl = <<>>
    /\ InitHWM

IsEvent(e) == l <= TraceLen /\ Trace[l].ev = e /\ l' = l + 1
Silent == l > 1 /\ l <= TraceLen /\ Trace[l].ev # "Reset" /\ l' = l

TraceReset ==
    /\ IsEvent("Reset")
    /\ variant' = Trace[l].variant
    /\ cfg' = [r \in Relays |-> Trace[l].cfg[r]]
    /\ FreshAuction(Trace[l].key)
    /\ cache' = [k \in Keys |-> Unset]
    /\ served' = NoReply
    /\ auctions' = 1
    /\ dl' = <<>>

TraceAuction ==
    /\ IsEvent("Auction")
    /\ NewAuction(Trace[l].key)
    /\ dl' = <<>>

\* The main loop is idle while it waits, so it takes a bid from the channel promptly: by the time a relay
\* delivers at instant d, every bid delivered (in time) before d - w has been processed.  w (`w_ms`, set by
\* the driver: 50 ms, far above the scheduling lateness a judged run may have; unbounded for a run that
\* is widened because the machine stalled) only bounds the reorderings TLC has to consider.
TraceDeliver ==
    /\ IsEvent("Deliver")
    /\ clock \in SeqToSet(Trace[l].phs)
    /\ Trace[l].n = rounds[Trace[l].r] + 1
    /\ \A e \in chan : e.ph < 2 => dl[<<e.r, e.n>>] + Trace[l].w_ms >= Trace[l].d_ms
    /\ Deliver(Trace[l].r, Trace[l].a)
    /\ dl' = (<<Trace[l].r, Trace[l].n>> :> Trace[l].d_ms) @@ dl

LoggedPart(line, r) ==
    LET ps == {p \in SeqToSet(line.part) : p.r = r}
    IN IF ps = {} THEN NoPart ELSE LET p == CHOOSE p \in ps : TRUE IN [n |-> p.n, score |-> p.score]

\* C09 AllProvidersListed: every configured relay is listed in Results.AllProviders
TraceReturn ==
    /\ IsEvent("Return")
    /\ UNCHANGED dl
    /\ clock \in SeqToSet(Trace[l].clks)
    /\ Return
    /\ winner.r = Trace[l].win.r /\ winner.n = Trace[l].win.n /\ winner.score = Trace[l].win.score
    /\ providers = SeqToSet(Trace[l].prov)
    /\ SeqToSet(Trace[l].allprov) = Relays
    /\ \A r \in Relays : part[r] = LoggedPart(Trace[l], r)

TraceServe ==
    /\ IsEvent("Serve")
    /\ UNCHANGED dl
    /\ Serve(Trace[l].key)
    /\ served'.bid = [r |-> Trace[l].bid.r, n |-> Trace[l].bid.n, k |-> Trace[l].bid.k]

TraceSilent ==
    /\ Silent
    /\ UNCHANGED dl
    /\ \/ Tick
       \/ \E e \in chan : Consume(e) \/ Drop(e)

TraceNext == TraceReset \/ TraceAuction \/ TraceDeliver \/ TraceReturn \/ TraceServe \/ TraceSilent

TraceSpec == TraceInit /\ [][TraceNext]_tvars

HWM == UpdateHWM(l)
TraceAccepted == TraceAcceptedUpTo
=============================================================================
