SPECIFICATION Spec
CONSTANTS
  P = 2
  EP = 2
  G = 1
  MaxSlot = 7
  StartSlots = {0, 3}
  Mode = "clearall"
  RecMax = 2
  RecKeep = 1
  RootKeep = 2
  BidKeep = 2
  KRoots = 4
  KBids = 4
  Menu = {{}, {0}, {0, 1}}
  Moods = {"quiet", "plain", "reorg"}
  MaxReorgs = 2
  MsgLates = {0}
  AucLates = {0}
  SubLates = {0}
  AttLates = {0}
  MaxHeld = 1
  MaxPasses = 1
  MaxHeads = 1
  HoldKinds = {"refresh"}
  Fams = {"att"}
INVARIANTS PendingExactAtRest
CHECK_DEADLOCK FALSE
