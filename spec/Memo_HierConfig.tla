--------------------------- MODULE Memo_HierConfig ---------------------------
(* Control for the history part of HierConfig: a DESIGN with state carried from one lookup to the *)
(* next - for every path, the level at which its value was last found below the top level is      *)
(* remembered and re-used for as long as that level still has a value - is not a refinement of    *)
(* HierConfig.  In any single configuration looked at with fresh state it answers every lookup    *)
(* correctly (the first lookup of a path walks the levels), so MemoFreshOK holds; TLC must report *)
(* a violation of the history property ChangeRespected (a more specific level got a value after   *)
(* the path had been looked up) - checks/C19.py expects exactly that and treats anything else as  *)
(* a broken run.  This is the class of seeded/C19-memoised-resolution-level.                      *)
EXTENDS HierConfig

VARIABLE memo      \* path -> level remembered for it
mvars == <<vars, memo>>

MemoInit == Init /\ memo = NoTree

MemoLookup(p) ==
    /\ kind # "none"
    /\ LET hit == p \in DOMAIN memo /\ HasValue(tree, Prefix(p, memo[p]))
           lv == IF hit THEN memo[p] ELSE Level(tree, p)
           keep == {q \in DOMAIN memo : q # p}
       IN  /\ last' = [op |-> "lookup", path |-> p, level |-> lv,
                       value |-> IF lv = -1 THEN dflt ELSE tree[Prefix(p, lv)]]
           /\ memo' = [q \in keep \cup (IF lv > 0 THEN {p} ELSE {}) |-> IF q = p THEN lv ELSE memo[q]]
    /\ UNCHANGED <<kind, tree, dflt>>

MemoNext ==
    \/ kind = "none" /\ UNCHANGED memo /\ \E k \in ModelKinds, t \in Trees : Configure(k, t, Default)
    \/ \E p \in Paths : MemoLookup(p)
    \/ UNCHANGED memo /\ \E q \in Nodes, v \in Settings \ {"absent"} :
            (IF q \in DOMAIN tree THEN tree[q] # v ELSE TRUE) /\ SetAt(q, v)
    \/ UNCHANGED memo /\ \E q \in DOMAIN tree : Unset(q)
    \/ UNCHANGED memo /\ \E t \in Replacements(tree) : Reconfigure(t, Default)

MemoSpec == MemoInit /\ [][MemoNext]_mvars

\* with nothing remembered the memoising design is right: it cannot be told apart by any single fresh tree
MemoFreshOK == (IsLookup /\ memo = NoTree) => last.value = Resolve(tree, last.path, dflt)

MemoChangeRespected == [][ChangeRespectedStep]_mvars
=============================================================================
