SPECIFICATION SSpec
CONSTANTS
  EPs = {"execv2", "execv1", "execmutate", "execdoc", "execservice", "graffiti", "builderbid", "proposalbest", "proposer", "attester", "aggregator", "syncmessenger", "syncaggregator", "mergeduties", "cacheevents", "submitclassify"}
INVARIANTS Emit TypeOK
CHECK_DEADLOCK FALSE
