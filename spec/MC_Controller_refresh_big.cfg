SPECIFICATION Spec
CONSTANTS
  MaxSlot = 5
  MaxVer = 1
  MaxReorgs = 2
  MaxCrashes = 0
  Gates = {}
  Interleave = TRUE
  Cfgs <- MCCfgs
  OraclesFor <- MCOraclesAB
  MaxAccts = 0
  AnswersFor <- AllAnswers
  Deviation = {}
INVARIANTS TypeOK JobTimeRight JobCoversExactly NoSlotTwice OneJobPerDutySlot OnlyStrictlyLaterOnStart SyncWindowRight EpochTickOnce NoFutureDutyUnscheduled NoStaleJob ReorgActedOn RefreshCompletes
CHECK_DEADLOCK FALSE
