SPECIFICATION SSpec
CONSTANTS
  Pairs = TRUE
  SampleOneIn = 25
  Wide = TRUE
INVARIANTS Emit
CHECK_DEADLOCK FALSE
