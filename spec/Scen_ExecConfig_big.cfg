SPECIFICATION SSpec
CONSTANTS
  Pairs = TRUE
  Wide = TRUE
INVARIANTS Emit
CHECK_DEADLOCK FALSE
