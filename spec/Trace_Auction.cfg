SPECIFICATION TraceSpec
CONSTANTS
  Variants = {"best", "deadline"}
  Relays = {1, 2, 3}
  FetchSet <- TraceFetchSet
  Values = {0}
  CfgSet = {}
  TableSet = {"A", "B"}
  BuilderSet = {"std"}
  AnswerSet = {}
  Headers = {1}
  MaxRounds = 12
  Keys <- TraceKeys
  MaxAuctions = 4
  MaxOpen = 4
  Deviation = "none"
INVARIANTS TypeOK WinnerIsArgmax OnlyEligibleWin ProvidersOfferedWinner NoWinnerIffNone ParticipationSound ArrivedConsidered CacheRight ServedRight HistoryShape
CONSTRAINT HWM
POSTCONDITION TraceAccepted
CHECK_DEADLOCK FALSE
