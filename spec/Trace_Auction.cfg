SPECIFICATION TraceSpec
CONSTANTS
  Variants = {"best", "deadline"}
  Relays = {1, 2, 3}
  Values = {0}
  CfgSet = {}
  BuilderSet = {"std"}
  AnswerSet = {}
  Headers = {1}
  MaxRounds = 8
  Keys = {1, 2}
  MaxAuctions = 4
INVARIANTS TypeOK WinnerIsArgmax OnlyEligibleWin ProvidersOfferedWinner NoWinnerIffNone ParticipationSound ArrivedConsidered CacheRight ServedRight
CONSTRAINT HWM
POSTCONDITION TraceAccepted
CHECK_DEADLOCK FALSE
