SPECIFICATION TraceSpec
CONSTANTS
  MaxN = 4
  Variants = {"Best", "Majority", "RootMajority", "First"}
  Values = {1, 2}
  Scores = {0}
  FirstCap = 1
INVARIANTS ReturnsByHard BestIsMax MajorityRule FirstIsSome ErrorIffNothing InvalidNeverReturned
CONSTRAINT HWM
POSTCONDITION TraceAccepted
CHECK_DEADLOCK FALSE
