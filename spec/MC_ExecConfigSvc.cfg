SPECIFICATION Spec
CONSTANTS
  Calls = {1, 2}
  DocIds = {1, 2}
  FailKinds = {"error"}
  MaxFetches = 2
  MaxOpen = 2
  Overlap = TRUE
  Design = "resolve"
INVARIANTS TypeOK UsesInForce SequentialRight
CONSTRAINT FetchBound
CHECK_DEADLOCK FALSE
