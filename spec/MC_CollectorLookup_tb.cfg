SPECIFICATION LSpec
CONSTANTS
  MaxN = 2
  Variants = {"Majority", "RootMajority"}
  Values = {1, 2}
  Scores = {0}
  FirstCap = 0
  Roots = {1, 2}
  Dev = "UnboundedTiebreak"
  Tolerant = FALSE
INVARIANTS LTypeOK NotOverdue
CHECK_DEADLOCK FALSE
